"""Shared machinery of /verif/bin/check.

Every property check is a Python module checks/Cxx.py exposing run(ctx) -> None which
calls the helpers below and finishes with ctx.finish().  Nothing here is property specific.

Verdict rules (DESIGN.md section 2):
  * proofs compiled, model == implementation on all generated histories, no monitor alarm
        -> exit 0
  * a monitor found a concrete failing input on the real code
        -> VIOLATION property=<id> replay=<file>          (exit 1)
        unless /verif/known_findings.json lists exactly that finding -> KNOWN-FINDING, exit 0
  * a proof obligation or the correspondence no longer checks and no monitor fired
        -> VIOLATION property=<id> replay=<file> no-failing-input-found   (exit 1)
"""
import fcntl
import glob
import hashlib
import json
import os
import re
import subprocess
import sys
import time

VERIF = os.path.dirname(os.path.dirname(os.path.abspath(__file__)))
REPO = os.environ.get("VERIF_REPO", "/repo")
WORK = os.path.join(VERIF, ".work")
GO = "go1.26.8"
GOENV = {
    "GOFLAGS": "-mod=mod",
    "GOPROXY": "off",
    "GOSUMDB": "off",
    "GOTOOLCHAIN": "local",
}
NCPU = os.cpu_count() or 4


def log(*a):
    print(*a, flush=True)


def sh(cmd, cwd=None, env=None, timeout=1200, stdin=None):
    """Run a command; returns (rc, combined output). rc 124 on timeout."""
    e = dict(os.environ)
    if env:
        e.update(env)
    try:
        p = subprocess.run(cmd, cwd=cwd, env=e, shell=isinstance(cmd, str), input=stdin,
                           stdout=subprocess.PIPE, stderr=subprocess.STDOUT, timeout=timeout,
                           text=True, errors="replace")
        return p.returncode, p.stdout
    except subprocess.TimeoutExpired as ex:
        out = ex.stdout or ""
        if isinstance(out, bytes):
            out = out.decode("utf-8", "replace")
        return 124, out + "\n[timeout after %ss]" % timeout


class Lock:
    def __init__(self, name):
        os.makedirs(os.path.join(WORK, "locks"), exist_ok=True)
        self.path = os.path.join(WORK, "locks", name + ".lock")

    def __enter__(self):
        self.f = open(self.path, "w")
        fcntl.flock(self.f, fcntl.LOCK_EX)
        return self

    def __exit__(self, *a):
        fcntl.flock(self.f, fcntl.LOCK_UN)
        self.f.close()


def sha(path):
    h = hashlib.sha256()
    with open(path, "rb") as f:
        h.update(f.read())
    return h.hexdigest()[:16]


# --------------------------------------------------------------------------- tools

def build_translator(name="consts"):
    """(Re)build the translator program /verif/extract/<name>/ (own Go module, stdlib only)."""
    out = os.path.join(WORK, "bin", "verif-extract-" + name)
    os.makedirs(os.path.dirname(out), exist_ok=True)
    with Lock("translator-" + name):
        srcs = glob.glob(os.path.join(VERIF, "extract", name, "*.go"))
        if os.path.exists(out) and all(os.path.getmtime(s) <= os.path.getmtime(out) for s in srcs):
            return True, ""
        rc, o = sh([GO, "build", "-o", out, "."], cwd=os.path.join(VERIF, "extract", name), env=GOENV, timeout=600)
        return rc == 0, o


def translate(name, *args):
    """Run translator program <name> with args against /repo's working tree."""
    ok, o = build_translator(name)
    if not ok:
        return False, "translator build failed:\n" + o
    rc, o = sh([os.path.join(WORK, "bin", "verif-extract-" + name)] + list(args), timeout=300)
    return rc == 0, o


def gen_base():
    """Regenerate coq/base/Consts.v from /repo (written only when its content changes)."""
    with Lock("gen"):
        return translate("consts", "consts", REPO, os.path.join(VERIF, "coq", "base", "Consts.v"))


# --------------------------------------------------------------------------- Coq

FORBIDDEN = re.compile(
    r"\b(Admitted|admit|give_up|Axiom|Axioms|Parameter|Parameters|Conjecture|Conjectures)\b|Unset\s+Guard|bypass_check|"
    r"Admit\s+Obligations|type-in-type|impredicative-set|Unset\s+Universe\s+Checking|Unset\s+Positivity")


def strip_comments(src):
    out, depth, i = [], 0, 0
    while i < len(src):
        if src.startswith("(*", i):
            depth += 1
            i += 2
        elif src.startswith("*)", i) and depth > 0:
            depth -= 1
            i += 2
        else:
            if depth == 0:
                out.append(src[i])
            i += 1
    return "".join(out)


def grep_gate(engine):
    """No Admitted/admit/Axiom/Parameter/... and no Variable/Hypothesis outside a Section."""
    bad = []
    for f in sorted(glob.glob(os.path.join(VERIF, "coq", engine, "*.v"))):
        src = strip_comments(open(f).read())
        depth = 0
        for n, line in enumerate(src.split("\n"), 1):
            if FORBIDDEN.search(line):
                bad.append("%s:%d: %s" % (f, n, line.strip()))
            if re.match(r"\s*Section\b", line):
                depth += 1
            if re.match(r"\s*End\b", line) and depth > 0:
                depth -= 1
            if depth == 0 and re.match(r"\s*(Variable|Variables|Hypothesis|Hypotheses|Context)\b", line):
                bad.append("%s:%d: %s (outside a Section)" % (f, n, line.strip()))
    return bad


def coq_project_files(engine):
    d = os.path.join(VERIF, "coq", engine)
    lst = os.path.join(d, "FILES")
    files = [l.strip() for l in open(lst) if l.strip() and not l.startswith("#")]
    return d, files


def coq_flags(engine):
    """-Q flags: base is visible to every engine; an engine may list further deps in DEPS."""
    d = os.path.join(VERIF, "coq", engine)
    flags = ["-Q", os.path.join(VERIF, "coq", "base"), "KV.Base"]
    deps = os.path.join(d, "DEPS")
    if os.path.exists(deps):
        for dep in open(deps).read().split():
            flags += ["-Q", os.path.join(VERIF, "coq", dep), "KV." + dep.capitalize()]
    if engine != "base":
        flags += ["-Q", d, "KV." + engine.capitalize()]
    return flags


def coq_build(engine, clean=False, timeout=3000):
    """Full .vo build of one engine directory (model + proofs + extraction, not the Cxx.v
    statement files, which each check compiles itself to capture Print Assumptions).
    Returns (ok, log)."""
    if engine != "base":
        ok, o = coq_build("base", clean=False)
        if not ok:
            return ok, o
        deps = os.path.join(VERIF, "coq", engine, "DEPS")
        if os.path.exists(deps):
            for dep in open(deps).read().split():
                ok, o = coq_build(dep)
                if not ok:
                    return ok, o
    d, files = coq_project_files(engine)
    with Lock("coq-" + engine):
        proj = os.path.join(d, "_CoqProject")
        flags = coq_flags(engine)
        content = " ".join(flags[i] + " " + flags[i + 1] + " " + flags[i + 2] for i in range(0, len(flags), 3)) + "\n" + "\n".join(files) + "\n"
        if not os.path.exists(proj) or open(proj).read() != content:
            open(proj, "w").write(content)
        mk = os.path.join(d, "Makefile.coq")
        if not os.path.exists(mk) or os.path.getmtime(mk) < os.path.getmtime(proj):
            rc, o = sh(["coq_makefile", "-f", "_CoqProject", "-o", "Makefile.coq"], cwd=d)
            if rc != 0:
                return False, o
        if clean:
            sh(["make", "-f", "Makefile.coq", "clean"], cwd=d)
        rc, o = sh(["make", "-f", "Makefile.coq", "-j%d" % NCPU, "-k"], cwd=d, timeout=timeout)
        return rc == 0, o


def coq_props(engine, vfile, timeout=900):
    """Compile a statement file coq/<engine>/<vfile> and return
    (ok, {theorem: assumptions-text}, raw output).  The file must consist of Theorem /
    exact / Qed / Print Assumptions groups; every `Print Assumptions t.` yields one entry."""
    d = os.path.join(VERIF, "coq", engine)
    with Lock("coq-" + engine):
        rc, o = sh(["coqc"] + coq_flags(engine) + [vfile], cwd=d, timeout=timeout)
    src = strip_comments(open(os.path.join(d, vfile)).read())
    wanted = re.findall(r"Print\s+Assumptions\s+([A-Za-z0-9_']+)\s*\.", src)
    thms = {}
    if rc == 0:
        # coqc prints, per Print Assumptions, either "Closed under the global context" or "Axioms:\n..."
        chunks = re.split(r"(?m)^(?=Closed under the global context|Axioms:|Section Variables:)", o)
        chunks = [c.strip() for c in chunks if c.strip().startswith(("Closed", "Axioms", "Section"))]
        for i, name in enumerate(wanted):
            thms[name] = chunks[i] if i < len(chunks) else "?"
    return rc == 0, thms, o


def coqchk(engine, modules, timeout=6000):
    """Independent re-check (thorough tier).  Returns (accepted, output); accepted is None when coqchk
    did not finish within the allowance - that is not a rejection (coqc's kernel has accepted the files)."""
    d = os.path.join(VERIF, "coq", engine)
    with Lock("coqchk"):
        rc, o = sh(["coqchk", "-silent", "-o"] + coq_flags(engine) + modules, cwd=d, timeout=timeout)
    if rc == 124:
        return None, o
    return rc == 0, o


def ocaml_build(engine, extracted, driver, exe):
    """Compile extracted OCaml (coq/<engine>/<extracted>.ml[i]) with ml/<driver>.ml."""
    d = os.path.join(VERIF, "coq", engine)
    bdir = os.path.join(WORK, "ml", engine)
    os.makedirs(bdir, exist_ok=True)
    out = os.path.join(WORK, "bin", exe)
    with Lock("ml-" + engine):
        srcs = []
        for e in extracted:
            for ext in (".mli", ".ml"):
                p = os.path.join(d, e + ext)
                if not os.path.exists(p):
                    return False, "extracted file missing: " + p
                srcs.append(p)
        drv = os.path.join(VERIF, "ml", driver + ".ml")
        srcs.append(drv)
        if os.path.exists(out) and all(os.path.getmtime(s) <= os.path.getmtime(out) for s in srcs):
            return True, ""
        for s in srcs:
            sh(["cp", s, bdir])
        names = [os.path.basename(s) for s in srcs]
        rc, o = sh(["ocamlfind", "ocamlopt", "-O2" if False else "-unsafe", "-inline", "100", "-w", "-a", "-package", "str", "-linkpkg", "-o", out] + names, cwd=bdir, timeout=900)
        return rc == 0, o


# --------------------------------------------------------------------------- Go harness

def overlay_file(files=None):
    """Overlay: add harness files to package kcp, drop the repository's own *_test.go.
    `files`: basenames under harness/ (common_test.go is always included); None = all."""
    repl = {}
    allf = sorted(glob.glob(os.path.join(VERIF, "harness", "*.go")))
    if files is not None:
        want = set(files) | {"common_test.go"}
        allf = [f for f in allf if os.path.basename(f) in want]
        missing = want - {os.path.basename(f) for f in allf}
        if missing:
            raise RuntimeError("harness files missing: %s" % sorted(missing))
    for f in allf:
        repl[os.path.join(REPO, "zz_verif_" + os.path.basename(f))] = f
    for f in glob.glob(os.path.join(REPO, "*_test.go")):
        repl[f] = ""
    os.makedirs(WORK, exist_ok=True)
    content = json.dumps({"Replace": repl}, indent=1, sort_keys=True)
    p = os.path.join(WORK, "overlay-%s.json" % hashlib.sha256(content.encode()).hexdigest()[:12])
    with Lock("overlay"):
        if not os.path.exists(p) or open(p).read() != content:
            open(p, "w").write(content)
    return p


def go_harness(run_regex, env=None, timeout=1500, race=False, extra=None, files=None):
    """Run overlay-injected tests of package kcp built from /repo's working tree."""
    e = dict(GOENV)
    e.update(env or {})
    if (e.get("VERIF_TIER") or os.environ.get("VERIF_TIER") or "quick") != "thorough":
        # a quick harness run takes 10-90 s; one that hangs (a change that dead-locks the library or the
        # harness) must be reported within minutes, not after the thorough tier's allowance
        timeout = min(timeout, 600)
    cmd = [GO, "test", "-tags", "verif", "-overlay", overlay_file(files), "-vet=off", "-count=1",
           "-timeout", "%ds" % timeout, "-run", run_regex]
    if race:
        cmd.append("-race")
    covdir = os.environ.get("VERIF_COVERDIR")
    if covdir:
        # development aid (bin/covreport): statement coverage of the implementation by the harness
        os.makedirs(covdir, exist_ok=True)
        tag = hashlib.sha256((run_regex + repr(sorted((env or {}).items())) + str(time.time())).encode()).hexdigest()[:10]
        cmd += ["-covermode=atomic" if race else "-covermode=set", "-coverprofile=" + os.path.join(covdir, tag + ".out")]
    cmd += (extra or []) + ["."]
    return sh(cmd, cwd=REPO, env=e, timeout=timeout + 60)


# --------------------------------------------------------------------------- context

class Ctx:
    def __init__(self, prop, tier, seed, replay=None):
        self.prop, self.tier, self.seed, self.replay = prop, tier, seed, replay
        self.t0 = time.time()
        self.dir = os.path.join(WORK, prop)
        os.makedirs(self.dir, exist_ok=True)
        # two runs of the same check share .work/<prop> and the evidence file: serialise them
        os.makedirs(os.path.join(WORK, "locks"), exist_ok=True)
        self._runlock = open(os.path.join(WORK, "locks", "check-%s.lock" % prop), "w")
        fcntl.flock(self._runlock, fcntl.LOCK_EX)
        self.coverage = {}
        self.assumptions = []
        self.violations = []      # dicts: key, what, replay (dict written to file)
        self.broken = []          # obligations / correspondences that no longer check
        self.known = load_known().get(prop, [])
        self.level = "proof"
        self.notes = []

    # -- bookkeeping
    def quick(self):
        return self.tier == "quick"

    def violation(self, key, what, replay):
        """A concrete failing input on the real code (replay: JSON-serialisable)."""
        self.violations.append({"key": key, "what": what, "replay": replay})

    def broke(self, what, detail=""):
        """A proof obligation / correspondence that no longer checks."""
        self.broken.append({"what": what, "detail": detail[-4000:]})

    def env(self, **kw):
        e = {"VERIF_SEED": str(self.seed), "VERIF_TIER": self.tier, "VERIF_OUT": self.dir,
             "VERIF_DIR": VERIF}
        e.update({k: str(v) for k, v in kw.items()})
        return e

    def finish(self):
        """Write evidence, print verdict lines, exit."""
        os.makedirs(os.path.join(VERIF, "evidence"), exist_ok=True)
        os.makedirs(os.path.join(VERIF, "replays"), exist_ok=True)
        new, known_hits = [], []
        for v in self.violations:
            k = [kf for kf in self.known if kf["key"] == v["key"]]
            (known_hits if k else new).append(v)
        lines, rc = [], 0
        seen = set()
        for v in known_hits:
            if v["key"] in seen:
                continue
            seen.add(v["key"])
            lines.append("KNOWN-FINDING: property=%s %s [%s]" % (self.prop, v["what"], v["key"]))
        seen = set()
        for v in new:
            if v["key"] in seen:
                continue
            seen.add(v["key"])
            h = hashlib.sha256(json.dumps(v, sort_keys=True).encode()).hexdigest()[:10]
            path = os.path.join(VERIF, "replays", "%s-%s.json" % (self.prop, h))
            json.dump({"property": self.prop, "key": v["key"], "what": v["what"], "seed": self.seed,
                       "tier": self.tier, "replay": v["replay"],
                       "how": "bin/check %s --replay %s" % (self.prop, path)}, open(path, "w"), indent=1)
            lines.append("VIOLATION property=%s replay=%s" % (self.prop, path))
            rc = 1
        if self.broken and not new:
            h = hashlib.sha256(json.dumps(self.broken, sort_keys=True).encode()).hexdigest()[:10]
            path = os.path.join(VERIF, "replays", "%s-broken-%s.json" % (self.prop, h))
            json.dump({"property": self.prop, "no_longer_checks": self.broken, "seed": self.seed,
                       "tier": self.tier,
                       "note": "a proof obligation or the model/implementation correspondence no longer "
                               "checks; the search over the implementation found no input on which the "
                               "property itself fails"}, open(path, "w"), indent=1)
            lines.append("VIOLATION property=%s replay=%s no-failing-input-found" % (self.prop, path))
            rc = 1
        cov = dict(self.coverage)
        cov.setdefault("known_findings_reported", sorted({v["key"] for v in known_hits}))
        cov.setdefault("broken", [b["what"] for b in self.broken])
        if self.notes:
            cov.setdefault("notes", self.notes)
        levels = ("exploration", "fault_enumeration", "model_checking", "proof", "translation_validation", "other")
        if self.level not in levels:
            cov.setdefault("level_detail", str(self.level))
            self.level = "proof"
        ev = {"property_id": self.prop, "tier": self.tier, "seed": self.seed, "level": self.level,
              "coverage": cov, "assumptions": self.assumptions,
              "wall_s": round(time.time() - self.t0, 2), "violations": len({v["key"] for v in new}) + (1 if self.broken and not new else 0)}
        json.dump(ev, open(os.path.join(VERIF, "evidence", self.prop + ".json"), "w"), indent=1, sort_keys=True)
        for l in lines:
            log(l)
        log("%s %s tier=%s seed=%d wall=%.1fs" % (self.prop, "FAIL" if rc else "ok", self.tier, self.seed, time.time() - self.t0))
        sys.exit(rc)

    # -- the common proof step
    def prove(self, engine, vfile, obligations, partial=(), refuted=()):
        """Regenerate base, build the engine, compile the statement file, fill the proof keys of
        the evidence.  `obligations`: theorem names that must be present in the statement file."""
        ok, o = gen_base()
        if not ok:
            self.broke("translator: constants could not be regenerated from the source", o)
        bad = grep_gate(engine) + grep_gate("base")
        if bad:
            self.broke("grep gate: forbidden vernacular in the development", "\n".join(bad))
        ok, o = coq_build(engine, clean=not self.quick() and os.environ.get("VERIF_NOCLEAN") is None)
        if not ok:
            self.broke("coq build of engine '%s' failed" % engine, tail_err(o))
        okp, thms, o = coq_props(engine, vfile)
        if not okp:
            self.broke("statement file %s/%s no longer compiles" % (engine, vfile), tail_err(o))
        missing = [t for t in obligations if t not in thms]
        if okp and missing:
            self.broke("obligations missing from %s: %s" % (vfile, ", ".join(missing)))
        axioms = sorted({a for t in thms.values() for a in t.split("\n")[1:] if t.startswith("Axioms")})
        tb = ["Coq 8.16.1 kernel (coqc, vm_compute; no native_compute)",
              "verif-extract (Go AST -> Consts.v) regenerated this run: sha " + sha(os.path.join(VERIF, "coq", "base", "Consts.v"))]
        tb += ["Print Assumptions %s: %s" % (t, " ".join(thms[t].split())) for t in obligations if t in thms]
        self.coverage.update({
            "obligations": len(obligations),
            "discharged": len([t for t in obligations if t in thms]),
            "checker_cmd": "make -C coq/%s -f Makefile.coq && coqc coq/%s/%s" % (engine, engine, vfile),
            "trusted_base": tb,
            "theorems": {t: ("partial" if t in partial else "refuted-witness" if t in refuted else "proved") if t in thms else "NOT CHECKED" for t in obligations},
            "axioms": axioms,
        })
        if not self.quick() and okp and os.environ.get("VERIF_NOCOQCHK") is None:
            # independent re-check of the compiled statement file and everything it depends on
            mod = "KV.%s.%s" % (engine.capitalize(), os.path.splitext(vfile)[0])
            t1 = time.time()
            okc, oc = coqchk(engine, [mod])
            ax = [l.strip() for l in oc.split("\n") if l.strip()]
            self.coverage.setdefault("coqchk", {})[mod] = {"ok": okc, "wall_s": round(time.time() - t1, 1),
                                                        "output_tail": ax[-12:]}
            if okc is None:
                self.notes.append("coqchk did not finish re-checking %s within its allowance on this machine "
                                  "(no verdict from the independent checker; coqc's kernel accepted every file)" % mod)
            elif not okc:
                self.broke("coqchk rejected %s" % mod, oc[-3000:])
        return okp and not missing


def tail_err(o, n=60):
    lines = o.strip().split("\n")
    idx = [i for i, l in enumerate(lines) if "Error" in l]
    if idx:
        s = max(0, idx[0] - 8)
        return "\n".join(lines[s:s + n])
    return "\n".join(lines[-n:])


def load_known():
    p = os.path.join(VERIF, "known_findings.json")
    if not os.path.exists(p):
        return {}
    out = {}
    for f in json.load(open(p)).get("findings", []):
        out.setdefault(f["property"], []).append(f)
    return out


def parse_kv(text, prefix):
    """Lines 'PREFIX k=v k=v' -> list of dicts."""
    res = []
    for l in text.split("\n"):
        if l.startswith(prefix + " "):
            d = {}
            for tok in l[len(prefix) + 1:].split():
                if "=" in tok:
                    k, v = tok.split("=", 1)
                    d[k] = v
            res.append(d)
    return res


# --------------------------------------------------------------------------- common flow

def harness_report(ctx, test_regex, report_name, env=None, timeout=1500, race=False, files=None, extra=None):
    """Run a harness test on the real code; collect its report (monitor violations included)."""
    e = ctx.env()
    e.update(env or {})
    rp = os.path.join(e["VERIF_OUT"], report_name)
    if os.path.exists(rp):
        os.remove(rp)
    rc, o = go_harness(test_regex, env=e, timeout=timeout, race=race, files=files, extra=extra)
    rep = None
    if os.path.exists(rp):
        try:
            rep = json.load(open(rp))
        except Exception:
            rep = None
    if rc != 0 or rep is None:
        pn = library_panic(o)
        if pn:
            # the process died in the library's own code (a goroutine of its own, or a call the harness
            # could not guard): the run itself - test, seed, tier - is the failing input
            ctx.violation("process-panic:" + pn[0], "the process died in %s while the harness %s was running: %s" % (pn[0], test_regex, pn[1]),
                          {"test": test_regex, "seed": ctx.seed, "tier": ctx.tier, "env": {k: v for k, v in (env or {}).items()}, "stack": pn[2]})
        ctx.broke("harness %s did not complete on the current tree (build error, panic or timeout)" % test_regex, tail_err(o, 80))
        return rep, o
    for v in rep.get("violations") or []:
        ctx.violation(v["key"], v["what"], v["replay"])
    return rep, o


def library_panic(o):
    """(function, message, stack excerpt) when the test process died of a Go panic / fatal error whose
    first frame outside the runtime lies in the library's own source (not in an injected harness file)."""
    m = re.search(r"(?m)^(panic: .*|fatal error: .*)$", o)
    if not m:
        return None
    rest = o[m.start():]
    frames = re.findall(r"(?m)^([\w./*()\[\]·-]+)\(.*\)\n\t(/[^\s:]+):(\d+)", rest)
    for fn, path, line in frames:
        base = os.path.basename(path)
        if "/src/runtime/" in path or "/src/testing/" in path or "/src/sync/" in path or "/src/internal/" in path:
            continue
        if base.startswith("zz_verif_") or base.endswith("_test.go"):
            return None  # the harness's own frame comes first: a guarded call would have been a finding already
        if path.startswith(REPO + "/") or "/kcp-go" in path:
            return (fn.split("/")[-1], m.group(1)[:200], rest[:1500])
        return None
    return None


def driver_compare(ctx, engine, extracted, driver, log_name, what, extra_args=None, timeout=1500):
    """Replay an op log in the extracted model; a mismatch = the correspondence no longer checks."""
    ok, o = ocaml_build(engine, extracted, driver, driver)
    if not ok:
        ctx.broke("extracted model / driver of engine '%s' does not build" % engine, tail_err(o))
        return None
    rc, o = sh([os.path.join(WORK, "bin", driver), os.path.join(ctx.dir, log_name)] + (extra_args or []), timeout=timeout)
    summ = parse_kv(o, "SUMMARY")
    if rc != 0 or not summ:
        ctx.broke("model driver failed on the op log (%s)" % what, o[-3000:])
        return None
    s = {k: int(v) if re.fullmatch(r"-?\d+", v) else v for k, v in summ[-1].items()}
    if s.get("mismatches", 0) > 0:
        mm = [l for l in o.split("\n") if l.startswith("MISMATCH")][:10]
        ctx.broke("correspondence: %s — the extracted Coq model and the implementation differ on %d of %d cases"
                  % (what, s["mismatches"], s.get("cases", 0)), "\n".join(mm))
    s["_raw_mismatches"] = [l for l in o.split("\n") if l.startswith("MISMATCH")][:10]
    return s


def merge_report(ctx, rep, summ=None):
    if rep:
        c = ctx.coverage
        c["evaluations"] = c.get("evaluations", 0) + rep.get("cases", 0)
        c["distinct_nontrivial"] = c.get("distinct_nontrivial", 0) + rep.get("nontrivial", 0)
        c.setdefault("input_distribution", {}).update(rep.get("distribution") or {})
        c.setdefault("monitors", {}).update(rep.get("monitors") or {})
        c.setdefault("samples", [])
        c["samples"] += (rep.get("samples") or [])[:3]
        if rep.get("extra"):
            c.setdefault("extra", {}).update(rep["extra"])
    if summ:
        ctx.coverage["traces_validated_against_impl"] = ctx.coverage.get("traces_validated_against_impl", 0) + summ.get("cases", 0)
        ctx.coverage.setdefault("model_replay", []).append({k: v for k, v in summ.items() if not k.startswith("_")})
