// verif-extract-sched: reads <repo>/timedsched.go (current working tree) and emits the
// statement skeleton of every declaration in it as a Coq term (coq/sched/GenSched.v) over the IR
// of coq/sched/IR.v.  Standard library only.
//
//	usage: verif-extract-sched <repo> <out.v>
//
// What is emitted: imports, the three type declarations (field by field), the package variable,
// and for every function its body as a tree of
//
//	Do leaf | If leaf [..] [..] | For (option leaf) [..] | Range leaf [..]
//	| Select [(option leaf, [..]); ..] | Go leaf | Defer leaf | Break | Return (option leaf)
//
// Every leaf (simple statement, condition, range header, channel operation of a select case,
// call of go/defer, returned expression, struct field, import path) is printed back to source
// text and looked up in the dictionary below; a leaf that is not in the dictionary, a
// statement form that is not listed above (switch, goto, labels, continue, if/for with init
// statements, nested blocks ...), an unexpected or missing function: exit status 1, nothing
// written.
//
// What is normalised (so that it does NOT change the term): comments, white space, and the
// names of receivers, parameters and local variables - the k-th variable declared in a
// function (in source order; receiver and parameters first) is renamed to the k-th name of
// that function's reference list before leaves are printed.  Field names, method names,
// package names and the order of statements are NOT normalised: changing them changes the
// term or aborts.
package main

import (
	"bytes"
	"fmt"
	"go/ast"
	"go/parser"
	"go/printer"
	"go/token"
	"os"
	"path/filepath"
	"sort"
	"strings"
)

// reference names of receiver, parameters and locals per function, in declaration order
var refNames = map[string][]string{
	"timedFuncHeap.Len":   {"h"},
	"timedFuncHeap.Less":  {"h", "i", "j"},
	"timedFuncHeap.Swap":  {"h", "i", "j"},
	"*timedFuncHeap.Push": {"h", "x"},
	"*timedFuncHeap.Pop":  {"h", "old", "n", "x"},
	"NewTimedSched":       {"parallel", "ts"},
	"*TimedSched.sched":   {"ts", "timer", "tasks", "drained", "task", "now", "stopped", "now"},
	"*TimedSched.prepend": {"ts", "tasks", "k"},
	"*TimedSched.Put":     {"ts", "f", "deadline"},
	"*TimedSched.Close":   {"ts"},
}

// function name -> Coq constructor
var funcAtoms = map[string]string{
	"timedFuncHeap.Len":   "F_heap_Len",
	"timedFuncHeap.Less":  "F_heap_Less",
	"timedFuncHeap.Swap":  "F_heap_Swap",
	"*timedFuncHeap.Push": "F_heap_Push",
	"*timedFuncHeap.Pop":  "F_heap_Pop",
	"NewTimedSched":       "F_NewTimedSched",
	"*TimedSched.sched":   "F_sched",
	"*TimedSched.prepend": "F_prepend",
	"*TimedSched.Put":     "F_Put",
	"*TimedSched.Close":   "F_Close",
}

// the dictionary: printed source text of a leaf -> Coq constructor of IR.atom
var dict = map[string]string{
	// imports
	`"container/heap"`: "I_container_heap",
	`"runtime"`:        "I_runtime",
	`"sync"`:           "I_sync",
	`"time"`:           "I_time",
	// types
	"timedFunc":                     "T_timedFunc",
	"execute func()":                "Fld_execute",
	"ts time.Time":                  "Fld_ts",
	"timedFuncHeap":                 "T_timedFuncHeap",
	"[]timedFunc":                   "Ty_slice_timedFunc",
	"TimedSched":                    "T_TimedSched",
	"prependTasks []timedFunc":      "Fld_prependTasks",
	"prependLock sync.Mutex":        "Fld_prependLock",
	"chPrependNotify chan struct{}": "Fld_chPrependNotify",
	"chTask chan timedFunc":         "Fld_chTask",
	"dieOnce sync.Once":             "Fld_dieOnce",
	"die chan struct{}":             "Fld_die",
	// package variable
	"SystemTimedSched *TimedSched = NewTimedSched(max(runtime.NumCPU(), 2))": "V_SystemTimedSched_max_NumCPU_2",
	// heap methods
	"len(h)":                         "E_len_h",
	"h[i].ts.Before(h[j].ts)":        "E_hi_ts_Before_hj_ts",
	"h[i], h[j] = h[j], h[i]":        "S_swap_hi_hj",
	"*h = append(*h, x.(timedFunc))": "S_h_append_x",
	"old := *h":                      "S_old_is_h",
	"n := len(old)":                  "S_n_is_len_old",
	"x := old[n-1]":                  "S_x_is_old_last",
	"old[n-1] = timedFunc{}":         "S_clear_old_last",
	"*h = old[:n-1]":                 "S_h_is_old_but_last",
	"x":                              "E_x",
	// NewTimedSched
	"ts := new(TimedSched)":                       "S_ts_new",
	"ts.chTask = make(chan timedFunc)":            "S_chTask_unbuffered",
	"ts.die = make(chan struct{})":                "S_die_unbuffered",
	"ts.chPrependNotify = make(chan struct{}, 1)": "S_chPrependNotify_cap1",
	"range parallel":                              "R_range_parallel",
	"ts.sched()":                                  "C_ts_sched",
	"ts.prepend()":                                "C_ts_prepend",
	"ts":                                          "E_ts",
	// sched
	"timer := time.NewTimer(0)":              "S_timer_NewTimer_0",
	"timer.Stop()":                           "C_timer_Stop",
	"var tasks timedFuncHeap":                "S_var_tasks_heap",
	"drained := false":                       "S_drained_decl_false",
	"task := <-ts.chTask":                    "Rcv_task_from_chTask",
	"now := time.Now()":                      "S_now_is_time_Now",
	"now.After(task.ts)":                     "Cnd_now_After_task_ts",
	"task.execute()":                         "S_task_execute",
	"heap.Push(&tasks, task)":                "S_heap_Push_task",
	"stopped := timer.Stop()":                "S_stopped_is_timer_Stop",
	"!stopped && !drained":                   "Cnd_not_stopped_and_not_drained",
	"<-timer.C":                              "Rcv_timer_C",
	"timer.Reset(tasks[0].ts.Sub(now))":      "S_timer_Reset_top_minus_now",
	"drained = false":                        "S_drained_false",
	"now := <-timer.C":                       "Rcv_now_from_timer_C",
	"drained = true":                         "S_drained_true",
	"tasks.Len() > 0":                        "Cnd_tasks_Len_pos",
	"now.After(tasks[0].ts)":                 "Cnd_now_After_top_ts",
	"heap.Pop(&tasks).(timedFunc).execute()": "S_heap_Pop_execute",
	"<-ts.die":                               "Rcv_die",
	// prepend
	"var tasks []timedFunc":                               "S_var_tasks_slice",
	"<-ts.chPrependNotify":                                "Rcv_chPrependNotify",
	"ts.prependLock.Lock()":                               "S_prependLock_Lock",
	"tasks, ts.prependTasks = ts.prependTasks, tasks[:0]": "S_swap_slices",
	"ts.prependLock.Unlock()":                             "S_prependLock_Unlock",
	"k := range tasks":                                    "R_k_range_tasks",
	"ts.chTask <- tasks[k]":                               "Snd_chTask_tasks_k",
	"tasks[k] = timedFunc{}":                              "S_clear_tasks_k",
	"tasks = tasks[:0]":                                   "S_tasks_truncate",
	// Put
	"ts.prependTasks = append(ts.prependTasks, timedFunc{f, deadline})": "S_append_prependTasks",
	"ts.chPrependNotify <- struct{}{}":                                  "Snd_chPrependNotify",
	// Close
	"ts.dieOnce.Do(func() { close(ts.die) })": "S_dieOnce_close_die",
}

type bail struct{ msg string }

func fail(fset *token.FileSet, pos token.Pos, format string, a ...any) {
	where := ""
	if pos.IsValid() {
		where = fset.Position(pos).String() + ": "
	}
	panic(bail{where + fmt.Sprintf(format, a...)})
}

type tr struct {
	fset *token.FileSet
}

func (t *tr) text(n ast.Node) string {
	var b bytes.Buffer
	if err := printer.Fprint(&b, t.fset, n); err != nil {
		fail(t.fset, n.Pos(), "cannot print node: %v", err)
	}
	return strings.Join(strings.Fields(b.String()), " ")
}

func (t *tr) leafText(s string, pos token.Pos) string {
	a, ok := dict[s]
	if !ok {
		fail(t.fset, pos, "leaf not in the dictionary: %q", s)
	}
	return a
}

func (t *tr) leaf(n ast.Node) string { return t.leafText(t.text(n), n.Pos()) }

func list(xs []string) string { return "[" + strings.Join(xs, "; ") + "]" }

func (t *tr) block(b []ast.Stmt) string {
	var out []string
	for _, s := range b {
		out = append(out, t.stmt(s))
	}
	return list(out)
}

func (t *tr) stmt(s ast.Stmt) string {
	switch n := s.(type) {
	case *ast.ExprStmt, *ast.AssignStmt, *ast.IncDecStmt, *ast.SendStmt:
		return "Do " + t.leaf(n)
	case *ast.DeclStmt:
		gd, ok := n.Decl.(*ast.GenDecl)
		if !ok || gd.Tok != token.VAR || len(gd.Specs) != 1 {
			fail(t.fset, n.Pos(), "unsupported local declaration")
		}
		return "Do " + t.leaf(n)
	case *ast.DeferStmt:
		return "Defer " + t.leaf(n.Call)
	case *ast.GoStmt:
		return "Go " + t.leaf(n.Call)
	case *ast.ReturnStmt:
		if len(n.Results) == 0 {
			return "Return None"
		}
		var parts []string
		for _, r := range n.Results {
			parts = append(parts, t.text(r))
		}
		return "Return (Some " + t.leafText(strings.Join(parts, ", "), n.Pos()) + ")"
	case *ast.BranchStmt:
		if n.Tok == token.BREAK && n.Label == nil {
			return "Break"
		}
		fail(t.fset, n.Pos(), "unsupported branch statement %s", t.text(n))
	case *ast.IfStmt:
		if n.Init != nil {
			fail(t.fset, n.Pos(), "if with init statement")
		}
		els := "[]"
		switch e := n.Else.(type) {
		case nil:
		case *ast.BlockStmt:
			els = t.block(e.List)
		case *ast.IfStmt:
			els = "[" + t.stmt(e) + "]"
		default:
			fail(t.fset, n.Pos(), "unsupported else")
		}
		return "If " + t.leaf(n.Cond) + " " + t.block(n.Body.List) + " " + els
	case *ast.ForStmt:
		if n.Init != nil || n.Post != nil {
			fail(t.fset, n.Pos(), "for with init/post statement")
		}
		c := "None"
		if n.Cond != nil {
			c = "(Some " + t.leaf(n.Cond) + ")"
		}
		return "For " + c + " " + t.block(n.Body.List)
	case *ast.RangeStmt:
		hdr := ""
		if n.Key != nil {
			hdr = t.text(n.Key)
			if n.Value != nil {
				hdr += ", " + t.text(n.Value)
			}
			hdr += " " + n.Tok.String() + " "
		}
		hdr += "range " + t.text(n.X)
		return "Range " + t.leafText(hdr, n.Pos()) + " " + t.block(n.Body.List)
	case *ast.SelectStmt:
		var cs []string
		for _, c := range n.Body.List {
			cc := c.(*ast.CommClause)
			comm := "None"
			if cc.Comm != nil {
				comm = "Some " + t.leaf(cc.Comm)
			}
			cs = append(cs, "("+comm+", "+t.block(cc.Body)+")")
		}
		return "Select " + list(cs)
	}
	fail(t.fset, s.Pos(), "unsupported statement form %T", s)
	return ""
}

// rename receiver, parameters and locals of fd to the reference names
func (t *tr) normalise(fd *ast.FuncDecl, key string) {
	lo, hi := fd.Pos(), fd.End()
	seen := map[*ast.Object]bool{}
	var objs []*ast.Object
	ast.Inspect(fd, func(n ast.Node) bool {
		id, ok := n.(*ast.Ident)
		if !ok || id.Obj == nil || id.Obj.Kind != ast.Var {
			return true
		}
		p := id.Obj.Pos()
		if p < lo || p >= hi || seen[id.Obj] {
			return true
		}
		seen[id.Obj] = true
		objs = append(objs, id.Obj)
		return true
	})
	sort.Slice(objs, func(i, j int) bool { return objs[i].Pos() < objs[j].Pos() })
	want := refNames[key]
	if len(objs) != len(want) {
		var got []string
		for _, o := range objs {
			got = append(got, o.Name)
		}
		fail(t.fset, fd.Pos(), "%s declares %d variables %v, the reference skeleton has %d %v", key, len(objs), got, len(want), want)
	}
	ren := map[*ast.Object]string{}
	for i, o := range objs {
		ren[o] = want[i]
	}
	ast.Inspect(fd, func(n ast.Node) bool {
		if id, ok := n.(*ast.Ident); ok && id.Obj != nil {
			if nn, ok := ren[id.Obj]; ok {
				id.Name = nn
			}
		}
		return true
	})
}

func funcKey(t *tr, fd *ast.FuncDecl) string {
	if fd.Recv == nil || len(fd.Recv.List) == 0 {
		return fd.Name.Name
	}
	return t.text(fd.Recv.List[0].Type) + "." + fd.Name.Name
}

func (t *tr) file(f *ast.File) string {
	var decls []string
	seenFuncs := map[string]bool{}
	for _, d := range f.Decls {
		switch n := d.(type) {
		case *ast.GenDecl:
			switch n.Tok {
			case token.IMPORT:
				for _, sp := range n.Specs {
					is := sp.(*ast.ImportSpec)
					if is.Name != nil {
						fail(t.fset, is.Pos(), "renamed import")
					}
					decls = append(decls, "DImport "+t.leafText(is.Path.Value, is.Pos()))
				}
			case token.TYPE:
				for _, sp := range n.Specs {
					ts := sp.(*ast.TypeSpec)
					if ts.TypeParams != nil || ts.Assign.IsValid() {
						fail(t.fset, ts.Pos(), "unsupported type declaration")
					}
					var fields []string
					if st, ok := ts.Type.(*ast.StructType); ok {
						for _, fl := range st.Fields.List {
							if fl.Tag != nil || len(fl.Names) == 0 {
								fail(t.fset, fl.Pos(), "unsupported field")
							}
							for _, nm := range fl.Names {
								fields = append(fields, t.leafText(nm.Name+" "+t.text(fl.Type), fl.Pos()))
							}
						}
					} else {
						fields = append(fields, t.leaf(ts.Type))
					}
					decls = append(decls, "DType "+t.leafText(ts.Name.Name, ts.Pos())+" "+list(fields))
				}
			case token.VAR:
				for _, sp := range n.Specs {
					decls = append(decls, "DVar "+t.leaf(sp))
				}
			default:
				fail(t.fset, n.Pos(), "unsupported declaration %s", n.Tok)
			}
		case *ast.FuncDecl:
			key := funcKey(t, n)
			fa, ok := funcAtoms[key]
			if !ok {
				fail(t.fset, n.Pos(), "function %s is not part of the reference skeleton", key)
			}
			if seenFuncs[key] {
				fail(t.fset, n.Pos(), "duplicate function %s", key)
			}
			seenFuncs[key] = true
			if n.Body == nil || n.Type.TypeParams != nil {
				fail(t.fset, n.Pos(), "unsupported function form %s", key)
			}
			t.normalise(n, key)
			decls = append(decls, "DFunc "+fa+"\n    "+t.block(n.Body.List))
		}
	}
	for k := range funcAtoms {
		if !seenFuncs[k] {
			fail(t.fset, token.NoPos, "function %s of the reference skeleton is missing from the source", k)
		}
	}
	return "[ " + strings.Join(decls, ";\n  ") + " ]"
}

func run(repo, out string) (err error) {
	defer func() {
		if r := recover(); r != nil {
			if b, ok := r.(bail); ok {
				err = fmt.Errorf("%s", b.msg)
				return
			}
			panic(r)
		}
	}()
	src := filepath.Join(repo, "timedsched.go")
	fset := token.NewFileSet()
	f, perr := parser.ParseFile(fset, src, nil, 0)
	if perr != nil {
		return perr
	}
	t := &tr{fset: fset}
	term := t.file(f)
	var b strings.Builder
	b.WriteString("(* GENERATED by /verif/extract/sched from timedsched.go - do not edit.\n")
	b.WriteString("   The statement skeleton of every declaration of the file, leaves mapped through the\n")
	b.WriteString("   translator's dictionary; locals, parameters and receivers renamed to reference names. *)\n")
	b.WriteString("From Coq Require Import List.\nFrom KV.Sched Require Import IR.\nImport ListNotations.\n\n")
	b.WriteString("Definition skel : program :=\n  " + term + ".\n")
	content := b.String()
	if old, rerr := os.ReadFile(out); rerr == nil && string(old) == content {
		fmt.Println("unchanged", out)
		return nil
	}
	if werr := os.WriteFile(out, []byte(content), 0o644); werr != nil {
		return werr
	}
	fmt.Println("wrote", out)
	return nil
}

func main() {
	if len(os.Args) != 3 {
		fmt.Fprintln(os.Stderr, "usage: verif-extract-sched <repo> <out.v>")
		os.Exit(2)
	}
	if err := run(os.Args[1], os.Args[2]); err != nil {
		fmt.Fprintln(os.Stderr, "verif-extract-sched:", err)
		os.Exit(1)
	}
}
