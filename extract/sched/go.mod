module verifextractsched

go 1.24
