module verifextract

go 1.24
