// verif-extract: reads /repo's current sources and emits Gallina.
// Standard library only. Sub-commands:
//   consts <repo> <out.v>   every integer constant + initialVector
// Other translators (skeletons, access summaries) are separate programs under /verif/extract/<name>/.
package main

import (
	"fmt"
	"os"
)

func main() {
	if len(os.Args) < 2 {
		fmt.Fprintln(os.Stderr, "usage: verif-extract <cmd> ...")
		os.Exit(2)
	}
	var err error
	switch os.Args[1] {
	case "consts":
		err = cmdConsts(os.Args[2], os.Args[3])
	default:
		err = fmt.Errorf("unknown command %q", os.Args[1])
	}
	if err != nil {
		fmt.Fprintln(os.Stderr, "verif-extract:", err)
		os.Exit(1)
	}
}
