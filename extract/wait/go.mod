module verifextractwait

go 1.24
