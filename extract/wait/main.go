// verif-extract-wait: reads /repo/sess.go (current working tree) and emits the statement
// skeletons of the blocking calls and of every notify site as terms of the IR of
// /verif/coq/wait/Ir.v (DESIGN.md Appendix A.3) into coq/wait/GenWait.v.
//
//	verif-extract-wait <repo> <out.v>        translate
//	verif-extract-wait -dump <repo>          print every leaf text per function (for maintenance)
//
// The deadline-change broadcast (type deadlineSignal) is a primitive of the IR: `changed :=
// X.watch()` becomes SWatch, `<-changed` RcvChanged, `X.broadcast()` PBroadcast.  What these
// primitives mean is fixed in Model.v, so the translator also compares the printed bodies of
// (deadlineSignal).watch and (deadlineSignal).broadcast and the type's declaration with the
// text the model was written for (primBodies) and fails when they differ.
//
// Standard library only.  Structure (blocks, if/else, for{}, labels, goto, select, switch on
// untracked data, sync.Once closures, Lock/Unlock) is translated structurally; every leaf
// (condition, simple statement, channel operation, return) is looked up by its printed source
// text in the dictionary of the function it occurs in.  An unknown leaf, an unknown statement
// shape or a missing function terminates the program with a non-zero exit status.
package main

import (
	"bytes"
	"fmt"
	"go/ast"
	"go/parser"
	"go/printer"
	"go/token"
	"os"
	"path/filepath"
	"strings"
)

type dict struct {
	stmts map[string]string // printed statement -> IR statement (Coq term)
	conds map[string]string // "[init; ]cond" -> cond
	comms map[string]string // comm clause -> chanop
	rets  map[string]string // return statement -> ret
	onces map[string]string // receiver of .Do( -> once
	tags  map[string]bool   // switch tags acknowledged as untracked data
	procs map[string]string // method call statement -> proc (inlined)
	watch map[string]string // `changed := X.watch()` -> which deadline's signal (a yield point)
}

type target struct {
	recv, name string // receiver type name, method name
	coq        string // Coq identifier of the emitted definition
	proc       string // constructor of Ir.proc
	d          *dict
}

func merge(ds ...map[string]string) map[string]string {
	out := map[string]string{}
	for _, d := range ds {
		for k, v := range d {
			out[k] = v
		}
	}
	return out
}

// ---------------------------------------------------------------------------- dictionaries

var timerConds = map[string]string{
	"timeout == nil":  "CTimerNil",
	"timeout != nil":  "CTimerNonNil",
	"!timeout.Stop()": "CNotTimerStop",
}

var timerStmts = map[string]string{
	"var timeout *time.Timer": "SCall PNop",
	"var c <-chan time.Time":  "SCall PNop",
	"c = timeout.C":           "SAssign VC ETimerC",
	"c = nil":                 "SAssign VC ENil",
	"defer timeout.Stop()":    "SCall PDeferTimerStop",
	"timeout.Stop()":          "SCall PTimerStop",
}

var sessProcs = map[string]string{
	"s.notifyReadEvent()":  "FNotifyReadEvent",
	"s.notifyWriteEvent()": "FNotifyWriteEvent",
}

const writeRange = "for _, b := range v { n += len(b) for { if len(b) <= int(s.kcp.mss) { s.kcp.Send(b) break } else { s.kcp.Send(b[:s.kcp.mss]) b = b[s.kcp.mss:] } } }"
const fecRecover = "for _, r := range recovers { if len(r) >= 2 { sz := binary.LittleEndian.Uint16(r) if int(sz) <= len(r) && sz >= 2 { if ret := s.kcp.Input(r[2:sz], IKCP_PACKET_FEC, s.ackNoDelay); ret != 0 { kcpInErrors++ } } } defaultBufferPool.Put(r) }"

var targets = []target{
	{"UDPSession", "Read", "read_skel", "FRead", &dict{
		stmts: merge(timerStmts, map[string]string{
			"timeout = time.NewTimer(time.Until(trd))":                    "SCall (PTimerNew RD)",
			"timeout.Reset(time.Until(trd))":                              "SCall (PTimerReset RD)",
			"n = copy(b, s.bufptr)":                                       "SCall PNop",
			"s.bufptr = s.bufptr[n:]":                                     "SCall PAdvanceBuf",
			"atomic.AddUint64(&DefaultSnmp.BytesReceived, uint64(n))":     "SCall PNop",
			"atomic.AddUint64(&DefaultSnmp.BytesReceived, uint64(size))":  "SCall PNop",
			"s.kcp.Recv(b)":                                               "SCall PRecv",
			"if cap(s.recvbuf) < size { s.recvbuf = make([]byte, size) }": "SCall PNop",
			"s.recvbuf = s.recvbuf[:size]":                                "SCall PNop",
			"s.kcp.Recv(s.recvbuf)":                                       "SCall PRecv",
			"n = copy(b, s.recvbuf)":                                      "SCall PNop",
			"s.bufptr = s.recvbuf[n:]":                                    "SCall PSetBufRest",
		}),
		watch: map[string]string{"changed := s.rdChanged.watch()": "RD"},
		conds: merge(timerConds, map[string]string{
			"trd, ok := s.rd.Load().(time.Time); ok && !trd.IsZero()": "CDeadlineSet RD",
			// anticipated repair of the stale-timer timeouts (B11, several callers): re-validate on <-c
			"trd, ok := s.rd.Load().(time.Time); !ok || trd.IsZero() || time.Now().Before(trd)": "CDeadlineNotDue RD",
			"len(s.bufptr) > 0":                         "CBufNonEmpty",
			"size := s.kcp.PeekSize(); size > 0":        "CPeekPositive",
			"s.kcp.PeekSize() > 0":                      "CPeekPositive", // anticipated repair of F4
			"len(s.bufptr) > 0 || s.kcp.PeekSize() > 0": "CHasData",      // anticipated repair of F4
			"len(b) >= size":                            "CData",
		}),
		comms: map[string]string{
			"<-s.chReadEvent":       "RcvReadEvent",
			"<-changed":             "RcvChanged",
			"<-c":                   "RcvC",
			"<-timeout.C":           "RcvTimerC",
			"<-s.chSocketReadError": "RcvRErr",
			"<-s.die":               "RcvDie",
		},
		rets: map[string]string{
			"return n, nil":                                "RData",
			"return size, nil":                             "RData",
			"return 0, errors.WithStack(errTimeout)":       "RTimeout",
			"return 0, s.socketReadError.Load().(error)":   "RSockErr",
			"return 0, errors.WithStack(io.ErrClosedPipe)": "RClosed",
		},
		procs: sessProcs,
	}},
	{"UDPSession", "WriteBuffers", "write_skel", "FWriteBuffers", &dict{
		stmts: merge(timerStmts, map[string]string{
			"timeout = time.NewTimer(time.Until(twd))": "SCall (PTimerNew WD)",
			"timeout.Reset(time.Until(twd))":           "SCall (PTimerReset WD)",
			"waitsnd := s.kcp.WaitSnd()":               "SCall PNop",
			"waitsnd = s.kcp.WaitSnd()":                "SCall PNop",
			writeRange:                                 "SCall PSendAll",
			"if waitsnd >= int(s.kcp.snd_wnd) || !s.writeDelay { s.kcp.flush(IKCP_FLUSH_FULL) }": "SCall PFlush",
			"atomic.AddUint64(&DefaultSnmp.BytesSent, uint64(n))":                                "SCall PNop",
		}),
		watch: map[string]string{"changed := s.wdChanged.watch()": "WD"},
		conds: merge(timerConds, map[string]string{
			"twd, ok := s.wd.Load().(time.Time); ok && !twd.IsZero()":                           "CDeadlineSet WD",
			"twd, ok := s.wd.Load().(time.Time); !ok || twd.IsZero() || time.Now().Before(twd)": "CDeadlineNotDue WD",
			"waitsnd < int(s.kcp.snd_wnd)":                                                      "CRoom",
		}),
		comms: map[string]string{
			"<-s.chWriteEvent":       "RcvWriteEvent",
			"<-changed":              "RcvChanged",
			"<-c":                    "RcvC",
			"<-timeout.C":            "RcvTimerC",
			"<-s.chSocketWriteError": "RcvWErr",
			"<-s.die":                "RcvDie",
		},
		rets: map[string]string{
			"return n, nil":                                "RWritten",
			"return 0, errors.WithStack(errTimeout)":       "RTimeout",
			"return 0, s.socketWriteError.Load().(error)":  "RSockErr",
			"return 0, errors.WithStack(io.ErrClosedPipe)": "RClosed",
		},
		procs: sessProcs,
	}},
	{"Listener", "AcceptKCP", "accept_skel", "FAcceptKCP", &dict{
		stmts: merge(timerStmts, map[string]string{
			"timeout = time.NewTimer(time.Until(tdeadline))": "SCall (PTimerNew LRD)",
			"timeout.Reset(time.Until(tdeadline))":           "SCall (PTimerReset LRD)",
		}),
		watch: map[string]string{"changed := l.rdChanged.watch()": "LRD"},
		conds: merge(timerConds, map[string]string{
			"tdeadline, ok := l.rd.Load().(time.Time); ok && !tdeadline.IsZero()":                                 "CDeadlineSet LRD",
			"tdeadline, ok := l.rd.Load().(time.Time); !ok || tdeadline.IsZero() || time.Now().Before(tdeadline)": "CDeadlineNotDue LRD",
		}),
		comms: map[string]string{
			"<-changed":             "RcvChanged",
			"<-c":                   "RcvC",
			"<-timeout.C":           "RcvTimerC",
			"s := <-l.chAccepts":    "RcvAccept",
			"<-l.chSocketReadError": "RcvLErr",
			"<-l.die":               "RcvLDie",
		},
		rets: map[string]string{
			"return nil, errors.WithStack(errTimeout)": "RTimeout",
			"return s, nil": "RAccepted",
			"return nil, l.socketReadError.Load().(error)":   "RSockErr",
			"return nil, errors.WithStack(io.ErrClosedPipe)": "RClosed",
		},
	}},
	{"UDPSession", "notifyReadEvent", "notify_read_event_skel", "FNotifyReadEvent", &dict{
		comms: map[string]string{"s.chReadEvent <- struct{}{}": "SndReadEvent"},
	}},
	{"UDPSession", "notifyWriteEvent", "notify_write_event_skel", "FNotifyWriteEvent", &dict{
		comms: map[string]string{"s.chWriteEvent <- struct{}{}": "SndWriteEvent"},
	}},
	{"UDPSession", "SetDeadline", "set_deadline_skel", "FSetDeadline", &dict{
		stmts: map[string]string{"s.rd.Store(t)": "SCall (PStore RD)", "s.wd.Store(t)": "SCall (PStore WD)",
			"s.rdChanged.broadcast()": "SCall (PBroadcast RD)", "s.wdChanged.broadcast()": "SCall (PBroadcast WD)"},
		rets:  map[string]string{"return nil": "RNil"},
		procs: sessProcs,
	}},
	{"UDPSession", "SetReadDeadline", "set_read_deadline_skel", "FSetReadDeadline", &dict{
		stmts: map[string]string{"s.rd.Store(t)": "SCall (PStore RD)", "s.rdChanged.broadcast()": "SCall (PBroadcast RD)"},
		rets:  map[string]string{"return nil": "RNil"},
		procs: sessProcs,
	}},
	{"UDPSession", "SetWriteDeadline", "set_write_deadline_skel", "FSetWriteDeadline", &dict{
		stmts: map[string]string{"s.wd.Store(t)": "SCall (PStore WD)", "s.wdChanged.broadcast()": "SCall (PBroadcast WD)"},
		rets:  map[string]string{"return nil": "RNil"},
		procs: sessProcs,
	}},
	{"UDPSession", "Close", "close_skel", "FClose", &dict{
		stmts: map[string]string{
			"var once bool": "SCall PNop",
			"close(s.die)":  "SCall PCloseDie",
			"once = true":   "SAssign VOnce ETrue",
			"atomic.AddUint64(&DefaultSnmp.CurrEstab, ^uint64(0))": "SCall PNop",
			"s.kcp.flush((IKCP_FLUSH_FULL))":                       "SCall PFlush",
			"s.kcp.flush(IKCP_FLUSH_FULL)":                         "SCall PFlush",
			"s.l.closeSession(s.remote)":                           "SCall PNop",
			"s.l.removeSession(s)":                                 "SCall PNop",
		},
		conds: map[string]string{"!once": "CNotOnce", "s.l != nil": "CData", "s.ownConn": "CData"},
		rets: map[string]string{
			"return errors.WithStack(io.ErrClosedPipe)": "RClosed",
			"return nil":            "RNil",
			"return s.conn.Close()": "RConnClose",
		},
		onces: map[string]string{"s.dieOnce": "ODie"},
	}},
	{"UDPSession", "notifyReadError", "notify_read_error_skel", "FNotifyReadError", &dict{
		stmts: map[string]string{"s.socketReadError.Store(err)": "SCall PStoreErr", "close(s.chSocketReadError)": "SCall PCloseRErr"},
		onces: map[string]string{"s.socketReadErrorOnce": "ORErr"},
	}},
	{"UDPSession", "notifyWriteError", "notify_write_error_skel", "FNotifyWriteError", &dict{
		stmts: map[string]string{"s.socketWriteError.Store(err)": "SCall PStoreErr", "close(s.chSocketWriteError)": "SCall PCloseWErr"},
		onces: map[string]string{"s.socketWriteErrorOnce": "OWErr"},
	}},
	{"UDPSession", "kcpInput", "kcp_input_skel", "FKcpInput", &dict{
		stmts: map[string]string{
			"atomic.AddUint64(&DefaultSnmp.InPkts, 1)":                      "SCall PNop",
			"atomic.AddUint64(&DefaultSnmp.InBytes, uint64(len(data)))":     "SCall PNop",
			"fecFlag := binary.LittleEndian.Uint16(data[4:])":               "SCall PNop",
			"atomic.AddUint64(&DefaultSnmp.InErrs, 1)":                      "SCall PNop",
			"var kcpInErrors uint64":                                        "SCall PNop",
			"f := fecPacket(data)":                                          "SCall PNop",
			"defer s.mu.Unlock()":                                           "SCall PDeferUnlock",
			"if s.fecDecoder == nil { s.fecDecoder = newFECDecoder(1, 1) }": "SCall PNop",
			"if f.flag() == typeData { if ret := s.kcp.Input(data[fecHeaderSizePlus2:], IKCP_PACKET_REGULAR, s.ackNoDelay); ret != 0 { kcpInErrors++ } }": "SCall PInput",
			"recovers := s.fecDecoder.decode(f)": "SCall PNop",
			fecRecover:                           "SCall PInput",
			"waitsnd := s.kcp.WaitSnd()":         "SCall PNop",
			"if kcpInErrors > 0 { atomic.AddUint64(&DefaultSnmp.KCPInErrors, kcpInErrors) }":                                             "SCall PNop",
			"atomic.AddUint64(&DefaultSnmp.OOBPackets, 1)":                                                                               "SCall PNop",
			"if callback := s.callbackForOOB.Load(); callback != nil { callback.(OOBCallBackType)(data[fecHeaderSizePlus2+convSize:]) }": "SCall PNop",
			"if ret := s.kcp.Input(data, IKCP_PACKET_REGULAR, s.ackNoDelay); ret != 0 { atomic.AddUint64(&DefaultSnmp.KCPInErrors, 1) }": "SCall PInput",
		},
		conds: map[string]string{
			"len(data) < fecHeaderSizePlus2": "CData",
			"n := s.kcp.PeekSize(); n > 0":   "CPeekPositive",
			"waitsnd < int(s.kcp.snd_wnd)":   "CRoom",
		},
		rets:  map[string]string{"return": "RVoid"},
		tags:  map[string]bool{"fecFlag": true},
		procs: sessProcs,
	}},
	{"UDPSession", "update", "update_skel", "FUpdate", &dict{
		stmts: map[string]string{
			"interval := s.kcp.flush(IKCP_FLUSH_FULL)": "SCall PFlush",
			"waitsnd := s.kcp.WaitSnd()":               "SCall PNop",
			"SystemTimedSched.Put(s.update, time.Now().Add(time.Duration(interval)*time.Millisecond))": "SCall PResched",
		},
		conds: map[string]string{"waitsnd < int(s.kcp.snd_wnd)": "CRoom"},
		comms: map[string]string{"<-s.die": "RcvDie"},
		procs: sessProcs,
	}},
	{"Listener", "SetDeadline", "l_set_deadline_skel", "FLSetDeadline", &dict{
		rets:  map[string]string{"return nil": "RNil"},
		procs: map[string]string{"l.SetReadDeadline(t)": "FLSetReadDeadline", "l.SetWriteDeadline(t)": "FLSetWriteDeadline"},
	}},
	{"Listener", "SetReadDeadline", "l_set_read_deadline_skel", "FLSetReadDeadline", &dict{
		stmts: map[string]string{"l.rd.Store(t)": "SCall (PStore LRD)", "l.rdChanged.broadcast()": "SCall (PBroadcast LRD)"},
		rets:  map[string]string{"return nil": "RNil"},
	}},
	{"Listener", "SetWriteDeadline", "l_set_write_deadline_skel", "FLSetWriteDeadline", &dict{
		rets: map[string]string{"return errInvalidOperation": "RInvalid"},
	}},
	{"Listener", "Close", "l_close_skel", "FLClose", &dict{
		stmts: map[string]string{"var once bool": "SCall PNop", "close(l.die)": "SCall PCloseLDie", "once = true": "SAssign VOnce ETrue",
			"l.closeBacklog()": "SCall PCloseBacklog"},
		conds: map[string]string{"!once": "CNotOnce", "l.ownConn": "CData"},
		rets: map[string]string{
			"return errors.WithStack(io.ErrClosedPipe)": "RClosed",
			"return nil":            "RNil",
			"return l.conn.Close()": "RConnClose",
		},
		onces: map[string]string{"l.dieOnce": "OLDie"},
	}},
	{"Listener", "notifyReadError", "l_notify_read_error_skel", "FLNotifyReadError", &dict{
		stmts: map[string]string{
			"l.socketReadError.Store(err)":                            "SCall PStoreErr",
			"close(l.chSocketReadError)":                              "SCall PCloseLErr",
			"l.sessionLock.RLock()":                                   "SCall PNop",
			"for _, s := range l.sessions { s.notifyReadError(err) }": "SCall PPropagateErr",
			"l.sessionLock.RUnlock()":                                 "SCall PNop",
		},
		onces: map[string]string{"l.socketReadErrorOnce": "OLErr"},
	}},
}

// primBodies: the printed text of the declarations whose meaning is built into Model.v
// (SWatch / RcvChanged / PBroadcast).  "type:" entries are type declarations, the others
// "<receiver>.<method>" bodies.
var primBodies = map[string]string{
	"type:deadlineSignal":      "struct { mu sync.Mutex ch chan struct{} }",
	"deadlineSignal.watch":     "{ d.mu.Lock() defer d.mu.Unlock() if d.ch == nil { d.ch = make(chan struct{}) } return d.ch }",
	"deadlineSignal.broadcast": "{ d.mu.Lock() defer d.mu.Unlock() if d.ch != nil { close(d.ch) d.ch = nil } }",
}

// the signals the dictionaries speak about must be fields of that type (a `watch` method of
// some other type would not be the primitive of the model)
var primFields = map[string][]string{
	"UDPSession": {"rdChanged", "wdChanged"},
	"Listener":   {"rdChanged"},
}

// ---------------------------------------------------------------------------- translation

type tr struct {
	fset   *token.FileSet
	t      *target
	next   int            // next yield-point number
	labels map[string]int // label -> number
	dump   bool
	leaves []string
	err    error
}

func (x *tr) text(n ast.Node) string {
	var b bytes.Buffer
	if err := (&printer.Config{Mode: printer.RawFormat}).Fprint(&b, token.NewFileSet(), n); err != nil {
		x.fail(n, "cannot print: %v", err)
	}
	return strings.Join(strings.Fields(b.String()), " ")
}

func (x *tr) fail(n ast.Node, format string, a ...any) {
	if x.err == nil {
		pos := ""
		if n != nil {
			pos = x.fset.Position(n.Pos()).String() + ": "
		}
		x.err = fmt.Errorf("%s%s.%s: %s", pos, x.t.recv, x.t.name, fmt.Sprintf(format, a...))
	}
}

func (x *tr) lookup(m map[string]string, kind string, n ast.Node, key string) string {
	if x.dump {
		x.leaves = append(x.leaves, kind+"\t"+key)
	}
	if v, ok := m[key]; ok {
		return v
	}
	if !x.dump {
		x.fail(n, "unknown %s leaf %q (not in the dictionary of this function)", kind, key)
	}
	return "SCall PNop"
}

func (x *tr) id() int { x.next++; return x.next }

func list(items []string) string { return "[" + strings.Join(items, "; ") + "]" }

func (x *tr) block(ss []ast.Stmt) string {
	var out []string
	for _, s := range ss {
		out = append(out, x.stmt(s)...)
	}
	return list(out)
}

func (x *tr) isCall(e ast.Expr, want string) bool {
	c, ok := e.(*ast.CallExpr)
	return ok && len(c.Args) == 0 && x.text(c.Fun) == want
}

func (x *tr) stmt(s ast.Stmt) []string {
	d := x.t.d
	switch s := s.(type) {
	case *ast.BlockStmt:
		var out []string
		for _, y := range s.List {
			out = append(out, x.stmt(y)...)
		}
		return out
	case *ast.LabeledStmt:
		n, ok := x.labels[s.Label.Name]
		if !ok {
			x.fail(s, "label %s not collected", s.Label.Name)
		}
		return append([]string{fmt.Sprintf("SLabel %d", n)}, x.stmt(s.Stmt)...)
	case *ast.BranchStmt:
		if s.Tok == token.GOTO && s.Label != nil {
			n, ok := x.labels[s.Label.Name]
			if !ok {
				x.fail(s, "goto to unknown label %s", s.Label.Name)
			}
			return []string{fmt.Sprintf("SGoto %d", n)}
		}
		x.fail(s, "unsupported branch statement %q", x.text(s))
		return nil
	case *ast.IfStmt:
		whole := x.text(s)
		if v, ok := d.stmts[whole]; ok {
			if x.dump {
				x.leaves = append(x.leaves, "stmt\t"+whole)
			}
			return []string{v}
		}
		key := x.text(s.Cond)
		if s.Init != nil {
			key = x.text(s.Init) + "; " + key
		}
		c := x.lookup(d.conds, "cond", s, key)
		th := x.block(s.Body.List)
		el := "[]"
		if s.Else != nil {
			el = list(x.stmt(s.Else))
		}
		return []string{fmt.Sprintf("SIf (%s) %s %s", c, th, el)}
	case *ast.ForStmt:
		whole := x.text(s)
		if v, ok := d.stmts[whole]; ok {
			if x.dump {
				x.leaves = append(x.leaves, "stmt\t"+whole)
			}
			return []string{v}
		}
		if s.Init == nil && s.Cond == nil && s.Post == nil {
			return []string{"SLoop " + x.block(s.Body.List)}
		}
		x.fail(s, "unsupported for statement %q", whole)
		return nil
	case *ast.RangeStmt:
		return []string{x.lookup(d.stmts, "stmt", s, x.text(s))}
	case *ast.SelectStmt:
		n := x.id()
		var cases []string
		dflt := "None"
		for _, c := range s.Body.List {
			cc := c.(*ast.CommClause)
			if cc.Comm == nil {
				dflt = "(Some " + x.block(cc.Body) + ")"
				continue
			}
			op := x.lookup(d.comms, "comm", cc, x.text(cc.Comm))
			cases = append(cases, fmt.Sprintf("(%s, %s)", op, x.block(cc.Body)))
		}
		return []string{fmt.Sprintf("SSelect %d %s %s", n, list(cases), dflt)}
	case *ast.SwitchStmt:
		if s.Init != nil || s.Tag == nil || !d.tags[x.text(s.Tag)] {
			x.fail(s, "unsupported switch (tag not acknowledged as untracked data)")
			return nil
		}
		if x.dump {
			x.leaves = append(x.leaves, "tag\t"+x.text(s.Tag))
		}
		var alts []string
		for _, c := range s.Body.List {
			alts = append(alts, x.block(c.(*ast.CaseClause).Body))
		}
		return []string{"SChoice " + list(alts)}
	case *ast.ExprStmt:
		if x.isCall(s.X, "s.mu.Lock") {
			return []string{fmt.Sprintf("SLock %d", x.id())}
		}
		if x.isCall(s.X, "s.mu.Unlock") {
			return []string{"SUnlock"}
		}
		if c, ok := s.X.(*ast.CallExpr); ok && len(c.Args) == 1 {
			if sel, ok := c.Fun.(*ast.SelectorExpr); ok && sel.Sel.Name == "Do" {
				if fl, ok := c.Args[0].(*ast.FuncLit); ok {
					recv := x.text(sel.X)
					if x.dump {
						x.leaves = append(x.leaves, "once\t"+recv)
					}
					o, ok := d.onces[recv]
					if !ok && !x.dump {
						x.fail(s, "unknown sync.Once %q", recv)
					}
					return []string{fmt.Sprintf("SOnce %s %s", o, x.block(fl.Body.List))}
				}
			}
		}
		key := x.text(s)
		if p, ok := d.procs[key]; ok {
			if x.dump {
				x.leaves = append(x.leaves, "proc\t"+key)
			}
			return []string{fmt.Sprintf("SCall (PProc %s)", p)}
		}
		return []string{x.lookup(d.stmts, "stmt", s, key)}
	case *ast.ReturnStmt:
		return []string{"SReturn " + x.lookup(d.rets, "ret", s, x.text(s))}
	case *ast.AssignStmt, *ast.DeclStmt, *ast.DeferStmt, *ast.IncDecStmt:
		if w, ok := d.watch[x.text(s)]; ok {
			if x.dump {
				x.leaves = append(x.leaves, "watch\t"+x.text(s))
			}
			n := x.id() // the yield point before the watch
			x.id()      // n+1: the yield point after it (Ir.v, SWatch)
			return []string{fmt.Sprintf("SWatch %d %s", n, w)}
		}
		return []string{x.lookup(d.stmts, "stmt", s, x.text(s))}
	case *ast.EmptyStmt:
		return nil
	}
	x.fail(s, "unsupported statement shape %T: %q", s, x.text(s))
	return nil
}

func recvName(fd *ast.FuncDecl) string {
	if fd.Recv == nil || len(fd.Recv.List) != 1 {
		return ""
	}
	t := fd.Recv.List[0].Type
	if st, ok := t.(*ast.StarExpr); ok {
		t = st.X
	}
	if id, ok := t.(*ast.Ident); ok {
		return id.Name
	}
	return ""
}

// checkPrims: the declarations behind the IR's broadcast primitives read exactly as the model
// assumes, and the signals named in the dictionaries are fields of type deadlineSignal.
func checkPrims(fset *token.FileSet, f *ast.File, funcs map[string]*ast.FuncDecl) error {
	x := &tr{fset: fset, t: &target{recv: "deadlineSignal", name: "*"}}
	types := map[string]*ast.TypeSpec{}
	for _, d := range f.Decls {
		if gd, ok := d.(*ast.GenDecl); ok && gd.Tok == token.TYPE {
			for _, sp := range gd.Specs {
				ts := sp.(*ast.TypeSpec)
				types[ts.Name.Name] = ts
			}
		}
	}
	for k, want := range primBodies {
		var got string
		if name, isType := strings.CutPrefix(k, "type:"); isType {
			ts, ok := types[name]
			if !ok {
				return fmt.Errorf("type %s not found in sess.go (the broadcast primitive of the model)", name)
			}
			got = x.text(ts.Type)
		} else {
			fd, ok := funcs[k]
			if !ok {
				return fmt.Errorf("function (%s) not found in sess.go (a broadcast primitive of the model)", k)
			}
			got = x.text(fd.Body)
		}
		if x.err != nil {
			return x.err
		}
		if got != want {
			return fmt.Errorf("%s: the declaration behind a primitive of the model changed:\n  have %q\n  want %q", k, got, want)
		}
	}
	for tn, fields := range primFields {
		ts, ok := types[tn]
		st, isStruct := (*ast.StructType)(nil), false
		if ok {
			st, isStruct = ts.Type.(*ast.StructType)
		}
		if !isStruct {
			return fmt.Errorf("struct type %s not found in sess.go", tn)
		}
		for _, want := range fields {
			found := false
			for _, fl := range st.Fields.List {
				for _, nm := range fl.Names {
					if nm.Name == want {
						found = x.text(fl.Type) == "deadlineSignal"
					}
				}
			}
			if !found {
				return fmt.Errorf("%s.%s is not a field of type deadlineSignal", tn, want)
			}
		}
	}
	return nil
}

func run(repo, out string, dump bool) error {
	fset := token.NewFileSet()
	f, err := parser.ParseFile(fset, filepath.Join(repo, "sess.go"), nil, 0)
	if err != nil {
		return err
	}
	funcs := map[string]*ast.FuncDecl{}
	for _, d := range f.Decls {
		if fd, ok := d.(*ast.FuncDecl); ok && fd.Body != nil {
			k := recvName(fd) + "." + fd.Name.Name
			if _, dup := funcs[k]; dup {
				return fmt.Errorf("duplicate function %s", k)
			}
			funcs[k] = fd
		}
	}
	if err := checkPrims(fset, f, funcs); err != nil && !dump { // -dump is for maintenance: list the leaves anyway
		return err
	}
	var b strings.Builder
	b.WriteString("(* GENERATED by /verif/extract/wait from /repo/sess.go - do not edit.\n")
	b.WriteString("   Statement skeletons of the blocking calls and the notify sites, as terms of Ir.stmt. *)\n")
	b.WriteString("From Coq Require Import List.\nFrom KV.Wait Require Import Ir.\nImport ListNotations.\n\n")
	var cases []string
	for i := range targets {
		t := &targets[i]
		fd, ok := funcs[t.recv+"."+t.name]
		if !ok {
			return fmt.Errorf("function (%s).%s not found in sess.go", t.recv, t.name)
		}
		for _, m := range []*map[string]string{&t.d.stmts, &t.d.conds, &t.d.comms, &t.d.rets, &t.d.onces, &t.d.procs, &t.d.watch} {
			if *m == nil {
				*m = map[string]string{}
			}
		}
		if t.d.tags == nil {
			t.d.tags = map[string]bool{}
		}
		x := &tr{fset: fset, t: t, labels: map[string]int{}, dump: dump}
		nl := 0
		ast.Inspect(fd.Body, func(n ast.Node) bool {
			if _, isLit := n.(*ast.FuncLit); isLit {
				// labels inside closures are not expected; the closure bodies we accept have none
				return true
			}
			if ls, ok := n.(*ast.LabeledStmt); ok {
				nl++
				x.labels[ls.Label.Name] = nl
			}
			return true
		})
		x.next = nl // labels are numbered 1..nl, the other yield points follow
		body := x.block(fd.Body.List)
		if x.err != nil {
			return x.err
		}
		if dump {
			fmt.Printf("== (%s).%s\n", t.recv, t.name)
			for _, l := range x.leaves {
				fmt.Println("  " + l)
			}
			continue
		}
		fmt.Fprintf(&b, "(* func (%s) %s, sess.go:%d *)\nDefinition %s : list stmt :=\n  %s.\n\n",
			t.recv, t.name, fset.Position(fd.Pos()).Line, t.coq, body)
		cases = append(cases, fmt.Sprintf("  | %s => %s", t.proc, t.coq))
	}
	if dump {
		return nil
	}
	b.WriteString("Definition skel (f : proc) : list stmt :=\n  match f with\n" + strings.Join(cases, "\n") + "\n  end.\n")
	content := b.String()
	if old, err := os.ReadFile(out); err == nil && string(old) == content {
		fmt.Println("unchanged:", out)
		return nil
	}
	if err := os.WriteFile(out, []byte(content), 0o644); err != nil {
		return err
	}
	fmt.Println("written:", out)
	return nil
}

func main() {
	var err error
	switch {
	case len(os.Args) == 3 && os.Args[1] == "-dump":
		err = run(os.Args[2], "", true)
	case len(os.Args) == 3:
		err = run(os.Args[1], os.Args[2], false)
	default:
		fmt.Fprintln(os.Stderr, "usage: verif-extract-wait <repo> <out.v> | -dump <repo>")
		os.Exit(2)
	}
	if err != nil {
		fmt.Fprintln(os.Stderr, "verif-extract-wait:", err)
		os.Exit(1)
	}
}
