// verif-extract: reads /repo's current sources and emits Gallina.
// Standard library only. Sub-commands:
//   consts <repo> <out.v>   every integer constant + initialVector
// Other sub-commands (skeletons, access summaries) live in sibling files.
package main

import (
	"fmt"
	"os"
)

func main() {
	if len(os.Args) < 2 {
		fmt.Fprintln(os.Stderr, "usage: verif-extract <cmd> ...")
		os.Exit(2)
	}
	var err error
	switch os.Args[1] {
	case "consts":
		err = cmdConsts(os.Args[2], os.Args[3])
	default:
		if f, ok := commands[os.Args[1]]; ok {
			err = f(os.Args[2:])
		} else {
			err = fmt.Errorf("unknown command %q", os.Args[1])
		}
	}
	if err != nil {
		fmt.Fprintln(os.Stderr, "verif-extract:", err)
		os.Exit(1)
	}
}

// commands is filled by init() functions of sibling files.
var commands = map[string]func(args []string) error{}
