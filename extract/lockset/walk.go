package main

import (
	"fmt"
	"go/ast"
	"go/token"
	"go/types"
	"os"
	"sort"
	"strings"
)

// ---------------------------------------------------------------------------------- values

type funcVal struct {
	kind      string       // lit | decl | nop | user
	lit       *ast.FuncLit // kind lit
	lex       *frame       // lexical frame of a literal
	fn        *types.Func  // kind decl
	recv      ast.Expr     // receiver expression of a method value (already evaluated)
	recvFrame *frame
}

type val struct {
	fn    *funcVal
	alias []Loc // content locations this slice/map value refers to
}

type deferItem struct {
	kind string // act | lit
	act  Act
	pos  token.Pos
	lit  *funcVal
}

type breakCtx struct {
	label    string
	isLoop   bool
	breaks   []st
	contNode int
}

type frame struct {
	name     string
	parent   *frame // lexical parent (closures)
	binds    map[types.Object]*funcVal
	ptrLocal map[types.Object]bool  // pointer params bound to the address of a caller's local
	alias    map[types.Object][]Loc // slice/map params and locals that refer to the content of a field
	results  []types.Object         // named results
	retAlias []Loc                  // content locations the returned slice/map values refer to
	defers   []deferItem
	exit     int
	exitSet  bool
	exitLS   Lockset
	labels   map[string]int
	ctxs     []*breakCtx
	depth    int
	isRoot   bool
	ctorMode string // "" | pub | rest : this frame is a top-level constructor
}

func (f *frame) lookup(o types.Object) *funcVal {
	for g := f; g != nil; g = g.parent {
		if v, ok := g.binds[o]; ok {
			return v
		}
	}
	return nil
}
func (f *frame) aliasOf(o types.Object) ([]Loc, bool) {
	for g := f; g != nil; g = g.parent {
		if l, ok := g.alias[o]; ok && len(l) > 0 {
			return l, true
		}
	}
	return nil, false
}

func addLocs(dst []Loc, src ...Loc) ([]Loc, bool) {
	changed := false
	for _, l := range src {
		found := false
		for _, d := range dst {
			if d == l {
				found = true
			}
		}
		if !found {
			dst = append(dst, l)
			changed = true
		}
	}
	return dst, changed
}
func (f *frame) isPtrLocal(o types.Object) bool {
	for g := f; g != nil; g = g.parent {
		if g.ptrLocal[o] {
			return true
		}
	}
	return false
}

type st struct {
	node int
	ls   Lockset
	dead bool
}

type memoEnt struct {
	entry, exit int
	exitLS      Lockset
	exitReached bool
	retAlias    []Loc
}

type rootReq struct {
	name, kind string
	fn         *types.Func
	lit        *ast.FuncLit
	mo, mg     bool
	doc        string
}

type translator struct {
	l             *loaded
	decls         map[string]*ast.FuncDecl // key: funcKey
	ownTypes      map[string]bool
	roots         []*rootCFG
	pending       []rootReq
	seenRoot      map[string]bool
	entropyTs     []string
	outputLit     *ast.FuncLit
	sites         []site
	skippedLocal  int
	userCallbacks map[string]bool
	externals     map[string]int
	uf            map[Loc]Loc // content locations that denote the same memory (field-to-field aliasing)
}

func (t *translator) find(l Loc) Loc {
	for {
		p, ok := t.uf[l]
		if !ok || p == l {
			return l
		}
		l = p
	}
}

func (t *translator) union(a, b Loc) {
	ra, rb := t.find(a), t.find(b)
	if ra == rb {
		return
	}
	if rb.String() < ra.String() {
		ra, rb = rb, ra
	}
	t.uf[rb] = ra
}

type site struct {
	Root  string `json:"root"`
	Func  string `json:"func"`
	File  string `json:"file"`
	Line  int    `json:"line"`
	Loc   string `json:"loc"`
	Kind  string `json:"kind"`
	Locks string `json:"locks"`
}

type walker struct {
	t          *translator
	r          *rootCFG
	s          st
	fr         *frame
	mute       bool
	stack      []string
	memo       map[string]*memoEnt
	rootParams map[types.Object]bool
}

func (t *translator) pos(p token.Pos) string {
	ps := t.l.fset.Position(p)
	return fmt.Sprintf("%s:%d", ps.Filename[strings.LastIndex(ps.Filename, "/")+1:], ps.Line)
}

func (w *walker) fatal(p token.Pos, format string, a ...any) {
	fmt.Fprintf(os.Stderr, "verif-extract-lockset: %s: root %s: in %s: %s\n", w.t.pos(p), w.r.Name, strings.Join(w.stack, " > "), fmt.Sprintf(format, a...))
	os.Exit(1)
}

// ---------------------------------------------------------------------------------- CFG emission

func (w *walker) emit(a Act, p token.Pos) {
	if w.s.dead || w.mute {
		return
	}
	ls2, err := lsStep(w.s.ls, a)
	if err != nil {
		w.fatal(p, "%v", err)
	}
	n := w.r.newNode(ls2)
	w.r.edges = append(w.r.edges, Edge{w.s.node, a, n, p})
	if a.K == "Rd" || a.K == "Wr" || a.K == "At" {
		ps := w.t.l.fset.Position(p)
		fn := ""
		if len(w.stack) > 0 {
			fn = w.stack[len(w.stack)-1]
		}
		w.t.sites = append(w.t.sites, site{w.r.Name, fn, ps.Filename[strings.LastIndex(ps.Filename, "/")+1:], ps.Line, a.L.String(), a.K, w.s.ls.key()})
	}
	w.s = st{node: n, ls: ls2}
}

func (w *walker) tau(p token.Pos) { w.emit(Act{K: "Tau"}, p) }

// tauTo adds a Tau edge from the current node to an existing node (lock sets must agree).
func (w *walker) tauTo(target int, p token.Pos, what string) {
	if w.s.dead {
		return
	}
	if w.r.nodeLS[target].key() != w.s.ls.key() {
		w.fatal(p, "%s: control-flow paths meet with different lock sets {%s} vs {%s}", what, w.s.ls.key(), w.r.nodeLS[target].key())
	}
	if target != w.s.node {
		w.r.edges = append(w.r.edges, Edge{w.s.node, Act{K: "Tau"}, target, p})
	}
}

func (w *walker) join(p token.Pos, what string, states ...st) st {
	var alive []st
	for _, x := range states {
		if !x.dead {
			alive = append(alive, x)
		}
	}
	if len(alive) == 0 {
		return st{dead: true}
	}
	if len(alive) == 1 {
		return alive[0]
	}
	j := w.r.newNode(alive[0].ls)
	for _, x := range alive {
		w.s = x
		w.tauTo(j, p, what)
	}
	return st{node: j, ls: alive[0].ls}
}

// ---------------------------------------------------------------------------------- helpers on types

func unparen(e ast.Expr) ast.Expr {
	for {
		p, ok := e.(*ast.ParenExpr)
		if !ok {
			return e
		}
		e = p.X
	}
}

func deref(t types.Type) types.Type {
	if p, ok := t.Underlying().(*types.Pointer); ok {
		return p.Elem()
	}
	return t
}

func namedOf(t types.Type) *types.Named {
	t = deref(t)
	if n, ok := t.(*types.Named); ok {
		return n
	}
	if a, ok := t.(*types.Alias); ok {
		return namedOf(types.Unalias(a))
	}
	return nil
}

func (t *translator) inPkg(o types.Object) bool { return o != nil && o.Pkg() == t.l.pkg }

// fieldOwner returns the (type name, field name) of a field selection and whether the owning
// type is declared in package kcp.
func (t *translator) fieldOwner(sel *types.Selection) (Loc, bool) {
	typ := sel.Recv()
	owner := ""
	in := false
	idx := sel.Index()
	for k, i := range idx {
		typ = deref(typ)
		if n := namedOf(typ); n != nil {
			owner = n.Origin().Obj().Name()
			in = n.Origin().Obj().Pkg() == t.l.pkg
		} else {
			owner = owner + "$anon"
		}
		s, ok := typ.Underlying().(*types.Struct)
		if !ok {
			return Loc{}, false
		}
		f := s.Field(i)
		if k == len(idx)-1 {
			return Loc{owner, f.Name()}, in
		}
		typ = f.Type()
	}
	return Loc{}, false
}

func typeStr(t types.Type) string {
	if t == nil {
		return "<nil>"
	}
	return types.TypeString(t, func(p *types.Package) string { return p.Path() })
}

// syncKind classifies standard-library types whose methods are synchronising.
func syncKind(t types.Type) string {
	switch typeStr(deref(t)) {
	case "sync.Mutex":
		return "mutex"
	case "sync.RWMutex":
		return "rwmutex"
	case "sync.Once":
		return "once"
	case "sync.Pool", "sync.WaitGroup", "sync.Map", "sync/atomic.Value", "sync/atomic.Int32", "sync/atomic.Int64", "sync/atomic.Uint32",
		"sync/atomic.Uint64", "sync/atomic.Bool":
		return "atomic"
	}
	if strings.HasPrefix(typeStr(deref(t)), "sync/atomic.Pointer[") {
		return "atomic"
	}
	return ""
}

func (t *translator) isLocalStructVar(e ast.Expr) bool {
	id, ok := unparen(e).(*ast.Ident)
	if !ok {
		return false
	}
	v, ok := t.l.info.ObjectOf(id).(*types.Var)
	if !ok || v.IsField() || v.Parent() == t.l.pkg.Scope() {
		return false
	}
	switch v.Type().Underlying().(type) {
	case *types.Struct, *types.Array:
		return true
	}
	return false
}

func (t *translator) pkgVar(id *ast.Ident) (Loc, bool) {
	v, ok := t.l.info.ObjectOf(id).(*types.Var)
	if !ok || v.IsField() || v.Pkg() != t.l.pkg || v.Parent() != t.l.pkg.Scope() {
		return Loc{}, false
	}
	return Loc{"<pkg>", v.Name()}, true
}

func funcKey(fn *types.Func) string {
	fn = fn.Origin()
	sig := fn.Type().(*types.Signature)
	if sig.Recv() != nil {
		if n := namedOf(sig.Recv().Type()); n != nil {
			return n.Origin().Obj().Name() + "." + fn.Name()
		}
	}
	return fn.Name()
}

// ---------------------------------------------------------------------------------- expressions

func (w *walker) rd(l Loc, p token.Pos) { w.emit(Act{"Rd", l}, p) }
func (w *walker) wr(l Loc, p token.Pos) { w.emit(Act{"Wr", l}, p) }

func (w *walker) exprs(es []ast.Expr) {
	for _, e := range es {
		w.expr(e)
	}
}

func (w *walker) expr(e ast.Expr) val {
	info := w.t.l.info
	switch x := e.(type) {
	case nil:
		return val{}
	case *ast.BasicLit:
		return val{}
	case *ast.Ident:
		if l, ok := w.t.pkgVar(x); ok {
			w.rd(l, x.Pos())
			return val{}
		}
		if o := info.ObjectOf(x); o != nil {
			if ls, ok := w.fr.aliasOf(o); ok {
				for _, l := range ls { // any mention of the alias counts as a read of the content
					w.rd(l, x.Pos())
				}
				return val{alias: ls}
			}
			if fv := w.fr.lookup(o); fv != nil {
				return val{fn: fv}
			}
			if fn, ok := o.(*types.Func); ok && w.t.inPkg(fn) {
				return val{fn: &funcVal{kind: "decl", fn: fn}}
			}
		}
		return val{}
	case *ast.ParenExpr:
		return w.expr(x.X)
	case *ast.FuncLit:
		return val{fn: &funcVal{kind: "lit", lit: x, lex: w.fr}}
	case *ast.CompositeLit:
		for _, el := range x.Elts {
			if kv, ok := el.(*ast.KeyValueExpr); ok {
				if _, isId := kv.Key.(*ast.Ident); !isId {
					w.expr(kv.Key)
				}
				w.escapingAlias(kv.Value, "a composite literal")
			} else {
				w.escapingAlias(el, "a composite literal")
			}
		}
		return val{}
	case *ast.SelectorExpr:
		return w.selector(x)
	case *ast.IndexExpr:
		if tv, ok := info.Types[x.X]; ok {
			if _, isSig := tv.Type.(*types.Signature); isSig { // generic instantiation f[T]
				return w.expr(x.X)
			}
		}
		v := w.expr(x.X)
		w.contentRead(x.X, v, x.Pos())
		w.expr(x.Index)
		if tv, ok := info.Types[x]; ok && isRefType(tv.Type) {
			return val{alias: v.alias} // an inner slice/map is folded into the same content location
		}
		return val{}
	case *ast.IndexListExpr:
		return w.expr(x.X)
	case *ast.SliceExpr:
		if tv, ok := info.Types[x.X]; ok && tv.Type != nil {
			if _, isArr := tv.Type.Underlying().(*types.Array); isArr {
				w.storeInto(x.X, x.Pos(), false) // slicing an array takes its address
				w.expr(x.Low)
				w.expr(x.High)
				w.expr(x.Max)
				ls, _ := w.aliasRoot(x, true)
				return val{alias: ls}
			}
		}
		v := w.expr(x.X)
		w.expr(x.Low)
		w.expr(x.High)
		w.expr(x.Max)
		return val{alias: v.alias}
	case *ast.StarExpr:
		w.expr(x.X)
		return val{}
	case *ast.UnaryExpr:
		if x.Op == token.AND {
			if _, ok := unparen(x.X).(*ast.CompositeLit); ok {
				return w.expr(x.X)
			}
			w.storeInto(x.X, x.Pos(), false) // address-taking of a field counts as a write
			return val{}
		}
		if x.Op == token.ARROW {
			w.expr(x.X)
			w.tau(x.Pos())
			return val{}
		}
		return w.expr(x.X)
	case *ast.BinaryExpr:
		w.expr(x.X)
		w.expr(x.Y)
		return val{}
	case *ast.KeyValueExpr:
		w.expr(x.Value)
		return val{}
	case *ast.TypeAssertExpr:
		return w.expr(x.X)
	case *ast.CallExpr:
		return w.call(x)
	case *ast.ArrayType, *ast.MapType, *ast.ChanType, *ast.FuncType, *ast.StructType, *ast.InterfaceType, *ast.Ellipsis:
		return val{}
	}
	w.fatal(e.Pos(), "unsupported expression %T", e)
	return val{}
}

// escapingValue evaluates a value stored into a composite literal / passed outside the package;
// a function literal escaping this way is walked once in place (its body runs on some thread;
// the walk records what it touches with the lock set at the point of creation).
func (w *walker) escapingValue(e ast.Expr) {
	v := w.expr(e)
	if v.fn != nil && v.fn.kind == "lit" {
		w.inlineLit(v.fn, nil, e.Pos())
	}
}

// escapingAlias: a slice/map value that refers to a field's content is stored where the walker
// cannot follow it (composite literal, channel): fail closed
func (w *walker) escapingAlias(e ast.Expr, where string) {
	v := w.expr(e)
	if v.fn != nil && v.fn.kind == "lit" {
		w.inlineLit(v.fn, nil, e.Pos())
	}
	if tv, ok := w.t.l.info.Types[e]; ok && isRefType(tv.Type) && len(v.alias) > 0 && !w.mute {
		w.fatal(e.Pos(), "a slice/map that refers to the content of %v escapes into %s: alias shape not followed", v.alias, where)
	}
}

func (w *walker) selector(x *ast.SelectorExpr) val {
	info := w.t.l.info
	sel := info.Selections[x]
	if sel == nil {
		// qualified identifier pkg.Name, or a selector on a value of a third-party type
		if id, ok := x.X.(*ast.Ident); ok {
			if _, isPkg := info.ObjectOf(id).(*types.PkgName); isPkg {
				return val{}
			}
		}
		w.expr(x.X)
		return val{}
	}
	switch sel.Kind() {
	case types.FieldVal:
		loc, in := w.t.fieldOwner(sel)
		if w.t.isLocalStructVar(x.X) {
			w.t.skippedLocal++
			return val{}
		}
		w.expr(x.X)
		if !in {
			return val{}
		}
		if k := syncKind(sel.Type()); k != "" {
			w.fatal(x.Pos(), "field %s of synchronisation type used as a plain value", loc)
		}
		w.rd(loc, x.Sel.Pos())
		if cl, ok := contentLoc(loc, sel.Type()); ok {
			return val{alias: []Loc{cl}}
		}
		return val{}
	case types.MethodVal:
		w.expr(x.X)
		fn := sel.Obj().(*types.Func)
		if w.t.inPkg(fn) && !types.IsInterface(sel.Recv()) {
			return val{fn: &funcVal{kind: "decl", fn: fn, recv: x.X, recvFrame: w.fr}}
		}
		return val{}
	}
	w.fatal(x.Pos(), "unsupported selection kind")
	return val{}
}

// contentLoc: the location standing for the memory a slice- or map-typed field refers to
// (an array-typed field holds its elements itself).
func contentLoc(field Loc, t types.Type) (Loc, bool) {
	if t == nil {
		return Loc{}, false
	}
	switch t.Underlying().(type) {
	case *types.Slice, *types.Map:
		return Loc{field.T, field.F + "[*]"}, true
	case *types.Array:
		return field, true
	}
	return Loc{}, false
}

// contentRead: an element read / iteration / map length on value v (expression e): a read of the
// content it refers to.  Plain identifiers already recorded it when they were mentioned.
func (w *walker) contentRead(e ast.Expr, v val, p token.Pos) {
	if _, isId := unparen(e).(*ast.Ident); isId {
		return
	}
	for _, l := range v.alias {
		w.rd(l, p)
	}
}

// storeInto records a write to the memory denoted by e.  elem = false: e itself is assigned
// (x.f = v, &x.f); elem = true: an element of e is stored (x.f[i] = v, delete, copy, clear,
// append into, a callee writing through the slice): for slice/map fields and for local aliases
// of them that is a write of the CONTENT location, with the locks held here.
func (w *walker) storeInto(e ast.Expr, p token.Pos, elem bool) {
	info := w.t.l.info
	switch x := unparen(e).(type) {
	case *ast.Ident:
		if x.Name == "_" {
			return
		}
		if l, ok := w.t.pkgVar(x); ok {
			w.wr(l, p)
			return
		}
		if o := info.ObjectOf(x); o != nil {
			if ls, ok := w.fr.aliasOf(o); ok {
				if elem {
					for _, l := range ls {
						w.wr(l, p)
					}
				}
				return
			}
		}
		if !elem {
			w.checkCapturedWrite(x)
		}
	case *ast.SelectorExpr:
		sel := info.Selections[x]
		if sel == nil {
			w.expr(x.X)
			return
		}
		if sel.Kind() != types.FieldVal {
			w.fatal(p, "store into a method value")
		}
		loc, in := w.t.fieldOwner(sel)
		if w.t.isLocalStructVar(x.X) {
			w.t.skippedLocal++
			return
		}
		// a struct-valued element reached by indexing is part of its container
		if ix, ok := unparen(x.X).(*ast.IndexExpr); ok {
			if tv, ok2 := info.Types[ix]; ok2 && tv.Type != nil {
				if _, isStruct := tv.Type.Underlying().(*types.Struct); isStruct {
					w.expr(ix.Index)
					w.storeInto(ix.X, p, true)
					if in {
						w.wr(loc, p)
					}
					return
				}
			}
		}
		w.expr(x.X)
		if in {
			if k := syncKind(sel.Type()); k != "" {
				w.fatal(p, "address of / store into synchronisation field %s", loc)
			}
			if cl, ok := contentLoc(loc, sel.Type()); ok && elem && cl != loc {
				w.rd(loc, p) // the header is read, the content is written
				w.wr(cl, p)
				return
			}
			w.wr(loc, p)
		}
	case *ast.IndexExpr:
		w.expr(x.Index)
		w.storeInto(x.X, p, true)
	case *ast.SliceExpr:
		w.expr(x.Low)
		w.expr(x.High)
		w.expr(x.Max)
		w.storeInto(x.X, p, true)
	case *ast.StarExpr:
		// *p = v : p must be a pointer to a local of some caller (bound at inlining)
		if id, ok := unparen(x.X).(*ast.Ident); ok {
			if o := info.ObjectOf(id); o != nil && w.fr.isPtrLocal(o) {
				return
			}
			w.fatal(p, "store through pointer %s whose target is unknown", id.Name)
		}
		w.expr(x.X)
	case *ast.CallExpr:
		v := w.expr(x)
		if elem {
			for _, l := range v.alias {
				w.wr(l, p)
			}
		}
	case *ast.CompositeLit, *ast.TypeAssertExpr, *ast.BasicLit, *ast.BinaryExpr, *ast.UnaryExpr, *ast.FuncLit:
		w.expr(x)
	default:
		w.fatal(p, "unsupported store target %T", x)
	}
}

// a closure that is a thread root must not assign to a variable captured from its creator
func (w *walker) checkCapturedWrite(id *ast.Ident) {
	o := w.t.l.info.ObjectOf(id)
	if o == nil {
		return
	}
	for g := w.fr; g != nil; g = g.parent {
		if g.isRoot && g.parent == nil && w.r.Kind == "closure" {
			// declared inside the closure?
			if lit := w.t.outputLit; lit != nil && !(o.Pos() >= lit.Pos() && o.Pos() <= lit.End()) {
				w.fatal(id.Pos(), "root closure assigns to captured variable %s", id.Name)
			}
		}
	}
}

// aliasRoot: the content location(s) a slice/map expression refers to, when that is syntactically
// evident: a parameter or local known to refer to a field's content, or (viaField) a field
// selector itself, possibly sliced or indexed.
func (w *walker) aliasRoot(e ast.Expr, viaField bool) ([]Loc, bool) {
	info := w.t.l.info
	for {
		switch x := unparen(e).(type) {
		case *ast.SliceExpr:
			e = x.X
			continue
		case *ast.IndexExpr:
			e = x.X
			continue
		case *ast.Ident:
			if o := info.ObjectOf(x); o != nil {
				return w.fr.aliasOf(o)
			}
			return nil, false
		case *ast.SelectorExpr:
			if !viaField {
				return nil, false
			}
			sel := info.Selections[x]
			if sel == nil || sel.Kind() != types.FieldVal || w.t.isLocalStructVar(x.X) {
				return nil, false
			}
			loc, in := w.t.fieldOwner(sel)
			if !in {
				return nil, false
			}
			if cl, ok := contentLoc(loc, sel.Type()); ok {
				return []Loc{cl}, true
			}
			return nil, false
		default:
			return nil, false
		}
	}
}

func isRefType(t types.Type) bool {
	if t == nil {
		return false
	}
	switch t.Underlying().(type) {
	case *types.Slice, *types.Map:
		return true
	}
	return false
}

// writeThrough: external callees that write through a slice argument (argument positions)
var writeThrough = map[string][]int{
	"crypto/cipher.Block.Encrypt": {0}, "crypto/cipher.Block.Decrypt": {0},
	"crypto/cipher.AEAD.Seal": {0}, "crypto/cipher.AEAD.Open": {0},
	"crypto/subtle.XORBytes": {0}, "golang.org/x/crypto/salsa20.XORKeyStream": {0},
	"math/rand/v2.ChaCha8.Read": {0}, "crypto/rand.Read": {0},
	"encoding/binary.littleEndian.PutUint16": {0}, "encoding/binary.littleEndian.PutUint32": {0},
	"encoding/binary.littleEndian.PutUint64": {0}, "encoding/binary.bigEndian.PutUint16": {0},
	"encoding/binary.bigEndian.PutUint32": {0}, "encoding/binary.bigEndian.PutUint64": {0},
	"io.ReadFull": {1}, "io.ReadAtLeast": {1},
}

// extArgs evaluates the arguments of a call that leaves the package
func (w *walker) extArgs(name string, c *ast.CallExpr) {
	wt := writeThrough[name]
	for i, a := range c.Args {
		written := false
		for _, k := range wt {
			if k == i {
				written = true
			}
		}
		if written {
			if _, ok := w.aliasRoot(a, true); ok {
				w.storeInto(a, c.Pos(), true)
				continue
			}
		}
		w.extValue(a)
	}
}

// extValue: a value handed to code outside the package; a slice/map that refers to a field's
// content is read there
func (w *walker) extValue(a ast.Expr) {
	v := w.expr(a)
	if v.fn != nil && v.fn.kind == "lit" {
		w.inlineLit(v.fn, nil, a.Pos())
	}
	w.contentRead(a, v, a.Pos())
}

// ---------------------------------------------------------------------------------- calls

func (w *walker) args(c *ast.CallExpr) {
	for _, a := range c.Args {
		w.escapingValue(a)
	}
}

func (w *walker) call(c *ast.CallExpr) val {
	info := w.t.l.info
	fun := unparen(c.Fun)
	if ix, ok := fun.(*ast.IndexExpr); ok { // generic instantiation
		if tv, ok2 := info.Types[ix.X]; ok2 {
			if _, isSig := tv.Type.(*types.Signature); isSig {
				fun = unparen(ix.X)
			}
		}
	}
	if tv, ok := info.Types[fun]; ok && tv.IsType() { // conversion
		w.exprs(c.Args)
		return val{}
	}
	switch f := fun.(type) {
	case *ast.Ident:
		switch o := info.ObjectOf(f).(type) {
		case *types.Builtin:
			return w.builtin(o.Name(), c)
		case *types.Func:
			if w.t.inPkg(o) {
				return w.callDecl(o, nil, c)
			}
			w.args(c)
			w.tau(c.Pos())
			return val{}
		case *types.Var:
			w.exprs(c.Args)
			if fv := w.fr.lookup(o); fv != nil {
				return w.callVal(fv, c)
			}
			// an unbound function-typed parameter of a thread root is a user callback
			if w.isRootParam(o) {
				w.t.userCallbacks[w.r.Name+":"+o.Name()] = true
				w.tau(c.Pos())
				return val{}
			}
			w.fatal(c.Pos(), "call of function value %s that is not bound to a known function", f.Name)
		case nil:
			w.args(c) // identifier of a third-party package
			w.tau(c.Pos())
			return val{}
		}
		w.fatal(c.Pos(), "unsupported callee %s", f.Name)
	case *ast.FuncLit:
		w.exprs(c.Args)
		return w.inlineLit(&funcVal{kind: "lit", lit: f, lex: w.fr}, c, c.Pos())
	case *ast.TypeAssertExpr:
		// callback.(OOBCallBackType)(data): a user callback loaded from an atomic.Value
		w.expr(f.X)
		w.exprs(c.Args)
		w.t.userCallbacks[w.r.Name+":"+w.t.pos(c.Pos())] = true
		w.tau(c.Pos())
		return val{}
	case *ast.SelectorExpr:
		return w.callSelector(f, c)
	}
	w.fatal(c.Pos(), "unsupported call shape %T", fun)
	return val{}
}

func (w *walker) isRootParam(o types.Object) bool { return w.rootParams[o] }

func (w *walker) callVal(fv *funcVal, c *ast.CallExpr) val {
	switch fv.kind {
	case "nop":
		w.tau(c.Pos())
		return val{}
	case "user":
		w.tau(c.Pos())
		return val{}
	case "lit":
		return w.inlineLit(fv, c, c.Pos())
	case "decl":
		return w.callDeclBound(fv.fn, fv.recv, fv.recvFrame, c)
	}
	w.fatal(c.Pos(), "unsupported function value kind %s", fv.kind)
	return val{}
}

func (w *walker) qualified(f *ast.SelectorExpr) (string, bool) {
	if id, ok := f.X.(*ast.Ident); ok {
		if pn, isPkg := w.t.l.info.ObjectOf(id).(*types.PkgName); isPkg {
			return pn.Imported().Path() + "." + f.Sel.Name, true
		}
	}
	return "", false
}

func (w *walker) callSelector(f *ast.SelectorExpr, c *ast.CallExpr) val {
	info := w.t.l.info
	if q, ok := w.qualified(f); ok {
		return w.external(q, c)
	}
	sel := info.Selections[f]
	if sel == nil {
		// method or field of a value of third-party type
		w.expr(f.X)
		w.args(c)
		w.t.externals["<third-party>."+f.Sel.Name]++
		w.tau(c.Pos())
		return val{}
	}
	switch sel.Kind() {
	case types.FieldVal:
		// call of a function-typed field
		loc, in := w.t.fieldOwner(sel)
		if !w.t.isLocalStructVar(f.X) {
			w.expr(f.X)
			if in {
				w.rd(loc, f.Sel.Pos())
			}
		}
		w.exprs(c.Args)
		switch loc.String() {
		case "KCP.output":
			if w.t.outputLit == nil {
				w.fatal(c.Pos(), "KCP.output called but the closure installed by newUDPSession was not found")
			}
			return w.inlineLit(&funcVal{kind: "lit", lit: w.t.outputLit, lex: nil}, c, c.Pos())
		case "timedFunc.execute":
			// the task runs as its own thread root (every function value handed to Put)
			w.tau(c.Pos())
			return val{}
		}
		w.fatal(c.Pos(), "call of function-typed field %s: not in the dictionary", loc)
	case types.MethodVal:
		fn := sel.Obj().(*types.Func)
		recvT := sel.Recv()
		if w.t.inPkg(fn) {
			if types.IsInterface(recvT) {
				return w.ifaceCall(f, fn, recvT, c)
			}
			return w.callDecl(fn, f.X, c)
		}
		// method of a standard-library type
		if k := syncKind(recvT); k != "" {
			return w.syncCall(k, f, c)
		}
		if types.IsInterface(recvT) {
			return w.ifaceCall(f, fn, recvT, c)
		}
		w.expr(f.X)
		w.extArgs(typeStr(deref(recvT))+"."+fn.Name(), c)
		w.t.externals[typeStr(deref(recvT))+"."+fn.Name()]++
		w.tau(c.Pos())
		return val{}
	}
	w.fatal(c.Pos(), "unsupported selector call")
	return val{}
}

// syncTarget resolves the field (or package variable) a synchronisation operation acts on.
func (w *walker) syncTarget(e ast.Expr, p token.Pos) (Loc, bool) {
	info := w.t.l.info
	switch x := unparen(e).(type) {
	case *ast.SelectorExpr:
		sel := info.Selections[x]
		if sel != nil && sel.Kind() == types.FieldVal {
			loc, in := w.t.fieldOwner(sel)
			if !in {
				w.expr(x.X)
				return Loc{}, false
			}
			if w.t.isLocalStructVar(x.X) {
				w.fatal(p, "synchronisation object %s inside a local struct value", loc)
			}
			w.expr(x.X)
			return loc, true
		}
	case *ast.Ident:
		if l, ok := w.t.pkgVar(x); ok {
			return l, true
		}
	}
	w.fatal(p, "synchronisation operation on an object that is neither a field nor a package variable")
	return Loc{}, false
}

func (w *walker) syncCall(kind string, f *ast.SelectorExpr, c *ast.CallExpr) val {
	loc, ok := w.syncTarget(f.X, c.Pos())
	m := f.Sel.Name
	switch kind {
	case "mutex", "rwmutex":
		if !ok {
			w.fatal(c.Pos(), "mutex outside the package")
		}
		act := map[string]string{"Lock": "Acq", "Unlock": "Rel", "RLock": "RAcq", "RUnlock": "RRel"}[m]
		if act == "" {
			w.fatal(c.Pos(), "unsupported mutex method %s", m)
		}
		w.emit(Act{act, loc}, c.Pos())
		return val{}
	case "once":
		if m != "Do" || len(c.Args) != 1 {
			w.fatal(c.Pos(), "unsupported sync.Once method %s", m)
		}
		if ok {
			w.emit(Act{"At", loc}, c.Pos())
		}
		v := w.expr(c.Args[0])
		if v.fn == nil {
			w.fatal(c.Pos(), "sync.Once.Do with an unknown function")
		}
		// the function runs at most once: either it runs here or it does not
		before := w.s
		w.callVal(v.fn, &ast.CallExpr{Fun: c.Args[0], Lparen: c.Lparen, Rparen: c.Rparen})
		after := w.s
		w.s = w.join(c.Pos(), "sync.Once.Do", before, after)
		return val{}
	case "atomic":
		w.args(c)
		if ok {
			w.emit(Act{"At", loc}, c.Pos())
		}
		return val{}
	}
	w.fatal(c.Pos(), "unsupported synchronisation type")
	return val{}
}

// implementers of an interface among the named types of the package
func (t *translator) implementers(iface *types.Interface) []*types.Named {
	var out []*types.Named
	sc := t.l.pkg.Scope()
	names := sc.Names()
	sort.Strings(names)
	for _, n := range names {
		tn, ok := sc.Lookup(n).(*types.TypeName)
		if !ok || tn.IsAlias() {
			continue
		}
		nt, ok := tn.Type().(*types.Named)
		if !ok || nt.TypeParams().Len() > 0 || types.IsInterface(nt) {
			continue
		}
		if types.Implements(nt, iface) || types.Implements(types.NewPointer(nt), iface) {
			out = append(out, nt)
		}
	}
	return out
}

func (w *walker) ifaceCall(f *ast.SelectorExpr, fn *types.Func, recvT types.Type, c *ast.CallExpr) val {
	name := typeStr(recvT)
	iface := recvT.Underlying().(*types.Interface)
	switch name {
	case "kcp.BlockCrypt":
		w.expr(f.X)
		w.exprs(c.Args)
		var ends []st
		start := w.s
		for _, nt := range w.t.implementers(iface) {
			w.s = start
			m := lookupMethod(nt, fn.Name())
			if m == nil {
				w.fatal(c.Pos(), "implementer %s lacks %s", nt.Obj().Name(), fn.Name())
			}
			w.callDeclBound(m, nil, nil, c)
			ends = append(ends, w.s)
		}
		w.s = w.join(c.Pos(), "interface dispatch "+name, ends...)
		return val{}
	case "kcp.batchConn", "kcp.setReadBuffer", "kcp.setWriteBuffer", "kcp.setDSCP", "kcp.udpConn":
		// values of these interfaces are obtained from net.PacketConn values supplied by the
		// caller / the net package; no type of package kcp implements net.PacketConn (checked)
		w.expr(f.X)
		w.args(c)
		w.t.externals[name+"."+fn.Name()]++
		w.tau(c.Pos())
		return val{}
	}
	if strings.HasPrefix(name, "kcp.") {
		w.fatal(c.Pos(), "call through in-package interface %s: not in the dictionary", name)
	}
	w.expr(f.X)
	w.extArgs(name+"."+fn.Name(), c)
	w.t.externals[name+"."+fn.Name()]++
	w.tau(c.Pos())
	return val{}
}

func lookupMethod(nt *types.Named, name string) *types.Func {
	for i := 0; i < nt.NumMethods(); i++ {
		if nt.Method(i).Name() == name {
			return nt.Method(i)
		}
	}
	return nil
}

func (w *walker) builtin(name string, c *ast.CallExpr) val {
	switch name {
	case "append":
		// append may write into the spare capacity of its first argument
		v := w.expr(c.Args[0])
		for _, l := range v.alias {
			w.wr(l, c.Pos())
		}
		for _, a := range c.Args[1:] {
			va := w.expr(a)
			if c.Ellipsis.IsValid() {
				w.contentRead(a, va, a.Pos())
			}
		}
		return val{alias: v.alias}
	case "copy":
		w.storeInto(c.Args[0], c.Pos(), true)
		v := w.expr(c.Args[1])
		w.contentRead(c.Args[1], v, c.Pos())
	case "delete":
		w.expr(c.Args[1])
		w.storeInto(c.Args[0], c.Pos(), true)
	case "clear":
		w.storeInto(c.Args[0], c.Pos(), true)
	case "len", "cap":
		v := w.expr(c.Args[0])
		if tv, ok := w.t.l.info.Types[c.Args[0]]; ok && tv.Type != nil {
			if _, isMap := tv.Type.Underlying().(*types.Map); isMap {
				w.contentRead(c.Args[0], v, c.Pos()) // len of a map reads the map itself
			}
		}
	case "close":
		w.expr(c.Args[0])
		w.tau(c.Pos())
	case "make", "new", "min", "max", "print", "println", "complex", "real", "imag":
		w.exprs(c.Args)
	case "panic":
		w.exprs(c.Args)
		w.s = st{dead: true}
	case "recover":
	default:
		w.fatal(c.Pos(), "unsupported builtin %s", name)
	}
	return val{}
}

// readOnlyPtrArg: external functions documented to only read through a pointer argument.
var readOnlyPtrArg = map[string]int{"golang.org/x/crypto/salsa20.XORKeyStream": 3}

func (w *walker) external(q string, c *ast.CallExpr) val {
	w.t.externals[q]++
	switch {
	case strings.HasPrefix(q, "sync/atomic."):
		if len(c.Args) == 0 {
			w.fatal(c.Pos(), "atomic call without arguments")
		}
		u, ok := unparen(c.Args[0]).(*ast.UnaryExpr)
		if !ok || u.Op != token.AND {
			w.fatal(c.Pos(), "%s: first argument is not &x", q)
		}
		w.exprs(c.Args[1:])
		if loc, ok := w.syncTarget(u.X, c.Pos()); ok {
			w.emit(Act{"At", loc}, c.Pos())
		}
		return val{}
	case q == "io.ReadFull":
		w.readerCall(c.Args[0], c)
		w.storeIntoIfField(c.Args[1], c.Pos())
		return val{}
	case strings.HasPrefix(q, "container/heap."):
		return w.heapCall(q[len("container/heap."):], c)
	}
	if i, ok := readOnlyPtrArg[q]; ok {
		for k, a := range c.Args {
			if u, isU := unparen(a).(*ast.UnaryExpr); k == i && isU && u.Op == token.AND {
				w.expr(u.X) // read only
				continue
			}
			if _, ok := w.aliasRoot(a, true); ok && k == 0 {
				w.storeInto(a, c.Pos(), true)
				continue
			}
			w.extValue(a)
		}
		w.tau(c.Pos())
		return val{}
	}
	wt := writeThrough[q]
	for i, a := range c.Args {
		written := false
		for _, k := range wt {
			if k == i {
				written = true
			}
		}
		if written {
			if _, ok := w.aliasRoot(a, true); ok {
				w.storeInto(a, c.Pos(), true)
				continue
			}
		}
		v := w.expr(a)
		w.contentRead(a, v, a.Pos())
		if v.fn != nil {
			if v.fn.kind == "lit" {
				w.inlineLit(v.fn, nil, a.Pos())
			} else if v.fn.kind == "decl" {
				w.fatal(c.Pos(), "function %s of the package handed to external %s: not in the dictionary", v.fn.fn.Name(), q)
			}
		}
	}
	w.tau(c.Pos())
	return val{}
}

// storeIntoIfField: the callee writes through this slice argument
func (w *walker) storeIntoIfField(e ast.Expr, p token.Pos) {
	switch x := unparen(e).(type) {
	case *ast.SliceExpr, *ast.IndexExpr, *ast.SelectorExpr, *ast.Ident:
		w.storeInto(x, p, true)
	default:
		w.expr(e)
	}
}

// readerCall: r.Read(...) for r of type io.Reader; only the package's entropy source is dispatched
func (w *walker) readerCall(r ast.Expr, c *ast.CallExpr) {
	if id, ok := unparen(r).(*ast.Ident); ok {
		if l, isVar := w.t.pkgVar(id); isVar && l.F == "entropy" {
			w.rd(l, id.Pos())
			var ends []st
			start := w.s
			for _, tn := range w.t.entropyTs {
				w.s = start
				nt := w.t.l.pkg.Scope().Lookup(tn).Type().(*types.Named)
				m := lookupMethod(nt, "Read")
				if m == nil {
					w.fatal(c.Pos(), "entropy type %s has no Read", tn)
				}
				w.callDeclBound(m, nil, nil, c)
				ends = append(ends, w.s)
			}
			// a reader installed by SetEntropy is user code
			ends = append(ends, start)
			w.s = w.join(c.Pos(), "entropy dispatch", ends...)
			return
		}
	}
	if _, ok := w.qualified2(r); ok {
		w.tau(c.Pos())
		return
	}
	w.fatal(c.Pos(), "io.ReadFull from a reader that is neither the package's entropy source nor an external variable")
}

func (w *walker) qualified2(e ast.Expr) (string, bool) {
	if s, ok := unparen(e).(*ast.SelectorExpr); ok {
		return w.qualified(s)
	}
	return "", false
}

// heapCall: container/heap calls back Len/Less/Swap/Push/Pop of its first argument
func (w *walker) heapCall(op string, c *ast.CallExpr) val {
	info := w.t.l.info
	h := c.Args[0]
	tv, ok := info.Types[h]
	if !ok || tv.Type == nil {
		w.fatal(c.Pos(), "heap.%s: untyped argument", op)
	}
	nt := namedOf(tv.Type)
	if nt == nil || nt.Obj().Pkg() != w.t.l.pkg {
		w.fatal(c.Pos(), "heap.%s on a type outside the package", op)
	}
	w.expr(h)
	w.exprs(c.Args[1:])
	methods := []string{"Len", "Less", "Swap"}
	switch op {
	case "Push":
		methods = append([]string{"Push"}, methods...)
	case "Pop", "Remove":
		methods = append(methods, "Pop")
	case "Init", "Fix":
	default:
		w.fatal(c.Pos(), "unsupported heap.%s", op)
	}
	// a loop that calls any of the methods any number of times
	if w.s.dead {
		return val{}
	}
	hn := w.r.newNode(w.s.ls)
	w.tauTo(hn, c.Pos(), "heap")
	head := st{node: hn, ls: w.s.ls}
	for _, mn := range methods {
		m := lookupMethod(nt, mn)
		if m == nil {
			w.fatal(c.Pos(), "heap.%s: %s has no method %s", op, nt.Obj().Name(), mn)
		}
		w.s = head
		w.callDeclBound(m, h, w.fr, &ast.CallExpr{Fun: c.Fun, Lparen: c.Lparen, Rparen: c.Rparen})
		w.tauTo(hn, c.Pos(), "heap callback "+mn)
	}
	w.s = head
	return val{}
}

// ---------------------------------------------------------------------------------- inlining

func (w *walker) declOf(fn *types.Func, p token.Pos) *ast.FuncDecl {
	d := w.t.decls[funcKey(fn)]
	if d == nil || d.Body == nil {
		w.fatal(p, "no body for function %s", funcKey(fn))
	}
	return d
}

func (w *walker) callDecl(fn *types.Func, recv ast.Expr, c *ast.CallExpr) val {
	if recv != nil {
		w.expr(recv)
	}
	var fvs []*funcVal
	for _, a := range c.Args {
		v := w.expr(a)
		fvs = append(fvs, v.fn)
	}
	return w.inlineDecl(fn, recv, w.fr, c.Args, fvs, c)
}

// callDeclBound: receiver and arguments already evaluated (method values, dispatch)
func (w *walker) callDeclBound(fn *types.Func, recv ast.Expr, recvFrame *frame, c *ast.CallExpr) val {
	var fvs []*funcVal
	for _, a := range c.Args {
		var fv *funcVal
		if fl, ok := unparen(a).(*ast.FuncLit); ok {
			fv = &funcVal{kind: "lit", lit: fl, lex: w.fr}
		} else if id, ok := unparen(a).(*ast.Ident); ok {
			if o := w.t.l.info.ObjectOf(id); o != nil {
				fv = w.fr.lookup(o)
			}
		}
		fvs = append(fvs, fv)
	}
	return w.inlineDecl(fn, recv, recvFrame, c.Args, fvs, c)
}

var topCtors = map[string]bool{"newUDPSession": true, "serveConn": true, "NewTimedSched": true}

func (w *walker) inlineDecl(fn *types.Func, recv ast.Expr, recvFrame *frame, args []ast.Expr, fvs []*funcVal, c *ast.CallExpr) val {
	key := funcKey(fn)
	d := w.declOf(fn, c.Pos())
	for _, s := range w.stack {
		if s == key {
			w.fatal(c.Pos(), "recursive call of %s", key)
		}
	}
	if w.s.dead {
		return val{}
	}
	// TimedSched.Put: its function argument is a thread root
	if key == "TimedSched.Put" && len(fvs) > 0 {
		if fvs[0] == nil || fvs[0].kind != "decl" {
			w.fatal(c.Pos(), "TimedSched.Put with a function value that is not a method/function of the package")
		}
		w.t.addRoot(rootReq{name: funcKey(fvs[0].fn), kind: "put", fn: fvs[0].fn, mo: true, mg: true,
			doc: "function value handed to TimedSched.Put at " + w.t.pos(c.Pos())})
		w.ctorSwitch()
		fvs[0] = nil
	}
	fr := &frame{name: key, binds: map[types.Object]*funcVal{}, ptrLocal: map[types.Object]bool{}, alias: map[types.Object][]Loc{}, labels: map[string]int{}}
	memoable := !w.mute
	aliasKey := ""
	// bind parameters
	sig := fn.Origin().Type().(*types.Signature)
	params := paramObjs(w.t.l.info, d)
	for i, po := range params {
		if i < len(fvs) && fvs[i] != nil {
			fr.binds[po] = fvs[i]
			memoable = false
		} else if i < len(args) && args[i] != nil && po != nil {
			if isAddrOfLocal(w.t, args[i]) {
				fr.ptrLocal[po] = true
				memoable = false
			}
			if isRefType(po.Type()) {
				if locs, ok := w.aliasRoot(args[i], true); ok {
					fr.alias[po] = locs
					aliasKey += fmt.Sprintf("|a%d=%v", i, locs)
				}
			}
		}
	}
	_ = sig
	if recv != nil && d.Recv != nil && len(d.Recv.List) == 1 && len(d.Recv.List[0].Names) == 1 {
		if ro := w.t.l.info.Defs[d.Recv.List[0].Names[0]]; ro != nil {
			if isAddrOfLocalIn(w.t, recv, recvFrame) {
				fr.ptrLocal[ro] = true
				memoable = false
			}
		}
	}
	if topCtors[key] {
		memoable = false
	}
	mk := key + "|" + w.s.ls.key() + aliasKey
	if memoable {
		if m, ok := w.memo[mk]; ok {
			w.tauTo(m.entry, c.Pos(), "call "+key)
			if !m.exitReached {
				w.s = st{dead: true}
				return val{}
			}
			cont := w.r.newNode(m.exitLS)
			w.s = st{node: m.exit, ls: m.exitLS}
			w.tauTo(cont, c.Pos(), "return from "+key)
			w.s = st{node: cont, ls: m.exitLS}
			return val{alias: m.retAlias}
		}
	}
	var ent *memoEnt
	if memoable {
		en := w.r.newNode(w.s.ls)
		w.tauTo(en, c.Pos(), "call "+key)
		w.s = st{node: en, ls: w.s.ls}
		ent = &memoEnt{entry: en}
		w.memo[mk] = ent
	}
	savedMute := w.mute
	if topCtors[key] && w.r.Kind == "main" {
		fr.ctorMode = "pub" // emitted into the publication thread up to the first go / Put
	} else if topCtors[key] {
		// a constructor called from an ordinary thread: its publication phase works on a fresh
		// object (modelled once, in the publication thread); the rest runs on this thread
		fr.ctorMode = "rest"
		w.mute = true
	}
	if d.Type.Results != nil {
		for _, f := range d.Type.Results.List {
			for _, n := range f.Names {
				fr.results = append(fr.results, w.t.l.info.Defs[n])
			}
		}
	}
	w.runFrame(fr, d.Body, key)
	w.mute = savedMute
	if ent != nil {
		ent.exit, ent.exitLS, ent.exitReached, ent.retAlias = fr.exit, fr.exitLS, fr.exitSet, fr.retAlias
		if fr.exitSet {
			cont := w.r.newNode(fr.exitLS)
			w.tauTo(cont, c.Pos(), "return from "+key)
			w.s = st{node: cont, ls: fr.exitLS}
		}
	}
	return val{alias: fr.retAlias}
}

func paramObjs(info *types.Info, d *ast.FuncDecl) []types.Object {
	var out []types.Object
	for _, f := range d.Type.Params.List {
		if len(f.Names) == 0 {
			out = append(out, nil)
		}
		for _, n := range f.Names {
			out = append(out, info.Defs[n])
		}
	}
	return out
}

func isAddrOfLocal(t *translator, e ast.Expr) bool {
	u, ok := unparen(e).(*ast.UnaryExpr)
	if !ok || u.Op != token.AND {
		return false
	}
	id, ok := unparen(u.X).(*ast.Ident)
	if !ok {
		return false
	}
	v, ok := t.l.info.ObjectOf(id).(*types.Var)
	return ok && !v.IsField() && v.Parent() != t.l.pkg.Scope()
}

func isAddrOfLocalIn(t *translator, e ast.Expr, fr *frame) bool {
	if isAddrOfLocal(t, e) {
		return true
	}
	// a pointer parameter that is itself bound to a caller's local
	if id, ok := unparen(e).(*ast.Ident); ok && fr != nil {
		if o := t.l.info.ObjectOf(id); o != nil && fr.isPtrLocal(o) {
			return true
		}
	}
	return false
}

// runFrame walks a function body as an inlined activation; afterwards the walker stands at the
// frame's exit node (or is dead when the function never returns).
func (w *walker) runFrame(fr *frame, body *ast.BlockStmt, name string) {
	saved := w.fr
	w.fr = fr
	w.stack = append(w.stack, name)
	w.r.Funcs[name] = true
	w.collectAliases(body)
	w.block(body.List, true)
	if !w.s.dead {
		w.doReturn(body.Rbrace)
	}
	w.stack = w.stack[:len(w.stack)-1]
	w.fr = saved
	if fr.exitSet {
		w.s = st{node: fr.exit, ls: fr.exitLS}
	} else {
		w.s = st{dead: true}
	}
}

func (w *walker) inlineLit(fv *funcVal, c *ast.CallExpr, p token.Pos) val {
	if w.s.dead {
		return val{}
	}
	name := "func@" + w.t.pos(fv.lit.Pos())
	for _, s := range w.stack {
		if s == name {
			w.fatal(p, "recursive closure %s", name)
		}
	}
	fr := &frame{name: name, parent: fv.lex, binds: map[types.Object]*funcVal{}, ptrLocal: map[types.Object]bool{}, alias: map[types.Object][]Loc{}, labels: map[string]int{}}
	if c != nil {
		i := 0
		for _, f := range fv.lit.Type.Params.List {
			for _, n := range f.Names {
				if i < len(c.Args) {
					if id, ok := unparen(c.Args[i]).(*ast.Ident); ok {
						if o := w.t.l.info.ObjectOf(id); o != nil {
							if b := w.fr.lookup(o); b != nil {
								fr.binds[w.t.l.info.Defs[n]] = b
							}
						}
					}
				}
				i++
			}
		}
	}
	w.runFrame(fr, fv.lit.Body, name)
	if fr.exitSet {
		cont := w.r.newNode(fr.exitLS)
		w.tauTo(cont, p, "return from closure")
		w.s = st{node: cont, ls: fr.exitLS}
	}
	return val{alias: fr.retAlias}
}

func (w *walker) doReturn(p token.Pos) {
	if w.s.dead {
		return
	}
	fr := w.fr
	for i := len(fr.defers) - 1; i >= 0; i-- {
		d := fr.defers[i]
		switch d.kind {
		case "act":
			w.emit(d.act, d.pos)
		case "lit":
			saved := fr.defers
			w.inlineLit(d.lit, nil, d.pos)
			fr.defers = saved
		}
	}
	if w.s.dead {
		return
	}
	if !fr.exitSet {
		fr.exit = w.r.newNode(w.s.ls)
		fr.exitLS = w.s.ls
		fr.exitSet = true
	}
	w.tauTo(fr.exit, p, "return of "+fr.name)
	w.s = st{dead: true}
}

// ctorSwitch: the first `go` / Put inside a top-level constructor ends its publication phase
func (w *walker) ctorSwitch() {
	for g := w.fr; g != nil; g = g.parent {
		switch g.ctorMode {
		case "pub":
			w.mute = true
			g.ctorMode = "pub-done"
			return
		case "rest":
			w.mute = false
			g.ctorMode = "rest-on"
			return
		}
	}
}

// ---------------------------------------------------------------------------------- local aliases

// sameFieldExpr: two expressions denote the same field of the same syntactic base
func (w *walker) sameFieldExpr(a, b ast.Expr) bool {
	sa, ok1 := unparen(a).(*ast.SelectorExpr)
	sb, ok2 := unparen(b).(*ast.SelectorExpr)
	if !ok1 || !ok2 {
		return false
	}
	s1, s2 := w.t.l.info.Selections[sa], w.t.l.info.Selections[sb]
	if s1 == nil || s2 == nil || s1.Obj() != s2.Obj() {
		return false
	}
	return types.ExprString(sa.X) == types.ExprString(sb.X)
}

func rootIdent(e ast.Expr) *ast.Ident {
	for {
		switch x := unparen(e).(type) {
		case *ast.SliceExpr:
			e = x.X
		case *ast.IndexExpr:
			e = x.X
		case *ast.Ident:
			return x
		default:
			return nil
		}
	}
}

// collectAliases: flow-insensitive pre-pass over a function body.  A local assigned from a
// slice/map-typed field (x := r.f, x = r.f[a:b], x := y with y such a local, a range value of
// slice/map type) refers to the field's CONTENT for the whole function: every later element
// access through it is an access to that content location with the locks held at that point.
//
// Exchange idiom (ownership transfer): in one parallel assignment  a, r.f = r.f, <expr rooted at a>
// the local a takes over the old content while the field receives the buffer the local owned
// before; the old content is no longer reachable through the field, so a does NOT become an
// alias (the header write r.f = ... is recorded and must satisfy the discipline like any other,
// which puts the exchange inside the critical sections that guard the content).
func (w *walker) collectAliases(body *ast.BlockStmt) {
	info := w.t.l.info
	fr := w.fr
	bind := func(id *ast.Ident, rhs ast.Expr) bool {
		if id == nil || id.Name == "_" {
			return false
		}
		o := info.ObjectOf(id)
		v, isVar := o.(*types.Var)
		if !isVar || v.IsField() || v.Parent() == w.t.l.pkg.Scope() || !isRefType(v.Type()) {
			return false
		}
		locs, ok := w.aliasRoot(rhs, true)
		if !ok {
			return false
		}
		var ch bool
		fr.alias[o], ch = addLocs(fr.alias[o], locs...)
		return ch
	}
	for iter := 0; iter < 8; iter++ {
		changed := false
		ast.Inspect(body, func(n ast.Node) bool {
			switch x := n.(type) {
			case *ast.AssignStmt:
				if len(x.Lhs) != len(x.Rhs) {
					return true
				}
				for i, l := range x.Lhs {
					id, _ := unparen(l).(*ast.Ident)
					if id == nil {
						continue
					}
					// exchange idiom
					detached := false
					for j, l2 := range x.Lhs {
						if j != i && w.sameFieldExpr(l2, x.Rhs[i]) {
							if r := rootIdent(x.Rhs[j]); r != nil && info.ObjectOf(r) == info.ObjectOf(id) {
								detached = true
							}
						}
					}
					if detached {
						continue
					}
					if bind(id, x.Rhs[i]) {
						changed = true
					}
				}
			case *ast.ValueSpec:
				if len(x.Names) == len(x.Values) {
					for i, nme := range x.Names {
						if bind(nme, x.Values[i]) {
							changed = true
						}
					}
				}
			case *ast.RangeStmt:
				if id, ok := x.Value.(*ast.Ident); ok && x.Value != nil {
					if bind(id, x.X) {
						changed = true
					}
				}
			}
			return true
		})
		if !changed {
			return
		}
	}
	w.fatal(body.Pos(), "alias propagation did not reach a fixed point")
}
