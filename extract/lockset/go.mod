module verifextractlockset

go 1.24
