package main

import (
	"fmt"
	"go/ast"
	"go/build"
	"go/importer"
	"go/parser"
	"go/token"
	"go/types"
	"path/filepath"
	"sort"
	"strings"
)

// hybridImporter type-checks the standard library from source (GOROOT only, no network, no
// module cache) and replaces every other import by an empty package: expressions that involve
// third-party packages get an invalid type and are treated as "external" by the walker.
type hybridImporter struct {
	src   types.Importer
	fake  map[string]*types.Package
	faked []string
}

func (h *hybridImporter) Import(path string) (*types.Package, error) {
	first := strings.Split(path, "/")[0]
	if !strings.Contains(first, ".") {
		if p, err := h.src.Import(path); err == nil {
			return p, nil
		}
	}
	if p, ok := h.fake[path]; ok {
		return p, nil
	}
	name := path[strings.LastIndex(path, "/")+1:]
	p := types.NewPackage(path, name)
	p.MarkComplete()
	h.fake[path] = p
	h.faked = append(h.faked, path)
	return p, nil
}

type loaded struct {
	fset  *token.FileSet
	files []*ast.File
	names []string
	info  *types.Info
	pkg   *types.Package
	faked []string
	nerr  int
}

// load parses the files of package kcp that the production build selects for linux/amd64
// (no build tags: kcp_trace_off.go, *_linux.go, verif_hooks_off.go) and type-checks them.
func load(repo string) (*loaded, error) {
	fset := token.NewFileSet()
	ctx := build.Default
	ctx.GOOS, ctx.GOARCH, ctx.CgoEnabled = "linux", "amd64", false
	ctx.BuildTags = nil
	build.Default.CgoEnabled = false
	all, err := filepath.Glob(filepath.Join(repo, "*.go"))
	if err != nil {
		return nil, err
	}
	sort.Strings(all)
	l := &loaded{fset: fset}
	for _, n := range all {
		if strings.HasSuffix(n, "_test.go") {
			continue
		}
		ok, err := ctx.MatchFile(repo, filepath.Base(n))
		if err != nil {
			return nil, err
		}
		if !ok {
			continue
		}
		f, err := parser.ParseFile(fset, n, nil, parser.ParseComments)
		if err != nil {
			return nil, err
		}
		l.files = append(l.files, f)
		l.names = append(l.names, filepath.Base(n))
	}
	if len(l.files) == 0 {
		return nil, fmt.Errorf("no Go files selected in %s", repo)
	}
	h := &hybridImporter{src: importer.ForCompiler(fset, "source", nil), fake: map[string]*types.Package{}}
	conf := types.Config{Importer: h, Error: func(error) { l.nerr++ }, FakeImportC: true}
	l.info = &types.Info{
		Defs: map[*ast.Ident]types.Object{}, Uses: map[*ast.Ident]types.Object{},
		Types: map[ast.Expr]types.TypeAndValue{}, Selections: map[*ast.SelectorExpr]*types.Selection{},
		Implicits: map[ast.Node]types.Object{}, Instances: map[*ast.Ident]types.Instance{},
	}
	l.pkg, _ = conf.Check("kcp", fset, l.files, l.info)
	l.faked = h.faked
	if l.pkg == nil {
		return nil, fmt.Errorf("type check produced no package")
	}
	return l, nil
}
