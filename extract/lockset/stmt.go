package main

import (
	"go/ast"
	"go/constant"
	"go/token"
	"go/types"
)

func (w *walker) block(list []ast.Stmt, tail bool) {
	for i, s := range list {
		if w.s.dead {
			// code after return/goto is reachable only through labels
			if _, ok := s.(*ast.LabeledStmt); !ok {
				continue
			}
		}
		w.stmt(s, tail && i == len(list)-1)
	}
}

// finishTail: in tail position the end of a branch is the end of the function
func (w *walker) finishTail(tail bool, p token.Pos) {
	if tail && !w.s.dead {
		w.doReturn(p)
	}
}

func (w *walker) constBool(e ast.Expr) (bool, bool) {
	if tv, ok := w.t.l.info.Types[e]; ok && tv.Value != nil && tv.Value.Kind() == constant.Bool {
		return constant.BoolVal(tv.Value), true
	}
	return false, false
}

func (w *walker) pushCtx(c *breakCtx) { w.fr.ctxs = append(w.fr.ctxs, c) }
func (w *walker) popCtx()             { w.fr.ctxs = w.fr.ctxs[:len(w.fr.ctxs)-1] }

func (w *walker) stmt(s ast.Stmt, tail bool) {
	switch x := s.(type) {
	case nil:
	case *ast.EmptyStmt:
	case *ast.ExprStmt:
		w.expr(x.X)
	case *ast.DeclStmt:
		gd := x.Decl.(*ast.GenDecl)
		if gd.Tok == token.VAR {
			for _, sp := range gd.Specs {
				vs := sp.(*ast.ValueSpec)
				for i, v := range vs.Values {
					val := w.expr(v)
					if val.fn != nil && i < len(vs.Names) {
						w.fr.binds[w.t.l.info.Defs[vs.Names[i]]] = val.fn
					}
				}
			}
		}
	case *ast.AssignStmt:
		w.assign(x)
	case *ast.IncDecStmt:
		w.expr(x.X)
		w.storeInto(x.X, x.Pos(), false)
	case *ast.SendStmt:
		w.expr(x.Chan)
		w.escapingAlias(x.Value, "a channel")
		w.tau(x.Pos())
	case *ast.GoStmt:
		w.goStmt(x)
	case *ast.DeferStmt:
		w.deferStmt(x)
	case *ast.ReturnStmt:
		for _, r := range x.Results {
			v := w.expr(r)
			if tv, ok := w.t.l.info.Types[r]; ok && isRefType(tv.Type) {
				w.fr.retAlias, _ = addLocs(w.fr.retAlias, v.alias...)
			}
		}
		if len(x.Results) == 0 {
			for _, ro := range w.fr.results {
				if ro != nil && isRefType(ro.Type()) {
					if ls, ok := w.fr.aliasOf(ro); ok {
						w.fr.retAlias, _ = addLocs(w.fr.retAlias, ls...)
					}
				}
			}
		}
		w.doReturn(x.Pos())
	case *ast.BlockStmt:
		w.fr.depth++
		w.block(x.List, tail)
		w.fr.depth--
	case *ast.LabeledStmt:
		name := x.Label.Name
		if n, ok := w.fr.labels[name]; ok {
			w.tauTo(n, x.Pos(), "label "+name)
			w.s = st{node: n, ls: w.r.nodeLS[n]}
		} else {
			if w.s.dead {
				w.fatal(x.Pos(), "label %s reached only by later gotos", name)
			}
			n := w.r.newNode(w.s.ls)
			w.tauTo(n, x.Pos(), "label "+name)
			w.fr.labels[name] = n
			w.s = st{node: n, ls: w.s.ls}
		}
		switch inner := x.Stmt.(type) {
		case *ast.ForStmt:
			w.forStmt(inner, name)
		case *ast.RangeStmt:
			w.rangeStmt(inner, name)
		case *ast.SelectStmt:
			w.selectStmt(inner, name, tail)
		case *ast.SwitchStmt:
			w.switchStmt(inner, name, tail)
		default:
			w.stmt(x.Stmt, tail)
		}
	case *ast.BranchStmt:
		w.branch(x)
	case *ast.IfStmt:
		w.ifStmt(x, tail)
	case *ast.ForStmt:
		w.forStmt(x, "")
	case *ast.RangeStmt:
		w.rangeStmt(x, "")
	case *ast.SwitchStmt:
		w.switchStmt(x, "", tail)
	case *ast.TypeSwitchStmt:
		w.typeSwitchStmt(x, tail)
	case *ast.SelectStmt:
		w.selectStmt(x, "", tail)
	default:
		w.fatal(s.Pos(), "unsupported statement %T", s)
	}
}

func (w *walker) assign(x *ast.AssignStmt) {
	info := w.t.l.info
	var vals []val
	for _, r := range x.Rhs {
		vals = append(vals, w.expr(r))
	}
	if x.Tok != token.ASSIGN && x.Tok != token.DEFINE { // op=
		w.expr(x.Lhs[0])
	}
	// x.g = <value referring to the content of x.f> / <alias>[k] = <such a value>: from now on the
	// two content locations denote the same memory: they are merged (for the whole summary)
	if len(x.Lhs) == len(x.Rhs) {
		for i, l := range x.Lhs {
			if tv, ok := info.Types[x.Rhs[i]]; !ok || !isRefType(tv.Type) || len(vals[i].alias) == 0 {
				continue
			}
			var dst []Loc
			switch lx := unparen(l).(type) {
			case *ast.SelectorExpr:
				dst, _ = w.aliasRoot(lx, true)
			case *ast.IndexExpr:
				dst, _ = w.aliasRoot(lx.X, true)
			}
			for _, d := range dst {
				for _, a := range vals[i].alias {
					if w.t.class(d) != w.t.class(a) {
						w.fatal(x.Pos(), "content of %s (%s) and of %s (%s) become the same memory", d, w.t.class(d), a, w.t.class(a))
					}
					w.t.union(d, a)
				}
			}
		}
	}
	for i, l := range x.Lhs {
		if id, ok := unparen(l).(*ast.Ident); ok {
			o := info.ObjectOf(id)
			if i < len(vals) && len(x.Lhs) == len(x.Rhs) && vals[i].fn != nil && o != nil {
				if _, isPkg := w.t.pkgVar(id); !isPkg {
					w.fr.binds[o] = vals[i].fn
				}
			}
			// x := f(...) where the callee returns a slice/map that refers to a field's content
			if o != nil && isRefType(o.Type()) {
				var src []Loc
				if len(x.Lhs) == len(x.Rhs) && i < len(vals) {
					if _, isCall := unparen(x.Rhs[i]).(*ast.CallExpr); isCall {
						src = vals[i].alias
					}
				} else if len(x.Rhs) == 1 && len(vals) == 1 {
					src = vals[0].alias
				}
				if len(src) > 0 {
					if _, isPkg := w.t.pkgVar(id); !isPkg {
						w.fr.alias[o], _ = addLocs(w.fr.alias[o], src...)
					}
				}
			}
			// p := &local  /  p := <pointer bound to a local>
			if i < len(x.Rhs) && len(x.Lhs) == len(x.Rhs) && o != nil && isAddrOfLocalIn(w.t, x.Rhs[i], w.fr) {
				w.fr.ptrLocal[o] = true
			}
		}
		if x.Tok == token.DEFINE {
			if id, ok := unparen(l).(*ast.Ident); ok && info.Defs[id] != nil {
				continue // a new local
			}
		}
		w.storeInto(l, x.Pos(), false)
	}
}

func (w *walker) goStmt(x *ast.GoStmt) {
	info := w.t.l.info
	c := x.Call
	w.exprs(c.Args)
	switch f := unparen(c.Fun).(type) {
	case *ast.SelectorExpr:
		sel := info.Selections[f]
		if sel != nil && sel.Kind() == types.MethodVal {
			fn := sel.Obj().(*types.Func)
			if w.t.inPkg(fn) && !types.IsInterface(sel.Recv()) {
				w.expr(f.X)
				key := funcKey(fn)
				mo, mg := false, true
				switch key {
				case "TimedSched.sched":
					mo, mg = true, true
				case "TimedSched.prepend":
					mo, mg = false, false
				}
				inLoop := false
				for _, c := range w.fr.ctxs {
					if c.isLoop {
						inLoop = true
					}
				}
				if inLoop && !mo {
					w.fatal(x.Pos(), "go %s inside a loop: multiplicity not in the dictionary", key)
				}
				w.t.addRoot(rootReq{name: key, kind: "go", fn: fn, mo: mo, mg: mg, doc: "go statement at " + w.t.pos(x.Pos())})
				w.ctorSwitch()
				w.tau(x.Pos())
				return
			}
		}
	case *ast.Ident:
		if fn, ok := info.ObjectOf(f).(*types.Func); ok && w.t.inPkg(fn) {
			w.t.addRoot(rootReq{name: funcKey(fn), kind: "go", fn: fn, mo: true, mg: true, doc: "go statement at " + w.t.pos(x.Pos())})
			w.ctorSwitch()
			w.tau(x.Pos())
			return
		}
	}
	w.fatal(x.Pos(), "unsupported go statement (callee is not a function or method of the package)")
}

func (w *walker) deferStmt(x *ast.DeferStmt) {
	info := w.t.l.info
	c := x.Call
	switch f := unparen(c.Fun).(type) {
	case *ast.SelectorExpr:
		if sel := info.Selections[f]; sel != nil && sel.Kind() == types.MethodVal {
			if k := syncKind(sel.Recv()); k == "mutex" || k == "rwmutex" {
				loc, ok := w.syncTarget(f.X, x.Pos())
				act := map[string]string{"Unlock": "Rel", "RUnlock": "RRel"}[f.Sel.Name]
				if !ok || act == "" {
					w.fatal(x.Pos(), "unsupported deferred mutex operation %s", f.Sel.Name)
				}
				w.fr.defers = append(append([]deferItem{}, w.fr.defers...), deferItem{kind: "act", act: Act{act, loc}, pos: x.Pos()})
				return
			}
			fn := sel.Obj().(*types.Func)
			if w.t.inPkg(fn) {
				w.fatal(x.Pos(), "deferred call of package function %s: not supported", fn.Name())
			}
		}
		// deferred call outside the package (timer.Stop): evaluate the receiver now
		w.expr(f.X)
		w.exprs(c.Args)
		return
	case *ast.FuncLit:
		w.exprs(c.Args)
		w.fr.defers = append(append([]deferItem{}, w.fr.defers...), deferItem{kind: "lit", lit: &funcVal{kind: "lit", lit: f, lex: w.fr}, pos: x.Pos()})
		return
	}
	w.fatal(x.Pos(), "unsupported defer statement")
}

func (w *walker) findCtx(label string, needLoop bool) *breakCtx {
	for i := len(w.fr.ctxs) - 1; i >= 0; i-- {
		c := w.fr.ctxs[i]
		if label != "" {
			if c.label == label {
				return c
			}
			continue
		}
		if !needLoop || c.isLoop {
			return c
		}
	}
	return nil
}

func (w *walker) branch(x *ast.BranchStmt) {
	label := ""
	if x.Label != nil {
		label = x.Label.Name
	}
	switch x.Tok {
	case token.BREAK:
		c := w.findCtx(label, false)
		if c == nil {
			w.fatal(x.Pos(), "break outside a breakable statement of this function")
		}
		c.breaks = append(c.breaks, w.s)
		w.s = st{dead: true}
	case token.CONTINUE:
		c := w.findCtx(label, true)
		if c == nil {
			w.fatal(x.Pos(), "continue outside a loop of this function")
		}
		w.tauTo(c.contNode, x.Pos(), "continue")
		w.s = st{dead: true}
	case token.GOTO:
		if n, ok := w.fr.labels[label]; ok {
			w.tauTo(n, x.Pos(), "goto "+label)
		} else {
			if w.s.dead {
				return
			}
			n := w.r.newNode(w.s.ls)
			w.fr.labels[label] = n
			w.tauTo(n, x.Pos(), "goto "+label)
		}
		w.s = st{dead: true}
	case token.FALLTHROUGH:
		// handled by switchStmt
	}
}

// withDefers runs a branch and checks that it registers no defer that outlives it differently
func (w *walker) runBranch(start st, defers []deferItem, body func()) (st, []deferItem) {
	w.s = start
	w.fr.defers = defers
	w.fr.depth++
	body()
	w.fr.depth--
	return w.s, w.fr.defers
}

func (w *walker) joinBranches(p token.Pos, what string, ends []st, dfs [][]deferItem) {
	var alive []st
	n := -1
	var keep []deferItem
	for i, e := range ends {
		if e.dead {
			continue
		}
		alive = append(alive, e)
		if n < 0 {
			n = len(dfs[i])
			keep = dfs[i]
		} else if len(dfs[i]) != n {
			w.fatal(p, "%s: branches register different deferred calls", what)
		}
	}
	w.s = w.join(p, what, alive...)
	if n >= 0 {
		w.fr.defers = keep
	}
}

func (w *walker) ifStmt(x *ast.IfStmt, tail bool) {
	w.stmt(x.Init, false)
	w.expr(x.Cond)
	start, d0 := w.s, w.fr.defers
	cv, isConst := w.constBool(x.Cond)
	var ends []st
	var dfs [][]deferItem
	if !isConst || cv {
		e, d := w.runBranch(start, d0, func() { w.block(x.Body.List, tail); w.finishTail(tail, x.Body.Rbrace) })
		ends, dfs = append(ends, e), append(dfs, d)
	}
	if !isConst || !cv {
		e, d := w.runBranch(start, d0, func() {
			if x.Else != nil {
				w.stmt(x.Else, tail)
				w.finishTail(tail, x.Else.End())
			}
		})
		ends, dfs = append(ends, e), append(dfs, d)
	}
	w.joinBranches(x.Pos(), "if", ends, dfs)
}

// loop builds: head H; body; continue node C; post; back to H; exit = cond false + breaks
func (w *walker) loop(p token.Pos, label string, hasCond bool, cond func(), body func(), post func()) {
	if w.s.dead {
		return
	}
	h := w.r.newNode(w.s.ls)
	w.tauTo(h, p, "loop head")
	w.s = st{node: h, ls: w.s.ls}
	if cond != nil {
		cond()
	}
	afterCond := w.s
	ctx := &breakCtx{label: label, isLoop: true}
	ctx.contNode = w.r.newNode(afterCond.ls)
	w.pushCtx(ctx)
	d0 := w.fr.defers
	w.fr.depth++
	body()
	w.fr.depth--
	if len(w.fr.defers) != len(d0) {
		w.fatal(p, "defer inside a loop body")
	}
	w.popCtx()
	w.tauTo(ctx.contNode, p, "end of loop body")
	w.s = st{node: ctx.contNode, ls: afterCond.ls}
	if post != nil {
		post()
	}
	w.tauTo(h, p, "loop back edge")
	exits := ctx.breaks
	if hasCond {
		exits = append(exits, afterCond)
	}
	w.s = w.join(p, "loop exit", exits...)
}

func (w *walker) forStmt(x *ast.ForStmt, label string) {
	w.stmt(x.Init, false)
	var cond func()
	if x.Cond != nil {
		cond = func() { w.expr(x.Cond) }
	}
	w.loop(x.Pos(), label, x.Cond != nil, cond, func() { w.block(x.Body.List, false) }, func() { w.stmt(x.Post, false) })
}

func (w *walker) rangeStmt(x *ast.RangeStmt, label string) {
	info := w.t.l.info
	// range over a function (iterator method): the iterator's body and the loop body alternate
	if tv, ok := info.Types[x.X]; ok && tv.Type != nil {
		if _, isFn := tv.Type.Underlying().(*types.Signature); isFn {
			v := w.expr(x.X)
			if v.fn == nil || v.fn.kind != "decl" {
				w.fatal(x.Pos(), "range over a function that is not a method of the package")
			}
			d := w.declOf(v.fn.fn, x.Pos())
			params := paramObjs(info, d)
			if len(params) != 1 {
				w.fatal(x.Pos(), "iterator %s: unexpected signature", v.fn.fn.Name())
			}
			w.loop(x.Pos(), label, true, nil, func() {
				start := w.s
				// one run of the iterator with yield as a no-op
				w.inlineDecl(v.fn.fn, v.fn.recv, v.fn.recvFrame, []ast.Expr{nil}, []*funcVal{{kind: "nop"}}, &ast.CallExpr{Fun: x.X, Lparen: x.Pos(), Rparen: x.Pos()})
				afterIter := w.s
				w.s = start
				w.block(x.Body.List, false)
				w.s = w.join(x.Pos(), "range-over-func", afterIter, w.s)
			}, nil)
			return
		}
	}
	rv := w.expr(x.X)
	w.contentRead(x.X, rv, x.Pos()) // iteration reads the content
	w.loop(x.Pos(), label, true, nil, func() {
		if x.Tok == token.ASSIGN {
			if x.Key != nil {
				w.storeInto(x.Key, x.Pos(), false)
			}
			if x.Value != nil {
				w.storeInto(x.Value, x.Pos(), false)
			}
		}
		w.block(x.Body.List, false)
	}, nil)
}

func (w *walker) clauses(p token.Pos, what, label string, tail bool, n int, hasDefault bool, run func(i int), fallsThrough func(i int) bool) {
	start, d0 := w.s, w.fr.defers
	ctx := &breakCtx{label: label}
	w.pushCtx(ctx)
	var ends []st
	var dfs [][]deferItem
	var carry *st
	for i := 0; i < n; i++ {
		i := i
		s0 := start
		if carry != nil {
			w.s = start
			s0 = w.join(p, what+" fallthrough", start, *carry)
			carry = nil
		}
		e, d := w.runBranch(s0, d0, func() { run(i) })
		if fallsThrough != nil && fallsThrough(i) {
			ec := e
			carry = &ec
			continue
		}
		w.s = e
		w.fr.defers = d
		w.finishTail(tail, p)
		ends, dfs = append(ends, w.s), append(dfs, d)
	}
	w.popCtx()
	for _, b := range ctx.breaks {
		w.s = b
		w.fr.defers = d0
		w.finishTail(tail, p)
		ends, dfs = append(ends, w.s), append(dfs, d0)
	}
	if !hasDefault {
		ends, dfs = append(ends, start), append(dfs, d0)
	}
	w.joinBranches(p, what, ends, dfs)
}

func (w *walker) switchStmt(x *ast.SwitchStmt, label string, tail bool) {
	w.stmt(x.Init, false)
	w.expr(x.Tag)
	hasDefault := false
	for _, c := range x.Body.List {
		cc := c.(*ast.CaseClause)
		if cc.List == nil {
			hasDefault = true
		}
		w.exprs(cc.List)
	}
	w.clauses(x.Pos(), "switch", label, tail, len(x.Body.List), hasDefault, func(i int) {
		w.block(x.Body.List[i].(*ast.CaseClause).Body, tail)
	}, func(i int) bool {
		b := x.Body.List[i].(*ast.CaseClause).Body
		if len(b) == 0 {
			return false
		}
		br, ok := b[len(b)-1].(*ast.BranchStmt)
		return ok && br.Tok == token.FALLTHROUGH
	})
}

func (w *walker) typeSwitchStmt(x *ast.TypeSwitchStmt, tail bool) {
	w.stmt(x.Init, false)
	switch a := x.Assign.(type) {
	case *ast.AssignStmt:
		w.expr(a.Rhs[0])
	case *ast.ExprStmt:
		w.expr(a.X)
	}
	hasDefault := false
	for _, c := range x.Body.List {
		if c.(*ast.CaseClause).List == nil {
			hasDefault = true
		}
	}
	w.clauses(x.Pos(), "type switch", "", tail, len(x.Body.List), hasDefault, func(i int) {
		w.block(x.Body.List[i].(*ast.CaseClause).Body, tail)
	}, nil)
}

func (w *walker) selectStmt(x *ast.SelectStmt, label string, tail bool) {
	// a select without default blocks until one case is ready: every case is a branch
	w.clauses(x.Pos(), "select", label, tail, len(x.Body.List), true, func(i int) {
		cc := x.Body.List[i].(*ast.CommClause)
		switch c := cc.Comm.(type) {
		case nil:
		case *ast.SendStmt:
			w.stmt(c, false)
		case *ast.ExprStmt:
			w.expr(c.X)
		case *ast.AssignStmt:
			w.assign(c)
		}
		w.block(cc.Body, tail)
	}, nil)
}
