// verif-extract-lockset: reads the current sources of package kcp and emits the lock / access
// summary of every thread root as control-flow graphs over
//
//	Acq m | Rel m | RAcq m | RRel m | Rd x | Wr x | At x | Tau
//
// into coq/lockset/GenAccess.v (and a JSON side file with the access sites, for the race
// harness).  Fails (exit 1) on every construct it does not recognise.
//
//	verif-extract-lockset <repo> <out.v> <out.json>
package main

import (
	"encoding/json"
	"fmt"
	"go/ast"
	"go/token"
	"go/types"
	"os"
	"sort"
	"strings"
)

func die(format string, a ...any) {
	fmt.Fprintf(os.Stderr, "verif-extract-lockset: "+format+"\n", a...)
	os.Exit(1)
}

func (t *translator) addRoot(r rootReq) {
	if t.seenRoot[r.kind+":"+r.name] {
		return
	}
	t.seenRoot[r.kind+":"+r.name] = true
	t.pending = append(t.pending, r)
}

func isDeprecated(d *ast.FuncDecl) bool {
	return d.Doc != nil && strings.Contains(strings.ToLower(d.Doc.Text()), "deprecated")
}

func main() {
	if len(os.Args) != 4 {
		die("usage: verif-extract-lockset <repo> <out.v> <out.json>")
	}
	l, err := load(os.Args[1])
	if err != nil {
		die("%v", err)
	}
	t := &translator{l: l, decls: map[string]*ast.FuncDecl{}, seenRoot: map[string]bool{}, userCallbacks: map[string]bool{}, externals: map[string]int{}, uf: map[Loc]Loc{}}
	// function declarations
	for _, f := range l.files {
		for _, d := range f.Decls {
			fd, ok := d.(*ast.FuncDecl)
			if !ok {
				continue
			}
			fn, ok := l.info.Defs[fd.Name].(*types.Func)
			if !ok {
				continue
			}
			if fd.Name.Name == "init" && fd.Recv == nil {
				continue
			}
			k := funcKey(fn)
			if _, dup := t.decls[k]; dup {
				die("duplicate function %s", k)
			}
			t.decls[k] = fd
		}
	}
	for _, need := range []string{"UDPSession", "Listener", "KCP", "TimedSched", "bufferPool", "blockCrypt", "rngAES", "rngChacha8"} {
		if _, ok := l.pkg.Scope().Lookup(need).(*types.TypeName); !ok {
			die("type %s not found", need)
		}
	}
	t.computeOwnTypes()
	t.findOutputClosure()
	t.findEntropyTypes()
	t.checkNoPacketConnImpl()

	// ---- the publication thread: package initialisation, then the constructors up to their first go/Put
	mainR := newRootCFG("main", "main", false, false)
	mainR.Doc = "publication: package variable initialisers, init(), and newUDPSession / serveConn / NewTimedSched up to their first go statement"
	mw := t.newWalker(mainR)
	mw.stack = []string{"<package init>"}
	for _, f := range l.files {
		for _, d := range f.Decls {
			gd, ok := d.(*ast.GenDecl)
			if !ok || gd.Tok != token.VAR {
				continue
			}
			for _, sp := range gd.Specs {
				vs := sp.(*ast.ValueSpec)
				for _, v := range vs.Values {
					mw.escapingValue(v)
				}
				if len(vs.Values) > 0 {
					for _, n := range vs.Names {
						mw.storeInto(n, n.Pos(), false)
					}
				}
			}
		}
	}
	for _, f := range l.files {
		for _, d := range f.Decls {
			if fd, ok := d.(*ast.FuncDecl); ok && fd.Name.Name == "init" && fd.Recv == nil {
				fr := &frame{name: "init", binds: map[types.Object]*funcVal{}, ptrLocal: map[types.Object]bool{}, alias: map[types.Object][]Loc{}, labels: map[string]int{}}
				mw.runFrame(fr, fd.Body, "init@"+t.pos(fd.Pos()))
			}
		}
	}
	for _, c := range []string{"newUDPSession", "serveConn"} {
		fd := t.decls[c]
		if fd == nil {
			die("constructor %s not found", c)
		}
		fr := &frame{name: c, binds: map[types.Object]*funcVal{}, ptrLocal: map[types.Object]bool{}, alias: map[types.Object][]Loc{}, labels: map[string]int{}, ctorMode: "pub"}
		mw.mute = false
		mw.runFrame(fr, fd.Body, c)
		if fr.ctorMode != "pub-done" {
			// no go statement: the whole constructor is publication
		}
		mw.mute = false
		if mw.s.dead {
			die("constructor %s does not return", c)
		}
		// the remainder of the constructor (after the first go) is an ordinary thread
		t.addRoot(rootReq{name: c, kind: "ctor", fn: l.info.Defs[fd.Name].(*types.Func), mo: true, mg: true,
			doc: "remainder of constructor " + c + " after its first go statement (runs on the creating goroutine)"})
	}
	t.roots = append(t.roots, mainR)

	// ---- API roots: exported, non-deprecated methods of UDPSession and Listener
	for _, tn := range []string{"UDPSession", "Listener"} {
		nt := l.pkg.Scope().Lookup(tn).Type().(*types.Named)
		var ms []string
		for i := 0; i < nt.NumMethods(); i++ {
			ms = append(ms, nt.Method(i).Name())
		}
		sort.Strings(ms)
		for _, mn := range ms {
			m := lookupMethod(nt, mn)
			if !m.Exported() {
				continue
			}
			fd := t.decls[funcKey(m)]
			if fd == nil {
				die("no declaration for %s", funcKey(m))
			}
			if isDeprecated(fd) {
				continue
			}
			t.addRoot(rootReq{name: funcKey(m), kind: "api", fn: m, mo: true, mg: true, doc: "exported method (any number of concurrent callers)"})
		}
	}
	if t.outputLit != nil {
		t.addRoot(rootReq{name: "output-closure", kind: "closure", lit: t.outputLit, mo: true, mg: true,
			doc: "the output callback installed by newUDPSession (also inlined at every kcp.output call)"})
	}
	for len(t.pending) > 0 {
		rq := t.pending[0]
		t.pending = t.pending[1:]
		t.walkRoot(rq)
	}
	// the scheduler's goroutines were registered while walking the publication thread
	for _, need := range []string{"go:UDPSession.postProcess", "go:UDPSession.readLoop", "go:Listener.monitor", "go:TimedSched.sched",
		"go:TimedSched.prepend", "put:UDPSession.update", "api:UDPSession.Read", "api:UDPSession.Write", "api:UDPSession.Close",
		"api:UDPSession.SetMtu", "api:Listener.AcceptKCP", "api:Listener.Close"} {
		if !t.seenRoot[need] {
			die("expected thread root %s was not found", need)
		}
	}
	if err := t.emit(os.Args[2], os.Args[3]); err != nil {
		die("%v", err)
	}
}

func (t *translator) newWalker(r *rootCFG) *walker {
	w := &walker{t: t, r: r, memo: map[string]*memoEnt{}, rootParams: map[types.Object]bool{}}
	entry := r.newNode(nil)
	w.s = st{node: entry}
	w.fr = &frame{name: r.Name, binds: map[types.Object]*funcVal{}, ptrLocal: map[types.Object]bool{}, alias: map[types.Object][]Loc{}, labels: map[string]int{}, isRoot: true}
	return w
}

func (t *translator) walkRoot(rq rootReq) {
	r := newRootCFG(rq.name, rq.kind, rq.mo, rq.mg)
	r.Doc = rq.doc
	w := t.newWalker(r)
	fr := w.fr
	var body *ast.BlockStmt
	if rq.lit != nil {
		body = rq.lit.Body
		for _, f := range rq.lit.Type.Params.List {
			for _, n := range f.Names {
				w.rootParams[t.l.info.Defs[n]] = true
			}
		}
	} else {
		fd := t.decls[funcKey(rq.fn)]
		if fd == nil || fd.Body == nil {
			die("root %s has no body", rq.name)
		}
		body = fd.Body
		for _, po := range paramObjs(t.l.info, fd) {
			if po != nil {
				w.rootParams[po] = true
			}
		}
	}
	if rq.kind == "ctor" {
		fr.ctorMode = "rest"
		w.mute = true
	}
	fr.name = rq.name
	w.runFrame(fr, body, rq.name)
	r.compact(1)
	t.roots = append(t.roots, r)
}

// computeOwnTypes: types whose instances belong to exactly one session: everything reachable
// from UDPSession through fields, pointers, slices, arrays and maps, not passing through
// Listener and not through interfaces.
func (t *translator) computeOwnTypes() {
	t.ownTypes = map[string]bool{}
	var visit func(ty types.Type)
	visit = func(ty types.Type) {
		switch x := ty.(type) {
		case *types.Alias:
			visit(types.Unalias(x))
		case *types.Named:
			o := x.Origin().Obj()
			if o.Pkg() != t.l.pkg || o.Name() == "Listener" || t.ownTypes[o.Name()] {
				return
			}
			if _, isIface := x.Underlying().(*types.Interface); isIface {
				return
			}
			t.ownTypes[o.Name()] = true
			visit(x.Underlying())
			if ta := x.TypeArgs(); ta != nil {
				for i := 0; i < ta.Len(); i++ {
					visit(ta.At(i))
				}
			}
		case *types.Pointer:
			visit(x.Elem())
		case *types.Slice:
			visit(x.Elem())
		case *types.Array:
			visit(x.Elem())
		case *types.Map:
			visit(x.Key())
			visit(x.Elem())
		case *types.Chan:
			visit(x.Elem())
		case *types.Struct:
			for i := 0; i < x.NumFields(); i++ {
				visit(x.Field(i).Type())
			}
		}
	}
	visit(t.l.pkg.Scope().Lookup("UDPSession").Type())
	for _, shared := range []string{"Listener", "blockCrypt", "TimedSched", "bufferPool", "Snmp", "rngAES", "rngChacha8", "timedFunc"} {
		if t.ownTypes[shared] {
			die("type %s is reachable from UDPSession by containment: the ownership dictionary needs review", shared)
		}
	}
}

// findOutputClosure: the function literal passed as the output callback to NewKCP in newUDPSession
func (t *translator) findOutputClosure() {
	fd := t.decls["newUDPSession"]
	if fd == nil {
		die("newUDPSession not found")
	}
	n := 0
	ast.Inspect(fd.Body, func(nd ast.Node) bool {
		c, ok := nd.(*ast.CallExpr)
		if !ok {
			return true
		}
		if id, ok := c.Fun.(*ast.Ident); ok && id.Name == "NewKCP" && len(c.Args) == 2 {
			if fl, ok := c.Args[1].(*ast.FuncLit); ok {
				t.outputLit = fl
				n++
			}
		}
		return true
	})
	if n != 1 {
		die("expected exactly one NewKCP(conv, func...) call in newUDPSession, found %d", n)
	}
	// NewKCP must be called nowhere else in the package (else KCP.output may be another function)
	for k, d := range t.decls {
		if k == "newUDPSession" || d.Body == nil {
			continue
		}
		ast.Inspect(d.Body, func(nd ast.Node) bool {
			if c, ok := nd.(*ast.CallExpr); ok {
				if id, ok := c.Fun.(*ast.Ident); ok && id.Name == "NewKCP" {
					die("NewKCP is also called in %s: the KCP.output dictionary entry is ambiguous", k)
				}
			}
			return true
		})
	}
	// and KCP.output is assigned only in NewKCP
	for k, d := range t.decls {
		if d.Body == nil {
			continue
		}
		ast.Inspect(d.Body, func(nd ast.Node) bool {
			if a, ok := nd.(*ast.AssignStmt); ok {
				for _, lh := range a.Lhs {
					if s, ok := lh.(*ast.SelectorExpr); ok && s.Sel.Name == "output" && k != "NewKCP" {
						if sel := t.l.info.Selections[s]; sel != nil {
							if loc, _ := t.fieldOwner(sel); loc.String() == "KCP.output" {
								die("KCP.output is assigned in %s", k)
							}
						}
					}
				}
			}
			return true
		})
	}
}

// findEntropyTypes: the reader types the package itself installs in the variable `entropy`
func (t *translator) findEntropyTypes() {
	set := map[string]bool{}
	for k, d := range t.decls {
		if !strings.HasPrefix(k, "NewEntropy") || d.Body == nil {
			continue
		}
		ast.Inspect(d.Body, func(nd ast.Node) bool {
			switch x := nd.(type) {
			case *ast.CompositeLit:
				if tv, ok := t.l.info.Types[x]; ok {
					if n := namedOf(tv.Type); n != nil && n.Obj().Pkg() == t.l.pkg {
						set[n.Obj().Name()] = true
					}
				}
			case *ast.CallExpr:
				if id, ok := x.Fun.(*ast.Ident); ok && id.Name == "new" && len(x.Args) == 1 {
					if tv, ok := t.l.info.Types[x.Args[0]]; ok {
						if n := namedOf(tv.Type); n != nil && n.Obj().Pkg() == t.l.pkg {
							set[n.Obj().Name()] = true
						}
					}
				}
			}
			return true
		})
	}
	for n := range set {
		if nt, ok := t.l.pkg.Scope().Lookup(n).Type().(*types.Named); ok && lookupMethod(nt, "Read") != nil {
			t.entropyTs = append(t.entropyTs, n)
		}
	}
	sort.Strings(t.entropyTs)
	if len(t.entropyTs) == 0 {
		die("no entropy reader types found (NewEntropy*)")
	}
}

func (t *translator) checkNoPacketConnImpl() {
	// net.PacketConn: ReadFrom/WriteTo/...; no package type may have a ReadFrom method with that shape
	sc := t.l.pkg.Scope()
	for _, n := range sc.Names() {
		tn, ok := sc.Lookup(n).(*types.TypeName)
		if !ok {
			continue
		}
		nt, ok := tn.Type().(*types.Named)
		if !ok {
			continue
		}
		if lookupMethod(nt, "ReadFrom") != nil && lookupMethod(nt, "WriteTo") != nil {
			die("type %s looks like a net.PacketConn: the conn-interface dictionary needs review", n)
		}
	}
}

// ---------------------------------------------------------------------------------- output

func ident(s string) string {
	r := strings.NewReplacer("[*]", "_content", ".", "_", "<pkg>", "pkg", "$", "_", "-", "_", "@", "_", ":", "_")
	return r.Replace(s)
}

func (t *translator) class(l Loc) string {
	if t.ownTypes[l.T] {
		return "Own"
	}
	return "Glob"
}

func (t *translator) emit(outV, outJSON string) error {
	// merged content locations: use the representative everywhere
	merged := map[string][]string{}
	for l := range t.uf {
		if r := t.find(l); r != l {
			merged[r.String()] = append(merged[r.String()], l.String())
		}
	}
	for _, r := range t.roots {
		for i := range r.edges {
			switch r.edges[i].A.K {
			case "Rd", "Wr", "At":
				r.edges[i].A.L = t.find(r.edges[i].A.L)
			}
		}
	}
	for i := range t.sites {
		for l := range t.uf {
			if t.sites[i].Loc == l.String() {
				t.sites[i].Loc = t.find(l).String()
			}
		}
	}
	// collect names
	locSet, lockSet := map[Loc]bool{}, map[Loc]bool{}
	for _, r := range t.roots {
		for _, e := range r.edges {
			switch e.A.K {
			case "Rd", "Wr", "At":
				locSet[e.A.L] = true
			case "Acq", "Rel", "RAcq", "RRel":
				lockSet[e.A.L] = true
			}
		}
	}
	sortLocs := func(m map[Loc]bool) []Loc {
		var out []Loc
		for l := range m {
			out = append(out, l)
		}
		sort.Slice(out, func(i, j int) bool { return out[i].String() < out[j].String() })
		return out
	}
	locs, locks := sortLocs(locSet), sortLocs(lockSet)
	var b strings.Builder
	b.WriteString("(* GENERATED by verif-extract-lockset from the repository's current sources. Do not edit. *)\n")
	b.WriteString("From Coq Require Import List PArith String.\nFrom KV.Lockset Require Import Lockset.\nImport ListNotations.\nLocal Open Scope positive_scope.\n\n")
	fmt.Fprintf(&b, "(* files: %s *)\n\n", strings.Join(t.l.names, " "))
	b.WriteString("(* locations: Own = field of a session-owned object, Glob = shared *)\n")
	for i, l := range locs {
		fmt.Fprintf(&b, "Definition x_%s : sloc := %s %d.\n", ident(l.String()), t.class(l), i+1)
	}
	b.WriteString("\n(* mutexes *)\n")
	for i, l := range locks {
		fmt.Fprintf(&b, "Definition m_%s : sloc := %s %d.\n", ident(l.String()), t.class(l), i+1)
	}
	// lock sets
	lsNames := map[string]string{}
	var lsDefs []string
	lsName := func(ls Lockset) string {
		var parts []string
		for _, e := range ls {
			parts = append(parts, fmt.Sprintf("(m_%s, %v)", ident(e.L.String()), e.Excl))
		}
		lit := "[" + strings.Join(parts, "; ") + "]"
		if n, ok := lsNames[lit]; ok {
			return n
		}
		n := fmt.Sprintf("L%d", len(lsNames))
		lsNames[lit] = n
		lsDefs = append(lsDefs, fmt.Sprintf("Definition %s : lockset := %s.", n, lit))
		return n
	}
	act := func(a Act) string {
		switch a.K {
		case "Tau":
			return "Tau"
		case "Rd", "Wr", "At":
			return fmt.Sprintf("(%s x_%s)", a.K, ident(a.L.String()))
		}
		return fmt.Sprintf("(%s m_%s)", a.K, ident(a.L.String()))
	}
	var body strings.Builder
	type rootStat struct {
		Name      string   `json:"name"`
		Kind      string   `json:"kind"`
		Index     int      `json:"index"`
		MultiOwn  bool     `json:"multi_own"`
		MultiGlob bool     `json:"multi_glob"`
		Edges     int      `json:"edges"`
		Accesses  int      `json:"accesses"`
		Doc       string   `json:"doc"`
		Funcs     []string `json:"funcs"`
	}
	var stats []rootStat
	idx := 0
	var rootDefs []string
	totalAcc := 0
	for _, r := range t.roots {
		name := "t_" + ident(r.Kind+"_"+r.Name)
		nacc := 0
		fmt.Fprintf(&body, "(* %s %s: %s *)\n", r.Kind, r.Name, r.Doc)
		var chunks []string
		var cur []string
		for _, e := range r.edges {
			if e.A.K == "Rd" || e.A.K == "Wr" || e.A.K == "At" {
				nacc++
			}
			ls2, _ := lsStep(r.nodeLS[e.Src], e.A)
			if ls2.key() != r.nodeLS[e.Dst].key() {
				return fmt.Errorf("internal: edge of %s leaves node lock sets inconsistent", r.Name)
			}
			cur = append(cur, fmt.Sprintf("mkEdge %d %s %s %d %s", e.Src, lsName(r.nodeLS[e.Src]), act(e.A), e.Dst, lsName(r.nodeLS[e.Dst])))
			if len(cur) == 200 {
				chunks = append(chunks, "["+strings.Join(cur, ";\n  ")+"]")
				cur = nil
			}
		}
		if len(cur) > 0 || len(chunks) == 0 {
			chunks = append(chunks, "["+strings.Join(cur, ";\n  ")+"]")
		}
		for i, c := range chunks {
			fmt.Fprintf(&body, "Definition %s_e%d : list edge :=\n  %s.\n", name, i, c)
		}
		var refs []string
		for i := range chunks {
			refs = append(refs, fmt.Sprintf("%s_e%d", name, i))
		}
		fmt.Fprintf(&body, "Definition %s : thread_def := mkThread 1 (%s) %v %v.\n\n", name, strings.Join(refs, " ++ "), r.MultiOwn, r.MultiGlob)
		var fs []string
		for f := range r.Funcs {
			fs = append(fs, f)
		}
		sort.Strings(fs)
		rs := rootStat{Name: r.Name, Kind: r.Kind, MultiOwn: r.MultiOwn, MultiGlob: r.MultiGlob, Edges: len(r.edges), Accesses: nacc, Doc: r.Doc, Funcs: fs, Index: -1}
		if r.Kind != "main" {
			rs.Index = idx
			fmt.Fprintf(&body, "Definition r_%s : nat := %d%%nat.\n\n", ident(r.Kind+"_"+r.Name), idx)
			rootDefs = append(rootDefs, name)
			idx++
			totalAcc += nacc
		}
		stats = append(stats, rs)
	}
	b.WriteString("\n(* lock sets *)\n")
	b.WriteString(strings.Join(lsDefs, "\n"))
	b.WriteString("\n\n")
	b.WriteString(body.String())
	fmt.Fprintf(&b, "Definition kcpgo_access : program := mkProgram t_main_main\n  [%s].\n\n", strings.Join(rootDefs, ";\n   "))
	// name tables (diagnostics only)
	b.WriteString("Local Open Scope string_scope.\n")
	var rn []string
	for _, s := range stats {
		if s.Index >= 0 {
			rn = append(rn, fmt.Sprintf("(%d%%nat, \"%s:%s\")", s.Index, s.Kind, s.Name))
		}
	}
	fmt.Fprintf(&b, "Definition root_names : list (nat * string) :=\n  [%s].\n", strings.Join(rn, ";\n   "))
	var ln []string
	for _, l := range locs {
		ln = append(ln, fmt.Sprintf("(x_%s, \"%s\")", ident(l.String()), l.String()))
	}
	fmt.Fprintf(&b, "Definition loc_names : list (sloc * string) :=\n  [%s].\n", strings.Join(ln, ";\n   "))
	if err := writeIfChanged(outV, b.String()); err != nil {
		return err
	}
	// side file
	var own []string
	for n := range t.ownTypes {
		own = append(own, n)
	}
	sort.Strings(own)
	var ucb []string
	for n := range t.userCallbacks {
		ucb = append(ucb, n)
	}
	sort.Strings(ucb)
	var locNames, lockNames []string
	for _, l := range locs {
		locNames = append(locNames, t.class(l)+" "+l.String())
	}
	for _, l := range locks {
		lockNames = append(lockNames, t.class(l)+" "+l.String())
	}
	side := map[string]any{
		"files": t.l.names, "faked_imports": t.l.faked, "type_errors_ignored": t.l.nerr,
		"roots": stats, "locations": locNames, "locks": lockNames, "own_types": own,
		"accesses_total": totalAcc, "sites": t.sites, "skipped_local_struct_accesses": t.skippedLocal,
		"user_callbacks": ucb, "externals": t.externals, "entropy_types": t.entropyTs, "merged_content_locations": merged,
	}
	js, _ := json.MarshalIndent(side, "", " ")
	return writeIfChanged(outJSON, string(js))
}

func writeIfChanged(path, content string) error {
	old, err := os.ReadFile(path)
	if err == nil && string(old) == content {
		return nil
	}
	return os.WriteFile(path, []byte(content), 0o644)
}
