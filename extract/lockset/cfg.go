package main

import (
	"fmt"
	"go/token"
	"sort"
	"strings"
)

// Loc names a struct field (type name, field name) or a package-level variable ("<pkg>", name).
type Loc struct{ T, F string }

func (l Loc) String() string { return l.T + "." + l.F }

type LockEnt struct {
	L    Loc
	Excl bool
}

// Lockset mirrors Lockset.v: newest acquisition first.
type Lockset []LockEnt

func (ls Lockset) key() string {
	var s []string
	for _, e := range ls {
		s = append(s, fmt.Sprintf("%s/%v", e.L, e.Excl))
	}
	sort.Strings(s)
	return strings.Join(s, ",")
}
func (ls Lockset) held(l Loc) bool {
	for _, e := range ls {
		if e.L == l {
			return true
		}
	}
	return false
}
func (ls Lockset) mem(l Loc, excl bool) bool {
	for _, e := range ls {
		if e.L == l && e.Excl == excl {
			return true
		}
	}
	return false
}

// Act kinds: Acq Rel RAcq RRel Rd Wr At Tau
type Act struct {
	K string
	L Loc
}

// lsStep is ls_step of Lockset.v.
func lsStep(ls Lockset, a Act) (Lockset, error) {
	switch a.K {
	case "Acq", "RAcq":
		if ls.held(a.L) {
			return nil, fmt.Errorf("lock %s acquired while already held", a.L)
		}
		return append(Lockset{{a.L, a.K == "Acq"}}, ls...), nil
	case "Rel", "RRel":
		excl := a.K == "Rel"
		if !ls.mem(a.L, excl) {
			return nil, fmt.Errorf("lock %s released (%s) while not held in that mode", a.L, a.K)
		}
		var out Lockset
		for _, e := range ls {
			if !(e.L == a.L && e.Excl == excl) {
				out = append(out, e)
			}
		}
		return out, nil
	}
	return ls, nil
}

type Edge struct {
	Src int
	A   Act
	Dst int
	Pos token.Pos
}

// rootCFG is the control-flow graph of one thread root. Every node has exactly one lock set.
type rootCFG struct {
	Name      string
	Kind      string // api | go | put | closure | ctor | main
	MultiOwn  bool
	MultiGlob bool
	Doc       string
	edges     []Edge
	nodeLS    []Lockset // index = node id (1-based; 0 unused)
	Funcs     map[string]bool
}

func newRootCFG(name, kind string, mo, mg bool) *rootCFG {
	r := &rootCFG{Name: name, Kind: kind, MultiOwn: mo, MultiGlob: mg, Funcs: map[string]bool{}}
	r.nodeLS = append(r.nodeLS, nil) // node 0 unused
	return r
}

func (r *rootCFG) newNode(ls Lockset) int {
	r.nodeLS = append(r.nodeLS, ls)
	return len(r.nodeLS) - 1
}

// compact removes Tau edges n -Tau-> n' when n has no other outgoing edge (forward merge) by
// redirecting edges into n towards n'.  Lock sets of merged nodes are equal by construction.
func (r *rootCFG) compact(entry int) {
	for iter := 0; iter < 50; iter++ {
		out := map[int][]int{}
		for i, e := range r.edges {
			out[e.Src] = append(out[e.Src], i)
		}
		repl := map[int]int{}
		for n, es := range out {
			if len(es) == 1 && n != entry {
				e := r.edges[es[0]]
				if e.A.K == "Tau" && e.Dst != n {
					repl[n] = e.Dst
				}
			}
		}
		if len(repl) == 0 {
			break
		}
		find := func(n int) int {
			seen := 0
			for {
				m, ok := repl[n]
				if !ok || seen > len(repl) {
					return n
				}
				n = m
				seen++
			}
		}
		var ne []Edge
		seen := map[string]bool{}
		for _, e := range r.edges {
			if _, gone := repl[e.Src]; gone {
				continue
			}
			e.Dst = find(e.Dst)
			if e.A.K == "Tau" && e.Src == e.Dst {
				continue
			}
			k := fmt.Sprintf("%d|%s|%s|%d", e.Src, e.A.K, e.A.L, e.Dst)
			if seen[k] {
				continue
			}
			seen[k] = true
			ne = append(ne, e)
		}
		r.edges = ne
	}
}
