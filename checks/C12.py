"""C12 - invariance under sequence-number and clock wrap-around."""
import kcp_common as K
import vcheck as V

META = {
    "enabled": True,
    "engine": "kcp",
    "technique": "Coq simulation proof: step commutes with shifting own/peer sequence numbers and own/peer clocks by any constants mod 2^32; same-history-at-many-offsets trace comparison on the real cores + model replay at each offset",
    "level_text": "Machine-checked simulation: for all four constants in [0, 2^32) (own/peer numbering, own/peer clock) related states, related calls (datagrams shifted field by field per command) yield related results and states, for every call of the core and - by induction - every history: same return values, same bytes read, same datagrams up to the shift; header leftovers of WASK/WINS are don't-care. Tied to kcp.go by running each generated history on the real cores at five offset triples (0; around 2^31; around 2^32; random; all-ones) and comparing the offset-normalised observable traces, each run also replayed in the extracted model.",
    "level_note": K.TRUST + " FEC sequence-id wrap: theorems c07_wrap / c07_encoder_layout of the fec engine and its differential run with groups across the wrap are part of this check. In the simulation both endpoints share one clock (co = cp); the theorem covers independent clocks.",
}
OBLIGATIONS = ["c12_shift_step", "c12_shift_history", "c12_out_is_in", "c12_wf_init", "c12_wf_step", "c12_init", "c12_itimediff_shift"]
RELEVANT = K.ALL


FEC_OBLIGATIONS = ["c07_wrap", "c07_encoder_layout"]


def run(ctx):
    K.core_check(ctx, "C12", "C12.v", OBLIGATIONS, RELEVANT,
                 "kcp.go vs coq/kcp/Kcp.v on the same histories at five sequence-number/clock offsets")
    core_cov = dict(ctx.coverage)
    # "FEC sequence ids likewise wrap without disturbing recovery": the fec engine's wrap theorems and its
    # differential/monitor run, whose groups are placed at paws-2ss .. paws+ss and around 2^31, with skipped parity
    ctx.prove("fec", "C07.v", FEC_OBLIGATIONS)
    fec_cov = dict(ctx.coverage)
    rep, _ = V.harness_report(ctx, "^TestVerifC07$", "C07.report.json", files=["fec_test.go"])
    # a re-tuning decoder: the same convergence case at small ids and just before the wrap (monitors only)
    rep_rt, _ = V.harness_report(ctx, "^TestVerifC12Fec$", "C12fec.report.json", files=["fec_test.go"])
    summ = V.driver_compare(ctx, "fec", ["fec_model"], "fec_driver", "C07.log",
                            "fec.go encoder/decoder vs coq/fec/Fec.v on groups placed across the id wrap")
    ctx.coverage = core_cov
    ctx.coverage["obligations"] = core_cov.get("obligations", 0) + fec_cov.get("obligations", 0)
    ctx.coverage["discharged"] = core_cov.get("discharged", 0) + len([t for t in FEC_OBLIGATIONS if fec_cov.get("theorems", {}).get(t) == "proved"])
    ctx.coverage["checker_cmd"] = core_cov.get("checker_cmd", "") + " ; " + fec_cov.get("checker_cmd", "")
    ctx.coverage["trusted_base"] = core_cov.get("trusted_base", []) + [t for t in fec_cov.get("trusted_base", []) if t.startswith("Print Assumptions")]
    ctx.coverage.setdefault("theorems", {}).update({t: fec_cov.get("theorems", {}).get(t, "NOT CHECKED") for t in FEC_OBLIGATIONS})
    V.merge_report(ctx, rep, summ)
    V.merge_report(ctx, rep_rt)
    ctx.coverage["rule"] = ("each random lossy history is run at offsets (isnA, isnB, clock) = (0,0,0), (2^31-w, 2^31-w/2, 2^31-40w), (2^32-1-w, 5, 2^32-1-7w), random, (2^32-1,2^32-1,2^32-1); "
                            "the offset-normalised traces must be identical; non-trivial = one history (5 runs)")
