"""C12 - invariance under sequence-number and clock wrap-around."""
import kcp_common as K

META = {
    "enabled": True,
    "engine": "kcp",
    "technique": "Coq simulation proof: step commutes with shifting own/peer sequence numbers and own/peer clocks by any constants mod 2^32; same-history-at-many-offsets trace comparison on the real cores + model replay at each offset",
    "level_text": "Machine-checked simulation: for all four constants in [0, 2^32) (own/peer numbering, own/peer clock) related states, related calls (datagrams shifted field by field per command) yield related results and states, for every call of the core and - by induction - every history: same return values, same bytes read, same datagrams up to the shift; header leftovers of WASK/WINS are don't-care. Tied to kcp.go by running each generated history on the real cores at five offset triples (0; around 2^31; around 2^32; random; all-ones) and comparing the offset-normalised observable traces, each run also replayed in the extracted model.",
    "level_note": K.TRUST + " FEC sequence-id wrap is covered by the fec engine (C07/C16). In the simulation both endpoints share one clock (co = cp); the theorem covers independent clocks.",
}
OBLIGATIONS = ["c12_shift_step", "c12_shift_history", "c12_out_is_in", "c12_wf_init", "c12_wf_step", "c12_init", "c12_itimediff_shift"]
RELEVANT = K.ALL


def run(ctx):
    K.core_check(ctx, "C12", "C12.v", OBLIGATIONS, RELEVANT,
                 "kcp.go vs coq/kcp/Kcp.v on the same histories at five sequence-number/clock offsets")
    ctx.coverage["rule"] = ("each random lossy history is run at offsets (isnA, isnB, clock) = (0,0,0), (2^31-w, 2^31-w/2, 2^31-40w), (2^32-1-w, 5, 2^32-1-7w), random, (2^32-1,2^32-1,2^32-1); "
                            "the offset-normalised traces must be identical; non-trivial = one history (5 runs)")
