"""Session-level clauses of C01 and C04 (engine `sess`): UDPSession.WriteBuffers / Read around the ARQ core.

Use from checks/C01.py and checks/C04.py, after K.core_check(...):

    import sess_common as S
    ...
    def run(ctx):
        K.core_check(ctx, "C01", ...)
        S.session_part(ctx, "C01")          # proves coq/sess/C01sess.v, runs harness + model replay, merges evidence
        ctx.coverage["rule"] = ... + S.RULE["C01"]

`session_part` adds the session obligations / theorems / Print Assumptions lines to the proof
keys already filled by the core part (the way checks/C05.py merges its FEC part), runs
`^TestVerifSess$` (harness/sess_test.go) on the real UDPSession, replays C01sess.log on the
extracted model (ml/sess_driver.ml over coq/sess/sess_model.ml) and merges the harness report.
Monitor violations are attributed to the property whose text they come from (KEYS below); the
other property's check records them as a note.
"""
import vcheck as V

META = {
    "enabled": False,   # helper module, not a property check: called from checks/C01.py and checks/C04.py
    "engine": "sess",
    "technique": "Coq model of the locked sections of UDPSession.WriteBuffers/Read over the ARQ model + refinement of a two-session system to Net.v's two-endpoint system + extraction-based differential replay on real UDPSessions + content/admission monitors",
    "level_note": "Trusted: Coq kernel; extraction (ExtrOcamlBasic only) and ml/sess_driver.ml; the overlay harness (real time; the library scheduler is replaced by a worker-less TimedSched during the frozen phases so that update() runs only when the harness calls it). One pass through the session mutex is one model step; the wait loops around it are C13's, the lock discipline is C14's.",
}

ENGINE = "sess"
FILES = ["sess_test.go"]
TEST = "^TestVerifSess$"
REPORT = "C01sess.report.json"
LOG = "C01sess.log"
DRIVER = "sess_driver"
EXTRACTED = ["sess_model"]

STATEMENT = {"C01": "C01sess.v", "C04": "C04sess.v"}

OBLIGATIONS = {
    "C01": ["c01_session_write_chunks", "c01_session_write_step", "c01_session_write_total",
            "c01_session_read_carry", "c01_session_read_sizes", "c01_session_read_block",
            "c01_session_prefix", "c01_session_ghosts", "c01_session_message_mode",
            "c01_session_write_coherent", "c01_session_read_coherent", "c01_session_total"],
    "C04": ["c04_write_admission", "c04_session_occupancy", "c04_session_flush_when_full",
            "c04_session_flush_keeps_pending", "c04_session_close"],
}

# monitor keys by the property whose text they are written from
KEYS = {
    "C01": {"session-read-corrupts-stream", "session-read-overrun", "session-write-count",
            "session-write-stream", "session-write-chunk-oversize", "session-live-error"},
    "C04": {"session-write-admitted-beyond-window", "session-write-blocked-changed-state",
            "session-write-occupancy-bound", "session-close-admits-beyond-window"},
}

WHAT = ("sess.go WriteBuffers/Read vs coq/sess/Sess.v write_full/read_full over the extracted ARQ model "
        "(outcome, returned bytes, WaitSnd, |snd_buf|, |snd_queue|, payload of every pending segment, "
        "|rcv_queue|, |rcv_buf|, rcv_nxt, len(bufptr), PeekSize after every call)")

RULE = {
    "C01": ("session level: real UDPSessions with the scheduler frozen - buffer vectors of 1..5 buffers of 0, 1, mss-1, mss, mss+1, k*mss(+-1), "
            "random bytes through Write/WriteBuffers (both modes, send windows 1..32, mss 1..1376, write delay on/off, window re-opened by forged "
            "una/ACK/window segments), and peer datagrams delivered in order, late, twice or after a gap with Reads of 0, 1, 2, size-1, size, size+1, "
            "size/2, 2*size, carry-over+-1, 4096 and random bytes; plus live session pairs over a lossy/duplicating/reordering link with a content "
            "oracle; non-trivial = a writer case with an admitted multi-chunk write and a blocked write, a reader case with a direct read, a "
            "carried-over read and a blocked read, a live pair that completed after the writer had blocked"),
    "C04": ("session level: the same writer cases - WaitSnd observed under the session mutex before and after every Write/WriteBuffers with the "
            "session's own update() frozen, so admission is decided against exactly the state the call saw; the write deadline lies in the past, "
            "so a pass that does not admit returns a timeout at once"),
}

ASSUMPTIONS = {
    "C01": ["session level: every access to the core happens under UDPSession.mu (C14), so one pass of WriteBuffers/Read is atomic w.r.t. update(), "
            "kcpInput and other callers; the wait loop around the pass is C13's subject",
            "session level: Read blocks on a zero-length message at the head of the receive queue (PeekSize() = 0, boundary B1); a genuine peer "
            "session cannot produce one (Send refuses empty buffers), the model blocks in the same way"],
    "C04": ["session level: the send window is not changed while a write is in progress (SetWindowSize takes the session mutex)"],
}

LEVEL_TEXT = {
    "C01": ("Session clause, machine-checked: an admitted WriteBuffers hands the core's Send exactly the <= mss chunks of its vector (concatenation = the "
            "vector, non-empty chunks accepted, empty ones refused) and reports the total length; for ANY sequence of Reads with ANY buffer lengths "
            "interleaved with arbitrary core calls, the bytes returned followed by the carry-over are exactly what the core's Recv delivered; "
            "composed with the raw-endpoint theorem over Net.v's system: for every run of two sessions (any writes, reads, inputs, flushes; B fed "
            "any datagram A emitted, any number of times, in any order) the bytes B's reads returned are a prefix of the bytes A's admitted writes "
            "reported, in both modes (no_wrap premise of the core theorem). Tied to sess.go by replaying real Write/WriteBuffers/Read/kcpInput "
            "histories of real UDPSessions on the extracted write_full/read_full."),
    "C04": ("Session clause, machine-checked: a pass of WriteBuffers admits only in a state with WaitSnd < snd_wnd, otherwise returns the session "
            "unchanged without a Send call or datagram; after an admitted write WaitSnd' <= snd_wnd - 1 + sum ceil(len_i/mss) (equality in message "
            "mode); a write whose result reaches the window flushes in the same pass; flush never changes the pending payload list; Close is one more full flush of the core (close_full), bound by the core's admission rule (c04_session_close), replayed on real sessions closed after a timeout loss."),
}


def session_part(ctx, prop):
    """prove + harness + model replay for the session clauses of `prop` ("C01" or "C04");
    merges into the evidence already collected in ctx.coverage by the core part."""
    before = dict(ctx.coverage)
    ctx.prove(ENGINE, STATEMENT[prop], OBLIGATIONS[prop])
    mine = dict(ctx.coverage)
    if before.get("checker_cmd"):
        ctx.coverage = before
        ctx.coverage["obligations"] = before.get("obligations", 0) + mine.get("obligations", 0)
        ctx.coverage["discharged"] = before.get("discharged", 0) + mine.get("discharged", 0)
        ctx.coverage["checker_cmd"] = before.get("checker_cmd", "") + " ; " + mine.get("checker_cmd", "")
        ctx.coverage["trusted_base"] = before.get("trusted_base", []) + [t for t in mine.get("trusted_base", []) if t.startswith("Print Assumptions")]
        ctx.coverage.setdefault("theorems", {}).update(mine.get("theorems", {}))
        ctx.coverage["axioms"] = sorted(set(before.get("axioms", [])) | set(mine.get("axioms", [])))

    nviol = len(ctx.violations)
    rep, _ = V.harness_report(ctx, TEST, REPORT, files=FILES)
    _attribute(ctx, prop, nviol)
    summ = V.driver_compare(ctx, ENGINE, EXTRACTED, DRIVER, LOG, WHAT)
    V.merge_report(ctx, rep, summ)
    if summ:
        ctx.coverage.setdefault("extra", {})["session_replay"] = {k: v for k, v in summ.items() if not k.startswith("_")}
    if ctx.broken and not ctx.violations and ctx.quick():
        # search: the monitors over the larger generated set
        nviol = len(ctx.violations)
        rep2, _ = V.harness_report(ctx, TEST, REPORT, files=FILES, env={"VERIF_TIER": "thorough"})
        _attribute(ctx, prop, nviol)
        V.merge_report(ctx, rep2)
    ctx.assumptions += ASSUMPTIONS[prop]
    return rep, summ


def _attribute(ctx, prop, start):
    """keep the violations whose monitor belongs to this property; note the others"""
    keep, other = [], []
    for v in ctx.violations[start:]:
        (keep if v["key"] in KEYS[prop] else other).append(v)
    ctx.violations[start:] = keep
    if other:
        ctx.notes.append("session monitors of the other property fired (reported by its check): " + ", ".join(sorted({v["key"] for v in other})))
