"""C17 - timed scheduler: every task runs exactly once, never early (DESIGN.md section 5, C17).

Proof (coq/sched): the bookkeeping of timedsched.go as a labelled transition system over ALL
interleavings of Put / prepend / worker / timer-fire / clock-tick / Close steps, unbounded data,
both timer-channel semantics; invariants by induction.  Tie: the translator extract/sched
regenerates the statement skeleton of timedsched.go into coq/sched/GenSched.v on every run and
Reference.gen_matches checks it is the skeleton the LTS was derived from.  Dynamic support: the
real TimedSched in real time under GODEBUG=asynctimerchan=0 and =1."""
import json
import os

import vcheck as V

META = {
    'engine': 'sched',
    'technique': 'Coq invariant proofs over all interleavings of a transition system of Put/prepend/sched for both timer-channel semantics; skeleton regenerated from timedsched.go and checked equal to the proved reference; real-time stress under both GODEBUG settings',
    'level_text': "Machine-checked for any number of workers and concurrent Put callers, arbitrary integer deadlines and BOTH Go timer-channel semantics (sync: Stop/Reset discard an undelivered fire; async: a fire parks a value): every task id is executed at most once and lives in exactly one place; execution only follows a clock read strictly after the deadline; at its select a worker with a non-empty heap has its timer armed for at most the heap minimum (plus its own read-to-Reset latency) or a fired value receivable, and never blocks in the drain; from every reachable open state a finite continuation of scheduler steps executes any submitted task; every re-arm uses the heap minimum. Close may drop pending tasks (proved; the property is read as 'not closed before they ran'). The statement skeleton of timedsched.go is regenerated on every run and must equal the reference the transition system was derived from (vm_compute), so an edit of the stop/drain/reset dance, the strict comparison, the re-arm or the peeked heap element breaks the tie.", 'level_note': "Trusted: Coq kernel; the skeleton translator (fails closed on unknown constructs; harmless renamings are normalised, reordering of independent statements is a false alarm); the Go runtime's timers, mutex, select and goroutine scheduling are assumed to behave as specified (partial for the runtime); container/heap assumed correct; a task body that blocks starves its worker. The real-time stress run measures promptness with a slack scaled by control timers."}

FILES = ["sched_test.go"]
OBLIGATIONS = ["c17_skeleton_tie", "c17_at_most_once", "c17_never_early", "c17_timer_armed",
               "c17_worker_returns", "c17_runs", "c17_prompt", "c17_far_future_no_delay",
               "c17_close_may_drop"]
MODES = [("asynctimerchan=0", "sync"), ("asynctimerchan=1", "async")]


def run_modes(ctx, env_extra=None, modes=None):
    reps = []
    for godebug, expect in (modes or MODES):
        env = {"GODEBUG": godebug, "VERIF_EXPECT_TIMERCHAN": expect}
        env.update(env_extra or {})
        rep, out = V.harness_report(ctx, "^TestVerifC17$", "C17.report.json", env=env, files=FILES, timeout=1200)
        V.merge_report(ctx, rep)
        if rep:
            ex = rep.get("extra") or {}
            ctx.coverage.setdefault("timer_semantics_runs", []).append({
                "godebug": godebug, "observed": ex.get("timer_semantics_observed"),
                "scenarios": rep.get("cases"), "tasks": rep.get("steps"),
                "worst_late_us": ex.get("worst_late_us"),
                "worst_control_latency_us": ex.get("worst_control_latency_us")})
            if ex.get("timer_semantics_observed") != expect:
                ctx.broke("harness: GODEBUG=%s did not select the %s timer-channel semantics" % (godebug, expect))
        reps.append(rep)
    # merge_report overwrites equal keys: sum the per-mode counters instead
    for key, field in (("monitors", "monitors"), ("input_distribution", "distribution")):
        tot = ctx.coverage.setdefault("_sum_" + key, {})
        for rep in reps:
            for k, v in ((rep or {}).get(field) or {}).items():
                tot[k] = tot.get(k, 0) + v
        ctx.coverage[key] = dict(tot)
    return reps


def run(ctx):
    gen = os.path.join(V.VERIF, "coq", "sched", "GenSched.v")
    with V.Lock("gen-sched"):
        ok, o = V.translate("sched", V.REPO, gen)
    if not ok:
        ctx.broke("translator: the statement skeleton of timedsched.go could not be regenerated "
                  "(unknown leaf / statement form / function): correspondence no longer checks", o)
    ctx.prove("sched", "C17.v", OBLIGATIONS)
    if os.path.exists(gen):
        ctx.coverage.setdefault("trusted_base", []).append(
            "verif-extract-sched (Go AST of timedsched.go -> GenSched.v) regenerated this run: sha " + V.sha(gen))
        ctx.coverage["generated_inputs"] = {"GenSched.v": V.sha(gen)}
    if ctx.replay:
        # replay of a recorded violation: only its scenario class and GODEBUG mode, many rounds
        sc = ((json.load(open(ctx.replay)).get("replay") or {}).get("scenario")) or {}
        modes = [m for m in MODES if m[0] == sc.get("godebug")] or MODES
        run_modes(ctx, {"VERIF_C17_ONLY": "%s:%s" % (sc.get("kind", "mixed"), sc.get("parallel", 1)),
                        "VERIF_C17_ROUNDS": "30", "VERIF_SEED": str(sc.get("seed", ctx.seed))}, modes)
    else:
        run_modes(ctx)
    if not ctx.replay and ctx.broken and not ctx.violations and ctx.quick():
        # search: the same monitors over many more scenarios on the current tree
        run_modes(ctx, {"VERIF_TIER": "thorough", "VERIF_C17_ROUNDS": "20"})
    for k in [k for k in ctx.coverage if k.startswith("_sum_")]:
        del ctx.coverage[k]
    ctx.coverage["rule"] = (
        "a case = one scenario on a private NewTimedSched(p), p in {1, 2, NumCPU}: 2-12 goroutines x 8-32 Puts released "
        "together, deadline pattern past / now / all equal / increasing / decreasing / far-future-first-then-near / mixed, "
        "and multi-step sequences (staged-hour / staged-secs: near and far-future tasks queued together, wait until every due "
        "task has RUN, then 1-3 further waves of tasks with deadlines between now and the pending far deadlines; 1..4 "
        "submitters, batch sizes multiples of p so every worker is hit; far = 1 h or 2-6 s away), "
        "plus self-re-submitting chains and a Close sample; run once per GODEBUG=asynctimerchan=0/1 (the semantics in "
        "effect is probed, not assumed); non-trivial = >= 2 submitting goroutines and >= 1 task executed through a heap "
        "and a timer (ran >= 1 ms after its Put), or a chain")
    ctx.coverage["traces_validated_against_impl"] = 0
    ctx.coverage["tie"] = ("translator (skeleton equality gen_matches, by vm_compute) - no differential replay: "
                           "the model is a nondeterministic LTS, not a function")
    ctx.assumptions += [
        "the Go runtime is not modelled: goroutine scheduling, the runtime's timer heap, sync.Mutex, channel and select "
        "semantics are ASSUMED as specified (unbuffered send/receive is one rendezvous step; critical sections under "
        "prependLock are atomic; select picks any ready case); the two timer-channel semantics are the model's parameter",
        "c17_runs is possibility under the model ('a finite continuation of enabled scheduler steps exists'); that the "
        "runtime actually takes those steps (weak fairness towards prepend, the workers and the timers) is assumed",
        "task.execute() is one terminating step: a task body that blocks starves its worker and every task in that "
        "worker's heap (tasks run on the worker goroutine) - not exhibited by the model",
        "container/heap is assumed correct: tasks[0] is a task of minimal deadline given Less = ts.Before (the heap "
        "methods' bodies are part of the checked skeleton)",
        "promptness in the model is 'armed for at most heap-minimum + the worker's own latency between its clock read "
        "and its Reset' - there is no bound on scheduling latency in the model; the harness measures it in real time "
        "against control timers",
        "Close: tasks not yet executed when Close is called may never run (c17_close_may_drop; observed by the harness: "
        "pending tasks are dropped); 'submitted before it is closed' is read as 'and not closed before they have run'",
        "needs at least one worker: NewTimedSched(0) never runs anything (c17_runs has 0 < nw); the package instance "
        "uses max(NumCPU, 2), which is part of the checked skeleton",
    ]
