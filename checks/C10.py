"""C10 - no datagram exceeds the MTU; accepted MTUs are safe (core part)."""
import kcp_common as K
import udp_common as U
import vcheck as V

META = {
    "enabled": True,
    "engine": "kcp",
    "technique": "Coq invariant proof of the output-size bound over all call sequences incl. SetMtu at any point; differential replay + size monitors",
    "level_text": "Theorem over every operation sequence (SetMtu with any integer at any point included): every datagram handed to the output callback is non-empty and at most mtu bytes, an accepted SetMtu value re-establishes the invariant (so it is honoured from then on without fault) and a refused one changes nothing; the refusal condition is characterised exactly. Tied to kcp.go by differential replay of histories with SetMtu calls (growing, shrinking, out-of-range, with data queued and in flight) and by a size monitor on every callback invocation.",
    "level_note": K.TRUST + " The session half (UDPSession.SetMtu acceptance rule; |frame| = |core datagram| + header sizes (+ AEAD overhead) <= MTU; OOB and parity sizes) is proved on the frame engine's transcription (coq/frame/C10sess.v) and measured on every datagram real sessions hand to the PacketConn, with SetMtu at random points of traffic.",
}
OBLIGATIONS = ["c10_core_output_size", "c10_history_output_size", "c10_setmtu", "c10_setmtu_refused_iff", "c10_pool_fits"]
RELEVANT = K.PANICS | K.RESULTS | K.CONFIG | {"sq", "sb"}


SESS_OBLIGATIONS = ["c10_setmtu_session", "c10_session_size", "c10_session_size_oob", "c10_parity_size"]


def run(ctx):
    K.core_check(ctx, "C10", "C10.v", OBLIGATIONS, RELEVANT,
                 "kcp.go vs coq/kcp/Kcp.v on histories with SetMtu at arbitrary points and all write sizes")
    core_cov = dict(ctx.coverage)
    # the session half: sizes at the PacketConn incl. cipher/FEC/AEAD overhead, parity and OOB; UDPSession.SetMtu
    ctx.prove("frame", "C10sess.v", SESS_OBLIGATIONS)
    sess_cov = dict(ctx.coverage)
    rep, _ = V.harness_report(ctx, "^TestVerifC10Sess$|^TestVerifFrameChild$", "C10sess.report.json", files=["frame_test.go"])
    summ = V.driver_compare(ctx, "frame", ["frame_model"], "frame_driver", "C10sess.log",
                            "sess.go/fec.go framing vs coq/frame/Frame.v on sessions with SetMtu at random points")
    ctx.coverage = core_cov
    ctx.coverage["obligations"] = core_cov.get("obligations", 0) + sess_cov.get("obligations", 0)
    ctx.coverage["discharged"] = core_cov.get("discharged", 0) + sess_cov.get("discharged", 0)
    ctx.coverage["checker_cmd"] = core_cov.get("checker_cmd", "") + " ; " + sess_cov.get("checker_cmd", "")
    ctx.coverage["trusted_base"] = core_cov.get("trusted_base", []) + [t for t in sess_cov.get("trusted_base", []) if t.startswith("Print Assumptions")]
    ctx.coverage.setdefault("theorems", {}).update(sess_cov.get("theorems", {}))
    V.merge_report(ctx, rep, summ)
    U.run_parts(ctx, ["tx"])
    ctx.coverage["rule"] = ("two-endpoint lossy histories with SetMtu(0,24,25,26,50,100,576,600,1400,1500,1501,1524,2000,-1,65561) on 2-12 % of ticks and writes of 1..256*mss bytes; "
                            "non-trivial = an MTU change was accepted during the history")
