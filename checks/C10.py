"""C10 - no datagram exceeds the MTU; accepted MTUs are safe (core part)."""
import kcp_common as K

META = {
    "enabled": True,
    "engine": "kcp",
    "technique": "Coq invariant proof of the output-size bound over all call sequences incl. SetMtu at any point; differential replay + size monitors",
    "level_text": "Theorem over every operation sequence (SetMtu with any integer at any point included): every datagram handed to the output callback is non-empty and at most mtu bytes, an accepted SetMtu value re-establishes the invariant (so it is honoured from then on without fault) and a refused one changes nothing; the refusal condition is characterised exactly. Tied to kcp.go by differential replay of histories with SetMtu calls (growing, shrinking, out-of-range, with data queued and in flight) and by a size monitor on every callback invocation.",
    "level_note": K.TRUST + " Session-level accounting (cipher/FEC/AEAD overhead, parity and OOB sizes at the PacketConn) is measured by the frame engine's harness (C09/C19), not proved here.",
}
OBLIGATIONS = ["c10_core_output_size", "c10_history_output_size", "c10_setmtu", "c10_setmtu_refused_iff", "c10_pool_fits"]
RELEVANT = K.PANICS | K.RESULTS | K.CONFIG | {"sq", "sb"}


def run(ctx):
    K.core_check(ctx, "C10", "C10.v", OBLIGATIONS, RELEVANT,
                 "kcp.go vs coq/kcp/Kcp.v on histories with SetMtu at arbitrary points and all write sizes")
    ctx.coverage["rule"] = ("two-endpoint lossy histories with SetMtu(0,24,25,26,50,100,576,600,1400,1500,1501,1524,2000,-1,65561) on 2-12 % of ticks and writes of 1..256*mss bytes; "
                            "non-trivial = an MTU change was accepted during the history")
