"""C19 - out-of-band messages: intact or absent, never disturb the stream (DESIGN.md section 5, C19)."""
import vcheck as V
import udp_common as U

META = {
    'engine': 'frame',
    'technique': 'Coq proofs that OOB framing round-trips and leaves FEC encoder, core and decoder untouched; differential replay of real sessions with interleaved OOB traffic',
    'level_text': 'Machine-checked on the transcribed pipeline: an OOB payload with 4+len <= mtu round-trips through frame/unframe/demultiplexer to exactly the same bytes for every cipher class; SendOOB errors iff there is no FEC encoder or 4+len > mtu and GetOOBMaxSize = mtu-4 (0 without FEC); encodeOOB returns the encoder untouched, so the data/parity packet sequence with OOB requests interleaved anywhere equals the sequence without them; an 0xF3 packet changes neither core nor decoder nor autotune state. Tied to the code by real client/listener sessions over a lossy in-memory network with OOB messages of sizes 0,1,max-1,max,max+1 interleaved with Write traffic in both directions (floods included), one- and two-sided handlers, three sessions on one listener; handler arguments, stream content and the FEC id sequence are compared, and two real fecEncoders (with and without interleaved OOB) are compared packet for packet; over real loopback sockets: two conversations on one source address, every size 0..max in both directions (each must arrive within three attempts on an idle path), a session without FEC refuses, and a handler that closes its own session stalls nobody.',
    'level_note': "Trusted: as for C09. 'Or not at all' for corrupted OOB datagrams is the integrity gate of C06; listener routing is C11's demultiplexer (monitored here with three sessions, not proved here). OOB delivery is best effort by design (dropped when the post-processing queue is full)."}

FILES = ["frame_test.go"]
OBLIGATIONS = ["c19_roundtrip", "c19_limits", "c19_no_disturb_tx", "c19_no_disturb_rx"]


def run(ctx):
    ctx.prove("frame", "C19.v", OBLIGATIONS)
    rep, _ = V.harness_report(ctx, "^TestVerifC19$", "C19.report.json", files=FILES)
    summ = V.driver_compare(ctx, "frame", ["frame_model"], "frame_driver", "C19.log",
                            "OOB and data datagrams of real sessions vs coq/frame (spec_decode, pp_step with OOB requests "
                            "interleaved, encode_oob/fec_encode = the real fecEncoder with and without interleaved OOB)")
    V.merge_report(ctx, rep, summ)
    U.run_parts(ctx, ["oob"])
    if ctx.broken and not ctx.violations and ctx.quick():
        rep2, _ = V.harness_report(ctx, "^TestVerifC19$", "C19.report.json", env={"VERIF_TIER": "thorough"}, files=FILES)
        V.merge_report(ctx, rep2)
    ex = (rep or {}).get("extra", {})
    ctx.coverage["rule"] = (
        "real sessions (1 or 3 clients on one listener) with OOB messages of sizes {0,1,max-1,max,max+1,random} "
        "interleaved with Write traffic in both directions under loss/duplication, handlers on both / one side; "
        "%s scenarios + %s runs of two real fecEncoders (with / without interleaved encodeOOB); non-trivial = %s"
        % (ex.get("scenarios"), ex.get("encoder_pairs"), ex.get("nontrivial_rule")))
    ctx.assumptions += [
        "'or not at all': a corrupted OOB datagram fails the integrity gate (C06's theorems); here only loss and "
        "duplication are injected",
        "'never to another session' on a listener is the demultiplexer's property (C11's engine; boundary B3: an OOB "
        "datagram with a foreign conv from a live address resets that session); the model here has the session-level "
        "demultiplexer only, the harness monitors misrouting with 3 sessions on one listener",
        "the handler receives a sub-slice of the read buffer valid during the call only (boundary B15): the harness copies",
        "duplicates created by the network may be delivered twice (UDP semantics): the monitor requires every delivered "
        "message to be one the peer sent, not a count",
        "SendOOB on a closed session returns io.ErrClosedPipe or enqueues (select is non-deterministic); not generated",
    ]
