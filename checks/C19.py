"""C19 - out-of-band messages: intact or absent, never disturb the stream (DESIGN.md section 5, C19)."""
import vcheck as V

FILES = ["frame_test.go"]
OBLIGATIONS = ["c19_roundtrip", "c19_limits", "c19_no_disturb_tx", "c19_no_disturb_rx"]


def run(ctx):
    ctx.prove("frame", "C19.v", OBLIGATIONS)
    rep, _ = V.harness_report(ctx, "^TestVerifC19$", "C19.report.json", files=FILES)
    summ = V.driver_compare(ctx, "frame", ["frame_model"], "frame_driver", "C19.log",
                            "OOB and data datagrams of real sessions vs coq/frame (spec_decode, pp_step with OOB requests "
                            "interleaved, encode_oob/fec_encode = the real fecEncoder with and without interleaved OOB)")
    V.merge_report(ctx, rep, summ)
    if ctx.broken and not ctx.violations and ctx.quick():
        rep2, _ = V.harness_report(ctx, "^TestVerifC19$", "C19.report.json", env={"VERIF_TIER": "thorough"}, files=FILES)
        V.merge_report(ctx, rep2)
    ex = (rep or {}).get("extra", {})
    ctx.coverage["rule"] = (
        "real sessions (1 or 3 clients on one listener) with OOB messages of sizes {0,1,max-1,max,max+1,random} "
        "interleaved with Write traffic in both directions under loss/duplication, handlers on both / one side; "
        "%s scenarios + %s runs of two real fecEncoders (with / without interleaved encodeOOB); non-trivial = %s"
        % (ex.get("scenarios"), ex.get("encoder_pairs"), ex.get("nontrivial_rule")))
    ctx.assumptions += [
        "'or not at all': a corrupted OOB datagram fails the integrity gate (C06's theorems); here only loss and "
        "duplication are injected",
        "'never to another session' on a listener is the demultiplexer's property (C11's engine; boundary B3: an OOB "
        "datagram with a foreign conv from a live address resets that session); the model here has the session-level "
        "demultiplexer only, the harness monitors misrouting with 3 sessions on one listener",
        "the handler receives a sub-slice of the read buffer valid during the call only (boundary B15): the harness copies",
        "duplicates created by the network may be delivered twice (UDP semantics): the monitor requires every delivered "
        "message to be one the peer sent, not a count",
        "SendOOB on a closed session returns io.ErrClosedPipe or enqueues (select is non-deterministic); not generated",
    ]
