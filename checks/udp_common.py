"""Shared glue for the engine "udp" (harness/udp_test.go): the Linux production paths - recvmmsg batches
(readloop_linux.go), sendmmsg batches incl. partial writes (tx_linux.go), DialWithOptions / ListenWithOptions -
driven over real loopback UDP sockets and judged by oracles written from the property texts.  No Coq model of its
own: the batch loops are folds of packetInput / WriteTo over the batch, and the sequential functions they call are
the subject of the gate / listener / frame / kcp engines; what is checked here is that the real batch paths behave
as that fold (nothing behind a bad datagram is lost, nothing is sent twice or dropped by a short sendmmsg)."""
import vcheck as V

FILES = ["udp_test.go"]
PARTS = {
    "listener": ("^TestVerifUDPListener$", "UDPlistener.report.json",
                 "real Listener on a loopback UDP socket (recvmmsg path): 2-5 hand-driven peers + 2 strangers, bursts of 2-31 "
                 "datagrams queued behind a parked monitor so that they arrive in ONE batch, 35% of them empty / too short / "
                 "bit-flipped / random (from strangers and from live peers' own addresses); expected: one Accept per peer, each "
                 "session delivers exactly its peer's bytes, no session for a stranger, InCsumErrors = number of failing datagrams"),
    "client": ("^TestVerifUDPClient$", "UDPclient.report.json",
               "real dialled session (DialWithOptions, recvmmsg read loop): its peer's in-order segments interleaved, in single "
               "batches, with valid next segments of the SAME conversation sent from other addresses and with empty / short / "
               "failing datagrams from the peer and from strangers; expected: Read returns exactly the peer's stream"),
    "tx": ("^TestVerifUDPTx$", "UDPtx.report.json",
           "real dialled session writing bursts to a raw loopback receiver, half of the cases through a batch writer that accepts only "
           "1-3 datagrams per sendmmsg call; every datagram on the wire: <= session MTU, passes its cipher's integrity check, FEC ids "
           "consecutive (nothing lost or sent twice between postProcess and the socket), type = position, size field, segments parse "
           "exactly, number received = OutPkts"),
    "relay": ("^TestVerifUDPRelay$", "UDPrelay.report.json",
              "real client and listener over loopback through a user-space relay that drops 0-30%, duplicates 0-30% and reorders "
              "0-25% for 1.5 s and then heals: bytes read are a prefix of the bytes written at every moment, and everything arrives"),
    "oob": ("^TestVerifUDPOOB$", "UDPoob.report.json",
            "two conversations on ONE source address (two sessions on one socket): out-of-band messages of sizes 0..max of conversation A "
            "reach A's handler intact; conversation B then sends only out-of-band messages - none of them may reach A's handler"),
}


def run_parts(ctx, parts):
    """Runs the named parts of the udp harness, merges their reports (monitor violations included)."""
    rules = []
    for p in parts:
        regex, report, rule = PARTS[p]
        rep, _ = V.harness_report(ctx, regex, report, files=FILES, timeout=900)
        V.merge_report(ctx, rep)
        rules.append(rule)
    ctx.coverage.setdefault("udp_engine", []).extend(rules)
    ctx.assumptions.append(
        "engine udp (real loopback sockets): loopback UDP neither loses nor reorders datagrams of one sender at these volumes "
        "(receive buffers enlarged); batching is forced by parking the receiving goroutine on a lock and is not itself observed - "
        "when the scheduler defeats it the datagrams arrive in smaller batches and the case is weaker, never wrong")
