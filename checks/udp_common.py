"""Shared glue for the engine "udp" (harness/udp_test.go): the Linux production paths - recvmmsg batches
(readloop_linux.go), sendmmsg batches incl. partial writes (tx_linux.go), DialWithOptions / ListenWithOptions -
driven over real loopback UDP sockets and judged by oracles written from the property texts.  No Coq model of its
own: the batch loops are folds of packetInput / WriteTo over the batch, and the sequential functions they call are
the subject of the gate / listener / frame / kcp engines; what is checked here is that the real batch paths behave
as that fold (nothing behind a bad datagram is lost, nothing is sent twice or dropped by a short sendmmsg)."""
import vcheck as V

FILES = ["udp_test.go"]
PARTS = {
    "listener": ("^TestVerifUDPListener$", "UDPlistener.report.json",
                 "real Listener on a loopback UDP socket (recvmmsg path): 2-5 hand-driven peers + 2 strangers, bursts of 2-31 "
                 "datagrams queued behind a parked monitor so that they arrive in ONE batch, 35% of them empty / too short / "
                 "bit-flipped / random (from strangers and from live peers' own addresses); expected: one Accept per peer, each "
                 "session delivers exactly its peer's bytes, no session for a stranger, InCsumErrors = number of failing datagrams"),
    "client": ("^TestVerifUDPClient$", "UDPclient.report.json",
               "real dialled session (DialWithOptions, recvmmsg read loop): its peer's in-order segments interleaved, in single "
               "batches, with valid next segments of the SAME conversation sent from other addresses and with empty / short / "
               "failing datagrams from the peer and from strangers; expected: Read returns exactly the peer's stream"),
    "tx": ("^TestVerifUDPTx$", "UDPtx.report.json",
           "real dialled session writing bursts to a raw loopback receiver, half of the cases through a batch writer that accepts only "
           "1-3 datagrams per sendmmsg call; every datagram on the wire: <= session MTU, passes its cipher's integrity check, FEC ids "
           "consecutive (nothing lost or sent twice between postProcess and the socket), type = position, size field, segments parse "
           "exactly, number received = OutPkts"),
    "relay": ("^TestVerifUDPRelay$", "UDPrelay.report.json",
              "real client and listener over loopback through a user-space relay that drops 0-30%, duplicates 0-30% and reorders "
              "0-25% for 1.5 s and then heals: bytes read are a prefix of the bytes written at every moment, and everything arrives"),
    "neighbour": ("^TestVerifUDPNeighbour$", "UDPneighbour.report.json",
                  "two peers on one real listener socket; the accepted session of A is rate-limited and handed 6 MB with windows of 4096 "
                  "(its transmit queue of 2048 overflows) while A's peer keeps acknowledging; B - another address on the same socket - "
                  "must keep echoing within 3 s per round"),
    "oob": ("^TestVerifUDPOOB$", "UDPoob.report.json",
            "two conversations on ONE source address (two sessions on one socket): out-of-band messages of sizes 0..max of conversation A "
            "reach A's handler intact; conversation B then sends only out-of-band messages - none of them may reach A's handler"),
}


def run_parts(ctx, parts):
    """Runs the named parts of the udp harness, merges their reports (monitor violations included)."""
    rules = []
    for p in parts:
        regex, report, rule = PARTS[p]
        rep, _ = V.harness_report(ctx, regex, report, files=FILES, timeout=900)
        V.merge_report(ctx, rep)
        rules.append(rule)
    ctx.coverage.setdefault("udp_engine", []).extend(rules)
    ctx.assumptions.append(
        "engine udp (real loopback sockets): loopback UDP neither loses nor reorders datagrams of one sender at these volumes "
        "(receive buffers enlarged); batching is forced by parking the receiving goroutine on a lock and is not itself observed - "
        "when the scheduler defeats it the datagrams arrive in smaller batches and the case is weaker, never wrong")


# --------------------------------------------------------------------------- io engine (coq/io)

IO_OBLIGATIONS = ["io_tx_exactly_once", "io_tx_prefix", "io_rx_is_filter", "io_rx_insert", "io_rx_only_source", "io_rx_noop_insert"]
PARTS["io"] = ("^TestVerifUDPIo$", "UDPio.report.json",
               "UDPSession.tx called directly on prepared queues of 0-40 datagrams with a scripted kernel (any split into accepted prefixes, "
               "failures at any call) and UDPSession.readLoop run on scripted recvmmsg batches (7 address shapes incl. equal-but-distinct "
               "objects, 4-in-6 form, other port / host / zone, a non-UDP address printing alike; UDP, string and learned source modes; "
               "empty datagrams inside batches; Close during any ReadBatch) - every case replayed in the Coq model coq/io/Io.v")

UDP_CLASS = {0: 0, 1: 0, 2: 0, 3: 1, 4: 2, 5: 3, 6: 4}     # sameUDPAddr classes; a non-UDP address never matches
STR_CLASS = {0: 0, 1: 0, 2: 0, 3: 1, 4: 2, 5: 3, 6: 0}     # String() classes


def _ints(s):
    return [] if s == "-" else [int(x) for x in s.split(",")]


def _coq_list(xs):
    return "[" + "; ".join(xs) + "]"


def io_compare(ctx):
    """Replays the op log of TestVerifUDPIo in the Coq model (vm_compute inside coqc); a mismatch = the
    correspondence between tx_linux.go / readloop_linux.go and coq/io/Io.v no longer checks."""
    import os
    import re
    logp = os.path.join(ctx.dir, "UDPio.log")
    if not os.path.exists(logp):
        ctx.broke("io engine: the harness wrote no op log")
        return None
    tx, rx = [], []
    for line in open(logp):
        kv = dict(t.split("=", 1) for t in line.split()[1:])
        if line.startswith("TX "):
            sizes, rs = _ints(kv["q"]), _ints(kv["rs"])
            q = _coq_list("(%d, %d)" % (i, sz) for i, sz in enumerate(sizes))
            resp = _coq_list(("ROk %d" % r) if r > 0 else "RErr" for r in rs)
            tx.append("(%s, %s, %s, %s, %s, %s)" % (q, resp, _coq_list(map(str, _ints(kv["wire"]))), kv["npkts"], kv["nbytes"],
                                                    "true" if kv["err"] == "1" else "false"))
        elif line.startswith("RX "):
            mode, close = int(kv["mode"]), int(kv["close"])
            msgs = [] if kv["msgs"] == "-" else [tuple(int(x) for x in m.split(":")) for m in kv["msgs"].split(",")]
            nb = (max(m[0] for m in msgs) + 1) if msgs else 0
            processed = [m for m in msgs if close < 0 or m[0] < close]
            cls = UDP_CLASS if mode == 0 else STR_CLASS
            if mode == 2:   # learned from the first message the loop sees: a UDP address -> sameUDPAddr, else String()
                cls = STR_CLASS if (processed and processed[0][1] == 6) else UDP_CLASS
            batches = [[] for _ in range(nb)]
            for b, ai, mid, ln in msgs:
                batches[b].append("mkMsg %d (%d, %d)" % (cls[ai], mid, ln))
            closed = "Some %d" % close if 0 <= close else "None"
            rx.append("(%s, %s, %s, %s, %s)" % ("None" if mode == 2 else "Some 0", _coq_list(_coq_list(b) for b in batches), closed,
                                                _coq_list(map(str, _ints(kv["got"]))), kv["refused"]))
    src = """From Coq Require Import List Arith Bool.
From KV.Io Require Import Io.
Import ListNotations.
Definition eqnl := list_eq_dec Nat.eq_dec.
Definition chk_tx (c : list (nat * nat) * list resp * list nat * nat * nat * bool) : bool :=
  match c with (q, rs, w, np, nb, e) =>
    let r := tx_loop (@snd nat nat) rs q in
    valid rs (length q) && (if eqnl (map fst (wire r)) w then true else false) && Nat.eqb (npkts r) np && Nat.eqb (nbytes r) nb
    && Bool.eqb (werr r) e && negb (stuck r) end.
Definition chk_rx (c : option nat * list (list (@rmsg nat (nat * nat))) * option nat * list nat * nat) : bool :=
  match c with (s, bs, cl, got, refu) =>
    let r := rx_loop Nat.eqb s bs cl in
    (if eqnl (map fst (filter (fun p : nat * nat => 0 <? snd p) (fed r))) got then true else false) && Nat.eqb (refused r) refu end.
Fixpoint bad {A} (f : A -> bool) (i : nat) (l : list A) : list nat :=
  match l with [] => [] | x :: t => if f x then bad f (S i) t else i :: bad f (S i) t end.
Definition tx_cases := %s.
Definition rx_cases := %s.
Definition TXBAD := Eval vm_compute in bad chk_tx 0 tx_cases.
Definition RXBAD := Eval vm_compute in bad chk_rx 0 rx_cases.
Print TXBAD.
Print RXBAD.
""" % (_coq_list(tx) if tx else "(@nil (list (nat * nat) * list resp * list nat * nat * nat * bool))",
       _coq_list(rx) if rx else "(@nil (option nat * list (list (@rmsg nat (nat * nat))) * option nat * list nat * nat))")
    vf = os.path.join(ctx.dir, "IoCases.v")
    open(vf, "w").write(src)
    with V.Lock("coq-io"):
        rc, o = V.sh(["coqc"] + V.coq_flags("io") + ["-Q", ctx.dir, "KV.IoObs", vf], cwd=ctx.dir, timeout=900)
    if rc != 0:
        ctx.broke("io engine: the replay file did not compile (model interface changed?)", V.tail_err(o))
        return None
    flat = " ".join(o.split())
    res = {}
    for name in ("TXBAD", "RXBAD"):
        m = re.search(name + r" = \[(.*?)\]", flat)
        res[name] = None if m is None else [x.strip() for x in m.group(1).split(";") if x.strip()]
    summ = {"cases": len(tx) + len(rx), "tx_cases": len(tx), "rx_cases": len(rx),
            "mismatches": sum(len(v or []) for v in res.values())}
    if res["TXBAD"] is None or res["RXBAD"] is None:
        ctx.broke("io engine: no verdict from the model replay", o[-2000:])
    elif summ["mismatches"]:
        ctx.broke("correspondence: tx_linux.go / readloop_linux.go vs coq/io/Io.v - the Coq model and the implementation differ on %d of %d cases "
                  "(tx cases %s, rx cases %s of UDPio.log)" % (summ["mismatches"], summ["cases"], res["TXBAD"][:8], res["RXBAD"][:8]))
    ctx.coverage["traces_validated_against_impl"] = ctx.coverage.get("traces_validated_against_impl", 0) + summ["cases"]
    ctx.coverage.setdefault("model_replay", []).append(dict(summ, what="UDPSession.tx / UDPSession.readLoop vs coq/io/Io.v, evaluated by vm_compute"))
    return summ


def io_part(ctx):
    """Statements of coq/io + the scripted-kernel correspondence."""
    import kcp_common as K
    K.extra_statements(ctx, "io", "Cio.v", IO_OBLIGATIONS)
    run_parts(ctx, ["io"])
    io_compare(ctx)
