"""C15 - Close releases goroutines and callbacks; pooled buffers have one owner (DESIGN.md section 5, C15)."""
import json
import os

import vcheck as V

FILES = ["pool_test.go"]
OBLIGATIONS = [
    # buffers, ARQ core: invariant of every operation sequence
    "c15_inv_init", "c15_inv_step",
    "c15_single_owner", "c15_put_once", "c15_no_use_after_put", "c15_use_only_while_owned",
    "c15_pool_accepts_full_only",
    # buffers, FEC decoder and its caller
    "c15_fec_single_owner", "c15_fec_put_once", "c15_fec_no_use_after_put",
    # goroutines and callbacks (logic; the runtime is not exhibited)
    "c15_postprocess_exits", "c15_update_stops", "c15_readloop_exits", "c15_readloop_needs_transport",
    # everything ends: accepted, backlog and being-created sessions (served side), dialled sessions
    "c15_all_exit", "c15_client_all_exit",
]

META = {
    "engine": "pool",
    "technique": "ownership-instrumented model + invariant by induction (mini ownership logic); LTS of the exit "
                 "logic with constructive exit paths; pool sanitizer, census and leak monitors on the real code",
    "level_text": (
        "Buffer half: machine-checked proof. An ownership-instrumented Gallina model of every pooled-buffer site of the ARQ "
        "core (kcp.go) and of the FEC decoder with its caller is proved, by induction over ALL operation sequences and "
        "configurations, to keep every live buffer in exactly one holder, to Put no acquisition twice and to read or write "
        "none after its Put; Put provably ignores re-sliced views. The model is tied to the code on every run by replaying "
        "generated histories (Get/Put counts and queue projection per operation) and by a poisoning sanitizer with an exact "
        "census on raw cores, the raw decoder and real sessions. "
        "Goroutine/callback half: PARTIAL for the runtime. The exit logic of postProcess, update, readLoop, monitor, "
        "UDPSession.Close and Listener.Close (incl. closeBacklog and the two die tests of the dispatch) is a transition "
        "system whose exit theorems hold for all interleavings and any channel capacity (c15_all_exit covers accepted, "
        "backlog and being-created sessions); on the real code termination is only observed (goroutine sets after a grace "
        "period, a pumped scheduler queue) over generated close orders and close points."),
    "level_note": (
        "Trusted: Coq 8.16.1 kernel (no axioms: every theorem is closed under the global context), the generated constant "
        "c_mtuLimit, extraction (ExtrOcamlBasic) and the OCaml driver for the correspondence only, the Go harness and the "
        "two verif hooks in bufferPool. Assumed, not exhibited: channel/timer/socket semantics of the Go runtime (closed "
        "channel always ready, ReadFrom on a closed socket fails), real scheduling, the GC and sync.Pool. Session-level "
        "holders (chPostProcessing, txqueue, the output callback's buffer) are covered by the sanitizer and census only. "
        "readLoop/monitor exit needs the transport closed when the library does not own the socket (hypothesis; shown "
        "necessary). Reads after Put are caught only when the bytes reach a delivered stream or the clear-text wire."),
}
BOTH = "^TestVerifC15(Buffers|Close)$"


def harness(ctx, env=None):
    """Both tests in one test binary run; the first report goes through harness_report, the second is read here."""
    close_rp = os.path.join(ctx.dir, "C15close.report.json")
    if os.path.exists(close_rp):
        os.remove(close_rp)
    rep, out = V.harness_report(ctx, BOTH, "C15.report.json", env=env, files=FILES, timeout=3000)
    rep2 = None
    if os.path.exists(close_rp):
        try:
            rep2 = json.load(open(close_rp))
        except Exception:
            rep2 = None
    if rep is not None and rep2 is None:
        ctx.broke("harness TestVerifC15Close did not complete on the current tree (panic, clean-up failure or timeout)", V.tail_err(out, 80))
    if rep2:
        for v in rep2.get("violations") or []:
            ctx.violation(v["key"], v["what"], v["replay"])
    return rep, rep2


def run(ctx):
    ctx.prove("pool", "C15.v", OBLIGATIONS)
    rep, rep2 = harness(ctx)
    summ = V.driver_compare(ctx, "pool", ["pool_model"], "pool_driver", "C15.log",
                            "kcp.go / fec.go buffer life cycle vs coq/pool/Pool.v (per operation: return code, pool Gets and "
                            "Puts, queue lengths, data-less segments in snd_buf, snd_una/snd_nxt/rcv_nxt; per FEC packet: "
                            "Gets, Puts, buffers parked)")
    V.merge_report(ctx, rep, summ)
    V.merge_report(ctx, rep2)
    if ctx.broken and not ctx.violations and ctx.quick():
        # search: the sanitizer, the census and the close monitors over the thorough generators
        r1, r2 = harness(ctx, env={"VERIF_TIER": "thorough"})
        V.merge_report(ctx, r1)
        V.merge_report(ctx, r2)
    ctx.level = "proof (buffer ownership logic) / partial (goroutine and callback termination: logic proved, runtime observed)"
    ctx.coverage["rule"] = (
        "Buffers: raw two-endpoint core histories (random mtu 50..1500, stream/message, windows 1..128, initial sequence numbers "
        "0 / next to 2^32 / random; Send, Recv, flush/Update under an advancing clock, genuine delivery with loss, duplication, "
        "reordering, and forged datagrams: ACKs and UNA around the send window, PUSH around the receive window, truncated, foreign "
        "conv, bad cmd, bad length; Put of re-sliced views) with sanitizer + exact census after every operation, replayed on the "
        "extracted model; raw FEC decoder fed by a real encoder under loss/dup/reorder/late packets, with sender and receiver "
        "layouts that agree, differ from the first packet, or diverge mid-stream after packets were parked under loss - "
        "including pairs of EQUAL group size (3+1/2+2, 2+2/1+3, 10+3/11+2, 5+2/4+3, 3+2/2+3) - followed by enough traffic for "
        "discardShards and late packets of stale groups (re-tunes, re-tunes with packets parked and same-group-size re-tunes "
        "are counted in input_distribution and in model_replay); 10 session scenarios (none/aes/salsa20/xor/aes-gcm x FEC "
        "on/off x loss, 1-3 concurrent sessions on one listener, two with listener and dialler configured with different FEC "
        "layouts so that both decoders re-tune under loss) with stream oracles and live census.  non-trivial core case = it showed a data-less acked segment retained in snd_buf AND a PUSH "
        "that acquired no buffer (duplicate/out of window) AND a successful Recv; non-trivial session scenario = both streams "
        "complete.  Close: close orders over {client, accepted, listener, transport} x close points {idle, mid-transfer, full "
        "queues, during FEC recovery} x {socket owned, not owned}, plus never-accepted sessions and a peer arriving after "
        "Listener.Close (the F14 histories; monitor key close-leak:unaccepted-backlog-sessions); non-trivial = closed "
        "while traffic was in flight.")
    ctx.assumptions += [
        "goroutine/callback termination is PARTIAL for the runtime: the theorems are about the LTS of coq/pool/Exit.v (atomic "
        "sections of postProcess / update / readLoop / monitor / Close under all interleavings, any channel capacity); real "
        "scheduling, timers, the GC and sync.Pool are observed (runtime.Stack sets after a grace period, a pumped private "
        "TimedSched), not exhibited",
        "readLoop / monitor exit needs 'transport closed' when the socket is not owned by the library (hypothesis of "
        "c15_readloop_exits; c15_readloop_needs_transport shows it is necessary); the property text includes the transport",
        "ownership model: one core (resp. one FEC decoder) per id space; the frame rule of the ownership logic (evs_ok_frame) "
        "is what makes the composition with other holders of the shared pool sound; session-level holders (chPostProcessing, "
        "txqueue, the output callback's buffer) are covered by the sanitizer and the census only, not by the model",
        "flush is modelled as reading every unacknowledged segment of snd_buf (a superset of the segments it transmits); the "
        "number of segments it admits is an input taken from the implementation",
        "Put accepts ANY slice of capacity mtuLimit: the capacity rule excludes views that start inside a pooled buffer, not "
        "foreign buffers of exactly that capacity (fecEncoder.shardCache, kcp.buffer when mtu = 476); no code site puts those "
        "(the sanitizer counts foreign Puts: 0)",
        "reads after Put are detected through content oracles (payload bytes < 0x80, poison 0xDB), i.e. only when the bytes "
        "read reach a delivered stream or the clear-text wire",
        "outstanding buffers after Close are legitimately held by: queue segments of closed sessions' cores, FEC decoder shard "
        "sets, residue of chPostProcessing, and buffers the output callback drops without Put when it loses the race with "
        "die (at most once per acquisition is not violated; numbers in coverage.extra)",
    ]
