"""C05 - no datagram can crash or bloat the process (core part; FEC/session parts: engines fec, gate)."""
import kcp_common as K
import vcheck as V

META = {
    "enabled": True,
    "engine": "kcp",
    "technique": "Coq totality + invariant proof with Go panics modelled as values, for arbitrary byte strings; differential replay on malformed streams under recover()",
    "level_text": "Every model function returns Panic wherever the Go code would fault on a slice bound (pool buffers of mtuLimit bytes, the 3*(mtu+24) staging buffer). Theorem: at every reachable state Input of ANY byte list of ANY length returns Ok, keeps the invariant (hence the C04 buffering bounds, each stored segment <= mtuLimit bytes) and accounts for pending acks; the same for every other call over every operation sequence. Tied to kcp.go by replaying malformed streams (field mutations to boundary values, truncations at every offset class, appended bogus segments, random bytes incl. > 1500-byte datagrams for the raw core) on the real core under recover(): a real panic where the model says Ok, or vice versa, is a disagreement.",
    "level_note": K.TRUST + " The FEC decoder's part (decode total for every 6..mtuLimit-byte packet; at most maxShardSets+1 groups of fewer than dataShards packets after ANY packet sequence, forged ids included) is proved in coq/fec/C05fec.v and replayed against the real decoder; the session/listener receive path BEHIND the gate (FEC demultiplexer, recovered-shard size strip, OOB, listener conv/sn peek) is modelled with Go's faults explicit in coq/frame/Input.v, proved total (C05sess.v) and exercised with authentic-but-malformed datagrams on real sessions and listeners; the gate itself is C06; unbounded heap growth outside the modelled queues (Go runtime, sync.Pool) is not exhibited.",
}
OBLIGATIONS = ["c05_input_total", "c05_never_panics", "c05_bounded_state", "c05_acklist", "c05_flush_empties_acklist"]
RELEVANT = K.PANICS | K.RESULTS | {"rq", "rb", "al", "rnxt"}


SESS_OBLIGATIONS = ["c05_sess_input_total", "c05_recovered_total", "c05_packet_input_total", "c05_listener_peek_total"]
FEC_OBLIGATIONS = ["c05_fec_decode_total", "c05_fec_bounded", "c05_fec_bounded_inv"]


def run(ctx):
    K.core_check(ctx, "C05", "C05.v", OBLIGATIONS, RELEVANT,
                 "kcp.go vs coq/kcp/Kcp.v on malformed and forged datagram streams (panics included)")
    core_cov = dict(ctx.coverage)
    # the FEC decoder's part of the property: total on any packet, bounded state under forged ids
    ctx.prove("fec", "C05fec.v", FEC_OBLIGATIONS)
    fec_cov = dict(ctx.coverage)
    rep, _ = V.harness_report(ctx, "^TestVerifC05Fec$", "C05fec.report.json", files=["fec_test.go"])
    summ = V.driver_compare(ctx, "fec", ["fec_model"], "fec_driver", "C05fec.log",
                            "fec.go decoder vs coq/fec/Fec.v on forged and genuine FEC packets")
    # merge the two proof steps into one evidence record
    ctx.coverage = core_cov
    ctx.coverage["obligations"] = core_cov.get("obligations", 0) + fec_cov.get("obligations", 0)
    ctx.coverage["discharged"] = core_cov.get("discharged", 0) + fec_cov.get("discharged", 0)
    ctx.coverage["checker_cmd"] = core_cov.get("checker_cmd", "") + " ; " + fec_cov.get("checker_cmd", "")
    ctx.coverage["trusted_base"] = core_cov.get("trusted_base", []) + [t for t in fec_cov.get("trusted_base", []) if t.startswith("Print Assumptions")]
    ctx.coverage.setdefault("theorems", {}).update(fec_cov.get("theorems", {}))
    V.merge_report(ctx, rep, summ)
    fec_done = dict(ctx.coverage)
    # the session / listener part: authentic (gate-passing) but malformed content behind the gate
    ctx.prove("frame", "C05sess.v", SESS_OBLIGATIONS)
    sess_cov = dict(ctx.coverage)
    rep2, _ = V.harness_report(ctx, "^TestVerifC05Sess$|^TestVerifFrameChild$", "C05sess.report.json", files=["frame_test.go"])
    summ2 = V.driver_compare(ctx, "frame", ["frame_model"], "frame_driver", "C05sess.log",
                             "sess.go receive path behind the gate vs coq/frame/Input.v on authentic malformed datagrams")
    ctx.coverage = fec_done
    ctx.coverage["obligations"] = fec_done.get("obligations", 0) + sess_cov.get("obligations", 0)
    ctx.coverage["discharged"] = fec_done.get("discharged", 0) + sess_cov.get("discharged", 0)
    ctx.coverage["checker_cmd"] = fec_done.get("checker_cmd", "") + " ; " + sess_cov.get("checker_cmd", "")
    ctx.coverage["trusted_base"] = fec_done.get("trusted_base", []) + [t for t in sess_cov.get("trusted_base", []) if t.startswith("Print Assumptions")]
    ctx.coverage.setdefault("theorems", {}).update(sess_cov.get("theorems", {}))
    V.merge_report(ctx, rep2, summ2)
    ctx.coverage["rule"] = ("two-endpoint histories in which 8-45 % of deliveries are replaced by a malformed variant of a captured datagram or random bytes "
                            "(lengths 0,1,11,12,19,20,23,24,25,47..1500 and 1524..4096); non-trivial = at least one malformed datagram was fed")
    ctx.assumptions += ["byte strings consist of bytes (0..255)"]
