"""C02 - eventual delivery: a healed network always drains the backlog."""
import kcp_common as K

META = {
    "enabled": True,
    "engine": "kcp",
    "technique": "Coq proofs of the liveness building blocks (ack owed, due retransmission, no give-up, Check/Update soundness) for all reachable states; drain-after-healing decided by exhaustive-fate and random simulation of the real cores (partial)",
    "level_text": "Proved for every reachable state and clock value: the dead-link flag influences no transition; every PUSH below the upper window edge, new or duplicate, appends an ack which the next flush of either kind emits or covers by the cumulative una; every unacknowledged segment whose timer expired (or never sent) is put on the wire by the next full flush with its original payload; per-timeout back-off is additive and <= 60 s per step; Check never sleeps past a due flush/retransmission; Update flushes when due. PARTIAL: the whole-system progress theorem (a fair round of a healed network strictly advances snd_una or shrinks the backlog) is not mechanised; drain-within-bound is decided on the real cores for all fate vectors of the first K datagrams, random fault histories, outages of 0..10 min, both drivers, and the F13 wedge replay.",
    "level_note": K.TRUST + " Partial: liveness of the two-endpoint system is established by simulation, not by a theorem. The permanent wedge F13 found while attempting the progress proof was repaired in /repo (known_findings.json).",
}
OBLIGATIONS = ["c02_no_giveup", "c02_ack_owed", "c02_flush_acks", "c02_retransmit_due", "c02_backoff_step",
               "c02_check_sound", "c02_update_flushes", "c02_first_update_flushes"]
RELEVANT = K.RESULTS | K.PANICS | K.TIMERS | {"sb", "rq", "rb", "una", "nxt", "rnxt", "rmtwnd", "probe"}


def run(ctx):
    K.core_check(ctx, "C02", "C02.v", OBLIGATIONS, RELEVANT,
                 "kcp.go vs coq/kcp/Kcp.v on fault histories followed by a healed network")
    ctx.coverage["rule"] = ("all 4^K fate vectors for the first K datagrams, random loss/outage/stall histories with outage lengths {0,1,99,100 ms,60 s,10 min}, "
                            "then a fair network with both sides driven (flush-with-interval or Update/Check) and readers reading until WaitSnd = 0 on both sides "
                            "or 10 virtual minutes; non-trivial = the history had a retransmission or a zero-window episode")
