"""C02 - eventual delivery: a healed network always drains the backlog."""
import kcp_common as K
import udp_common as U

META = {
    "enabled": True,
    "engine": "kcp",
    "technique": "Coq progress proof for the two-endpoint system: from every reachable state an explicit healed round strictly advances snd_una, and finitely many rounds drain the backlog and deliver everything (constructive liveness, no temporal logic); building blocks for all reachable states; differential replay + drain-after-healing monitor",
    "level_text": "Proved for every reachable state and clock value: the dead-link flag influences no transition; every PUSH below the upper window edge, new or duplicate, appends an ack which the next flush of either kind emits or covers by the cumulative una; every unacknowledged segment whose timer expired (or never sent) is put on the wire by the next full flush with its original payload; per-timeout back-off is additive and <= 60 s per step; Check never sleeps past a due flush/retransmission; Update flushes when due. System level (C02b.v; data A->B, acknowledgements B->A; every reachable state of the two-way system in which each side is fed only datagrams the other emitted - i.e. after ANY finite fault history): the healed round (B reads; A flushes at a time at which its oldest unacknowledged segment is due; its datagrams reach B; B reads and flushes; the datagrams of B reach A) always exists, is itself a run of the system, and strictly advances snd_una of A (c02b_round_progress); with an empty snd_buf a flush admits queued data (c02b_queue_progress); with a zero remote window the probe round re-opens it (c02b_probe_round); at most `unacked` rounds leave WaitSnd = 0 with everything delivered to the reader (c02b_drains_delivered). Premises: no_wrap (fewer than 2^31 - 2^16 segments), the message-mode contract B8 (a message has fewer fragments than the receive window), one-directional data. The time a round needs is the timer of the oldest segment (c02_backoff_step: at most the previous rto + 60 s). The monitors additionally decide drain-within-bound on the real cores for all fate vectors of the first K datagrams, random fault histories, outages of 0..10 min, both drivers, and the F13 wedge replay.",
    "level_note": K.TRUST + " The progress theorems are stated for one-directional data with acknowledgements flowing back; fairness is constructed (the round), so no fairness assumption is needed; real-time behaviour of the Go runtime is not exhibited. The permanent wedge F13 found while attempting the progress proof was repaired in /repo (known_findings.json).",
}
OBLIGATIONS = ["c02_no_giveup", "c02_ack_owed", "c02_flush_acks", "c02_retransmit_due", "c02_backoff_step",
               "c02_check_sound", "c02_update_flushes", "c02_first_update_flushes"]
RELEVANT = K.RESULTS | K.PANICS | K.TIMERS | {"sb", "rq", "rb", "una", "nxt", "rnxt", "rmtwnd", "probe"}


SYSTEM_OBLIGATIONS = ["c02b_run_proj", "c02b_link_step", "c02b_link_reach", "c02b_round_total", "c02b_round_progress", "c02b_round",
                      "c02b_queue_progress", "c02b_probe_round", "c02b_round_is_run", "c02b_probe_is_run", "c02b_drains",
                      "c02b_delivered", "c02b_drains_delivered"]


def run(ctx):
    K.core_check(ctx, "C02", "C02.v", OBLIGATIONS, RELEVANT,
                 "kcp.go vs coq/kcp/Kcp.v on fault histories followed by a healed network")
    K.extra_statements(ctx, "kcp", "C02b.v", SYSTEM_OBLIGATIONS)
    U.run_parts(ctx, ["relay"])
    ctx.coverage["rule"] = ("all 4^K fate vectors for the first K datagrams, random loss/outage/stall histories with outage lengths {0,1,99,100 ms,60 s,10 min}, "
                            "then a fair network with both sides driven (flush-with-interval or Update/Check) and readers reading until WaitSnd = 0 on both sides "
                            "or 10 virtual minutes; non-trivial = the history had a retransmission or a zero-window episode")
