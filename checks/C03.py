"""C03 - a stalled reader throttles the sender; transfer resumes."""
import kcp_common as K

META = {
    "enabled": True,
    "engine": "kcp",
    "technique": "Coq proofs of the flow-control building blocks for all reachable states and of resumption (probe round + drain) from every reachable state of the two-endpoint system; differential replay + directed stall scenarios",
    "level_text": "Proved for every reachable state: with a zero remote window no flush numbers or transmits a new segment; the probe timer arms at 500 ms, fires a WASK when due and backs off by half up to 120 s (bounds invariant over all operation sequences); a WASK sets the tell flag and the next flush of either kind sends WINS with the true free window; a Recv that takes the delivery queue from full to not full schedules a WINS; any regular segment updates rmt_wnd and a full flush then admits queued data. No loss/no bloat while stalled are the C01 and C04 theorems. Resumption (C02b.v): from EVERY reachable state of the two-way system - whatever WASK/WINS/ACK datagrams were lost before is just part of how the state was reached - with a zero remote window the probe round (A flushes twice, the WASK reaches B, B reads and flushes, the WINS reaches A) yields rmt_wnd > 0 (c02b_probe_round), and finitely many healed rounds then complete the transfer (c02b_drains_delivered). The monitors additionally run pause point x pause length x rcv_wnd 1..32 x control-datagram loss window x reordering on the real cores, with and without congestion control.",
    "level_note": K.TRUST + " Premises of the system theorems: no_wrap, the message-mode contract B8, one-directional data; the timing of the Go runtime is not exhibited.",
}
OBLIGATIONS = ["c03_sender_standstill", "c03_probe_arms", "c03_probe_fires", "c03_probe_backoff", "c03_wask_answered",
               "c03_tell_emits_wins", "c03_reopen_announced", "c03_window_update", "c03_resume_admits"]
RELEVANT = K.RESULTS | K.PANICS | {"probe", "tsprobe", "probewait", "rmtwnd", "rq", "rb", "sb", "sq", "una", "nxt", "rnxt", "cwnd"}


SYSTEM_OBLIGATIONS = ["c02b_probe_round", "c02b_probe_is_run", "c02b_drains", "c02b_drains_delivered", "c02b_link_reach"]


def run(ctx):
    K.core_check(ctx, "C03", "C03.v", OBLIGATIONS, RELEVANT,
                 "kcp.go vs coq/kcp/Kcp.v on stalled-reader histories with lost window probes/updates")
    K.extra_statements(ctx, "kcp", "C02b.v", SYSTEM_OBLIGATIONS)
    ctx.coverage["rule"] = ("directed stall scenarios (pause start 0..30 ticks, pause length 10..210 ticks, rcv_wnd in {1,2,3,4,8,32}, every WASK/WINS/ACK-only datagram of a random window lost, "
                            "10 % reordering/duplication) and random histories with reader stalls, each followed by a healed network until everything is delivered; C04 occupancy monitors run after every call; "
                            "non-trivial = a zero-window episode occurred")
