"""C03 - a stalled reader throttles the sender; transfer resumes."""
import kcp_common as K

META = {
    "enabled": True,
    "engine": "kcp",
    "technique": "Coq proofs of the flow-control building blocks (standstill, probe timer, WASK answered, reopen announced, window update) for all reachable states; resumption under lossy WASK/WINS/ACK decided by simulation of the real cores (partial)",
    "level_text": "Proved for every reachable state: with a zero remote window no flush numbers or transmits a new segment; the probe timer arms at 500 ms, fires a WASK when due and backs off by half up to 120 s (bounds invariant over all operation sequences); a WASK sets the tell flag and the next flush of either kind sends WINS with the true free window; a Recv that takes the delivery queue from full to not full schedules a WINS; any regular segment updates rmt_wnd and a full flush then admits queued data. No loss/no bloat while stalled are the C01 and C04 theorems. PARTIAL: 'transfer resumes and completes although every WASK/WINS/ACK of a finite period is lost' is decided on the real cores (pause point x pause length x rcv_wnd 1..32 x control-datagram loss window x reordering, with and without congestion control).",
    "level_note": K.TRUST + " Partial: the composition of the building blocks into resumption is established by simulation.",
}
OBLIGATIONS = ["c03_sender_standstill", "c03_probe_arms", "c03_probe_fires", "c03_probe_backoff", "c03_wask_answered",
               "c03_tell_emits_wins", "c03_reopen_announced", "c03_window_update", "c03_resume_admits"]
RELEVANT = K.RESULTS | K.PANICS | {"probe", "tsprobe", "probewait", "rmtwnd", "rq", "rb", "sb", "sq", "una", "nxt", "rnxt", "cwnd"}


def run(ctx):
    K.core_check(ctx, "C03", "C03.v", OBLIGATIONS, RELEVANT,
                 "kcp.go vs coq/kcp/Kcp.v on stalled-reader histories with lost window probes/updates")
    ctx.coverage["rule"] = ("directed stall scenarios (pause start 0..30 ticks, pause length 10..210 ticks, rcv_wnd in {1,2,3,4,8,32}, every WASK/WINS/ACK-only datagram of a random window lost, "
                            "10 % reordering/duplication) and random histories with reader stalls, each followed by a healed network until everything is delivered; C04 occupancy monitors run after every call; "
                            "non-trivial = a zero-window episode occurred")
