"""C06 - packets failing the integrity check have no effect at all (DESIGN.md section 5, C06)."""
import vcheck as V
import udp_common as U

META = {
    "engine": "gate",
    "technique": "Coq proofs (gate model with everything behind the gate abstract; CRC-32 as the bitwise reflected "
                 "LFSR: GF(2)-linearity, zero-clock bijection, burst theorem) + deep-snapshot differential on the real "
                 "UDPSession.packetInput / Listener.packetInput + extraction-based replay of CRC values and gate decisions",
    "level_text": "Machine-checked: a datagram that fails the integrity check or is too short to carry one leaves the "
                  "whole session value, resp. the listener's session table, every session in it and the accept queue, "
                  "unchanged (no session is created: the gate precedes the lookup), for every cipher class and every "
                  "state; the code behind the gate runs only on verified bytes; what postProcess frames - data and "
                  "parity packets alike, each with its own nonce and CRC/tag - passes; the CRC input is exactly the "
                  "bytes after the CRC field; any change of the stored CRC and any non-zero error pattern confined to "
                  "32 consecutive bit positions of the CRC-covered bytes (any length, any position) is detected "
                  "(CRC-32/IEEE burst theorem proved from the LFSR: linearity, explicit inverse of the zero clock, "
                  "byte-level = bit-level); the guarantee lifts to the datagram as received for the stream-like "
                  "ciphers (none, xor, salsa20 beyond its 8 clear bytes) and is read at the decrypted bytes for CFB "
                  "block ciphers, where a wire error garbles the following block. Tied to sess.go by feeding "
                  "corruptions of captured real traffic synchronously to the real packetInput functions of quiescent, "
                  "non-trivially loaded sessions/listeners and comparing deep snapshots, and by replaying hash/crc32 "
                  "values and the observed gate decisions in the extracted model.",
    "level_note": "Assumed, as explicit premises of the theorems that use them: AEAD authenticity (Open succeeds only on "
                  "what the sender sealed under the same nonce) for the 'any change under AEAD' guarantee; cipher round "
                  "trip dec(enc x) = x and length preservation (the subject of C08) and AEAD functional correctness for "
                  "the non-vacuity theorems. hash/crc32 is not modelled; Crc.v is compared with it on every run. "
                  "Bit numbering of a burst is the CRC's own (least significant bit of each byte first).",
}
FILES = ["gate_test.go"]
OBLIGATIONS = [
    "c06_session_noop", "c06_listener_noop", "c06_reached_only_if_ok",
    "c06_gate_not_vacuous", "c06_parity_covered", "c06_crc_covers",
    "c06_crc_burst", "c06_crc_four_bytes", "c06_crc_affine", "c06_crc_clock_bijection",
    "c06_crc_bit_level", "c06_crc_burst_syndrome",
    "c06_burst_detected", "c06_crc_field", "c06_wire_level", "c06_stream_like_classes",
    "c06_cfb_wire_burst_spreads", "c06_aead_any_change",
]


def run(ctx):
    ctx.prove("gate", "C06.v", OBLIGATIONS)
    rep, _ = V.harness_report(ctx, "^TestVerifC06$", "C06.report.json", files=FILES)
    summ = V.driver_compare(ctx, "gate", ["gate_model"], "gate_driver", "C06.log",
                            "hash/crc32 vs coq/gate/Crc.v (byte-level and bit-level LFSR) and the gate decisions of "
                            "sess.go (counter deltas of packetInput) vs coq/gate/Gate.v (too_short, integrity_ok, outcome)")
    V.merge_report(ctx, rep, summ)
    extra = (rep or {}).get("extra", {})
    if extra.get("stream_like_mismatches", 0):
        ctx.broke("premise of c06_wire_level: a cipher classed stream-like (none/xor/salsa20) did not decrypt a wire "
                  "bit flip beyond the header to the same bit flip (%d of %d)" %
                  (extra.get("stream_like_mismatches"), extra.get("stream_like_checks")))
    U.io_part(ctx)   # the recvmmsg loop: a datagram on which packetInput is the identity can sit anywhere in a batch (io_rx_noop_insert)
    U.run_parts(ctx, ["listener", "client"])
    if ctx.broken and not ctx.violations and ctx.quick():
        # search: the deep-snapshot monitor alone over the exhaustive sweeps (all bit flips of more
        # sample datagrams, every random length, every CFB cipher)
        rep2, _ = V.harness_report(ctx, "^TestVerifC06$", "C06.report.json", env={"VERIF_TIER": "thorough"},
                                   files=FILES, timeout=2400)
        V.merge_report(ctx, rep2)
    ctx.coverage["rule"] = (
        "per cipher class (none, xor, salsa20, CFB 8-byte block, CFB 16-byte block, AES-GCM; thorough: every CFB "
        "constructor) x FEC off / 3+2 x {listener, client session}: corruptions of captured real datagrams (shortest, "
        "longest, one parity) - single-bit flips and 2..32-bit bursts (every start-bit class, front/middle/end) in the "
        "CRC-covered bytes applied to the decrypted image and re-encrypted, every single-bit and random change of the "
        "stored CRC, every truncation, wire-level bit flips, random datagrams of lengths 0..1500; AEAD: bit flips, "
        "bursts and truncations anywhere; cleartext-shaped datagrams for both paths and every class: every length "
        "0..header+16, laid out as the frames the demultiplexer behind the gate would read (FEC data / parity / OOB / raw "
        "KCP x live or foreign conv x sn 0 or other x known peer or unknown address), at offset 0, behind nonceSize bytes "
        "and behind the whole crypto header, plus the bare payload and the unencrypted image of valid datagrams. Fed only when the check fails (guaranteed classes by construction, the rest "
        "by an oracle that calls the cipher and hash/crc32 itself); non-trivial = " + str(extra.get("nontrivial_rule")))
    ctx.assumptions += [
        "AEAD authenticity: Open succeeds only on outputs of Seal under the same nonce (premise aead_authentic of "
        "c06_aead_any_change; cryptographic assumption on AES-GCM, not provable here)",
        "cipher round trip dec(enc x) = x, |enc x| = |x| (premises of c06_gate_not_vacuous / c06_parity_covered; C08) "
        "and AEAD functional correctness open n (seal n p) = Some p",
        "hash/crc32.ChecksumIEEE is represented by Crc.crc32; equality is checked on %s inputs per run, not proved"
        % extra.get("crc_compare_inputs"),
        "a burst is measured in the CRC's bit order (bit p = 8*byte + bit, least significant bit first); for CFB block "
        "ciphers the guaranteed class is read at the decrypted (CRC-covered) bytes, see c06_wire_level",
        "target sessions are quiescent by construction (they never write; idle flush is idempotent on the compared "
        "fields; checked by 3 identical snapshots before and a drift check after each sweep); the SNMP gauges "
        "RingBufferSndQueue/RcvQueue/SndBuffer are not compared",
    ]
