"""C08 - ciphers round-trip every length and equal textbook CFB (DESIGN.md section 5, C08)."""
import os
from concurrent.futures import ThreadPoolExecutor

import vcheck as V

META = {
    "engine": "cfb",
    "technique": "Coq proof: hand-unrolled CFB = textbook CFB for every length and any block function (induction on groups + finite case split); toy-cipher differential replay over all 1501 lengths; real ciphers vs crypto/cipher",
    "level_text": "Machine-checked: the transcriptions of encrypt8/16 and decrypt8/16 (groups of eight blocks, fall-through switch over 0..7 left-over blocks, tail xor, two-register alternation, one memory model for in-place and out-of-place) equal textbook full-block CFB with the package IV for EVERY length, ANY block function and block size 8 or 16; decrypt(encrypt(x)) = x; aliased = non-aliased; salsa20/xor/none guard logic round-trips (xor within its mtuLimit pad); the AEAD Seal capacity guard keeps the append inside the buffer. Tied to crypt.go by running the real functions with a toy cipher.Block that is also defined in Gallina, for all lengths 0..1500 in and out of place, byte for byte against the extracted model; every real cipher is checked against Go's crypto/cipher CFB with the IV regenerated from the source, incl. 4 goroutines sharing one BlockCrypt.",
    "level_note": "Trusted: Coq kernel; extraction (ExtrOcamlBasic only) and ml/cfb_driver.ml; the overlay harness; the real block ciphers, salsa20 keystream, pbkdf2 pad and AES-GCM are library code (open(seal(x)) = x is monitored, not proved); initialVector and mtuLimit are regenerated from the source.",
}
FILES = ["cfb_test.go"]
OBLIGATIONS = ["c08_enc_is_cfb", "c08_dec_is_cfb", "c08_roundtrip", "c08_inplace", "c08_longer_dst",
               "c08_stream_roundtrip", "c08_stream_inplace", "c08_aead_inplace"]
WHAT = ("crypt.go encrypt8/16, decrypt8/16 (toy block function, all lengths 0..1500, in place and out of place), "
        "crypto/cipher CFB vs the textbook spec, salsa20/xor/none Encrypt/Decrypt vs coq/cfb/Cfb.v, byte for byte")


def driver_compare_sharded(ctx, log_name, shards):
    """V.driver_compare, with the log split by packet length over `shards` parallel processes of
    the same extracted model (the model's list memory makes a replay quadratic in the length)."""
    ok, o = V.ocaml_build("cfb", ["cfb_model"], "cfb_driver", "cfb_driver")
    if not ok:
        ctx.broke("extracted model / driver of engine 'cfb' does not build", V.tail_err(o))
        return None
    exe = os.path.join(V.WORK, "bin", "cfb_driver")
    logp = os.path.join(ctx.dir, log_name)
    with ThreadPoolExecutor(max_workers=shards) as ex:
        res = list(ex.map(lambda k: V.sh([exe, logp, str(k), str(shards)], timeout=3000), range(shards)))
    tot = {"cases": 0, "steps": 0, "mismatches": 0}
    mm = []
    for rc, o in res:
        summ = V.parse_kv(o, "SUMMARY")
        if rc != 0 or not summ:
            ctx.broke("model driver failed on the op log (%s)" % WHAT, o[-3000:])
            return None
        for k in tot:
            tot[k] += int(summ[-1].get(k, 0))
        mm += [l for l in o.split("\n") if l.startswith("MISMATCH")]
    if tot["mismatches"] > 0:
        ctx.broke("correspondence: %s — the extracted Coq model and the implementation differ on %d of %d cases"
                  % (WHAT, tot["mismatches"], tot["cases"]), "\n".join(mm[:10]))
    tot["shards"] = shards
    return tot


def run(ctx):
    ctx.prove("cfb", "C08.v", OBLIGATIONS)
    if ctx.replay:
        # one recorded input through the round-trip monitor on the real code
        rep, _ = V.harness_report(ctx, "^TestVerifC08$", "C08.report.json", env={"VERIF_REPLAY": os.path.abspath(ctx.replay)}, files=FILES)
        V.merge_report(ctx, rep)
        ctx.coverage["rule"] = "replay of one recorded input"
        return
    rep, _ = V.harness_report(ctx, "^TestVerifC08$", "C08.report.json", files=FILES, timeout=3000)
    summ = driver_compare_sharded(ctx, "C08.log", max(2, min(12, V.NCPU - 2))) if rep is not None else None
    V.merge_report(ctx, rep, summ)
    if ctx.broken and not ctx.violations and ctx.quick():
        # search: the same monitors (every real cipher x every length x both placements, concurrent
        # callers, AEAD) with more keys and contents
        rep2, _ = V.harness_report(ctx, "^TestVerifC08$", "C08.report.json", env={"VERIF_TIER": "thorough"}, files=FILES, timeout=3000)
        V.merge_report(ctx, rep2)
    ex = (rep or {}).get("extra", {})
    ctx.coverage["rule"] = (
        "EXHAUSTIVE over lengths 0..1500 (the length is the only thing that selects a control path of the unrolled code: "
        "%s distinct (block size, groups, left-over blocks, tail bytes) classes covered) for each of 13 BlockCrypt constructors "
        "+ the toy block x {8,16}, x {in place, out of place into a pre-filled buffer} for both calls; random keys (%s per cipher) "
        "and contents from VERIF_SEED; 4 goroutines on one object in three mixes; AES-128/192/256-GCM x plaintext lengths 0..1472 x "
        "3 capacities.  Non-trivial = %s" % (ex.get("toy_path_classes_covered"), ex.get("keys_per_cipher"), ex.get("nontrivial_rule")))
    ctx.assumptions += [
        "the block function E of the theorems is ANY function list Z -> list Z (cut/zero-padded to the register size); "
        "cipher.Block.Encrypt is assumed to read src[:BlockSize] and write dst[:BlockSize] only",
        "the differential run instantiates E with the toy keyed byte mixing defined in Cfb.v and in harness/cfb_test.go; the real "
        "block ciphers, salsa20, pbkdf2 and AES-GCM are library code reached only by the monitors",
        "the textbook spec cfb_enc_spec/cfb_dec_spec is tied to Go's crypto/cipher NewCFBEncrypter/NewCFBDecrypter by the S lines of the log",
        "salsa20 keystream and the xor pad are abstract functions in the theorems; 'in place' means dst and src are the same slice "
        "(&dst[0] == &src[0] and equal length) - partially overlapping buffers are outside the model (crypto/subtle panics on them)",
        "AEAD: Go's append/sliceForAppend semantics (new array iff capacity is insufficient) is assumed in c08_aead_inplace; "
        "open(seal(x)) = x for AES-GCM is observed by the monitor, not proved",
        "concurrency is observed (4 goroutines, results compared with the lone caller), not proved; data-race freedom is C14's subject",
    ]
