"""C20 - the ring buffer is a FIFO queue (DESIGN.md section 5, C20)."""
import vcheck as V

META = {
    "engine": "ring",
    "technique": "Coq refinement proof (ring layout -> list queue, induction over op sequences) + extraction-based differential replay",
    "level_text": "Machine-checked refinement: from every well-formed layout (any capacity >= 1, any head/tail, wrapped or not) every sequence of Push/Pop/Peek/Discard/Clear/ForEach/ForEachReverse/Len on the transcribed ring yields the list queue's outputs and final content; cleared slots hold the zero value; growth regimes 8 / x2 / +10%. The model is tied to ringbuffer.go by replaying exhaustive-depth and random op logs of the real RingBuffer[int] (results and internal head/tail/elements after every operation) in the extracted model.",
    "level_note": "Trusted: Coq kernel; extraction (ExtrOcamlBasic only) and the OCaml driver; the in-package Go harness; generics instantiated at int in the differential run; Go's zero value modelled as a section variable. RINGBUFFER_MIN/EXP are regenerated from the source on every run.",
}
FILES = ["ring_test.go"]
OBLIGATIONS = ["c20_refines", "c20_len", "c20_no_retention", "c20_new_ring", "c20_grow_regimes"]


def run(ctx):
    ctx.prove("ring", "C20.v", OBLIGATIONS)
    rep, _ = V.harness_report(ctx, "^TestVerifC20$", "C20.report.json", files=FILES)
    summ = V.driver_compare(ctx, "ring", ["ring_model"], "ring_driver", "C20.log",
                            "ringbuffer.go vs coq/ring/Model.v (results and internal layout after every operation)")
    V.merge_report(ctx, rep, summ)
    if ctx.broken and not ctx.violations and ctx.quick():
        # search: the queue oracle over the deeper exhaustive sweep
        rep2, _ = V.harness_report(ctx, "^TestVerifC20$", "C20.report.json", env={"VERIF_TIER": "thorough"}, files=FILES)
        V.merge_report(ctx, rep2)
    ctx.coverage["rule"] = ("every op sequence of depth %s over a 16-letter alphabet from %s layouts (cap 1,2,3,4,8 x head x fill, "
                            "built directly in-package) + random sequences incl. growth past 1024; non-trivial = the "
                            "history wraps (head > tail) or grows" % ((rep or {}).get("extra", {}).get("exhaustive_depth"), (rep or {}).get("extra", {}).get("starts")))
    ctx.assumptions += [
        "element type of the differential run is int (the model and the theorems are polymorphic)",
        "visitors are deterministic functions of the values shown to them",
        "Discard(n) with n < 0 faults in Go (boundary B10); the model and the theorems take n : nat",
    ]
