"""C01 - reliable ordered stream: the reader sees a prefix of what was written (raw endpoints)."""
import kcp_common as K
import udp_common as U
import sess_common as S

META = {
    "enabled": True,
    "engine": "kcp",
    "technique": "Coq invariant proof over all event lists of a two-endpoint system with monotone wire history (sender ghost numbering + receiver ghost, composed) + differential replay + prefix oracle",
    "level_text": "Machine-checked for the raw endpoints: for every finite list of events (arbitrary API calls with arbitrary arguments and clock values on both sides; the reader's Input fed any datagram the writer emitted earlier, any number of times, in any order, or never; the writer's Input fed anything) the bytes (stream mode) resp. messages with their boundaries (message mode) returned by Recv are a prefix of what Send accepted, provided fewer than 2^31-2^16 segments were numbered; every datagram ever emitted carries under each sequence number the payload that number was given (retransmissions included); re-feeding any genuine datagram (duplicate, FEC-recovered) keeps the receiver invariant. Tied to kcp.go by replaying lossy/duplicating/reordering histories of two real cores in the extracted model and by a prefix oracle after every Recv, incl. all fate assignments for the first K datagrams.",
    "level_note": K.TRUST + " The session glue (WriteBuffers chunking at mss, Read carry-over) is modelled in coq/sess and composed with the raw-endpoint theorem (c01_session_prefix: bytes returned by the reader session's reads are a prefix of the bytes accepted by the writer session's writes, for every run); cipher/FEC transparency is covered by the frame/gate/fec engines (C06-C09), not composed into one theorem; interleavings with library goroutines are serialised by the session mutex (C14).",
}
OBLIGATIONS = ["c01_stream_prefix", "c01_message_prefix", "c01_run_safe", "c01_wire_genuine", "c01_fec_idempotent"]
RELEVANT = {"send-result", "recv-result", "input-result", "flush-result", "update-result", "sq", "rq", "rb", "rnxt", "sb", "una", "nxt"} | K.PANICS


def run(ctx):
    K.core_check(ctx, "C01", "C01.v", OBLIGATIONS, RELEVANT,
                 "kcp.go vs coq/kcp/Kcp.v on lossy/duplicating/reordering two-endpoint histories")
    S.session_part(ctx, "C01")
    U.run_parts(ctx, ["relay"])
    ctx.coverage["rule"] = ("all 4^K fate vectors (deliver/drop/duplicate/hold-behind-next) for the first K datagrams of a 4-message transfer in both modes, then a healed network; "
                            "random histories with 15-40 % loss, duplication, reordering, FEC-style non-regular re-delivery; prefix oracle after every Recv; "
                            "non-trivial = a retransmission plus a duplicate or out-of-order delivery occurred and data was read")
    ctx.assumptions += ["fewer than 2^31 - 2^16 segments numbered per direction (forced: any 32-bit ARQ confuses datagrams 2^32 segments apart)",
                        "message mode: a message has at most rcv_wnd fragments (upstream KCP's documented contract, boundary B8)"]
