"""C01 - reliable ordered stream: the reader sees a prefix of what was written (raw endpoints)."""
import kcp_common as K
import udp_common as U
import sess_common as S

META = {
    "enabled": True,
    "engine": "kcp",
    "technique": "Coq invariant proof over all event lists of a two-endpoint system with monotone wire history (sender ghost numbering + receiver ghost, composed) + differential replay + prefix oracle",
    "level_text": "Machine-checked for the raw endpoints: for every finite list of events (arbitrary API calls with arbitrary arguments and clock values on both sides; the reader's Input fed any datagram the writer emitted earlier, any number of times, in any order, or never; the writer's Input fed anything) the bytes (stream mode) resp. messages with their boundaries (message mode) returned by Recv are a prefix of what Send accepted, provided fewer than 2^31-2^16 segments were numbered; every datagram ever emitted carries under each sequence number the payload that number was given (retransmissions included); re-feeding any genuine datagram (duplicate, FEC-recovered) keeps the receiver invariant. Tied to kcp.go by replaying lossy/duplicating/reordering histories of two real cores in the extracted model and by a prefix oracle after every Recv, incl. all fate assignments for the first K datagrams.",
    "level_note": K.TRUST + " The session glue (WriteBuffers chunking at mss, Read carry-over) is modelled in coq/sess and composed with the raw-endpoint theorem (c01_session_prefix: bytes returned by the reader session's reads are a prefix of the bytes accepted by the writer session's writes, for every run); cipher/FEC transparency is composed with the raw-endpoint theorem in coq/pipe (Cpipe.v): every run of the session system - writer core + postProcess (FEC stage, nonce, CRC/Encrypt or AEAD) -> wire history -> packetInput/kcpInput + reader core, the wire delivering any earlier datagram any number of times in any order - projects to a run of the two-core system, so the prefix theorems hold for sessions of every cipher class (premises: the cipher laws Decrypt(Encrypt b) = b resp. Open(Seal p) = p, nonces of the right size, no_wrap), with FEC off, and with FEC on: generically relative to the decoder hypothesis dec_sound (recovered shards are payloads of data packets the writer emitted), and - Cpipe3.v - with NO decoder hypothesis for the fec engine's decoder model over the executable Reed-Solomon codec (pipe_fec_rs_dec_sound from c07_only_originals + c07_mds_rs_all; pipe_fec_rs_bridge: the packets frame's FEC stage emits are the genuine packets of the book the fec theorems quantify over, incl. unfinished groups, skipped parity and dropped long parity), for a fresh encoder/decoder pair of one ratio d/p; remaining premises: fec_no_wrap (FEC ids do not wrap within the run), fec_fits (core datagrams fit the FEC frame), OOB requests and auto-tuned decoders are not modelled; interleavings with library goroutines are serialised by the session mutex (C14).",
}
OBLIGATIONS = ["c01_stream_prefix", "c01_message_prefix", "c01_run_safe", "c01_wire_genuine", "c01_fec_idempotent"]
PIPE_OBLIGATIONS = ["pipe_run_projects", "pipe_stream_prefix", "pipe_message_prefix", "pipe_run_safe", "pipe_step_enabled",
                    "pipe_fec_run_projects", "pipe_fec_stream_prefix", "pipe_fec_message_prefix", "pipe_fec_run_safe"]

PIPE3_OBLIGATIONS = ["pipe_fec_rs_dec_sound", "pipe_fec_rs_bridge", "pipe_fec_rs_run_projects", "pipe_fec_rs_stream_prefix",
                     "pipe_fec_rs_message_prefix", "pipe_fec_rs_run_safe"]

RELEVANT = {"send-result", "recv-result", "input-result", "flush-result", "update-result", "sq", "rq", "rb", "rnxt", "sb", "una", "nxt"} | K.PANICS


def run(ctx):
    K.core_check(ctx, "C01", "C01.v", OBLIGATIONS, RELEVANT,
                 "kcp.go vs coq/kcp/Kcp.v on lossy/duplicating/reordering two-endpoint histories")
    S.session_part(ctx, "C01")
    # the session pipeline is transparent: C01 lifted to sessions with every cipher class, FEC off / FEC on (abstract decoder)
    K.extra_statements(ctx, "pipe", "Cpipe.v", PIPE_OBLIGATIONS)
    K.extra_statements(ctx, "pipe", "Cpipe3.v", PIPE3_OBLIGATIONS)
    U.run_parts(ctx, ["relay"])
    ctx.coverage["rule"] = ("all 4^K fate vectors (deliver/drop/duplicate/hold-behind-next) for the first K datagrams of a 4-message transfer in both modes, then a healed network; "
                            "random histories with 15-40 % loss, duplication, reordering, FEC-style non-regular re-delivery; prefix oracle after every Recv; "
                            "non-trivial = a retransmission plus a duplicate or out-of-order delivery occurred and data was read")
    ctx.assumptions += ["fewer than 2^31 - 2^16 segments numbered per direction (forced: any 32-bit ARQ confuses datagrams 2^32 segments apart)",
                        "message mode: a message has at most rcv_wnd fragments (upstream KCP's documented contract, boundary B8)"]
