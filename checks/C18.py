"""C18 - no retransmission on a clean path; RTO within bounds."""
import kcp_common as K

META = {
    "enabled": True,
    "engine": "kcp",
    "technique": "Coq invariant proof of the RTO clamp for all ack/timestamp sequences; sender-side exactly-once theorem under in-order, timely acknowledgements; clean-path simulation grid of the real cores",
    "level_text": "Proved for every sequence of calls and inputs, including forged acknowledgement timestamps and arbitrary clock values: min RTO (30/100 ms) <= rx_rto <= 60 s, as long as the no-delay mode is not re-configured mid-connection; the clamp of one RTT sample is proved separately. Exactly-once, sender side (C18b.v): a flush retransmits an already transmitted segment ONLY on timeout, fast or early retransmission (c18_retransmit_causes); fastack counters grow only through ACKs for later numbers (c18_fastack_causes); a transmission arms resendts = ts + rto with rto >= min RTO, so no timeout fires within min RTO of it (c18_no_rto_before_minrto); and for every history satisfying (H1) acknowledgements arrive in order and (H2) every transmitted segment is acknowledged less than min RTO after its transmission - what a FIFO loss-free path with 2D + peer interval < min RTO delivers - every segment is put on the wire exactly once and xmit <= 1 in every state (c18_clean_sender). Time passing INSIDE a call (an output callback that blocks tx ms per datagram) is modelled by flush_t / input_t / update_t (FlushT.v: the clock is re-read where kcp.go re-reads it; equal to flush / input / update at tx = 0, c18c_*_zero), run against the real core with a blocking callback, and C18c.v proves that the retransmission timer of every transmitted segment is armed from a clock reading at most ONE callback time older than the segment's own timestamp, never from the start of the flush (c18c_timer_lag, c18c_timer_lag_nowrap, c18c_flush_t_timer_lag); and the clean-sender theorem is proved for every tx >= 0 (C18d.v, c18d_clean_sender_t: over run_t, with (H2t) every outstanding segment is acknowledged before it is min RTO - tx old even at the END of the call that examines it, measured wrap-safely; inv / rto_inv preservation re-proved for flush_t / input_t / update_t; the tx = 0 instance gives back c18_clean_sender, c18d_zero_instance). PARTIAL: that the two-endpoint clean path yields (H1) and (H2) is a timed whole-system induction that is not mechanised; it is decided by a grid of deterministic clean-path simulations on the real cores under the fake clock (every sequence number must appear exactly once), replayed in the model, plus clean-path simulations over a slow link (blocking callback, the peer working meanwhile; monitors only).",
    "level_note": K.TRUST + " Partial: the step from the two-endpoint clean path to the hypotheses (H1), (H2) of c18_clean_sender is established by simulation over a configuration grid, not by a theorem.",
}
OBLIGATIONS = ["c18_rto_bounds", "c18_rto_max", "c18_nodelay_minrto", "c18_update_ack_clamped"]
RELEVANT = {"rto", "srtt", "rttvar", "minrto", "sb"} | K.RESULTS | K.PANICS


CLEAN_OBLIGATIONS = ["c18_retransmit_causes_seg", "c18_retransmit_causes", "c18_flush_wire", "c18_ackonly_retransmits_nothing",
                     "c18_fastack_causes", "c18_in_order_ack_moves_no_counter", "c18_in_order_input", "c18_resendts_after_send",
                     "c18_no_rto_before_minrto", "c18_clean_sender", "c18_clean_sender_always", "c18_clean_step",
                     "c18_new_endpoint", "c18_clean_history_decide"]


TIMED_OBLIGATIONS = ["c18c_flush_t_zero", "c18c_input_t_zero", "c18c_update_t_zero", "c18c_flush_segs_t_zero", "c18c_timer_from_handoff",
                     "c18c_make_space_one_output", "c18c_one_output_per_segment", "c18c_clock_step", "c18c_clk_wrap",
                     "c18c_timer_lag_invariant", "c18c_timer_lag", "c18c_timer_lag_nowrap", "c18c_flush_t_timer_lag", "c18c_example"]


CLEAN_T_OBLIGATIONS = ["c18d_step_t_zero", "c18d_run_t_zero", "c18d_flush_t_inv", "c18d_flush_t_wire", "c18d_timer_armed", "c18d_no_rto_before_minrto_t",
                       "c18d_clean_sender_t", "c18d_clean_sender_t_always", "c18d_clean_step_t", "c18d_clean_flush_t", "c18d_new_endpoint_t",
                       "c18d_cinv_of_old", "c18d_cinv_zero", "c18d_fresh_zero", "c18d_history_zero", "c18d_zero_instance",
                       "c18d_clean_history_t_decide", "c18d_example", "c18d_example_start", "c18d_example_theorem", "c18d_example_boundary"]


def run(ctx):
    K.core_check(ctx, "C18", "C18.v", OBLIGATIONS, RELEVANT,
                 "kcp.go vs coq/kcp/Kcp.v on clean-path simulations and forged-timestamp histories")
    K.extra_statements(ctx, "kcp", "C18b.v", CLEAN_OBLIGATIONS)
    K.extra_statements(ctx, "kcp", "C18c.v", TIMED_OBLIGATIONS)
    K.extra_statements(ctx, "kcp", "C18d.v", CLEAN_T_OBLIGATIONS)
    ctx.coverage["rule"] = ("clean-path grid: FIFO loss-free constant delay D in {0,1,3,8,20,30,44} ms, intervals {10,20,40}, nodelay, resend {0,1,2}, nc, 7 window pairs, bursts, both drivers, "
                            "clock started just before the 2^32 ms wrap, kept only when 2D + peer interval < min RTO and rcv_wnd >= min(snd_wnd, 32); plus lossy histories with forged timestamps; "
                            "non-trivial = clean-path run that satisfies the preconditions, or a history with forged/retransmitted segments")
    ctx.assumptions += ["no-delay mode is not switched mid-connection (boundary B4)"]
