"""C18 - no retransmission on a clean path; RTO within bounds."""
import kcp_common as K

META = {
    "enabled": True,
    "engine": "kcp",
    "technique": "Coq invariant proof of the RTO clamp for all ack/timestamp sequences; clean-path exactly-once checked by simulation of the real cores (partial)",
    "level_text": "Proved for every sequence of calls and inputs, including forged acknowledgement timestamps and arbitrary clock values: min RTO (30/100 ms) <= rx_rto <= 60 s, as long as the no-delay mode is not re-configured mid-connection; the clamp of one RTT sample is proved separately. The exactly-once half (clean FIFO path, 2D + peer interval < min RTO, reader keeps up) is PARTIAL: it is decided by a grid of deterministic clean-path simulations on the real cores under the fake clock (every sequence number must appear on the wire exactly once), replayed in the model; the whole-system timed induction is not mechanised.",
    "level_note": K.TRUST + " Partial: 'every data segment is transmitted exactly once on a clean path' is established by simulation over a configuration grid, not by a theorem.",
}
OBLIGATIONS = ["c18_rto_bounds", "c18_rto_max", "c18_nodelay_minrto", "c18_update_ack_clamped"]
RELEVANT = {"rto", "srtt", "rttvar", "minrto", "sb"} | K.RESULTS | K.PANICS


def run(ctx):
    K.core_check(ctx, "C18", "C18.v", OBLIGATIONS, RELEVANT,
                 "kcp.go vs coq/kcp/Kcp.v on clean-path simulations and forged-timestamp histories")
    ctx.coverage["rule"] = ("clean-path grid: FIFO loss-free constant delay D in {0,1,3,8,20,30,44} ms, intervals {10,20,40}, nodelay, resend {0,1,2}, nc, 7 window pairs, bursts, both drivers, "
                            "clock started just before the 2^32 ms wrap, kept only when 2D + peer interval < min RTO and rcv_wnd >= min(snd_wnd, 32); plus lossy histories with forged timestamps; "
                            "non-trivial = clean-path run that satisfies the preconditions, or a history with forged/retransmitted segments")
    ctx.assumptions += ["no-delay mode is not switched mid-connection (boundary B4)"]
