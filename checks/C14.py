"""C14 - concurrent use of sessions and listeners is free of data races (DESIGN.md section 5, C14).

translator (lock/access summary of every thread root, regenerated from /repo)
  -> Coq: lockset_sound (general, proved once) + discipline_ok on the generated summary (vm_compute)
  -> Go race detector over a stress harness driving every public method (validates the summary)
A detector report is a violation (key race:<rootA>~<rootB>); a detector report on a pair that the
summary calls ordered additionally means the summary / the model is unsound (broken tie).
"""
import json
import os
import re

import vcheck as V

META = {
    "engine": "lockset",
    "technique": "generated lock/access summary + Coq-verified lockset discipline (all interleavings) + Go race detector cross-check",
    "level_text": ("A general theorem, proved once in Coq, says that a program accepted by the computable lock discipline has no data race in any "
                   "execution: any number of sessions, any number of concurrent callers of every public method, any interleaving the mutexes permit. "
                   "A translator regenerates from the current Go sources the control-flow graphs of lock operations and field accesses of every thread "
                   "root (47 roots: all exported non-deprecated methods of UDPSession and Listener, every goroutine body, the scheduler callback, the "
                   "output closure, the constructors), and the discipline is evaluated on that term inside Coq with no exclusion list; Coq also re-checks "
                   "that lock sets are consistent along every edge. The summary itself is validated on the real code by the Go race detector over a "
                   "stress harness that drives all those methods concurrently with traffic under several cipher/FEC classes; a detector report is a "
                   "violation, and one on a pair the summary calls ordered marks the tie as broken."),
    "level_note": ("Partial: the proof is over the extracted summary, whose extraction (verif-extract-lockset) is trusted and cross-checked by the detector. "
                   "Abstraction: locations are (type, field), package variables and a separate content location per slice/map field (followed through local "
                   "aliases, parameters and returned slices; unfollowable alias shapes fail the translation); one abstract instance per type split into "
                   "session-owned and shared; pool-buffer bytes handed through channels are not modelled. Happens-before = program order, publication "
                   "before goroutine start, mutex release->acquire (a subset of the Go memory model). Outside: third-party packages, the standard "
                   "library, user callbacks, the Go runtime, the detector's schedule coverage; production build (no tag debug)."),
}

ENGINE = "lockset"
FILES = ["lockset_test.go"]
COQDIR = os.path.join(V.VERIF, "coq", ENGINE)

OBLIGATIONS = ["c14_lockset_sound", "c14_lockset_sound_except", "c14_common_lock_ordered", "c14_kcpgo_well_bracketed",
               "c14_kcpgo_race_free", "c14_no_race"]


def norm_pair(p):
    a, b, x = p
    return (min(a, b), max(a, b), x)


# --------------------------------------------------------------------------- probe (Coq computes)

PROBE = """From Coq Require Import List PArith String.
From KV.Lockset Require Import Lockset GenAccess.
Import ListNotations.
Definition rname (r : nat) : string :=
  match find (fun p => Nat.eqb (fst p) r) root_names with Some p => snd p | None => "?"%string end.
Definition lname (x : sloc) : string :=
  match find (fun p => sloc_eqb (fst p) x) loc_names with Some p => snd p | None => "?"%string end.
Eval vm_compute in ("OK"%string, discipline_ok kcpgo_access).
Eval vm_compute in ("WB"%string, thread_ok (p_main kcpgo_access) && forallb thread_ok (p_roots kcpgo_access))%bool.
Eval vm_compute in ("FIRST"%string, match first_bad_pair [] kcpgo_access with
  | Some (a1, a2) => [(rname (a_root a1), rname (a_root a2), lname (a_loc a1))] | None => [] end).
Eval vm_compute in ("BAD"%string, map (fun p => (rname (fst (fst p)), rname (snd (fst p)), lname (snd p))) (bad_root_pairs [] kcpgo_access)).
Eval vm_compute in ("CATS"%string, map (fun c => count_cat [] kcpgo_access c) [CReadOnly; CAtomic; CLocked; CConfined; CPairwise; CBad]).
Eval vm_compute in ("SIZE"%string, List.length (p_roots kcpgo_access), List.length (accs kcpgo_access), List.length (locs_of (accs kcpgo_access))).
"""


def probe(ctx):
    p = os.path.join(ctx.dir, "Probe.v")
    open(p, "w").write(PROBE)
    with V.Lock("coq-" + ENGINE):
        rc, o = V.sh(["coqc"] + V.coq_flags(ENGINE) + ["-o", os.path.join(ctx.dir, "Probe.vo"), p], cwd=ctx.dir, timeout=600)
    if rc != 0:
        return None, o
    flat = " ".join(o.split())
    res = {"raw": flat[-2000:]}
    m = re.search(r'\("OK"%string, (true|false)\)', flat)
    res["ok"] = bool(m and m.group(1) == "true")
    m = re.search(r'\("WB"%string, (true|false)\)', flat)
    res["wb"] = bool(m and m.group(1) == "true")
    m = re.search(r'\("BAD"%string,\s*(\[.*?\])\)\s*:', flat)
    res["bad"] = [tuple(t) for t in re.findall(r'\("([^"]*)"%string, "([^"]*)"%string, "([^"]*)"%string\)', m.group(1))] if m else None
    m = re.search(r'\("CATS"%string, \[([0-9; ]*)\]\)', flat)
    if m:
        c = [int(x) for x in m.group(1).split(";")]
        res["categories"] = dict(zip(["read-only-after-publication", "synchronising-only", "common-lock", "thread-confined", "pairwise", "undisciplined"], c))
    m = re.search(r'\("SIZE"%string, (\d+), (\d+), (\d+)\)', flat)
    if m:
        res["roots"], res["accesses"], res["locations"] = int(m.group(1)), int(m.group(2)), int(m.group(3))
    if res["bad"] is None:
        return None, o
    return res, o


# --------------------------------------------------------------------------- race detector output

HDR = re.compile(r"^(Read|Write|Previous read|Previous write|Atomic read|Atomic write|Previous atomic read|Previous atomic write) at 0x[0-9a-f]+ by (goroutine \d+|main goroutine):")


def norm_func(f):
    """github.com/xtaci/kcp-go/v5.(*UDPSession).SetMtu() -> UDPSession.SetMtu ; closures -> enclosing function"""
    f = f.strip()
    f = re.sub(r"\(\)$", "", f)
    f = re.sub(r"\[[^\]]*\]", "", f)               # generic instantiation
    f = f.split("/")[-1]                            # drop the module path
    f = re.sub(r"^v\d+\.", "", f)
    f = re.sub(r"^kcp\.", "", f)
    f = f.replace("(*", "").replace(")", "")
    f = re.sub(r"(\.(func|gowrap)\d+)+(\.\d+)*$", "", f)
    return f


def parse_races(out):
    """-> list of {"text", "stacks": [[(func, file, line), ...], [...]]} for every WARNING: DATA RACE block"""
    races = []
    lines = out.split("\n")
    i = 0
    while i < len(lines):
        if lines[i].strip() != "WARNING: DATA RACE":
            i += 1
            continue
        j = i + 1
        while j < len(lines) and not lines[j].startswith("=================="):
            j += 1
        block = lines[i:j]
        stacks, cur = [], None
        k = 0
        while k < len(block):
            ln = block[k]
            if HDR.match(ln):
                cur = {"what": HDR.match(ln).group(1), "frames": []}
                stacks.append(cur)
            elif ln.startswith("Goroutine ") or ln.strip() == "":
                cur = None if ln.startswith("Goroutine ") else cur
                if ln.strip() == "" and cur is not None and cur["frames"]:
                    cur = None
            elif cur is not None and ln.startswith("  ") and not ln.startswith("      "):
                fn = ln.strip()
                loc = block[k + 1].strip() if k + 1 < len(block) else ""
                m = re.match(r"(\S+?):(\d+)", loc)
                if not re.search(r"\.gowrap\d+\(\)$", fn):     # goroutine trampolines are not frames of a root
                    cur["frames"].append((norm_func(fn), m.group(1) if m else "?", int(m.group(2)) if m else 0))
                k += 1
            k += 1
        races.append({"text": "\n".join(block), "stacks": stacks[:2]})
        i = j + 1
    return races


def side_info(stack, roots_by_name):
    """root (thread root of the summary) and site (file:line of the access inside package kcp)"""
    frames = stack["frames"]
    site = None
    for fn, fl, ln in frames:                      # innermost first
        base = os.path.basename(fl)
        if fl.startswith(V.REPO + "/") and not base.startswith("zz_verif_"):
            site = (fn, base, ln)
            break
    root = None
    put = [fn for fn, _, _ in frames if roots_by_name.get(fn, {}).get("kind") == "put"]
    if put:
        root = put[0]
    else:
        for fn, fl, ln in reversed(frames):        # outermost first
            if fn in roots_by_name and not os.path.basename(fl).startswith("zz_verif_"):
                root = fn
                break
    return root, site


def short(name):
    return name.split(".")[-1] if name else "?"


def run_harness(ctx, tier, only=None):
    e = ctx.env(VERIF_TIER=tier, GORACE="halt_on_error=0")
    if only:
        e["VERIF_C14_ONLY"] = only
    rp = os.path.join(ctx.dir, "C14.report.json")
    if os.path.exists(rp):
        os.remove(rp)
    rc, o = V.go_harness("^TestVerifC14$", env=e, timeout=1500, race=True, files=FILES)
    open(os.path.join(ctx.dir, "race-output-%s.txt" % tier), "w").write(o)
    rep = None
    if os.path.exists(rp):
        try:
            rep = json.load(open(rp))
        except Exception:
            rep = None
    races = parse_races(o)
    # with -race the test binary fails when the detector fired; anything else is a harness failure
    only_race_failure = rc != 0 and races and rep is not None and "race detected during execution of test" in o \
        and not re.search(r"(?m)^panic:|^fatal error:", o)
    if rep is None or (rc != 0 and not only_race_failure):
        ctx.broke("harness ^TestVerifC14$ did not complete on the current tree (build error, panic or timeout)", V.tail_err(o, 80))
    return rep, races, o


def run(ctx):
    os.makedirs(ctx.dir, exist_ok=True)
    side_path = os.path.join(ctx.dir, "access.json")
    # 1. translator: lock / access summary of every thread root from the current sources
    with V.Lock("gen-" + ENGINE):
        okt, ot = V.translate(ENGINE, V.REPO, os.path.join(COQDIR, "GenAccess.v"), side_path)
    side = None
    if not okt:
        ctx.broke("translator lockset: the lock/access summary could not be regenerated from the source "
                  "(unrecognised construct, unbalanced locking, or control-flow paths meeting with different lock sets)", ot)
    else:
        side = json.load(open(side_path))

    # 2. Coq computes the discipline on the summary; when it fails, the Gallina search names the undisciplined root pairs
    pr = None
    if okt:
        V.gen_base()
        okb, ob = V.coq_build(ENGINE)
        if okb:
            pr, op = probe(ctx)
            if pr is None:
                ctx.broke("probe of the generated summary failed", V.tail_err(op))
    bad = [norm_pair(p) for p in (pr or {}).get("bad") or []]
    ctx.prove(ENGINE, "C14.v", OBLIGATIONS)
    if bad:
        # c14_kcpgo_race_free no longer holds: name the undisciplined pairs (Gallina: bad_root_pairs / first_bad_pair)
        ctx.broke("c14_kcpgo_race_free refuted on the regenerated summary: undisciplined access pair(s) " +
                  "; ".join("%s ~ %s on %s" % p for p in bad), (pr or {}).get("raw", ""))
    elif pr and not pr["ok"]:
        ctx.broke("discipline_ok kcpgo_access computes to false (lock sets inconsistent along an edge?)", pr.get("raw", ""))
    if pr:
        ctx.coverage["summary"] = {k: pr[k] for k in ("roots", "accesses", "locations", "categories") if k in pr}
        ctx.coverage["undisciplined_pairs"] = ["%s ~ %s on %s" % p for p in bad]
    if side:
        ctx.coverage["thread_roots"] = ["%s:%s%s" % (r["kind"], r["name"], "" if r["index"] >= 0 else " (publication thread)") for r in side["roots"]]
        ctx.coverage["generated_inputs"] = {"GenAccess.v": V.sha(os.path.join(COQDIR, "GenAccess.v")), "files": side["files"],
                                            "locks": side["locks"], "user_callbacks_outside_model": side["user_callbacks"],
                                            "session_owned_types": side["own_types"]}
        ctx.coverage["trusted_base"].append("verif-extract-lockset (Go AST + go/types -> GenAccess.v) regenerated this run: sha "
                                            + V.sha(os.path.join(COQDIR, "GenAccess.v")))

    # 3. the race detector over the stress harness (all public methods + traffic, cipher/FEC classes)
    only = None
    if ctx.replay:
        try:
            only = (json.load(open(ctx.replay)).get("replay") or {}).get("scenario")
        except Exception:
            only = None
    rep, races, _ = run_harness(ctx, ctx.tier, only)
    V.merge_report(ctx, rep)
    roots_by_name = {r["name"]: r for r in (side or {}).get("roots", []) if r["index"] >= 0}
    sites = {}
    for s in (side or {}).get("sites", []):
        sites.setdefault((s["root"], s["file"], s["line"]), []).append(s)
    confirmed = set()
    seen_keys = {}
    for rc_ in races:
        if len(rc_["stacks"]) < 2:
            ctx.broke("race detector report could not be parsed", rc_["text"][:3000])
            continue
        (ra, sa), (rb, sb) = side_info(rc_["stacks"][0], roots_by_name), side_info(rc_["stacks"][1], roots_by_name)
        names = sorted([short(ra) if ra else (sa[0] if sa else "?"), short(rb) if rb else (sb[0] if sb else "?")])
        key = "race:%s~%s" % (names[0], names[1])
        scen = "stress"
        if "locksetScenarioF6" in rc_["text"]:
            scen = "F6"
        elif "locksetScenarioF7" in rc_["text"]:
            scen = "F7"
        elif "locksetScenarioReadErr" in rc_["text"]:
            scen = "readerr"
        elif "locksetScenarioCiphers" in rc_["text"]:
            scen = "ciphers"
        elif "locksetScenarioClosed" in rc_["text"]:
            scen = "closed"
        # what does the summary say about this pair?
        verdict, common = "outside-summary", []
        if side and ra and rb and sa and sb:
            la = {(s["loc"]) for s in sites.get((ra, sa[1], sa[2]), [])}
            lb = {(s["loc"]) for s in sites.get((rb, sb[1], sb[2]), [])}
            common = sorted(la & lb)
            ka, kb = "%s:%s" % (roots_by_name[ra]["kind"], ra), "%s:%s" % (roots_by_name[rb]["kind"], rb)
            hit = [x for x in common if norm_pair((ka, kb, x)) in bad]
            if hit:
                verdict = "summary-agrees-undisciplined"
                for x in hit:
                    confirmed.add(norm_pair((ka, kb, x)))
            elif not la or not lb:
                verdict = "site-missing-from-summary"
            else:
                verdict = "summary-says-ordered"
        what = "data race between %s (%s:%s) and %s (%s:%s)%s [%s]" % (
            ra or "?", sa[1] if sa else "?", sa[2] if sa else "?", rb or "?", sb[1] if sb else "?", sb[2] if sb else "?",
            " on " + ",".join(common) if common else "", verdict)
        if key not in seen_keys:
            seen_keys[key] = True
            ctx.violation(key, what, {"scenario": scen, "how": "bin/check C14 --replay <this file> (go test -race, harness lockset_test.go, VERIF_C14_ONLY=%s)" % scen,
                                      "detector_report": rc_["text"][:6000]})
        if verdict != "summary-agrees-undisciplined":
            ctx.broke("access summary contradicted by the race detector (%s): the detector reports a race on a pair the "
                      "generated summary / the lockset model calls ordered or does not contain" % verdict, what + "\n" + rc_["text"][:3000])
    if not races and os.path.exists(os.path.join(ctx.dir, "race-output-%s.txt" % ctx.tier)):
        out_ = open(os.path.join(ctx.dir, "race-output-%s.txt" % ctx.tier)).read()
        m_ = re.search(r"fatal error: concurrent map [a-z ]+", out_)
        if m_:   # the runtime's own detection of unsynchronised map access aborted the run
            ctx.violation("race:runtime-concurrent-map-access", m_.group(0), {"scenario": only or "all", "output": out_[out_.find(m_.group(0)):][:6000]})
    ctx.coverage["detector_reports"] = len(races)
    ctx.coverage["detector_confirmed_pairs"] = ["%s ~ %s on %s" % p for p in sorted(confirmed)]
    # a pair refuted by the model but silent under the detector is not a finding - and not a proof either
    if not only:
        for p in bad:
            if p not in confirmed:
                ctx.broke("the discipline is refuted on %s ~ %s (%s) but the race detector did not confirm the pair in this run"
                          % p, "undisciplined pair of the generated summary without a detector report")

    # 4. search at the deeper tier when something no longer checks and nothing concrete was found
    if ctx.broken and not ctx.violations and ctx.quick() and not only:
        rep2, races2, _ = run_harness(ctx, "thorough")
        V.merge_report(ctx, rep2)
        for rc_ in races2:
            if len(rc_["stacks"]) >= 2:
                (ra, sa), (rb, sb) = side_info(rc_["stacks"][0], roots_by_name), side_info(rc_["stacks"][1], roots_by_name)
                names = sorted([short(ra) if ra else "?", short(rb) if rb else "?"])
                ctx.violation("race:%s~%s" % (names[0], names[1]), "data race between %s and %s (thorough search)" % (ra, rb),
                              {"scenario": "stress", "detector_report": rc_["text"][:6000]})

    ctx.coverage["rule"] = ("stress of every non-deprecated public method of a dialled session, of the accepted session and of the listener, "
                            "from concurrent goroutines with traffic in both directions, new peers arriving, and concurrent Close, per cipher/FEC "
                            "class %s, %s ms each, plus the targeted scenarios GetOOBMaxSize/SetMtu, SetLogger/SetLogger, listener-read-error/session-Close (many listeners x sessions) and concurrent Encrypt/Decrypt on one BlockCrypt object of every cipher kind (as a session's post-processing and receive goroutines use it); evaluations = public-method "
                            "calls made under the race detector; non-trivial = those made in a scenario in which payload bytes were delivered end to end"
                            % ((rep or {}).get("extra", {}).get("scenarios"), (rep or {}).get("extra", {}).get("stress_ms_per_config")))
    ctx.level = "proof"
    ctx.assumptions += [
        "PARTIAL: the theorems are about the generated lock/access summary; its extraction from the Go source (verif-extract-lockset) is trusted, "
        "cross-checked every run by the Go race detector on the real code (a report on a pair the summary calls ordered fails the check)",
        "abstraction of the summary: locations are struct fields and package variables (type name, field name) plus, for every slice/map-typed field, "
        "a CONTENT location (type, field[*]) distinct from the header; element reads/writes, range, delete, append, copy, len of a map, and callees "
        "writing through a slice are content accesses with the locks held at that point, also when made through a local alias (x := r.f, x := r.f[a:b], "
        "range values, parameters bound to a field, slices returned by a callee) - aliases are propagated flow-insensitively per function; a field "
        "assigned from another field's slice merges the two content locations; an alias escaping into a composite literal or a channel makes the "
        "translator fail; the parallel exchange  a, r.f = r.f, a[:0]  is treated as ownership transfer (the local takes the old content over); one "
        "abstract instance per type, split into session-owned types (reachable from UDPSession by containment) and shared types; byte contents of pool "
        "buffers handed through channels and struct elements reached through *T from iterators are not content locations (C15 / the detector)",
        "publication: everything a constructor (newUDPSession, serveConn, NewTimedSched, package initialisation) does before its first go statement "
        "happens-before every other thread's access to that object (object pointers reach other goroutines only through go statements, channel "
        "sends, lock-protected maps, or the caller's own synchronisation)",
        "memory-model edges assumed: program order, goroutine creation after publication, sync.Mutex/RWMutex Unlock -> later Lock, Unlock -> later RLock, "
        "RUnlock -> later Lock (a subset of the Go memory model: channel, Once and atomic edges are not used, so race freedom here implies race "
        "freedom there); accesses through sync/atomic, atomic.Value, sync.Pool, sync.Once are synchronising and never race with each other",
        "thread roots: every exported non-deprecated method of UDPSession and Listener (any number of concurrent callers), every go statement, every "
        "function handed to TimedSched.Put, the output closure, and the remainder of the constructors; excluded as the property says: SetDUP, "
        "SetStreamMode, KCP.Update/Check; SetEntropy is package configuration (not a session/listener method) and is not a root - fillRand's own "
        "locking is in the summary",
        "outside: third-party packages and the standard library (calls into them are opaque; salsa20.XORKeyStream is taken to only read its key), "
        "user callbacks (Control's function, the OOB handler, a logger), the Go runtime and the race detector's schedule coverage; build = linux/amd64 "
        "without tags (kcp_trace_off.go: with tag debug the core reads KCP.logmask/log on every call)",
    ]
