"""C07 - FEC reconstructs exactly the missing packets from any k of n (DESIGN.md section 5, C07).
Engine `fec` (shared with C16 and the FEC part of C05)."""
import vcheck as V

META = {
    "engine": "fec",
    "technique": "machine-checked proof (Coq 8.16.1) over a hand-transcribed executable model of fec.go "
                 "parameterised by an abstract erasure codec; the MDS premise is PROVED for an independent executable "
                 "GF(2^8) Reed-Solomon implementation of klauspost's buildMatrix for every ratio d+p <= 256 (field laws, "
                 "Gauss-Jordan inversion correctness, Vandermonde kernel theorem); model tied to the real fecEncoder/fecDecoder "
                 "by byte-for-byte differential replay of generated packet histories (extracted OCaml) plus "
                 "property monitors on the real code",
    "level_text": "proof",
    "level_note": "decoder/encoder theorems are full for all histories relative to the visible premise "
                  "`mds (mk d p) d p`; that premise is proved (c07_mds_rs_all) for the executable codec Rs.v for every "
                  "ratio with d+p <= 256, giving the premise-free c07_recover_rs / c07_only_originals_rs; that the "
                  "third-party library computes the same code as Rs.v is the correspondence (bit-for-bit replay), not a theorem; retention is "
                  "stated on decoder states (held / too_old) rather than as one closed formula over arrival orders",
}

FILES = ["fec_test.go"]
OBLIGATIONS = ["c07_recover", "c07_held_accumulates", "c07_only_originals", "c07_wrap",
               "c07_parity_loss_harmless", "c07_encoder_layout", "c07_mds_rs_all", "c07_recover_rs", "c07_only_originals_rs",
               "c07_mds_rs_le8", "c07_mds_rs_10_3"]


def run(ctx):
    ctx.prove("fec", "C07.v", OBLIGATIONS)
    rep, _ = V.harness_report(ctx, "^TestVerifC07$", "C07.report.json", files=FILES)
    summ = V.driver_compare(ctx, "fec", ["fec_model"], "fec_driver", "C07.log",
                            "fec.go fecEncoder.encode / fecDecoder.decode vs coq/fec/Fec.v instantiated with the independent "
                            "Reed-Solomon codec coq/fec/Rs.v (every returned packet byte for byte - hence also 'parity is the RS "
                            "code of the zero padded size-prefixed payloads' - and the decoder's ratio, tune flag, newestShardId, "
                            "group table and autotune ring after every call)")
    V.merge_report(ctx, rep, summ)
    if ctx.broken and not ctx.violations and ctx.quick():
        # search: the monitors over the thorough sweep (d+p <= 9, all arrival subsets)
        rep2, _ = V.harness_report(ctx, "^TestVerifC07$", "C07.report.json", env={"VERIF_TIER": "thorough"}, files=FILES, timeout=3000)
        V.merge_report(ctx, rep2)
    bound = (rep or {}).get("extra", {}).get("exhaustive_bound_d_plus_p")
    ctx.coverage["rule"] = ("every (d,p) with d+p <= %s x every arrival subset of the subject group x size vectors {equal, increasing, "
                            "one maximal, one minimal} x orders {as sent, reversed, shuffled} with duplicates, interleaved with random "
                            "subsets of the two neighbouring groups, group position drawn from {0, ss, low half, 2^31, high half, "
                            "paws-3ss, paws-2ss, paws-ss (across the wrap), random}, parity skipped in ~12%% of the groups, fresh "
                            "(late-joining) and walked decoders; sampled ratios up to 128/127; non-trivial = the property demanded "
                            "the reconstruction of at least one missing data packet in the case" % bound)
    ctx.assumptions += [
        "mds (mk d p) d p: premise of c07_recover / c07_held_accumulates / c07_only_originals; proved for Rs.v for every d+p <= 256 (c07_mds_rs_all); "
        "Rs.v = klauspost buildMatrix is compared bit for bit with the library by the harness, not proved",
        "book: one lap of the id space (a group id names one group content); a packet delayed by 2^32 ids is not modelled",
        "pool buffers / capacities are not modelled (C15); slice faults are Panic outcomes of the model",
        "payloads are opaque to the decoder: short random payloads, a few maximal ones",
    ]
