"""C16 - FEC ratio mismatch is harmless; the decoder converges to the peer's ratio
(DESIGN.md section 5, C16).  Engine `fec` (shared with C07)."""
import vcheck as V

META = {
    "engine": "fec",
    "technique": "machine-checked proof (Coq 8.16.1) over hand-transcribed executable models of autotune.go and "
                 "fec.go (invariant by induction over arbitrary packet sequences; combinatorics of block patterns); "
                 "models tied to the real autoTune / fecDecoder by differential replay of pulse trains and decoder "
                 "histories (extracted OCaml) plus property monitors on the real code incl. the 258+2(d+p) bound",
    "level_text": "proof (one half partial)",
    "level_note": "stability, FindPeriod soundness/completeness, mismatch detection and the composed bound "
                  "258+2(d+p) (c16_converges) are fully proved, the latter for rings holding only samples of the "
                  "sender (any loss/dup/reorder of its earlier packets) and runs without u32 wrap; rings pre-filled "
                  "with junk of another pattern are covered by the monitors on the real code only; 'stream intact' "
                  "with different data counts rests on the ARQ core's conv/cmd/len filter (probabilistic in the code "
                  "itself) and is stated as c16_stream_intact_partial; with EQUAL data counts parity row i is the same "
                  "code for every parity count (c16_parity_rows_indep_all, proved for all d+p <= 256)",
}

FILES = ["fec_test.go"]
OBLIGATIONS = ["c16_stable", "c16_genuine_is_matching", "c16_findperiod_sound", "c16_mismatch_detected",
               "c16_ring_holds_last_samples", "c16_findperiod_complete", "c16_converges", "c16_tuning_steps",
               "c16_stream_intact_partial", "c16_parity_rows_indep_all", "c16_parity_rows_indep"]
PARTIAL = ["c16_stream_intact_partial"]


def run(ctx):
    ctx.prove("fec", "C16.v", OBLIGATIONS, partial=PARTIAL)
    rep, _ = V.harness_report(ctx, "^TestVerifC16$", "C16.report.json", files=FILES)
    summ = V.driver_compare(ctx, "fec", ["fec_model"], "fec_driver", "C16.log",
                            "autotune.go Sample/FindPeriod and fec.go decode (tuning branch, re-configuration, group table) vs "
                            "coq/fec/AutoTune.v + Fec.v (every FindPeriod result, every returned packet, the effective ratio, "
                            "tune flag and ring after every call)")
    V.merge_report(ctx, rep, summ)
    if ctx.broken and not ctx.violations and ctx.quick():
        rep2, _ = V.harness_report(ctx, "^TestVerifC16$", "C16.report.json", env={"VERIF_TIER": "thorough"}, files=FILES, timeout=3000)
        V.merge_report(ctx, rep2)
    ex = (rep or {}).get("extra", {})
    ctx.coverage["rule"] = ("(1) pulse trains on the raw autoTune (patterns up to 200/54, ids around 0, 2^31, 2^32, loss / duplication / "
                            "reordering); (2) long streams of a matching pair under loss, duplication, reordering, skipped parity, "
                            "across the wrap (stability after every call); (3) every sender/receiver pair with d+p <= %s (incl. the "
                            "lazily created 1/1 decoder of an end without FEC) plus pairs up to 128/127 vs 254/1: pre-run in {none, own "
                            "packets lossy/reordered, older own packets, consistent junk, arbitrary junk}, then an uninterrupted run of "
                            "258+2(d+p) packets from a start id in {0, <4096, low half, high half, 2^31, just before paws}; measured "
                            "worst case run-to-convergence minus bound = %s; then losses must be recovered; non-trivial = ratios differ "
                            "or the pre-run is junk (convergence), loss+duplication+reordering all present (stability)"
                            % (ex.get("exhaustive_pairs_bound_d_plus_p"), ex.get("max_run_to_converge_minus_bound")))
    ctx.assumptions += [
        "sort.Slice is not stable: the model sorts by stable insertion; the observable (FindPeriod) is insensitive on windows "
        "spanning < 2^31 ids whose type is a function of the seqid (AutoTune.v header); arbitrary junk runs for the monitors only",
        "convergence theorem/monitor: the run does not straddle the sender's paws and no parity is skipped inside it",
        "FEC at one end only: a receiver without FEC creates the 1/1 decoder lazily (covered as receiver 1/1); a sender without "
        "FEC emits raw KCP packets that never reach the decoder",
    ]
