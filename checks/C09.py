"""C09 - datagrams follow the documented frame layout; nonces never repeat (DESIGN.md section 5, C09)."""
import vcheck as V
import udp_common as U

META = {
    'engine': 'frame',
    'technique': 'Coq codec round-trip and layout proofs for the transcribed framing pipeline; independent README-based decoder and byte-exact replay of every emitted datagram',
    'level_text': "Machine-checked on the transcribed sequential pipeline (segment codec, FEC header numbering, nonce/CRC framing for the CRC cipher classes and nonce+seal for AEAD, with the cipher, CRC and Reed-Solomon encoder abstract): parse(encode s) = s with the documented offsets; a decoder written from the README alone recovers the core datagram from every frame (data, parity, OOB; every cipher class; FEC on/off); FEC ids advance modulo paws counting skipped parity, type = data iff position < d, ids distinct within a wrap period, OOB consumes no id; parity payloads are the RS code of the zero-padded size-prefixed payloads (relative to rs_encode); distinct nonces give pairwise distinct datagrams. Tied to sess.go/fec.go/kcp.go by capturing EVERY datagram real sessions hand to the PacketConn over a lossy in-memory network for all cipher classes x FEC ratios x MTUs x write patterns, decoding it with an independent Go decoder and with the extracted spec decoder, regenerating each direction's emission sequence byte for byte in the extracted model, and recomputing parity with klauspost/reedsolomon.", 'level_note': 'Trusted: Coq kernel; extraction and ml/frame_driver.ml; the overlay harness; the real ciphers, CRC32 and Reed-Solomon are abstract in the theorems (their laws are explicit premises) and library code in the harness. Nonce non-repetition is a hypothesis about the entropy source (AES/ChaCha8 generator, crypto/rand): proved only that an iterated bijection repeats iff its orbit closes. The sendmmsg batch path over real UDP sockets is not exercised.',
}

FILES = ["frame_test.go"]
OBLIGATIONS = [
    "c09_seg_roundtrip", "c09_seg_layout", "c09_segs_roundtrip", "c09_frame_layout",
    "c09_spec_decoder", "c09_spec_decoder_oob", "c09_spec_decoder_parity",
    "c09_fec_ids", "c09_fec_ids_distinct", "c09_slots_distinct", "c09_oob_ids", "c09_parity_ids_consumed", "c09_parity_is_rs",
    "c09_fresh_nonce_each", "c09_distinct", "c09_orbit",
]


def run(ctx):
    ctx.prove("frame", "C09.v", OBLIGATIONS)
    rep, _ = V.harness_report(ctx, "^TestVerifC09$", "C09.report.json", files=FILES)
    summ = V.driver_compare(ctx, "frame", ["frame_model"], "frame_driver", "C09.log",
                            "sess.go/fec.go/kcp.go datagrams vs coq/frame (spec_decode of every decrypted datagram = the "
                            "independent Go decoder's reading; pp_step regenerates every emission sequence byte for byte; "
                            "fec_encode/encode_oob = the real fecEncoder)")
    V.merge_report(ctx, rep, summ)
    U.io_part(ctx)
    U.run_parts(ctx, ["tx"])
    if ctx.broken and not ctx.violations and ctx.quick():
        # search: the same monitors over the full cipher x FEC x MTU product
        rep2, _ = V.harness_report(ctx, "^TestVerifC09$", "C09.report.json", env={"VERIF_TIER": "thorough"}, files=FILES)
        V.merge_report(ctx, rep2)
    ex = (rep or {}).get("extra", {})
    ctx.coverage["rule"] = (
        "real client + listener-accepted sessions over an in-memory PacketConn (loss 0-15 %%, duplication 0-10 %%), "
        "%s scenarios sampled from {nil,none,xor,salsa20,blowfish,aes,aes-gcm} x FEC {off,1/1,2/1,3/2,10/3} x MTU "
        "{smallest accepted,576,1400,1500} x 4 write patterns x OOB modes (quick: covering sample rotated by the seed; "
        "thorough: full product) + %s runs of the real fecEncoder; every datagram handed to WriteTo is decoded, "
        "logged and monitored; non-trivial = %s" % (ex.get("scenarios"), ex.get("encoder_pairs"), ex.get("nontrivial_rule")))
    ctx.assumptions += [
        "the nonce stream never repeats: entropy.go (AES / ChaCha8 output, crypto/rand) is trusted; c09_distinct has "
        "NoDup nonces as a hypothesis, c09_orbit shows the AES generator repeats only if its seed orbit closes; the "
        "harness checks nonce and datagram distinctness on every run",
        "cipher laws are premises of the theorems: Decrypt(Encrypt(b)) = b (proved for the CFB code by C08's engine), "
        "AEAD Open(Seal(p)) = p, CRC32 < 2^32; rs_encode is abstract and returns p parity shards (C07's engine "
        "supplies the Reed-Solomon meaning; the harness recomputes parity with klauspost/reedsolomon)",
        "every datagram a core flush emits is a concatenation of well-formed segments: theorem of the ARQ core engine "
        "(c09_core_output_parses); here it is observed on every captured datagram",
        "README.md's header diagram omits the len field; the property text (24-byte header, exactly len bytes) is the "
        "specification (boundary B6)",
        "tx_linux.go's WriteBatch path is exercised by the udp engine over real loopback sockets (incl. partial batch writes), "
        "judged by wire oracles only; the byte-exact regeneration in the model uses the in-memory conn (WriteTo path)",
    ]
