"""C09 - datagrams follow the documented frame layout; nonces never repeat (DESIGN.md section 5, C09)."""
import vcheck as V
import udp_common as U

META = {
    'engine': 'frame',
    'technique': 'Coq codec round-trip and layout proofs for the transcribed framing pipeline and invariant proofs for the modelled nonce generator; independent README-based decoder and byte-exact replay of every emitted datagram',
    'level_text': "Machine-checked on the transcribed sequential pipeline (segment codec, FEC header numbering, nonce/CRC framing for the CRC cipher classes and nonce+seal for AEAD, with the cipher, CRC and Reed-Solomon encoder abstract): parse(encode s) = s with the documented offsets; a decoder written from the README alone recovers the core datagram from every frame (data, parity, OOB; every cipher class; FEC on/off); FEC ids advance modulo paws counting skipped parity, type = data iff position < d, ids distinct within a wrap period, OOB consumes no id; parity payloads are the RS code of the zero-padded size-prefixed payloads (relative to rs_encode); distinct nonces give pairwise distinct datagrams. Tied to sess.go/fec.go/kcp.go by capturing EVERY datagram real sessions hand to the PacketConn over a lossy in-memory network for all cipher classes x FEC ratios x MTUs x write patterns, decoding it with an independent Go decoder and with the extracted spec decoder, regenerating each direction's emission sequence byte for byte in the extracted model, and recomputing parity with klauspost/reedsolomon.", 'level_note': 'Trusted: Coq kernel; extraction and ml/frame_driver.ml; the overlay harness; the real ciphers, CRC32 and Reed-Solomon are abstract in the theorems (their laws are explicit premises) and library code in the harness. Nonce non-repetition is a hypothesis about AES and crypto/rand; the own logic of the generator (entropy.go rngAES: counter, reseed, seed chaining, ReadFull) is modelled in coq/frame/Entropy.v with the block function and crypto/rand abstract, proved to keep every key to at most reseedInterval+1 outputs and to emit pairwise distinct 16-byte nonces within an epoch unless the seed orbit of the injective block function closes, and replayed against the real rngAES (toy cipher.Block, scripted crypto/rand, counters at the reseed boundary). For rngChacha8 only the counter and reseed logic is modelled (generator abstract) and replayed; 12-byte AEAD nonce collisions are not covered by a theorem. The sendmmsg batch path over real UDP sockets is not exercised.',
}

FILES = ["frame_test.go"]
OBLIGATIONS = [
    "c09_seg_roundtrip", "c09_seg_layout", "c09_segs_roundtrip", "c09_frame_layout",
    "c09_spec_decoder", "c09_spec_decoder_oob", "c09_spec_decoder_parity",
    "c09_fec_ids", "c09_fec_ids_distinct", "c09_slots_distinct", "c09_oob_ids", "c09_parity_ids_consumed", "c09_parity_is_rs",
    "c09_fresh_nonce_each", "c09_distinct", "c09_orbit",
    "c09_rng_key_exposure", "c09_rng_reseed_exact", "c09_rng_epoch_orbit", "c09_rng_epoch_nonces_distinct", "c09_rng_fill_is_one_read", "c09_rng_fill_total", "c09_rng_chacha_counter",
]


def _bytes(h):
    return "[]" if h in ("-", "") else "[" + ";".join(str(b) for b in bytes.fromhex(h)) + "]"


def entropy_part(ctx):
    """entropy.go's rngAES (toy cipher.Block, scripted crypto/rand, counters around the reseed boundary)
    replayed in coq/frame/Entropy.v by vm_compute; a mismatch = the correspondence no longer checks."""
    import os
    import re
    rep, _ = V.harness_report(ctx, "^TestVerifC09Entropy$", "C09ent.report.json", files=["entropy_test.go"])
    V.merge_report(ctx, rep)
    logp = os.path.join(ctx.dir, "Entropy.log")
    if rep is None or not os.path.exists(logp):
        return
    cases, cha = [], []
    for line in open(logp):
        if line.startswith("CHA "):
            kv = dict(t.split("=", 1) for t in line.split()[1:])
            cha.append("(%s, [%s], [%s], %s, %s)" % (kv["count0"], kv["lens"].replace(",", ";"), kv["gots"].replace(",", ";"), kv["count1"], kv["reseeds"]))
            continue
        if not line.startswith("CASE "):
            continue
        kv = dict(t.split("=", 1) for t in line.split()[1:])
        ops = "[" + ";".join("(%s, %s)" % ("true" if o[0] == "F" else "false", o[1:]) for o in kv["ops"].split(",")) + "]"
        outs = "[" + ";".join(_bytes(h) for h in kv["outs"].split(",")) + "]"
        fresh = "[" + ";".join(_bytes(f.split(":")[1]) for f in kv["fresh"].split(",")) + "]"
        tbl = "[" + ";".join("(%s, %s, %s)" % (t.split(":")[0], _bytes(t.split(":")[1]), _bytes(t.split(":")[2])) for t in kv["aes"].split(",")) + "]"
        cases.append("(%s, %s, %s, %s, %s, (%s, %s, %s), %s, %s)" % (kv["k"], kv["count0"], _bytes(kv["seed0"]), ops, outs,
                                                                     kv["count1"], _bytes(kv["seed1"]), kv["reseeds"], fresh, tbl))
    src = r"""From Coq Require Import ZArith List Bool.
From KV.Frame Require Import Entropy.
Import ListNotations.
Local Open Scope Z_scope.
Definition eqb_bytes (a b : list Z) : bool := if list_eq_dec Z.eq_dec a b then true else false.
(* keys: k >= 0 = the toy block with constant k; -(e+1) = AES under the e-th scripted key, given as a table *)
Fixpoint lookup (e : Z) (s : list Z) (t : list (Z * list Z * list Z)) : list Z :=
  match t with [] => [] | (e', i, o) :: r => if Z.eqb e e' && eqb_bytes s i then o else lookup e s r end.
Definition E_of (t : list (Z * list Z * list Z)) (k : Z) (s : list Z) : list Z :=
  if 0 <=? k then toy_E k s else lookup (- k - 1) s t.
Definition fresh_of (f : list (list Z)) (i : nat) : Z * list Z := (- Z.of_nat i - 1, nth i f []).
Fixpoint run (E : Z -> list Z -> list Z) (fr : nat -> Z * list Z) (ops : list (bool * Z)) (r : rng Z) : rng Z * list (list Z) :=
  match ops with
  | [] => (r, [])
  | (isfill, n) :: t =>
    let '(r1, o) := if isfill : bool then fill_rand Z E fr 100 n r else rng_read Z E fr n r in
    let '(r2, os) := run E fr t r1 in (r2, o :: os)
  end.
Definition chk (c : Z * Z * list Z * list (bool * Z) * list (list Z) * (Z * list Z * Z) * list (list Z) * list (Z * list Z * list Z)) : bool :=
  match c with (k, c0, s0, ops, outs, (c1, s1, rs), fr, t) =>
    let '(r, o) := run (E_of t) (fresh_of fr) ops (mkRng 0%nat k s0 c0 0) in
    (if list_eq_dec (list_eq_dec Z.eq_dec) o outs then true else false) && Z.eqb (r_count r) c1 && eqb_bytes (r_seed r) s1
    && Z.eqb (Z.of_nat (r_epoch r)) rs end.
Fixpoint bad {A} (f : A -> bool) (i : nat) (l : list A) : list nat :=
  match l with [] => [] | x :: t => if f x then bad f (S i) t else i :: bad f (S i) t end.
Definition ent_cases := [
""" + ";\n".join(cases).replace("\\n", "\n") + r"""
].
Definition ENTBAD := Eval vm_compute in bad chk 0 ent_cases.
Print ENTBAD.
(* rngChacha8: counter logic only - the generator is a stub that returns n bytes *)
Definition cnext (g : unit) (n : Z) : unit * list Z := (tt, repeat 0 (Z.to_nat n)).
Definition chk_c (c : Z * list Z * list Z * Z * Z) : bool :=
  match c with (c0, lens, gots, c1, rs) =>
    let '(r, o) := c_reads unit cnext (fun _ g => g) lens (mkCrng 0%nat tt c0) in
    (if list_eq_dec Z.eq_dec (map (fun l : list Z => Z.of_nat (length l)) o) gots then true else false)
    && Z.eqb (c_count r) c1 && Z.eqb (Z.of_nat (c_epoch r)) rs end.
Definition cha_cases : list (Z * list Z * list Z * Z * Z) := [
""" + ";\n".join(cha) + r"""
].
Definition CHABAD := Eval vm_compute in bad chk_c 0 cha_cases.
Print CHABAD.
"""
    vf = os.path.join(ctx.dir, "EntCases.v")
    open(vf, "w").write(src)
    with V.Lock("coq-frame"):
        rc, o = V.sh(["coqc"] + V.coq_flags("frame") + ["-Q", ctx.dir, "KV.EntObs", vf], cwd=ctx.dir, timeout=900)
    if rc != 0:
        ctx.broke("entropy: the replay file did not compile (model interface changed?)", V.tail_err(o))
        return
    m = re.search(r"ENTBAD = \[(.*?)\]", " ".join(o.split()))
    if m is None:
        ctx.broke("entropy: no verdict from the model replay", o[-2000:])
        return
    badl = [x.strip() for x in m.group(1).split(";") if x.strip()]
    mc = re.search(r"CHABAD = \[(.*?)\]", " ".join(o.split()))
    if mc is None:
        ctx.broke("entropy: no verdict from the model replay of rngChacha8", o[-2000:])
        return
    badc = [x.strip() for x in mc.group(1).split(";") if x.strip()]
    if badc:
        ctx.broke("correspondence: entropy.go rngChacha8 (counter, reseed, bytes returned) vs coq/frame/Entropy.v - the Coq model and the "
                  "implementation differ on %d of %d cases (CHA cases %s of Entropy.log)" % (len(badc), len(cha), badc[:8]))
    ctx.coverage.setdefault("model_replay", []).append({"cases": len(cha), "mismatches": len(badc),
                                                        "what": "entropy.go rngChacha8.Read counter logic vs coq/frame/Entropy.v (c_reads), evaluated by vm_compute"})
    ctx.coverage["traces_validated_against_impl"] = ctx.coverage.get("traces_validated_against_impl", 0) + len(cha)
    if badl:
        ctx.broke("correspondence: entropy.go rngAES vs coq/frame/Entropy.v - the Coq model and the implementation differ on %d of %d cases "
                  "(cases %s of Entropy.log)" % (len(badl), len(cases), badl[:8]))
    ctx.coverage["traces_validated_against_impl"] = ctx.coverage.get("traces_validated_against_impl", 0) + len(cases)
    ctx.coverage.setdefault("model_replay", []).append({"cases": len(cases), "mismatches": len(badl),
                                                        "what": "entropy.go rngAES.Read / fillRand vs coq/frame/Entropy.v, evaluated by vm_compute"})


def run(ctx):
    ctx.prove("frame", "C09.v", OBLIGATIONS)
    rep, _ = V.harness_report(ctx, "^TestVerifC09$", "C09.report.json", files=FILES)
    summ = V.driver_compare(ctx, "frame", ["frame_model"], "frame_driver", "C09.log",
                            "sess.go/fec.go/kcp.go datagrams vs coq/frame (spec_decode of every decrypted datagram = the "
                            "independent Go decoder's reading; pp_step regenerates every emission sequence byte for byte; "
                            "fec_encode/encode_oob = the real fecEncoder)")
    V.merge_report(ctx, rep, summ)
    entropy_part(ctx)
    U.io_part(ctx)
    U.run_parts(ctx, ["tx"])
    if ctx.broken and not ctx.violations and ctx.quick():
        # search: the same monitors over the full cipher x FEC x MTU product
        rep2, _ = V.harness_report(ctx, "^TestVerifC09$", "C09.report.json", env={"VERIF_TIER": "thorough"}, files=FILES)
        V.merge_report(ctx, rep2)
    ex = (rep or {}).get("extra", {})
    ctx.coverage["rule"] = (
        "real client + listener-accepted sessions over an in-memory PacketConn (loss 0-15 %%, duplication 0-10 %%), "
        "%s scenarios sampled from {nil,none,xor,salsa20,blowfish,aes,aes-gcm} x FEC {off,1/1,2/1,3/2,10/3} x MTU "
        "{smallest accepted,576,1400,1500} x 4 write patterns x OOB modes (quick: covering sample rotated by the seed; "
        "thorough: full product) + %s runs of the real fecEncoder; every datagram handed to WriteTo is decoded, "
        "logged and monitored; non-trivial = %s" % (ex.get("scenarios"), ex.get("encoder_pairs"), ex.get("nontrivial_rule")))
    ctx.assumptions += [
        "the nonce stream never repeats: entropy.go (AES / ChaCha8 output, crypto/rand) is trusted; c09_distinct has "
        "NoDup nonces as a hypothesis, c09_orbit shows the AES generator repeats only if its seed orbit closes; the "
        "harness checks nonce and datagram distinctness on every run",
        "cipher laws are premises of the theorems: Decrypt(Encrypt(b)) = b (proved for the CFB code by C08's engine), "
        "AEAD Open(Seal(p)) = p, CRC32 < 2^32; rs_encode is abstract and returns p parity shards (C07's engine "
        "supplies the Reed-Solomon meaning; the harness recomputes parity with klauspost/reedsolomon)",
        "every datagram a core flush emits is a concatenation of well-formed segments: theorem of the ARQ core engine "
        "(c09_core_output_parses); here it is observed on every captured datagram",
        "README.md's header diagram omits the len field; the property text (24-byte header, exactly len bytes) is the "
        "specification (boundary B6)",
        "tx_linux.go's WriteBatch path is exercised by the udp engine over real loopback sockets (incl. partial batch writes), "
        "judged by wire oracles only; the byte-exact regeneration in the model uses the in-memory conn (WriteTo path)",
    ]
