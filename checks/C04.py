"""C04 - window discipline (DESIGN.md section 5, C04)."""
import kcp_common as K
import sess_common as S

META = {
    "enabled": True,
    "engine": "kcp",
    "technique": "Coq inductive invariant over all call sequences with arbitrary (forged) inputs + extraction-based differential replay + window monitors",
    "level_text": "Machine-checked invariant of the transcribed ARQ core: from the initial state every sequence of Send/Recv/Input(any bytes)/flush/Update/Check/SetMtu/NoDelay of any length keeps |rcv_queue| <= rcv_wnd, |rcv_buf| <= rcv_wnd (distinct numbers inside one window), snd_buf = the contiguous range [snd_una, snd_nxt) of at most snd_wnd segments, never faults, and every emitted segment advertises exactly the free space of the delivery queue; admission is proved against min(snd_wnd, rmt_wnd[, cwnd]). The model is tied to kcp.go by replaying op logs of two real cores under a fake clock (every return value, every datagram byte for byte, full state projection after every call), with faults, reordering and a forging peer.",
    "level_note": K.TRUST + " Session-level Write admission is proved on the transcription of WriteBuffers' locked section (coq/sess/C04sess.v: admitted only while waitsnd < snd_wnd, a blocked pass leaves the session equal, occupancy bound after an admitted write) and replayed against real sessions; the blocking/wake-up around it is C13. F16 (fast-recovery arithmetic re-opens cwnd before the oldest segment is acknowledged) is upstream KCP behaviour: see known_findings.json.",
}
OBLIGATIONS = ["c04_init", "c04_config", "c04_step", "c04_reachable", "c04_rcv_queue_bound", "c04_rcv_buf_bound",
               "c04_outstanding", "c04_wnd_truthful", "c04_admission", "c04_cwnd_after_flush"]
RELEVANT = K.WINDOW | K.RESULTS | K.PANICS


def run(ctx):
    K.core_check(ctx, "C04", "C04.v", OBLIGATIONS, RELEVANT,
                 "kcp.go vs coq/kcp/Kcp.v on lossy, stalled-reader and forging-peer histories")
    S.session_part(ctx, "C04")
    ctx.coverage["rule"] = ("random two-endpoint histories (windows 1..1024, mtu 25..1500, both modes, both drivers, sn/clock offsets around 2^31 and 2^32) "
                            "with drop/dup/reorder/delay, reader stalls, and a forging peer (header fields replaced by boundary values, truncations, random bytes); "
                            "non-trivial = the history has a zero-window episode, a forged datagram or a retransmission")
    ctx.assumptions += ["windows are configured before traffic (mid-life WndSize is outside the property)",
                        "|snd_wnd|, |rcv_wnd| < 32768 (the wnd field is 16 bit; the session API passes ints of this size)"]
