"""C11 - sessions on one socket are isolated; one Accept per new peer (DESIGN.md section 5, C11)."""
import vcheck as V
import udp_common as U
import kcp_common as K

META = {
    "engine": "listener",
    "technique": "Coq invariant and frame proofs over all event interleavings of the transcribed listener demultiplexer (abstract sessions, abstract gate) + extraction-based differential replay of a real listener driven synchronously",
    "level_text": "Machine-checked for an arbitrary address type, session type and integrity gate, over every interleaving of datagram arrivals from any addresses, Accept, the two halves of UDPSession.Close, Listener.Close and backlog closing: the session table has no duplicate keys and the backlog at most acceptBacklog entries; an event for address a changes at most the entry at a (every other session is EQUAL before and after) and the accept queue only by appending the session created at a; sessions ever queued for a = creation events at a (new peer with room: exactly one fresh session fed only the creating datagram; backlog full or listener closed: dropped with no state change); a session leaves the table only by its own Close or a reset from its own address; a foreign-conv datagram is ignored, closes, or replaces the session by a fresh one - never merged; the session at a is fed exactly the gate-passing datagrams from a with its conv since its creation; a dialled session accepts a datagram iff its source equals the remote. Tied to sess.go/readloop*.go by driving a real listener (direct packetInput calls and the real monitor goroutine over an in-memory PacketConn) with exhaustive short event orders and random multi-peer histories incl. reconnects, stale/forged/foreign datagrams, full backlog and parked Close, comparing table, queue order, created ids and per-session feed logs with the extracted model.",
    "level_note": "Trusted: Coq kernel; extraction and ml/listener_driver.ml; the overlay harness. Sessions and the gate are abstract in the theorems (their inside is C01/C06); composition 'fed only its own peer's datagrams => reads only its peer's stream' is proved in coq/pipe (Cpipe4.v: the listener theorems instantiated with the session pipeline of the pipe engine and the ARQ core; the application's calls on the accepted session are a per-session schedule between packet inputs, not separate listener events). The dialled-session source filter is a hand-written model compared through the real readLoop, not a generated skeleton; the recvmmsg batch paths (readloop_linux.go) are exercised by the udp engine over real loopback sockets with property oracles (no model replay there). Boundaries B3 (OOB/parity with foreign conv) and B9 (no FIN) are modelled as coded.",
}

FILES = ["listener_test.go"]
OBLIGATIONS = [
    "c11_invariant",
    "c11_frame",
    "c11_one_accept",
    "c11_live_session_reachable",
    "c11_no_merge",
    "c11_no_merge_undecidable",
    "c11_stream_isolation",
    "c11_stream_isolation_general",
    "c11_one_session_per_conversation",
    "c11_dialled_filter",
]


def run(ctx):
    ctx.prove("listener", "C11.v", OBLIGATIONS)
    rep, _ = V.harness_report(ctx, "^TestVerifC11$", "C11.report.json", files=FILES)
    summ = V.driver_compare(
        ctx, "listener", ["listener_model"], "listener_driver", "C11.log",
        "sess.go Listener.packetInput / AcceptKCP / UDPSession.Close (two steps) / removeSession and the read loop's "
        "source filter vs coq/listener/Listener.v (table keys, session identities, convs, queue length and order, "
        "which session a datagram is fed to, per-session FEC feed log, filter verdicts)")
    V.merge_report(ctx, rep, summ)
    # composition with C01 (coq/pipe, Cpipe4.v): the session the listener keeps for address a has been fed only datagrams
    # that came FROM a; if those are (any subset / repetition / order of) the wire history of a writer session, every core
    # input is genuine and the bytes the application reads from the accepted session are a prefix of what that peer wrote -
    # whatever anybody sends from other addresses
    K.extra_statements(ctx, "pipe", "Cpipe4.v", ["pipe_listener_conv_fixed", "pipe_listener_feeds", "pipe_listener_genuine",
                                                  "pipe_listener_fec_genuine", "pipe_listener_fec_rs_genuine"])
    U.io_part(ctx)
    U.run_parts(ctx, ["listener", "client", "neighbour"])
    if ctx.broken and not ctx.violations and ctx.quick():
        # search: the monitors over the thorough generators (deeper exhaustive orders, more interleavings)
        rep2, _ = V.harness_report(ctx, "^TestVerifC11$", "C11.report.json", env={"VERIF_TIER": "thorough"},
                                   files=FILES, timeout=2400)
        V.merge_report(ctx, rep2)
    ex = (rep or {}).get("extra", {})
    ctx.coverage["rule"] = (
        "real Listener over an in-memory PacketConn, driven synchronously (direct packetInput calls and through the "
        "real monitor goroutine): 2 backlog cases (140 new peers against the 128-slot queue); every order of %s events "
        "out of 12 (first/later datagram of two conversations, OOB of either, parity, ACK sn=0, Accept, Close atomic "
        "and in two steps) on one address next to a bystander; real client sessions whose captured datagrams are "
        "interleaved; %s random cases with 2-8 peers + 2 attacker addresses (raw / FEC data / parity / OOB / short / "
        "gate-failing datagrams, duplicates, reordering, reconnects, stale replays, other addresses using the same "
        "conv, Accept, server-side Close atomic or parked between its two steps, Listener.Close with its backlog drain) over ciphers "
        "nil/none(CRC)/aes/aes-gcm and listener FEC off/2+1/3+2; dialled sessions with 15 remote addresses x 24 "
        "probe sources through the real read loop; the deterministic Close/reset interleaving.  Every header field the "
        "listener must not read (ts, wnd, una, frg of control segments, payload length 1..1000 and bytes, FEC seqid and "
        "size, OOB seqid/size) is drawn from the whole range with the 2^16 / 2^31 / 2^32 boundaries preferred, sn from "
        "{0, 1, 2^16, k*2^16, small, random}, FEC encoders start at a random group, raw datagrams with arbitrary cmd/frg "
        "bytes next to the FEC type words are included, and real clients run with refTime shifted back by a random "
        "0..2^32 ms (incl. a restart with a new conversation on the same address). non-trivial = %s"
        % (ex.get("orders_depth"), ex.get("random_cases"), ex.get("nontrivial_rule")))
    ctx.assumptions += [
        "session type, sess_new/sess_input/sess_conv and the integrity gate are parameters of every theorem; "
        "c11_stream_isolation and c11_one_session_per_conversation additionally assume that kcp.conv never changes "
        "(sess_conv (sess_new c a) = c, sess_conv (sess_input s d) = sess_conv s)",
        "events are the atomic sections packetInput / Accept / Close step 1 (die closed) / Close step 2 (removeSession) "
        "/ Listener.Close step 1 (l.die closed) / one round of closeBacklog, in any interleaving; a Close completing "
        "between packetInput's table lookup and its use of the session, or Listener.Close running between "
        "packetInput's die test and its queue append, differs from a modelled order only by the fate of that one datagram",
        "the composition with C01 (the bytes Read from a session are a prefix of its peer's stream) is stated as "
        "'the session is fed exactly the datagrams of its own address and conversation'; the session model itself "
        "is C01's",
        "boundary B3: OOB datagrams have sn = 0, so an OOB datagram of another conversation resets the session; a "
        "parity packet carries no readable conv and is handed to the session's FEC decoder - what a reconstruction "
        "makes of a stale parity packet of an earlier conversation is C16's subject; the harness's content oracle "
        "does not judge sessions that were fed one (counted as event:B3-foreign-parity-fed-to-session)",
        "boundary B9: after a server-side Close the peer's next authentic datagram is a new peer (one more Accept)",
        "dialled filter: a typed-nil *net.UDPAddr remote and an Addr printing as \"\" are treated by the loop as "
        "'no remote set'; theorems carry the premise remote_set",
        "the differential run instantiates the model with recording sessions; the real gate's verdict is compared "
        "through its effects (a datagram the harness built to fail the gate must change nothing)",
    ]
