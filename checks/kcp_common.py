"""Shared glue of the checks built on the ARQ model (coq/kcp): C01-C05, C10, C12, C18."""
import os
import re
import vcheck as V

FILES = ["core_test.go", "coregen_test.go", "core_replay_test.go", "core_props_test.go"]

# driver field names by theme (see ml/kcp_driver.ml: `fields=` of the first divergent step)
RESULTS = {"send-result", "recv-result", "input-result", "flush-result", "update-result", "check-result", "setmtu-result"}
PANICS = {"send-panic", "recv-panic", "input-panic", "flush-panic", "update-panic", "setmtu-panic"}
WINDOW = {"rq", "rb", "sb", "sq", "una", "nxt", "rnxt", "rmtwnd", "cwnd", "ssthresh", "incr", "probe", "sndwnd", "rcvwnd"}
TIMERS = {"rto", "srtt", "rttvar", "minrto", "tsprobe", "probewait", "tsflush", "updated", "interval", "nodelay", "state", "deadlink", "fastresend", "nocwnd", "al"}
CONFIG = {"mtu", "mss", "buflen", "conv", "stream"}
ALL = RESULTS | PANICS | WINDOW | TIMERS | CONFIG


def core_check(ctx, prop, vfile, obligations, relevant, what, partial=(), refuted=(), env=None, extra_files=()):
    """prove + harness + model replay.  A model/implementation divergence counts against this
    property only when the first divergent step of some history differs in a field the
    property's theorems speak about (`relevant`); other drift is recorded in the evidence."""
    ctx.prove("kcp", vfile, obligations, partial=partial, refuted=refuted)
    files = FILES + list(extra_files)
    rep, _ = V.harness_report(ctx, "^TestVerif%s$" % prop, prop + ".report.json", files=files, env=env)
    summ = replay(ctx, prop, relevant, what)
    V.merge_report(ctx, rep, summ)
    if ctx.broken and not ctx.violations and ctx.quick():
        rep2, _ = V.harness_report(ctx, "^TestVerif%s$" % prop, prop + ".report.json", files=files,
                                   env=dict(env or {}, VERIF_TIER="thorough", VERIF_CASES="3000"))
        V.merge_report(ctx, rep2)
    return rep, summ


def replay(ctx, prop, relevant, what):
    ok, o = V.ocaml_build("kcp", ["kcp_model"], "kcp_driver", "kcp_driver")
    if not ok:
        ctx.broke("extracted ARQ model / driver does not build", V.tail_err(o))
        return None
    rc, o = V.sh([os.path.join(V.WORK, "bin", "kcp_driver"), os.path.join(ctx.dir, prop + ".log")], timeout=3000)
    summ = V.parse_kv(o, "SUMMARY")
    if rc != 0 or not summ:
        ctx.broke("model driver failed on the op log (%s)" % what, o[-3000:])
        return None
    s = {k: int(v) for k, v in summ[-1].items()}
    mm = [l for l in o.split("\n") if l.startswith("MISMATCH")]
    mine, other = [], []
    for l in mm:
        m = re.search(r"fields=(\S+)", l)
        fs = set(m.group(1).split(",")) if m else set()
        (mine if fs & relevant else other).append(l)
    fields = {}
    for l in o.split("\n"):
        if l.startswith("FIELD "):
            _, f, n = l.split()
            fields[f] = int(n)
    rel_total = sum(n for f, n in fields.items() if f in relevant)
    if mine or rel_total:
        ctx.broke("correspondence: %s - the extracted Coq model and kcp.go differ (first divergence in %s) on %d of %d histories"
                  % (what, ",".join(sorted(f for f in fields if f in relevant)), max(len(mine), 1), s.get("cases", 0)),
                  "\n".join(mine[:8]))
    s["first_divergence_fields"] = fields
    s["divergences_outside_this_property"] = sum(n for f, n in fields.items() if f not in relevant)
    if other:
        ctx.notes.append("model/implementation drift outside this property's observables on %d histories (fields %s); reported by the properties that own those fields"
                         % (s["divergences_outside_this_property"], ",".join(sorted(f for f in fields if f not in relevant))))
    return s


TRUST = ("Trusted: Coq kernel; extraction (ExtrOcamlBasic only, Z/positive/nat kept inductive) and ml/kcp_driver.ml; the overlay harness "
         "(go1.26.8, testing/synctest fake clock via refTime); container/heap modelled as a sorted list (unique minimum inside one receive "
         "window); flush's three clock readings modelled as one; SNMP counters not modelled; protocol constants regenerated from the source.")


def extra_statements(ctx, engine, vfile, obligations):
    """Prove a further statement file and merge its proof keys into the evidence."""
    before = dict(ctx.coverage)
    ctx.prove(engine, vfile, obligations)
    after = dict(ctx.coverage)
    cov = before
    cov["obligations"] = before.get("obligations", 0) + after.get("obligations", 0)
    cov["discharged"] = before.get("discharged", 0) + after.get("discharged", 0)
    cov["checker_cmd"] = (before.get("checker_cmd", "") + " ; " if before.get("checker_cmd") else "") + after.get("checker_cmd", "")
    cov["trusted_base"] = before.get("trusted_base", []) + [t for t in after.get("trusted_base", []) if t.startswith("Print Assumptions")]
    th = dict(before.get("theorems", {}))
    th.update(after.get("theorems", {}))
    cov["theorems"] = th
    cov["axioms"] = sorted(set(before.get("axioms", [])) | set(after.get("axioms", [])))
    if "coqchk" in after:
        cov.setdefault("coqchk", {}).update(after["coqchk"])
    ctx.coverage = cov
