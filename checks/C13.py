"""C13 - blocked Read/Write/Accept always wake: data, deadline, close, error (DESIGN.md section 5, C13).

translator (sess.go -> coq/wait/GenWait.v) -> Coq build + statement file -> real-time scenarios on
real sessions -> the observed outcome of every scenario must be one the model (the interpreter
over the regenerated skeletons) allows -> evidence."""
import os
import re

import vcheck as V

META = {
    "engine": "wait",
    "technique": "verified reachability checker in Gallina (explore_sound proved once) run by vm_compute over a labelled "
                 "transition system that INTERPRETS the statement skeletons of Read/WriteBuffers/AcceptKCP and of every "
                 "notify site, regenerated from sess.go on every run; real-time scenario harness on real sessions",
    "level_text": "Machine-checked for ALL interleavings (any length) of the modelled atomic steps, both timer-channel "
                  "semantics: no timeout before the deadline of the current arming; close and socket error wake every "
                  "blocked caller; after Close Write fails, Read drains then fails, second Close errors; one caller of a "
                  "kind never loses a wake-up; several writers are re-notified by update(); for Read, Write and "
                  "Accept alike every deadline value stored while the call is parked (none->set, later, earlier, "
                  "set->zero->set, past, cleared) is followed and fires when it expires, and a timeout is returned only "
                  "when the deadline stored at that moment has passed - for one caller and, since the setters BROADCAST a "
                  "deadline change (type deadlineSignal: watch / <-changed / broadcast), for several callers blocked in the "
                  "same call: c13_deadline_change_seen_multi (ANY number of callers, thread-modular, and the product of 2) and "
                  "c13_deadline_change_seen_products (products of 2 with their wake-up event and of 3): every caller follows the "
                  "new deadline, none early, none parked past it.  The defects found while proving (multi-reader lost wake-up F4, Accept deadline F10, "
                  "set->zero->set F11, none->set F12, stale timers with several callers, an earlier deadline reaching only "
                  "the caller that got the single wake-up token) are repaired in /repo; nothing remains recorded for C13.",
    "level_note": "Partial for the runtime: the Go scheduler, the runtime's timers and select fairness, and wake-up latency "
                  "are assumed, not exhibited.  Atomicity assumption: between two yield points (function entry, label, "
                  "s.mu.Lock(), changed := X.watch(), select without default) a call touches only its own locals, one "
                  "critical section of s.mu, one load of the stored deadline, or closed-channel flags; a deadline setter "
                  "(Store then broadcast, order checked on its skeleton) is one step.  The translator (go/ast, dictionary of leaf texts, fails closed) is trusted to "
                  "report the skeletons faithfully; the scenario harness ties the model's predictions to the real code.",
}

FILES = ["wait_test.go"]
OBLIGATIONS = [
    "c13_explore_sound",
    "c13_no_early_timeout", "c13_no_early_timeout_cleared", "c13_no_early_timeout_strong",
    "c13_deadline_change_seen", "c13_deadline_rearm",
    "c13_deadline_change_seen_multi", "c13_setters_store_then_broadcast", "c13_single_token_refuted",
    "c13_close_wakes_all", "c13_error_wakes_all", "c13_after_close",
    "c13_single_waiter_no_lost_wakeup", "c13_single_waiter_set_deadline",
    "c13_multi_writer", "c13_multi_accepter", "c13_multi_reader",
    "c13_repairs_checked", "c13_repairs_strong_checked",
]
# the literal products (two callers with their wake-up event, three callers): statement file C13n.v, compiled on every
# run; not part of C13.v so that the thorough tier's coqchk of C13.v stays within its budget
PRODUCTS = ["c13_deadline_change_seen_products"]
PARTIAL = []
REFUTED = ["c13_single_token_refuted"]   # a witness about the replaced one-token design (Fixed.v), not about the source

GEN = os.path.join(V.VERIF, "coq", "wait", "GenWait.v")

SCEN = {
    "wake": "ScWake", "wake-separate-datagrams": "ScWakeSeparate", "wake-short-buffer": "ScWakeShort",
    "close": "ScClose", "socket-error": "ScSockErr",
    "deadline-before-call": "ScDlBefore", "deadline-before-call-SetDeadline": "ScDlBeforeBoth",
    "deadline-past-before-call": "ScDlPastBefore", "deadline-none-then-set": "ScNoneThenSet",
    "deadline-set-later": "ScSetLater", "deadline-set-earlier": "ScSetEarlier",
    "deadline-set-zero-set": "ScSetZeroSet", "deadline-set-past": "ScSetPast", "deadline-cleared": "ScCleared",
    "deadline-SetDeadline-other-direction-a": "(ScSetDOther false)", "deadline-SetDeadline-other-direction-b": "(ScSetDOther true)",
}
CALLER = {"Read": "Reader", "Write": "Writer", "Accept": "Accepter"}
CODE = {"blocked": 0, "data": 1, "written": 2, "accepted": 3, "timeout": 4, "timeout-early": 5, "closed": 6, "sockerr": 7,
        "blocked-data": 9}


def translate(ctx):
    with V.Lock("gen-wait"):
        ok, o = V.translate("wait", V.REPO, GEN)
    if not ok:
        ctx.broke("translator: the wait-loop skeletons of sess.go could not be regenerated "
                  "(an unknown leaf or statement shape: the correspondence no longer checks)", o)
    return ok


def prove_products(ctx):
    """Compile coq/wait/C13n.v (the engine is built by ctx.prove) and add its theorems to the evidence."""
    okp, thms, o = V.coq_props("wait", "C13n.v")
    if not okp:
        ctx.broke("statement file wait/C13n.v no longer compiles", V.tail_err(o))
    missing = [t for t in PRODUCTS if t not in thms]
    if okp and missing:
        ctx.broke("obligations missing from C13n.v: %s" % ", ".join(missing))
    open_ = [t for t in PRODUCTS if t in thms and not thms[t].startswith("Closed under the global context")]
    if open_:
        ctx.broke("C13n.v: not closed under the global context: %s" % ", ".join(open_), "\n".join(thms[t] for t in open_))
    cov = ctx.coverage
    cov["obligations"] = cov.get("obligations", 0) + len(PRODUCTS)
    cov["discharged"] = cov.get("discharged", 0) + len([t for t in PRODUCTS if t in thms])
    cov.setdefault("theorems", {}).update({t: "proved" if t in thms else "NOT CHECKED" for t in PRODUCTS})
    cov.setdefault("trusted_base", []).extend(
        "Print Assumptions %s (C13n.v, coqc only): %s" % (t, " ".join(thms[t].split())) for t in PRODUCTS if t in thms)
    cov["axioms"] = sorted(set(cov.get("axioms", [])) | {a for t in thms.values() for a in t.split("\n")[1:] if t.startswith("Axioms")})
    cov["checker_cmd"] = cov.get("checker_cmd", "") + " && coqc coq/wait/C13n.v"


def compare_outcomes(ctx, rep):
    """Every observed scenario outcome must be one the model allows (Scenarios.allows, on the
    regenerated skeletons).  Returns (compared, mismatches)."""
    outcomes = ((rep or {}).get("extra") or {}).get("outcomes") or {}
    rows, seen = [], {}
    for name, obs in sorted(outcomes.items()):
        parts = name.split("/")
        if len(parts) < 3 or parts[0] not in CALLER or obs is None:
            continue
        if parts[1].startswith("multi-"):
            # multi-<variant>-b<bufs>-m<msgs>: ONE datagram with that many messages
            scen = "(ScMulti %d)" % len(parts[1].rsplit("-m", 1)[1].split("."))
        elif parts[1] in SCEN:
            scen = SCEN[parts[1]]
        else:
            continue
        n = int(parts[2].split("=")[1])
        codes = sorted(CODE.get(c, 8) for c in obs)
        k = (CALLER[parts[0]], scen, n, tuple(codes))
        seen.setdefault(k, []).append(name)
    if not seen:
        return 0, []
    lines = ["From Coq Require Import List.", "From KV.Wait Require Import Ir GenWait Model Systems Scenarios.",
             "Import ListNotations."]
    keys = list(seen)
    for i, (c, s, n, codes) in enumerate(keys):
        lst = "[" + "; ".join(str(x) for x in codes) + "]"
        lines.append("Eval vm_compute in (%d, allows skel %s %s %d %s, allowed skel %s %s %d)." % (i, c, s, n, lst, c, s, n))
    vf = os.path.join(ctx.dir, "Observed.v")
    open(vf, "w").write("\n".join(lines) + "\n")
    flags = V.coq_flags("wait")
    with V.Lock("coq-wait"):
        rc, o = V.sh(["coqc"] + flags + ["-Q", ctx.dir, "KV.Obs", vf], cwd=ctx.dir, timeout=900)
    if rc != 0:
        ctx.broke("model replay of the scenario outcomes (Scenarios.v) did not compile", V.tail_err(o))
        return 0, []
    res = {int(m.group(1)): (m.group(2) == "true", " ".join(m.group(3).split()))
           for m in re.finditer(r"=\s*\((\d+),\s*(true|false),\s*(.*?)\)\s*:\s", o, re.S)}
    mism = []
    compared = 0
    for i, k in enumerate(keys):
        if i not in res:
            mism.append("%s: no verdict from the model" % seen[k][0])
            continue
        compared += len(seen[k])
        if not res[i][0]:
            mism.append("%s: observed %s, the model allows only %s" % (", ".join(seen[k][:3]), list(k[3]), res[i][1]))
    if mism:
        ctx.broke("correspondence: %d scenario outcome(s) of the real code are not allowed by the model of the "
                  "regenerated skeletons" % len(mism), "\n".join(mism[:20]))
    return compared, mism


def run(ctx):
    translate(ctx)
    ctx.prove("wait", "C13.v", OBLIGATIONS, partial=PARTIAL, refuted=REFUTED)
    prove_products(ctx)
    env = {}
    if ctx.replay:
        try:
            import json
            sc = json.load(open(ctx.replay)).get("replay", {}).get("scenario", "")
            env["VERIF_C13_ONLY"] = sc.split("/round=")[0]
        except Exception:
            pass
    rep, _ = V.harness_report(ctx, "^TestVerifC13$", "C13.report.json", files=FILES, env=env, timeout=900)
    compared, mism = compare_outcomes(ctx, rep)
    V.merge_report(ctx, rep)
    ctx.coverage["traces_validated_against_impl"] = compared
    ctx.coverage["model_replay"] = [{"what": "observed multiset of call results of each real-time scenario is a member of "
                                             "Scenarios.allowed (computed by the interpreter on the regenerated skeletons)",
                                     "cases": compared, "mismatches": len(mism)}]
    if ctx.broken and not ctx.violations and ctx.quick():
        # search: the thorough scenario set (3 callers everywhere, 3 jitter rounds)
        rep2, _ = V.harness_report(ctx, "^TestVerifC13$", "C13.report.json", files=FILES, env={"VERIF_TIER": "thorough"}, timeout=1400)
        V.merge_report(ctx, rep2)
    if os.path.exists(GEN):
        ctx.coverage["generated_inputs"] = {"GenWait.v": V.sha(GEN)}
    ex = (rep or {}).get("extra", {})
    ctx.coverage["rule"] = (
        "scenario scripts over {block, deliver (n messages in ONE datagram / separate datagrams / short buffer; 3-4 readers with mixed "
        "buffer sizes x one datagram with 1-3 messages incl. messages longer than a buffer, so that each success path of Read is "
        "in turn the last to pass the token on), open window, new "
        "peers, SetReadDeadline/SetWriteDeadline/SetDeadline/Listener.SetReadDeadline sequences before-call, past, none->set, "
        "set->later, set->earlier, set->zero->set, set->past, cleared (each also with 2 callers parked, 3 in the thorough tier: "
        "every caller must follow the change), SetDeadline while blocked with the other direction's deadline set on its own, "
        "Close, socket error (in-memory conn's ReadFrom/WriteTo "
        "failing), after-Close} x {Read, Write, Accept} x 1..3 callers, real time, >= %s ms between causally ordered events, "
        "'did not return' concluded after %s ms; non-trivial = every caller was observed parked before the waking event"
        % (ex.get("separation_ms"), ex.get("margin_ms")))
    ctx.assumptions += [
        "the Go runtime's timers (a timer armed for d fires at some time >= d, never before) and channel/select semantics are "
        "assumed as specified; select fairness and goroutine scheduling are assumed, exact wake-up latency is not exhibited",
        "atomic steps of the model: function entry, label, s.mu.Lock(), changed := X.watch(), select without default are the yield "
        "points; a critical section of s.mu, a notify procedure and a deadline setter (Store, then broadcast) run atomically",
        "deadlineSignal (watch / broadcast) is a primitive of the model: per call one bit 'the generation it watched is no longer "
        "current'; the translator compares the bodies of watch and broadcast with the text the primitive was modelled from",
        "abstractions: stored deadline = none/future/past; core = (readable messages 0..3+, bufptr non-empty, window room); "
        "accept backlog 0..3+; products of 2 and 3 identical callers are explicit, more callers are covered thread-modularly "
        "for the per-call safety statements and, since deadline changes are broadcast, for the deadline-change statement; the "
        "3-caller deadline-change product has setters, clock and timers but not the callers' own wake-up event (with it the product "
        "exceeds the explorer's 300 000-state budget; a 2-caller product and the thread-modular system have it); the products of "
        "C13n.v are checked by coqc on every run but are not in the cone of C13.v that coqchk re-checks in the thorough tier",
        "systems without a deadline setter (sys_n) leave out the yield point after watch() and check that no caller ever finds its "
        "generation moved",
        "Listener.packetInput's `l.chAccepts <- s` and the clock are environment transitions written in Model.v, not generated",
        "boundary B11 (deadline extended in the same instant the old timer fires) is refuted in the model "
        "(c13_no_early_timeout_strong_refuted) and not forced on the real code",
    ]
