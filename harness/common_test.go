//go:build verif

// Shared helpers of the overlay-injected verification harness (package kcp, test build only).
package kcp

import (
	"bufio"
	"encoding/hex"
	"encoding/json"
	"fmt"
	"os"
	"path/filepath"
	"strconv"
	"testing"
)

// splitmix64: the single PRNG stream every generator draws from (seeded by VERIF_SEED).
type vrng struct{ s uint64 }

// newRng: the initial state is a hash of the seed (neighbouring seeds must not yield shifted copies of one stream).
func newRng(seed uint64) *vrng {
	z := seed + 0x1234567
	z = (z ^ (z >> 30)) * 0xBF58476D1CE4E5B9
	z = (z ^ (z >> 27)) * 0x94D049BB133111EB
	z ^= z >> 31
	return &vrng{s: z*0xD6E8FEB86659FD93 + seed}
}
func (r *vrng) u64() uint64 {
	r.s += 0x9E3779B97F4A7C15
	z := r.s
	z = (z ^ (z >> 30)) * 0xBF58476D1CE4E5B9
	z = (z ^ (z >> 27)) * 0x94D049BB133111EB
	return z ^ (z >> 31)
}
func (r *vrng) intn(n int) int {
	if n <= 0 {
		return 0
	}
	return int(r.u64() % uint64(n))
}
func (r *vrng) pick(xs ...int) int { return xs[r.intn(len(xs))] }
func (r *vrng) chance(pct int) bool { return r.intn(100) < pct }
func (r *vrng) bytes(n int) []byte {
	b := make([]byte, n)
	for i := range b {
		b[i] = byte(r.u64())
	}
	return b
}

func vSeed() uint64 {
	s, err := strconv.ParseUint(os.Getenv("VERIF_SEED"), 10, 64)
	if err != nil {
		return 1
	}
	return s
}
func vTier() string {
	if os.Getenv("VERIF_TIER") == "thorough" {
		return "thorough"
	}
	return "quick"
}
func vThorough() bool { return vTier() == "thorough" }
func vEnvInt(name string, def int) int {
	if v, err := strconv.Atoi(os.Getenv(name)); err == nil {
		return v
	}
	return def
}
func vOutDir(t testing.TB) string {
	d := os.Getenv("VERIF_OUT")
	if d == "" {
		d = t.TempDir()
	}
	os.MkdirAll(d, 0o755)
	return d
}

// vlog is a buffered op-log writer.
type vlog struct {
	f *os.File
	w *bufio.Writer
}

func newVlog(t testing.TB, name string) *vlog {
	f, err := os.Create(filepath.Join(vOutDir(t), name))
	if err != nil {
		t.Fatal(err)
	}
	return &vlog{f: f, w: bufio.NewWriterSize(f, 1<<20)}
}
func (l *vlog) printf(format string, a ...any) { fmt.Fprintf(l.w, format, a...) }
func (l *vlog) close()                          { l.w.Flush(); l.f.Close() }

func hx(b []byte) string {
	if len(b) == 0 {
		return "-"
	}
	return hex.EncodeToString(b)
}

// vreport is what a harness run hands back to bin/check (besides the op log).
type vreport struct {
	Property      string           `json:"property"`
	Cases         int              `json:"cases"`
	Nontrivial    int              `json:"nontrivial"`
	Steps         int              `json:"steps"`
	Distribution  map[string]int   `json:"distribution"`
	Monitors      map[string]int   `json:"monitors"` // monitor name -> evaluations
	Violations    []vviolation     `json:"violations"`
	Samples       []any            `json:"samples"`
	Extra         map[string]any   `json:"extra,omitempty"`
}
type vviolation struct {
	Key    string `json:"key"`    // stable identity of the failing input / call site
	What   string `json:"what"`   // one line
	Replay any    `json:"replay"` // the concrete input / op list
}

func newReport(prop string) *vreport {
	return &vreport{Property: prop, Distribution: map[string]int{}, Monitors: map[string]int{}, Extra: map[string]any{}}
}
func (r *vreport) violate(key, what string, replay any) {
	if len(r.Violations) < 50 {
		r.Violations = append(r.Violations, vviolation{key, what, replay})
	}
}
func (r *vreport) sample(s any) {
	if len(r.Samples) < 3 {
		r.Samples = append(r.Samples, s)
	}
}
func (r *vreport) write(t testing.TB, name string) {
	b, _ := json.MarshalIndent(r, "", " ")
	if err := os.WriteFile(filepath.Join(vOutDir(t), name), b, 0o644); err != nil {
		t.Fatal(err)
	}
}
