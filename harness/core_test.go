//go:build verif

package kcp

import (
	"sync/atomic"
	"bytes"
	"encoding/binary"
	"encoding/hex"
	"fmt"
	"sort"
	"strings"
	"testing"
	"testing/synctest"
	"time"
)

// ---------------------------------------------------------------------------------------
// Two real KCP cores under a fake clock, driven op by op.  Every call is logged with its
// full observable result (return value, every output datagram byte for byte) followed by a
// projection of the internal state; the extracted Coq model replays the log (ml/kcp_driver).
// Monitors written from the property texts run on the real cores after every op.
// ---------------------------------------------------------------------------------------

// setClock makes currentMs() return exactly ms (inside a synctest bubble time stands still).
func setClock(ms uint32) { refTime = time.Now().Add(-time.Duration(ms) * time.Millisecond) }

type coreCfg struct {
	Conv     uint32    `json:"conv"`
	Mtu      [2]int    `json:"mtu"`
	Snd      [2]int    `json:"snd"`
	Rcv      [2]int    `json:"rcv"`
	Nodelay  [2]int    `json:"nodelay"`
	Interval [2]int    `json:"interval"`
	Resend   [2]int    `json:"resend"`
	Nc       [2]int    `json:"nc"`
	Stream   int       `json:"stream"`
	AckND    [2]bool   `json:"acknd"`
	Isn      [2]uint32 `json:"isn"` // initial sequence number of the data each endpoint SENDS
	Clock    uint32    `json:"clock"`
}

type corePkt struct {
	id   int
	data []byte
}

type coreSim struct {
	cfg  coreCfg
	k    [2]*KCP
	now  uint32
	cur  [][]byte // datagrams emitted by the call in progress
	lg   *vlog
	rep  *vreport
	ops  []string      // replayable op list
	pend [2][]corePkt  // emitted by endpoint e, not yet given a final fate
	npkt int
	dead bool // a panic happened; the case is over

	// oracles
	accepted  [2][][]byte // per endpoint: payloads of Send calls that returned 0
	delivered [2][][]byte // per endpoint: payloads returned by Recv
	forged    bool        // a forged datagram was injected (prefix oracle no longer applies)
	mtuChanged bool
	stats     map[string]int
	emitted   [2]map[uint32]int // PUSH transmissions per sn, per sender
	trace     []string          // offset-normalised observable trace (C12), when traceOn
	traceOn   bool
	tw        [2]timeoutWatch
	modeSwitched  [2]bool   // a no-delay MODE switch happened and rx_rto has not been recomputed since
	modeSwitchRto [2]uint32 // rx_rto at that moment
	adv       [2]uint32 // the peer's window as last advertised in a REGULAR datagram (tracked here, not read from the core)
	advSet    [2]bool
	rcvWndMax [2]uint32 // largest receive window configured so far
	shrunk    [2]bool   // the application lowered its receive window below its backlog (profile shrinkWnd)
	txTime    [2]uint32 // ms the output callback of endpoint e blocks per datagram (a slow link; 0: instantaneous)
	probeSeen bool
	probeRel  uint32
	owesWins  [2]bool   // Recv made room in a full delivery queue and no WINS segment has been emitted since
}

func (s *coreSim) logf(format string, a ...any) {
	if s.lg != nil {
		s.lg.printf(format, a...)
	}
}

func newCoreSim(cfg coreCfg, lg *vlog, rep *vreport) *coreSim {
	s := &coreSim{cfg: cfg, lg: lg, rep: rep, now: cfg.Clock, stats: map[string]int{}}
	setClock(cfg.Clock)
	for e := 0; e < 2; e++ {
		e := e
		s.emitted[e] = map[uint32]int{}
		k := NewKCP(cfg.Conv, func(buf []byte, size int) {
			d := make([]byte, size)
			copy(d, buf[:size])
			s.cur = append(s.cur, d)
			if s.txTime[e] > 0 { // the write blocks: time passes INSIDE the call (model: flush_t / input_t / update_t)
				s.setNow(s.now + s.txTime[e])
			}
		})
		s.k[e] = k
	}
	for e := 0; e < 2; e++ {
		k := s.k[e]
		k.snd_una, k.snd_nxt = cfg.Isn[e], cfg.Isn[e]
		k.rcv_nxt = cfg.Isn[1-e]
		k.stream = int32(cfg.Stream)
		k.WndSize(cfg.Snd[e], cfg.Rcv[e])
		k.NoDelay(cfg.Nodelay[e], cfg.Interval[e], cfg.Resend[e], cfg.Nc[e])
		if r := k.SetMtu(cfg.Mtu[e]); r != 0 {
			panic("bad cfg mtu")
		}
	}
	s.logf("cfg conv=%d stream=%d clock=%d", cfg.Conv, cfg.Stream, cfg.Clock)
	for e := 0; e < 2; e++ {
		s.logf(" | mtu=%d snd=%d rcv=%d nodelay=%d interval=%d resend=%d nc=%d isn=%d peerisn=%d",
			cfg.Mtu[e], cfg.Snd[e], cfg.Rcv[e], cfg.Nodelay[e], cfg.Interval[e], cfg.Resend[e], cfg.Nc[e], cfg.Isn[e], cfg.Isn[1-e])
	}
	s.logf("\n")
	s.state(0)
	s.state(1)
	return s
}

func segList(r *RingBuffer[segment], f func(*segment) string) string {
	var sb strings.Builder
	first := true
	r.ForEach(func(sg *segment) bool {
		if !first {
			sb.WriteByte(',')
		}
		first = false
		sb.WriteString(f(sg))
		return true
	})
	return sb.String()
}

// state logs the projection of endpoint e's internal state.
func (s *coreSim) state(e int) {
	if !s.probeSeen && s.k[e].ts_probe != 0 {
		// the first probe deadline of the history, relative to the clock offset (C12 re-runs the history
		// with the clock shifted so that this deadline is exactly 0)
		s.probeSeen, s.probeRel = true, s.k[e].ts_probe-s.cfg.Clock
	}
	if s.lg == nil {
		return
	}
	k := s.k[e]
	s.logf("st %d conv=%d mtu=%d mss=%d state=%d una=%d nxt=%d rnxt=%d ssthresh=%d rttvar=%d srtt=%d rto=%d minrto=%d sndwnd=%d rcvwnd=%d rmtwnd=%d cwnd=%d incr=%d probe=%d tsprobe=%d probewait=%d interval=%d tsflush=%d nodelay=%d updated=%d deadlink=%d fastresend=%d nocwnd=%d stream=%d buflen=%d",
		e, k.conv, k.mtu, k.mss, k.state, k.snd_una, k.snd_nxt, k.rcv_nxt, k.ssthresh, k.rx_rttvar, k.rx_srtt, k.rx_rto, k.rx_minrto,
		k.snd_wnd, k.rcv_wnd, k.rmt_wnd, k.cwnd, k.incr, k.probe, k.ts_probe, k.probe_wait, k.interval, k.ts_flush, k.nodelay,
		k.updated, k.dead_link, k.fastresend, k.nocwnd, k.stream, len(k.buffer))
	s.logf(" sq=%s", segList(k.snd_queue, func(g *segment) string { return fmt.Sprintf("%d:%d", g.frg, len(g.data)) }))
	s.logf(" sb=%s", segList(k.snd_buf, func(g *segment) string {
		return fmt.Sprintf("%d:%d:%d:%d:%d:%d:%d:%d:%d:%d:%d", g.sn, g.frg, g.xmit, g.fastack, g.resendts, g.rto, g.acked, g.ts, g.wnd, g.una, len(g.data))
	}))
	s.logf(" rq=%s", segList(k.rcv_queue, func(g *segment) string { return fmt.Sprintf("%d:%d:%d", g.sn, g.frg, len(g.data)) }))
	rb := append([]segment(nil), k.rcv_buf.segments...)
	sort.Slice(rb, func(i, j int) bool { return rb[i].sn-k.rcv_nxt < rb[j].sn-k.rcv_nxt })
	var sb strings.Builder
	for i, g := range rb {
		if i > 0 {
			sb.WriteByte(',')
		}
		fmt.Fprintf(&sb, "%d:%d:%d", g.sn, g.frg, len(g.data))
	}
	s.logf(" rb=%s", sb.String())
	sb.Reset()
	for i, a := range k.acklist {
		if i > 0 {
			sb.WriteByte(',')
		}
		fmt.Fprintf(&sb, "%d:%d", a.sn, a.ts)
	}
	s.logf(" al=%s\n", sb.String())
}

func outsStr(o [][]byte) string {
	var sb strings.Builder
	fmt.Fprintf(&sb, "%d", len(o))
	for _, d := range o {
		sb.WriteByte(' ')
		sb.WriteString(hx(d))
	}
	return sb.String()
}

// guarded runs f on the real core, converting a Go panic into a value.
func (s *coreSim) guarded(f func()) (panicked bool, why string) {
	defer func() {
		if r := recover(); r != nil {
			panicked, why = true, fmt.Sprint(r)
		}
	}()
	f()
	return
}

func (s *coreSim) collect(e int) [][]byte {
	o := s.cur
	s.cur = nil
	for _, d := range o {
		if segs, ok := parseWire(d); ok {
			for _, w := range segs {
				if w.cmd == IKCP_CMD_WINS {
					s.owesWins[e] = false
				}
			}
		}
		s.pend[e] = append(s.pend[e], corePkt{s.npkt, d})
		s.npkt++
		s.monOutput(e, d)
	}
	return o
}

func (s *coreSim) setNow(now uint32) {
	s.now = now
	setClock(now)
}

// ---- the operations ----

func (s *coreSim) Send(e int, b []byte) int {
	s.ops = append(s.ops, fmt.Sprintf("send %d %d %s", e, s.now, hx(b)))
	var ret int
	p, why := s.guarded(func() { ret = s.k[e].Send(b) })
	if p {
		s.logf("send %d %d %s = P\n", e, s.now, hx(b))
		s.panicked("Send", why)
		return -99
	}
	s.logf("send %d %d %s = %d\n", e, s.now, hx(b), ret)
	s.tr("send %d %d = %d", e, len(b), ret)
	s.state(e)
	s.stats["send"]++
	if ret == 0 {
		s.accepted[e] = append(s.accepted[e], append([]byte(nil), b...))
	} else {
		s.stats[fmt.Sprintf("send-ret%d", ret)]++
	}
	s.monAfter(e, "Send")
	return ret
}

func (s *coreSim) Recv(e int, buflen int) int {
	s.ops = append(s.ops, fmt.Sprintf("recv %d %d %d", e, s.now, buflen))
	buf := make([]byte, buflen)
	var n int
	wasFull := s.k[e].rcv_queue.Len() >= int(s.k[e].rcv_wnd)
	p, why := s.guarded(func() { n = s.k[e].Recv(buf) })
	if p {
		s.logf("recv %d %d %d = P\n", e, s.now, buflen)
		s.panicked("Recv", why)
		return -99
	}
	var d []byte
	if n > 0 {
		d = buf[:n]
	}
	s.logf("recv %d %d %d = %d %s\n", e, s.now, buflen, n, hx(d))
	s.tr("recv %d %d = %d %s", e, buflen, n, hx(d))
	s.state(e)
	s.stats["recv"]++
	if n >= 0 && wasFull && s.k[e].rcv_queue.Len() < int(s.k[e].rcv_wnd) {
		s.owesWins[e] = true
	}
	if n >= 0 {
		s.delivered[e] = append(s.delivered[e], append([]byte(nil), d...))
		s.monPrefix(e)
	} else {
		s.stats[fmt.Sprintf("recv-ret%d", n)]++
	}
	s.monAfter(e, "Recv")
	return n
}

func (s *coreSim) Input(e int, d []byte, regular, acknd bool) int {
	r, a := 0, 0
	if regular {
		r = 1
	}
	if acknd {
		a = 1
	}
	s.ops = append(s.ops, fmt.Sprintf("input %d %d %d %d %s", e, s.now, r, a, hx(d)))
	pt := IKCP_PACKET_FEC
	if regular {
		pt = IKCP_PACKET_REGULAR
	}
	var ret int
	in := append([]byte(nil), d...)
	before := s.snapshot(e)
	s.advTrack(e, d, regular)
	t0 := s.now // the clock may advance inside the call (txTime)
	p, why := s.guarded(func() { ret = s.k[e].Input(in, pt, acknd) })
	if p {
		s.logf("input %d %d %d %d %s = P\n", e, t0, r, a, hx(d))
		s.panicked("Input", why)
		return -99
	}
	o := s.collect(e)
	s.logf("input %d %d %d %d %s = %d %s\n", e, t0, r, a, hx(d), ret, outsStr(o))
	s.tr("input %d %s = %d %s", e, s.normDgram(1-e, d), ret, s.normOuts(e, o))
	s.state(e)
	s.stats["input"]++
	if ret != 0 {
		s.stats[fmt.Sprintf("input-ret%d", ret)]++
	}
	s.monFlushX(e, before, o, true, false)
	s.monAfter(e, "Input")
	return ret
}

func (s *coreSim) Flush(e int, full bool) uint32 {
	ft := IKCP_FLUSH_ACKONLY
	if full {
		ft = IKCP_FLUSH_FULL
	}
	s.ops = append(s.ops, fmt.Sprintf("flush %d %d %d", e, s.now, ft))
	var next uint32
	before := s.snapshot(e)
	t0 := s.now
	p, why := s.guarded(func() { next = s.k[e].flush(ft) })
	if p {
		s.logf("flush %d %d %d = P\n", e, t0, ft)
		s.panicked("flush", why)
		return 0
	}
	owed := s.owesWins[e]
	o := s.collect(e)
	if curMon.reopen && owed && s.owesWins[e] {
		s.rep.Monitors["reopened-window-announced"]++
		s.owesWins[e] = false
		s.violate("core-reopen-not-announced", fmt.Sprintf("endpoint %d: the reader made room in a full delivery queue (rcv_wnd %d), yet the next flush carries no window announcement (WINS): the peer, told the window was closed, learns of the room only through its own back-off probes", e, s.k[e].rcv_wnd))
	} else if curMon.reopen && owed {
		s.rep.Monitors["reopened-window-announced"]++
	}
	s.logf("flush %d %d %d = %d %s\n", e, t0, ft, next, outsStr(o))
	s.tr("flush %d %d @%d = %d %s", e, ft, t0-s.cfg.Clock, next, s.normOuts(e, o))
	s.state(e)
	s.stats["flush"]++
	s.monFlush(e, before, o, full)
	s.monAfter(e, "flush")
	return next
}

func (s *coreSim) Update(e int) {
	s.ops = append(s.ops, fmt.Sprintf("update %d %d", e, s.now))
	before := s.snapshot(e)
	t0 := s.now
	p, why := s.guarded(func() { s.k[e].Update() })
	if p {
		s.logf("update %d %d = P\n", e, t0)
		s.panicked("Update", why)
		return
	}
	o := s.collect(e)
	s.logf("update %d %d = %s\n", e, t0, outsStr(o))
	s.tr("update %d @%d = %s", e, t0-s.cfg.Clock, s.normOuts(e, o))
	s.state(e)
	s.stats["update"]++
	s.monFlush(e, before, o, true)
	s.monAfter(e, "Update")
}

func (s *coreSim) Check(e int) uint32 {
	s.ops = append(s.ops, fmt.Sprintf("check %d %d", e, s.now))
	r := s.k[e].Check()
	s.logf("check %d %d = %d\n", e, s.now, r)
	s.tr("check %d @%d = %d", e, s.now-s.cfg.Clock, r-s.cfg.Clock)
	s.stats["check"]++
	return r
}

func (s *coreSim) SetMtu(e int, m int) int {
	s.ops = append(s.ops, fmt.Sprintf("setmtu %d %d %d", e, s.now, m))
	var r int
	p, why := s.guarded(func() { r = s.k[e].SetMtu(m) })
	if p {
		s.logf("setmtu %d %d %d = P\n", e, s.now, m)
		s.panicked("SetMtu", why)
		return -99
	}
	s.logf("setmtu %d %d %d = %d\n", e, s.now, m, r)
	s.state(e)
	s.stats["setmtu"]++
	if r == 0 {
		s.mtuChanged = true
		s.stats["setmtu-accepted"]++
	}
	return r
}

func (s *coreSim) NoDelay(e int, nd, iv, rs, nc int) {
	s.ops = append(s.ops, fmt.Sprintf("nodelay %d %d %d %d %d %d", e, s.now, nd, iv, rs, nc))
	was := s.k[e].nodelay
	s.k[e].NoDelay(nd, iv, rs, nc)
	if nd >= 0 && (was != 0) != (nd != 0) {
		// boundary B4: a MODE switch leaves rx_rto where it is until the next RTT sample
		s.modeSwitchRto[e], s.modeSwitched[e] = s.k[e].rx_rto, true
	}
	if curMon.rto {
		s.monRto(e)
	}
	s.logf("nodelay %d %d %d %d %d %d\n", e, s.now, nd, iv, rs, nc)
	s.state(e)
}

// SetTx: from now on the output callback of endpoint e blocks ms milliseconds per datagram
func (s *coreSim) SetTx(e int, ms uint32) {
	s.ops = append(s.ops, fmt.Sprintf("tx %d %d %d", e, s.now, ms))
	s.txTime[e] = ms
	s.logf("tx %d %d %d\n", e, s.now, ms)
	s.stats["tx"]++
}

func (s *coreSim) WndSize(e int, sw, rw int) {
	s.ops = append(s.ops, fmt.Sprintf("wnd %d %d %d %d", e, s.now, sw, rw))
	s.k[e].WndSize(sw, rw)
	s.logf("wnd %d %d %d %d\n", e, s.now, sw, rw)
	s.state(e)
}

func (s *coreSim) end() { s.logf("end\n") }

// ---- monitors (from the property texts; independent of the Coq model) ----

type coreSnap struct {
	rmtWnd, cwnd, sndUna, sndNxt uint32
	adv                           uint32 // harness-tracked advertised window (IKCP_WND_RCV until told)
	sndBuf                        int
	maxXmit                       map[uint32]uint32
	lost, fast, early             uint64
}

// state of the "after a timeout loss" monitor, per endpoint
type timeoutWatch struct {
	pending bool
	una     uint32 // oldest outstanding segment when the timeout retransmission happened
	frSince bool   // a fast/early retransmission happened in a LATER flush (upstream fast-recovery arithmetic)
}

func (s *coreSim) snapshot(e int) coreSnap {
	k := s.k[e]
	sn := coreSnap{rmtWnd: k.rmt_wnd, cwnd: k.cwnd, sndUna: k.snd_una, sndNxt: k.snd_nxt, sndBuf: k.snd_buf.Len(), maxXmit: map[uint32]uint32{},
		lost: atomic.LoadUint64(&DefaultSnmp.LostSegs), fast: atomic.LoadUint64(&DefaultSnmp.FastRetransSegs), early: atomic.LoadUint64(&DefaultSnmp.EarlyRetransSegs)}
	k.snd_buf.ForEach(func(g *segment) bool { sn.maxXmit[g.sn] = g.xmit; return true })
	sn.adv = IKCP_WND_RCV
	if s.advSet[e] {
		sn.adv = s.adv[e]
	}
	return sn
}

// advTrack: what the peer last advertised to endpoint e, read off the REGULAR datagrams handed to its
// Input by an independent walk over the segments (as far as Input itself gets: a foreign conv, a
// length beyond the datagram or an unknown cmd ends the datagram)
func (s *coreSim) advTrack(e int, d []byte, regular bool) {
	if !regular {
		return
	}
	conv := s.k[e].conv
	for len(d) >= IKCP_OVERHEAD {
		if binary.LittleEndian.Uint32(d) != conv {
			return
		}
		cmd, wnd, ln := d[4], binary.LittleEndian.Uint16(d[6:]), int(binary.LittleEndian.Uint32(d[20:]))
		d = d[IKCP_OVERHEAD:]
		if len(d) < ln || ln > mtuLimit || cmd < IKCP_CMD_PUSH || cmd > IKCP_CMD_WINS {
			return
		}
		s.adv[e], s.advSet[e] = uint32(wnd), true
		d = d[ln:]
	}
}

func (s *coreSim) violate(key, what string) {
	s.rep.violate(key, what, map[string]any{"cfg": s.cfg, "ops": append([]string(nil), s.ops...)})
}

func (s *coreSim) panicked(where, why string) {
	s.dead = true
	s.stats["panic"]++
	s.logf("end\n")
	s.monPanic(where, why)
}

// hooks, assigned per test (nil = monitor off)
type coreMon struct {
	panicKey   func(s *coreSim, where, why string) (key, what string)
	prefix     bool
	windows    bool
	outputSize bool
	rto        bool
	cc         bool // congestion-control clauses of C04 (cwnd after a timeout loss)
	reopen     bool // C03: a reader that makes room in a FULL delivery queue has the re-opened window announced (WINS) by the next flush
}

var curMon coreMon

func (s *coreSim) monPanic(where, why string) {
	s.rep.Monitors["no-panic"]++
	key := "core-panic:" + where
	what := fmt.Sprintf("KCP.%s panicked: %s", where, why)
	if curMon.panicKey != nil {
		key, what = curMon.panicKey(s, where, why)
	}
	if key != "" {
		s.violate(key, what)
	}
}

// monOutput: C10 - the core never hands its callback more than its MTU, nor an empty packet.
func (s *coreSim) monOutput(e int, d []byte) {
	if !curMon.outputSize {
		return
	}
	s.rep.Monitors["output-size"]++
	if len(d) == 0 {
		s.violate("core-output-empty", "the core handed its output callback an empty packet")
	} else if len(d) > int(s.k[e].mtu) {
		s.violate("core-output-oversize", fmt.Sprintf("the core handed its output callback %d bytes with mtu %d", len(d), s.k[e].mtu))
	}
}

func flat(m [][]byte) []byte { return bytes.Join(m, nil) }

// monPrefix: C01 - what endpoint e has read is a prefix of what its peer's Send accepted.
func (s *coreSim) monPrefix(e int) {
	if !curMon.prefix || s.forged {
		return
	}
	s.rep.Monitors["prefix"]++
	if s.cfg.Stream != 0 {
		got, want := flat(s.delivered[e]), flat(s.accepted[1-e])
		if len(got) > len(want) || !bytes.Equal(got, want[:len(got)]) {
			s.violate("core-prefix-stream", "stream mode: bytes returned by Recv are not a prefix of the bytes the peer's Send accepted")
		}
	} else {
		got, want := s.delivered[e], s.accepted[1-e]
		if len(got) > len(want) {
			s.violate("core-prefix-message", "message mode: more messages received than sent")
			return
		}
		for i := range got {
			if !bytes.Equal(got[i], want[i]) {
				s.violate("core-prefix-message", "message mode: a received message differs from the message sent at that position")
				return
			}
		}
	}
}

// monAfter: C04 occupancy and outstanding bounds after every call.
func (s *coreSim) monAfter(e int, where string) {
	if curMon.rto {
		s.monRto(e)
	}
	if !curMon.windows {
		return
	}
	k := s.k[e]
	s.rep.Monitors["window-bounds"]++
	// a window lowered at run time (outside the property's "set before traffic starts") bounds
	// what is admitted from then on; what already waits is bounded by the largest window so far
	if k.rcv_wnd > s.rcvWndMax[e] {
		s.rcvWndMax[e] = k.rcv_wnd
	}
	if k.rcv_queue.Len() > int(s.rcvWndMax[e]) {
		s.violate("core-rcvqueue-over-window", fmt.Sprintf("after %s: %d in-order segments await the reader with rcv_wnd %d", where, k.rcv_queue.Len(), k.rcv_wnd))
	}
	if k.rcv_buf.Len() > int(s.rcvWndMax[e]) {
		s.violate("core-rcvbuf-over-window", fmt.Sprintf("after %s: %d out-of-order segments held with rcv_wnd %d", where, k.rcv_buf.Len(), k.rcv_wnd))
	}
	if k.snd_buf.Len() > int(k.snd_wnd) {
		s.violate("core-outstanding-over-sndwnd", fmt.Sprintf("after %s: %d segments outstanding with snd_wnd %d", where, k.snd_buf.Len(), k.snd_wnd))
	}
	if uint32(k.snd_buf.Len()) != k.snd_nxt-k.snd_una {
		s.violate("core-sndbuf-not-contiguous", fmt.Sprintf("after %s: |snd_buf| = %d but snd_nxt-snd_una = %d", where, k.snd_buf.Len(), k.snd_nxt-k.snd_una))
	}
	if len(k.acklist) >= int(k.mtu/IKCP_OVERHEAD)+int(mtuLimit/IKCP_OVERHEAD)+2 {
		s.violate("core-acklist-unbounded", fmt.Sprintf("after %s: %d pending acks", where, len(k.acklist)))
	}
}

type wireSeg struct {
	conv            uint32
	cmd, frg        uint8
	wnd             uint16
	ts, sn, una, ln uint32
	data            []byte
}

// parseWire is the independent reading of the 24-byte little-endian header (from the README /
// property text), used by the monitors only.
func parseWire(d []byte) (segs []wireSeg, ok bool) {
	for len(d) > 0 {
		if len(d) < 24 {
			return segs, false
		}
		w := wireSeg{conv: binary.LittleEndian.Uint32(d), cmd: d[4], frg: d[5], wnd: binary.LittleEndian.Uint16(d[6:]),
			ts: binary.LittleEndian.Uint32(d[8:]), sn: binary.LittleEndian.Uint32(d[12:]), una: binary.LittleEndian.Uint32(d[16:]), ln: binary.LittleEndian.Uint32(d[20:])}
		d = d[24:]
		if uint32(len(d)) < w.ln {
			return segs, false
		}
		w.data = d[:w.ln]
		d = d[w.ln:]
		segs = append(segs, w)
	}
	return segs, true
}

// monFlush: C04 - truthful window; a new segment goes on the wire only while fewer than
// min(snd_wnd, rmt_wnd[, cwnd]) are outstanding (judged with the windows seen by this flush).
func (s *coreSim) monFlush(e int, before coreSnap, outs [][]byte, full bool) {
	s.monFlushX(e, before, outs, full, true)
}

// monFlushX: admission=false when the flush ran inside Input (the windows it saw are not `before`'s)
func (s *coreSim) monFlushX(e int, before coreSnap, outs [][]byte, full bool, admission bool) {
	k := s.k[e]
	lost := atomic.LoadUint64(&DefaultSnmp.LostSegs) - before.lost
	fr := atomic.LoadUint64(&DefaultSnmp.FastRetransSegs) - before.fast + atomic.LoadUint64(&DefaultSnmp.EarlyRetransSegs) - before.early
	tw := &s.tw[e]
	if curMon.cc && k.nocwnd == 0 {
		if tw.pending && k.snd_una != tw.una {
			tw.pending = false // the oldest outstanding segment has been acknowledged
		}
		if lost > 0 {
			s.rep.Monitors["cwnd-after-timeout"]++
			// C04: after a timeout loss the congestion window is one segment
			if k.cwnd != 1 {
				s.violate("core-cwnd-not-reset-after-timeout", fmt.Sprintf("a flush retransmitted %d segment(s) on timeout and left cwnd=%d (expected 1)", lost, k.cwnd))
			}
			*tw = timeoutWatch{pending: true, una: k.snd_una}
		} else if fr > 0 && tw.pending {
			tw.frSince = true
		}
	}
	for _, d := range outs {
		segs, ok := parseWire(d)
		if curMon.windows {
			s.rep.Monitors["wire-wellformed"]++
			if !ok {
				s.violate("core-output-malformed", "a datagram emitted by flush is not a sequence of well-formed segments")
			}
		}
		free := 0
		if k.rcv_queue.Len() < int(k.rcv_wnd) {
			free = int(k.rcv_wnd) - k.rcv_queue.Len()
		}
		for _, w := range segs {
			if curMon.windows {
				s.rep.Monitors["wnd-truthful"]++
				if int(w.wnd) > free {
					s.violate("core-wnd-overadvertised", fmt.Sprintf("a segment advertises wnd=%d but only %d slots are free in the delivery queue", w.wnd, free))
				}
			}
			if w.cmd == IKCP_CMD_PUSH {
				s.emitted[e][w.sn]++
				if curMon.windows {
					if _, was := before.maxXmit[w.sn]; !was || before.maxXmit[w.sn] == 0 {
						// first transmission of this sn
						s.rep.Monitors["first-xmit-window"]++
						lim := min(k.snd_wnd, before.rmtWnd)
						if k.nocwnd == 0 {
							lim = min(lim, before.cwnd)
						}
						if curMon.cc && tw.pending && k.nocwnd == 0 && lost == 0 && k.snd_una == tw.una && _itimediff(w.sn, tw.una) > 0 {
							s.rep.Monitors["admit-after-timeout"]++
							if tw.frSince {
								s.violate("core-admit-after-timeout:fast-recovery", fmt.Sprintf("new segment sn=%d put on the wire after a timeout loss while the oldest outstanding segment sn=%d is unacknowledged (cwnd re-opened to %d by a later fast/early retransmission)", w.sn, tw.una, before.cwnd))
							} else {
								s.violate("core-admit-after-timeout", fmt.Sprintf("new segment sn=%d put on the wire after a timeout loss while the oldest outstanding segment sn=%d is unacknowledged (cwnd=%d)", w.sn, tw.una, before.cwnd))
							}
						}
						if admission && curMon.windows {
							// the same judged with the window the PEER last advertised in a regular datagram,
							// tracked by the harness (a core that trusts a stale or recovered advertisement
							// agrees with its own rmt_wnd and is caught here)
							s.rep.Monitors["first-xmit-advertised-window"]++
							alim := min(k.snd_wnd, before.adv)
							if k.nocwnd == 0 {
								alim = min(alim, before.cwnd)
							}
							if w.sn-before.sndUna >= alim && w.sn-before.sndUna < lim {
								s.violate("core-admit-beyond-advertised", fmt.Sprintf("new segment sn=%d put on the wire with %d outstanding while the window the peer last advertised in a regular datagram is %d (the core's rmt_wnd is %d)", w.sn, w.sn-before.sndUna, before.adv, before.rmtWnd))
							}
						}
						if admission && w.sn-before.sndUna >= lim {
							if was {
								s.violate("core-first-xmit-lag", fmt.Sprintf("segment sn=%d numbered by an earlier ack-only flush is first transmitted with %d outstanding and a window of %d", w.sn, w.sn-before.sndUna, lim))
							} else {
								s.violate("core-admit-beyond-window", fmt.Sprintf("new segment sn=%d put on the wire with %d outstanding and min(snd_wnd,rmt_wnd[,cwnd]) = %d", w.sn, w.sn-before.sndUna, lim))
							}
						}
					}
				}
			}
		}
	}
}

// ---- helpers for generators ----

func (s *coreSim) deliver(to int, idx int, regular bool) int {
	p := s.pend[1-to][idx]
	return s.Input(to, p.data, regular, s.cfg.AckND[to])
}

func (s *coreSim) dropPend(from int, idx int) {
	s.pend[from] = append(s.pend[from][:idx], s.pend[from][idx+1:]...)
}

func mustHex(x string) []byte {
	if x == "-" {
		return nil
	}
	b, err := hex.DecodeString(x)
	if err != nil {
		panic(err)
	}
	return b
}

// runInBubble runs f under the synctest fake clock and restores refTime afterwards.
func runInBubble(t *testing.T, f func()) {
	saved := refTime
	defer func() { refTime = saved }()
	synctest.Test(t, func(t *testing.T) { f() })
}

// healAndCheck: C02 - once datagrams get through again everything written is delivered and the
// backlog returns to zero within a time bounded by the retransmission timers.
// healBound: "within a time bounded by the retransmission timers".  On a healed network the only
// remaining cause of loss is a sender overshooting the receiver's window with segments whose
// timers expire together: each round then delivers at least min(rcv_wnd, outstanding) segments,
// and the i-th further round of a segment waits its per-segment rto, which grows by at most
// rx_rto <= 60 s per timeout.  Window probes add at most 120 s.
func (s *coreSim) healBound() uint32 {
	var worst uint64
	for e := 0; e < 2; e++ {
		k, peer := s.k[e], s.k[1-e]
		n := uint64(k.snd_buf.Len())
		w := uint64(max(1, min(int(peer.rcv_wnd), int(k.snd_wnd))))
		rounds := n/w + 2
		maxrto := uint64(k.rx_rto)
		k.snd_buf.ForEach(func(g *segment) bool {
			if g.acked == 0 && uint64(g.rto) > maxrto && g.rto < 1<<31 {
				maxrto = uint64(g.rto)
			}
			return true
		})
		var t uint64 = 130000 + 300000 + uint64(k.snd_queue.Len())*1000
		for i := uint64(0); i <= rounds; i++ {
			t += maxrto + (i+1)*60000
		}
		if t > worst {
			worst = t
		}
	}
	if worst > 1<<30 {
		worst = 1 << 30
	}
	return uint32(worst)
}

func (s *coreSim) healAndCheck(limit uint32, useUpdate bool) int {
	if b := s.healBound(); b > limit {
		limit = b
	}
	s.rep.Monitors["drains-after-healing"]++
	d := s.drain(limit, useUpdate)
	if s.dead {
		return d
	}
	if d < 0 {
		s.violate("core-wedge", fmt.Sprintf("after %d ms of a healed network the backlog has not drained: WaitSnd=%d/%d snd_una=%d snd_nxt=%d rmt_wnd=%d (endpoint 0)",
			limit, s.k[0].WaitSnd(), s.k[1].WaitSnd(), s.k[0].snd_una, s.k[0].snd_nxt, s.k[0].rmt_wnd))
		return d
	}
	for e := 0; e < 2; e++ {
		if !bytes.Equal(flat(s.delivered[e]), flat(s.accepted[1-e])) && !s.forged {
			s.violate("core-undelivered", "the backlog drained but the reader has not received everything that was written")
		}
	}
	return d
}

// ---- C12: offset-normalised trace ----

func (s *coreSim) tr(format string, a ...any) {
	if s.traceOn {
		s.trace = append(s.trace, fmt.Sprintf(format, a...))
	}
}

// normDgram rewrites a datagram emitted by endpoint `from` with sequence numbers relative to the
// initial numbers and timestamps relative to the initial clock; header leftovers of WASK/WINS
// (sn, ts) are don't-care and zeroed.  Malformed tails are kept verbatim.
func (s *coreSim) normDgram(from int, d []byte) string {
	segs, ok := parseWire(d)
	if !ok {
		return "raw:" + hx(d)
	}
	var sb strings.Builder
	for _, w := range segs {
		own, peer, clk := s.cfg.Isn[from], s.cfg.Isn[1-from], s.cfg.Clock
		sn, ts := w.sn, w.ts
		switch w.cmd {
		case IKCP_CMD_PUSH:
			sn, ts = sn-own, ts-clk
		case IKCP_CMD_ACK:
			sn, ts = sn-peer, ts-clk
		default:
			sn, ts = 0, 0
		}
		fmt.Fprintf(&sb, "[%d c%d f%d w%d ts%d sn%d una%d %s]", w.conv, w.cmd, w.frg, w.wnd, ts, sn, w.una-peer, hx(w.data))
	}
	return sb.String()
}

func (s *coreSim) normOuts(from int, o [][]byte) string {
	var sb strings.Builder
	for _, d := range o {
		sb.WriteString(s.normDgram(from, d))
		sb.WriteByte('|')
	}
	return sb.String()
}
