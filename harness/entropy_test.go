//go:build verif

package kcp

// C09 (nonces never repeat) - the generator behind every nonce: entropy.go's rngAES run against
// coq/frame/Entropy.v.  The real rngAES is built with a toy cipher.Block (the model's E is a Section
// variable) and started at chosen counters, so that runs cross the reseed boundary; crypto/rand is
// scripted for the duration of a case, and what AES does with the scripted key is computed with an
// aes.Block of the harness's own.  Every case is written to Entropy.log and replayed in Coq.

import (
	"bytes"
	"crypto/aes"
	crand "crypto/rand"
	"fmt"
	mrand "math/rand"
	"strings"
	"testing"
)

// toyBlock: out[i] = in[(i+1) mod 16] + k + i  (a bijection on 16-byte blocks); coq: toy_E
type toyBlock struct{ k byte }

func (toyBlock) BlockSize() int { return 16 }
func (b toyBlock) Encrypt(dst, src []byte) {
	var t [16]byte
	for i := 0; i < 16; i++ {
		t[i] = src[(i+1)%16] + b.k + byte(i)
	}
	copy(dst, t[:])
}
func (b toyBlock) Decrypt(dst, src []byte) { panic("unused") }

func TestVerifC09Entropy(t *testing.T) {
	rep := newReport("C09")
	lg := newVlog(t, "Entropy.log")
	defer lg.close()
	rng := mrand.New(mrand.NewSource(int64(vSeed())*7919 + 17))
	ncases := 160
	if vThorough() {
		ncases = 1200
	}
	lens := []int{0, 1, 12, 12, 16, 16, 16, 20, 33, 40}
	starts := []uint64{0, 3, reseedInterval - 5, reseedInterval - 2, reseedInterval - 1, reseedInterval}
	savedReader, savedEntropy := crand.Reader, entropy
	defer func() { crand.Reader, entropy = savedReader, savedEntropy }()
	for c := 0; c < ncases; c++ {
		r := &rngAES{block: toyBlock{byte(rng.Intn(256))}, count: starts[rng.Intn(len(starts))]}
		k0 := r.block.(toyBlock).k
		for i := range r.seed {
			r.seed[i] = byte(rng.Intn(256))
		}
		seed0, count0 := r.seed, r.count
		// crypto/rand for this case: two reseeds' worth of key and seed
		script := make([]byte, 64)
		for i := range script {
			script[i] = byte(rng.Intn(256))
		}
		crand.Reader = bytes.NewReader(script)
		SetEntropy(r)
		nops := 4 + rng.Intn(8)
		var ops, outs []string
		full := map[[16]byte]int{}
		short := map[[16]byte]int{}
		reseeds := 0
		for i := 0; i < nops; i++ {
			n := lens[rng.Intn(len(lens))]
			p := make([]byte, n)
			before, blk := r.count, r.block
			if rng.Intn(3) == 0 {
				fillRand(p)
				ops = append(ops, fmt.Sprintf("F%d", n))
				rep.Distribution["fillRand"]++
			} else {
				got, err := r.Read(p)
				want := n
				if want > 16 {
					want = 16
				}
				if err != nil || got != want {
					rep.Distribution["differs-from-expected-bookkeeping:read-count"]++ // not a violation of the property by itself: the model replay decides
				}
				p = p[:got]
				ops = append(ops, fmt.Sprintf("R%d", n))
				rep.Distribution["Read"]++
			}
			rep.Distribution[fmt.Sprintf("len=%d", n)]++
			outs = append(outs, hx(p))
			rep.Steps++
			rep.Monitors["count-within-interval"]++
			if r.count > reseedInterval {
				rep.Distribution["differs-from-expected-bookkeeping:count-overrun"]++ // not a violation of the property by itself: the model replay decides
			}
			// Read calls this operation made: one, or ceil(n/16) for fillRand; none for an empty buffer
			reads := uint64(0)
			if n > 0 {
				reads = 1
				if strings.HasPrefix(ops[len(ops)-1], "F") {
					reads = uint64((n + 15) / 16)
				}
			}
			if r.block != blk {
				reseeds++
				rep.Monitors["reseed-at-interval"]++
				if before+reads <= reseedInterval {
					rep.Distribution["differs-from-expected-bookkeeping:early-reseed"]++ // not a violation of the property by itself: the model replay decides
				}
			} else if before+reads > reseedInterval {
				rep.Distribution["differs-from-expected-bookkeeping:no-reseed"]++ // not a violation of the property by itself: the model replay decides
			}
			// every full 16-byte block drawn in this case must be new (what a CFB-class nonce is)
			for off := 0; off+16 <= len(p); off += 16 {
				var b [16]byte
				copy(b[:], p[off:off+16])
				rep.Monitors["nonce-distinct"]++
				if j, dup := full[b]; dup {
					rep.violate("entropy-nonce-repeat", fmt.Sprintf("the generator returned the same 16-byte block twice (operations %d and %d of the case)", j, i),
						map[string]any{"case": c, "count0": count0, "seed0": hx(seed0[:]), "toy_k": k0, "ops": ops, "outs": outs})
				}
				full[b] = i
			}
			// ... and so must every 12-byte prefix be (what an AEAD nonce is): a repeat within a dozen reads is no accident
			if len(p) >= 12 && len(p) < 16 {
				var b [16]byte
				copy(b[:12], p[:12])
				b[15] = 0xA5
				rep.Monitors["nonce12-distinct"]++
				if j, dup := short[b]; dup {
					rep.violate("entropy-nonce12-repeat", fmt.Sprintf("the generator returned the same 12-byte nonce twice (operations %d and %d of the case)", j, i),
						map[string]any{"case": c, "count0": count0, "seed0": hx(seed0[:]), "toy_k": k0, "ops": ops, "outs": outs})
				}
				short[b] = i
			}
		}
		// what AES does under the scripted keys: the chains the model needs, from an aes.Block of our own
		var fresh, tbl []string
		for e := 0; e < 2; e++ {
			key, sd := script[32*e:32*e+16], script[32*e+16:32*e+32]
			fresh = append(fresh, hx(key)+":"+hx(sd))
			blk, _ := aes.NewCipher(key)
			cur := append([]byte(nil), sd...)
			for i := 0; i < 3*nops+4; i++ {
				nxt := make([]byte, 16)
				blk.Encrypt(nxt, cur)
				tbl = append(tbl, fmt.Sprintf("%d:%s:%s", e, hx(cur), hx(nxt)))
				cur = nxt
			}
		}
		lg.printf("CASE id=%d k=%d count0=%d seed0=%s ops=%s outs=%s count1=%d seed1=%s reseeds=%d fresh=%s aes=%s\n",
			c, k0, count0, hx(seed0[:]), strings.Join(ops, ","), strings.Join(outs, ","), r.count, hx(r.seed[:]), reseeds,
			strings.Join(fresh, ","), strings.Join(tbl, ","))
		rep.Cases++
		if reseeds > 0 {
			rep.Nontrivial++
			rep.Distribution["cases-crossing-a-reseed"]++
		}
		if reseeds > 1 {
			rep.Distribution["differs-from-expected-bookkeeping:double-reseed"]++ // not a violation of the property by itself: the model replay decides
		}
	}
	// rngChacha8 (used where AES hardware is missing) shares updateSeed's counter logic: monitors only -
	// the counter stays within the interval, it restarts exactly at the interval, Read fills the whole
	// buffer, and no output of 12 bytes or more comes twice
	crand.Reader = savedReader // the real crypto/rand again: an exhausted script would seed every epoch with zeros
	for c := 0; c < ncases/4; c++ {
		r := NewEntropyChacha8().(*rngChacha8)
		r.count = starts[rng.Intn(len(starts))]
		count0 := r.count
		seen := map[string]int{}
		var ops, gots []string
		creseeds := 0
		for i, nops := 0, 4+rng.Intn(8); i < nops; i++ {
			n := lens[rng.Intn(len(lens))]
			p := make([]byte, n)
			before := r.count
			got, err := r.Read(p)
			ops = append(ops, fmt.Sprintf("%d", n))
			gots = append(gots, fmt.Sprintf("%d", got))
			if n > 0 && before >= reseedInterval {
				creseeds++
			}
			rep.Steps++
			rep.Distribution["chacha8-Read"]++
			rep.Monitors["chacha8-count"]++
			want := before + 1
			if n == 0 {
				want = before
			} else if before >= reseedInterval {
				want = 0
			}
			if err != nil || got != n || r.count != want || r.count > reseedInterval {
				rep.Distribution["differs-from-expected-bookkeeping:chacha8-counter"]++ // not a violation of the property by itself: the model replay decides
			}
			if n >= 12 {
				rep.Monitors["chacha8-distinct"]++
				if j, dup := seen[string(p)]; dup {
					rep.violate("entropy-chacha8-repeat", fmt.Sprintf("rngChacha8 returned the same %d bytes twice (operations %d and %d)", n, j, i), map[string]any{"case": c, "count0": count0, "ops": ops})
				}
				seen[string(p)] = i
			}
		}
		lg.printf("CHA id=%d count0=%d lens=%s gots=%s count1=%d reseeds=%d\n", c, count0, strings.Join(ops, ","), strings.Join(gots, ","), r.count, creseeds)
		rep.Cases++
	}
	rep.Extra["entropy_cases"] = rep.Cases
	rep.write(t, "C09ent.report.json")
}
