//go:build verif

// Engine "udp": the production paths on Linux - recvmmsg batches in readloop_linux.go
// (Listener.monitor, UDPSession.readLoop), sendmmsg batches in tx_linux.go, the real
// DialWithOptions / ListenWithOptions constructors - driven over REAL loopback UDP sockets.
// The in-memory PacketConns of the other engines never reach these files (the batch paths need
// a *net.UDPConn).  Everything here is judged by oracles written from the property texts:
//
//	C06  a datagram that fails the integrity check or is too short has no effect at all - in
//	     particular not on the datagrams that arrive behind it in the same batch;
//	C11  one Accept per new peer, each accepted session delivers exactly its own peer's stream,
//	     traffic from other addresses never appears in, stalls or closes it; a dialled session
//	     ignores datagrams that do not come from its peer's address;
//	C09/C10  every datagram on the wire follows the frame layout and is <= the session MTU; FEC
//	     ids are consecutive (nothing is lost or duplicated between postProcess and the socket);
//	C01  end to end through a lossy / duplicating / reordering user-space relay the reader sees a
//	     prefix of what was written, and finally all of it.
//
// To make several datagrams arrive in ONE recvmmsg batch the receiving goroutine is parked: the
// harness holds the lock the goroutine needs for a valid "primer" datagram (Listener.sessionLock,
// UDPSession.mu), sends the burst (it queues up in the socket buffer), and lets go.
package kcp

import (
	"bytes"
	"encoding/binary"
	"fmt"
	"hash/crc32"
	"io"
	"net"
	"runtime"
	"sort"
	"strings"
	"sync"
	"sync/atomic"
	"testing"
	"time"

	"golang.org/x/net/ipv4"
)

type udpCipher struct {
	name string
	mk   func() BlockCrypt
}

func udpCiphers() []udpCipher {
	key := bytes.Repeat([]byte{0x3c}, 32)
	must := func(b BlockCrypt, err error) BlockCrypt {
		if err != nil {
			panic(err)
		}
		return b
	}
	cs := []udpCipher{
		{"nil", func() BlockCrypt { return nil }},
		{"none", func() BlockCrypt { return must(NewNoneBlockCrypt(key)) }},
		{"aes", func() BlockCrypt { return must(NewAESBlockCrypt(key)) }},
		{"aesgcm", func() BlockCrypt { return must(NewAESGCMCrypt(key)) }},
	}
	if vThorough() {
		cs = append(cs,
			udpCipher{"salsa20", func() BlockCrypt { return must(NewSalsa20BlockCrypt(key)) }},
			udpCipher{"xor", func() BlockCrypt { return must(NewSimpleXORBlockCrypt(key)) }},
			udpCipher{"blowfish", func() BlockCrypt { return must(NewBlowfishBlockCrypt(key)) }})
	}
	return cs
}

// wire image of one cleartext payload as postProcess builds it (fresh nonce per datagram)
func udpSeal(block BlockCrypt, payload []byte, rng *vrng) []byte {
	switch b := block.(type) {
	case nil:
		return append([]byte(nil), payload...)
	case *aeadCrypt:
		ns := b.NonceSize()
		out := make([]byte, ns, ns+len(payload)+b.Overhead())
		copy(out, rng.bytes(ns))
		return b.Seal(out, out[:ns], payload, nil)
	default:
		out := make([]byte, cryptHeaderSize+len(payload))
		copy(out, rng.bytes(nonceSize))
		copy(out[cryptHeaderSize:], payload)
		binary.LittleEndian.PutUint32(out[nonceSize:], crc32.ChecksumIEEE(out[cryptHeaderSize:]))
		b.Encrypt(out, out)
		return out
	}
}

// independent opening of a wire datagram (never calls packetInput): payload, ok
func udpOpen(block BlockCrypt, wire []byte) ([]byte, bool) {
	switch b := block.(type) {
	case nil:
		return wire, true
	case *aeadCrypt:
		ns := b.NonceSize()
		if len(wire) < ns+b.Overhead() {
			return nil, false
		}
		w := append([]byte(nil), wire...)
		pt, err := b.Open(nil, w[:ns], w[ns:], nil)
		return pt, err == nil
	default:
		if len(wire) < cryptHeaderSize {
			return nil, false
		}
		d := make([]byte, len(wire))
		b.Decrypt(d, wire)
		if crc32.ChecksumIEEE(d[cryptHeaderSize:]) != binary.LittleEndian.Uint32(d[nonceSize:]) {
			return nil, false
		}
		return d[cryptHeaderSize:], true
	}
}

func udpSeg(conv uint32, cmd, frg byte, wnd uint16, ts, sn, una uint32, data []byte) []byte {
	b := make([]byte, IKCP_OVERHEAD+len(data))
	binary.LittleEndian.PutUint32(b, conv)
	b[4], b[5] = cmd, frg
	binary.LittleEndian.PutUint16(b[6:], wnd)
	binary.LittleEndian.PutUint32(b[8:], ts)
	binary.LittleEndian.PutUint32(b[12:], sn)
	binary.LittleEndian.PutUint32(b[16:], una)
	binary.LittleEndian.PutUint32(b[20:], uint32(len(data)))
	copy(b[IKCP_OVERHEAD:], data)
	return b
}

// a hand-driven peer: one UDP socket, one conversation, PUSH segments sn = 0, 1, 2, ... in order
type udpPeer struct {
	sock   *net.UDPConn
	conv   uint32
	sn     uint32
	fecID  uint32
	ds, ps int
	sent   []byte // concatenation of the payloads of all segments sent so far
	tag    byte
}

func udpNewPeer(conv uint32, ds, ps int, tag byte) *udpPeer {
	c, err := net.ListenUDP("udp4", &net.UDPAddr{IP: net.IPv4(127, 0, 0, 1)})
	if err != nil {
		panic(err)
	}
	return &udpPeer{sock: c, conv: conv, ds: ds, ps: ps, tag: tag}
}

func (p *udpPeer) addr() string { return p.sock.LocalAddr().String() }

// cleartext of the next in-order data datagram (FEC data framing when the receiver runs FEC)
func (p *udpPeer) nextClear(rng *vrng, n int) []byte {
	data := make([]byte, n)
	for i := range data {
		data[i] = p.tag ^ byte(len(p.sent)+i) ^ byte((len(p.sent)+i)>>8)
	}
	seg := udpSeg(p.conv, IKCP_CMD_PUSH, 0, 64, uint32(rng.u64()), p.sn, 0, data)
	p.sn++
	p.sent = append(p.sent, data...)
	if p.ds == 0 {
		return seg
	}
	ss := uint32(p.ds + p.ps)
	for p.fecID%ss >= uint32(p.ds) { // parity positions are left out: "all parity lost"
		p.fecID++
	}
	b := make([]byte, fecHeaderSizePlus2+len(seg))
	binary.LittleEndian.PutUint32(b, p.fecID)
	binary.LittleEndian.PutUint16(b[4:], typeData)
	binary.LittleEndian.PutUint16(b[6:], uint16(len(seg)+2))
	copy(b[fecHeaderSizePlus2:], seg)
	p.fecID++
	return b
}

// segments a hand-driven peer may send to a session that is read only at the end (rcv_wnd is 32)
const udpPeerBudget = IKCP_WND_RCV - 4

type udpDg struct {
	from  *net.UDPConn
	wire  []byte
	class string
}

// datagrams that must have no effect: empty, too short, CRC/tag failing, random
func udpBad(block BlockCrypt, good []byte, rng *vrng) ([]byte, string) {
	minLen := 0
	switch b := block.(type) {
	case nil:
		minLen = 12 // min(IKCP_OVERHEAD, fecHeaderSizePlus2+convSize)
	case *aeadCrypt:
		minLen = b.NonceSize() + b.Overhead()
	default:
		minLen = cryptHeaderSize
	}
	k := rng.intn(4)
	if block == nil && k >= 2 {
		k = rng.intn(2)
	}
	switch k {
	case 0:
		return []byte{}, "empty"
	case 1:
		return rng.bytes(1 + rng.intn(minLen-1)), "short"
	case 2:
		// judged by the independent oracle: a flip in the clear, unchecked nonce of the none/xor
		// classes still passes the check (then it is a replayed valid datagram, not a bad one)
		for {
			w := append([]byte(nil), good...)
			w[rng.intn(len(w))] ^= 1 << uint(rng.intn(8))
			if _, ok := udpOpen(block, w); !ok {
				return w, "bitflip"
			}
		}
	default:
		for {
			w := rng.bytes(minLen + 24 + rng.intn(200))
			if _, ok := udpOpen(block, w); !ok {
				return w, "random"
			}
		}
	}
}

func udpReadAll(s *UDPSession, want int, d time.Duration) []byte {
	var got []byte
	buf := make([]byte, 4096)
	deadline := time.Now().Add(d)
	for len(got) < want && time.Now().Before(deadline) {
		s.SetReadDeadline(time.Now().Add(50 * time.Millisecond))
		n, err := s.Read(buf)
		got = append(got, buf[:n]...)
		if err != nil && err.Error() != errTimeout.Error() {
			if ne, ok := err.(net.Error); !ok || !ne.Timeout() {
				break
			}
		}
	}
	// anything beyond what was expected?
	s.SetReadDeadline(time.Now().Add(20 * time.Millisecond))
	n, _ := s.Read(buf)
	got = append(got, buf[:n]...)
	return got
}

// ---------------------------------------------------------------- listener over a real socket

type udpListenerReplay struct {
	Test   string `json:"test"`
	Seed   uint64 `json:"seed"`
	Case   int    `json:"case"`
	Cipher string `json:"cipher"`
	DS, PS int
	Script []string `json:"script"`
}

func udpListenerCase(t *testing.T, id int, rep *vreport, rng *vrng, ci udpCipher, ds, ps int) {
	block := ci.mk()
	l, err := ListenWithOptions("127.0.0.1:0", block, ds, ps)
	if err != nil {
		t.Fatal(err)
	}
	defer l.Close()
	lc := l.conn.(*net.UDPConn)
	lc.SetReadBuffer(4 << 20)
	dst := lc.LocalAddr().(*net.UDPAddr)
	replay := &udpListenerReplay{Test: "TestVerifUDPListener", Seed: vSeed(), Case: id, Cipher: ci.name, DS: ds, PS: ps}

	npeers := 2 + rng.intn(4)
	primer := udpNewPeer(900, ds, ps, 0x11)
	defer primer.sock.Close()
	var peers []*udpPeer
	for i := 0; i < npeers; i++ {
		p := udpNewPeer(uint32(1000+i), ds, ps, byte(0x40+i*7))
		defer p.sock.Close()
		peers = append(peers, p)
	}
	var strangers []*net.UDPConn
	for i := 0; i < 2; i++ {
		c, _ := net.ListenUDP("udp4", &net.UDPAddr{IP: net.IPv4(127, 0, 0, 1)})
		defer c.Close()
		strangers = append(strangers, c)
	}
	csum0 := atomic.LoadUint64(&DefaultSnmp.InCsumErrors)
	wantCsum := uint64(0)

	accepted := map[string]*UDPSession{}
	var accMu sync.Mutex
	extra := 0
	go func() {
		for {
			s, err := l.AcceptKCP()
			if err != nil {
				return
			}
			accMu.Lock()
			if _, dup := accepted[s.RemoteAddr().String()]; dup {
				extra++
			}
			accepted[s.RemoteAddr().String()] = s
			accMu.Unlock()
		}
	}()
	send := func(d udpDg) {
		if _, err := d.from.WriteToUDP(d.wire, dst); err != nil {
			t.Fatalf("udp send: %v", err)
		}
	}

	// the primer conversation is established first (its datagrams park the monitor later)
	send(udpDg{primer.sock, udpSeal(block, primer.nextClear(rng, 10), rng), "good"})
	time.Sleep(5 * time.Millisecond)

	bursts := 6 + rng.intn(6)
	nbad := 0
	for b := 0; b < bursts; b++ {
		var burst []udpDg
		n := 2 + rng.intn(30)
		var lastGood []byte
		for i := 0; i < n; i++ {
			if rng.chance(35) {
				ref := lastGood
				if ref == nil {
					ref = udpSeal(block, udpSeg(7, IKCP_CMD_PUSH, 0, 32, 0, 0, 0, rng.bytes(40)), rng)
				}
				w, class := udpBad(block, ref, rng)
				from := strangers[rng.intn(len(strangers))]
				if rng.chance(40) {
					from = peers[rng.intn(len(peers))].sock // bad datagrams from a live peer's own address too
				}
				burst = append(burst, udpDg{from, w, class})
				nbad++
				if block != nil && (class == "bitflip" || class == "random") {
					wantCsum++
				}
				rep.Distribution["udp_bad_"+class]++
				continue
			}
			p := peers[rng.intn(len(peers))]
			if p.sn >= udpPeerBudget { // the accepted sessions are read at the end: stay inside their receive window
				continue
			}
			w := udpSeal(block, p.nextClear(rng, 1+rng.intn(180)), rng)
			lastGood = w
			burst = append(burst, udpDg{p.sock, w, "good"})
			rep.Distribution["udp_good"]++
		}
		for _, d := range burst {
			replay.Script = append(replay.Script, fmt.Sprintf("%d:%s:%s:%d", b, d.from.LocalAddr(), d.class, len(d.wire)))
		}
		// park the monitor on a valid primer datagram, queue the burst behind it, let go
		l.sessionLock.Lock()
		send(udpDg{primer.sock, udpSeal(block, primer.nextClear(rng, 10), rng), "good"})
		time.Sleep(3 * time.Millisecond)
		for _, d := range burst {
			send(d)
		}
		time.Sleep(2 * time.Millisecond)
		l.sessionLock.Unlock()
		time.Sleep(time.Duration(1+rng.intn(3)) * time.Millisecond)
		rep.Distribution["udp_burst_len_"+fmt.Sprint((len(burst)/8)*8)]++
	}

	// expectation (from the property): one session per peer that sent data, delivering exactly its bytes
	want := map[string]*udpPeer{primer.addr(): primer}
	for _, p := range peers {
		if len(p.sent) > 0 {
			want[p.addr()] = p
		}
	}
	deadline := time.Now().Add(3 * time.Second)
	for time.Now().Before(deadline) {
		accMu.Lock()
		n := len(accepted)
		accMu.Unlock()
		if n >= len(want) {
			break
		}
		time.Sleep(5 * time.Millisecond)
	}
	accMu.Lock()
	acc := map[string]*UDPSession{}
	for k, v := range accepted {
		acc[k] = v
	}
	nextra := extra
	accMu.Unlock()
	rep.Monitors["udp_listener_one_accept_per_peer"]++
	rep.Monitors["udp_listener_stream_per_session"] += len(want)
	for a, p := range want {
		s := acc[a]
		if s == nil {
			rep.violate("udp-listener-missing-session", fmt.Sprintf("case %d (%s, fec %d/%d): peer %s (conv %d) sent %d valid in-order segments over a real UDP socket but no session was accepted for it (%d bad datagrams were interleaved)", id, ci.name, ds, ps, a, p.conv, p.sn, nbad), replay)
			continue
		}
		if s.GetConv() != p.conv {
			rep.violate("udp-listener-wrong-conv", fmt.Sprintf("case %d: session for %s has conv %d, the peer uses %d", id, a, s.GetConv(), p.conv), replay)
		}
		got := udpReadAll(s, len(p.sent), 3*time.Second)
		if !bytes.Equal(got, p.sent) {
			k := 0
			for k < len(got) && k < len(p.sent) && got[k] == p.sent[k] {
				k++
			}
			rep.violate("udp-listener-stream-mismatch", fmt.Sprintf("case %d (%s, fec %d/%d): session of %s delivered %d bytes, its peer sent %d (all in order, nothing lost on loopback); first difference at byte %d; %d bad datagrams (empty / short / failing the integrity check) were interleaved in the same batches", id, ci.name, ds, ps, a, len(got), len(p.sent), k, nbad), replay)
		}
		s.Close()
	}
	for a := range acc {
		if want[a] == nil {
			rep.violate("udp-listener-extra-session", fmt.Sprintf("case %d (%s): a session was accepted for %s, which only ever sent datagrams that fail the integrity check or are too short", id, ci.name, a), replay)
		}
	}
	if nextra > 0 {
		rep.violate("udp-listener-second-accept", fmt.Sprintf("case %d (%s): %d peers were accepted more than once", id, ci.name, nextra), replay)
	}
	if block != nil {
		rep.Monitors["udp_listener_csum_counter"]++
		if got := atomic.LoadUint64(&DefaultSnmp.InCsumErrors) - csum0; got != wantCsum {
			rep.violate("udp-listener-csum-counter", fmt.Sprintf("case %d (%s): %d datagrams failing the integrity check were sent, InCsumErrors moved by %d", id, ci.name, wantCsum, got), replay)
		}
	}
	rep.Cases++
	if nbad > 0 {
		rep.Nontrivial++
	}
}

// ---------------------------------------------------------------- dialled session over a real socket

func udpClientCase(t *testing.T, id int, rep *vreport, rng *vrng, ci udpCipher, ds, ps int) {
	block := ci.mk()
	srv, err := net.ListenUDP("udp4", &net.UDPAddr{IP: net.IPv4(127, 0, 0, 1)})
	if err != nil {
		t.Fatal(err)
	}
	defer srv.Close()
	s, err := DialWithOptions(srv.LocalAddr().String(), block, ds, ps)
	if err != nil {
		t.Fatal(err)
	}
	defer s.Close()
	cc := s.conn.(*net.UDPConn)
	cc.SetReadBuffer(4 << 20)
	s.SetWindowSize(32, 4096) // the session is read at the end: room for everything the peer sends
	dst := &net.UDPAddr{IP: net.IPv4(127, 0, 0, 1), Port: cc.LocalAddr().(*net.UDPAddr).Port}
	peer := &udpPeer{sock: srv, conv: s.GetConv(), ds: ds, ps: ps, tag: 0x77}
	var strangers []*udpPeer
	for i := 0; i < 2; i++ {
		x := udpNewPeer(s.GetConv(), ds, ps, byte(0xA0+i)) // same conversation id, another address
		defer x.sock.Close()
		strangers = append(strangers, x)
	}
	replay := map[string]any{"test": "TestVerifUDPClient", "seed": vSeed(), "case": id, "cipher": ci.name, "ds": ds, "ps": ps}
	var script []string
	errs0 := atomic.LoadUint64(&DefaultSnmp.InErrs)
	nforged, nbad := 0, 0
	send := func(c *net.UDPConn, w []byte) {
		if _, err := c.WriteToUDP(w, dst); err != nil {
			t.Fatalf("udp send: %v", err)
		}
	}
	send(srv, udpSeal(block, peer.nextClear(rng, 20), rng))
	time.Sleep(5 * time.Millisecond)
	bursts := 5 + rng.intn(5)
	for b := 0; b < bursts; b++ {
		type item struct {
			c     *net.UDPConn
			w     []byte
			class string
		}
		var burst []item
		n := 2 + rng.intn(24)
		var lastGood []byte
		for i := 0; i < n; i++ {
			r := rng.intn(100)
			switch {
			case r < 25: // a perfectly valid next segment of this conversation - from another address
				x := strangers[rng.intn(len(strangers))]
				x.sn, x.fecID = peer.sn, peer.fecID
				x.sent = x.sent[:0]
				burst = append(burst, item{x.sock, udpSeal(block, x.nextClear(rng, 1+rng.intn(100)), rng), "forged-source"})
				nforged++
			case r < 50:
				ref := lastGood
				if ref == nil {
					ref = udpSeal(block, udpSeg(peer.conv, IKCP_CMD_PUSH, 0, 32, 0, 0, 0, rng.bytes(40)), rng)
				}
				w, class := udpBad(block, ref, rng)
				c := srv
				if rng.chance(50) {
					c = strangers[rng.intn(len(strangers))].sock
				}
				burst = append(burst, item{c, w, class})
				nbad++
			default:
				w := udpSeal(block, peer.nextClear(rng, 1+rng.intn(180)), rng)
				lastGood = w
				burst = append(burst, item{srv, w, "good"})
			}
		}
		for _, it := range burst {
			script = append(script, fmt.Sprintf("%d:%s:%s:%d", b, it.c.LocalAddr(), it.class, len(it.w)))
			rep.Distribution["udp_client_"+it.class]++
		}
		s.mu.Lock() // parks the read loop inside kcpInput of the primer
		send(srv, udpSeal(block, peer.nextClear(rng, 10), rng))
		time.Sleep(3 * time.Millisecond)
		for _, it := range burst {
			send(it.c, it.w)
		}
		time.Sleep(2 * time.Millisecond)
		s.mu.Unlock()
		time.Sleep(time.Duration(1+rng.intn(3)) * time.Millisecond)
	}
	replay["script"] = script
	got := udpReadAll(s, len(peer.sent), 3*time.Second)
	rep.Monitors["udp_client_stream"]++
	if !bytes.Equal(got, peer.sent) {
		k := 0
		for k < len(got) && k < len(peer.sent) && got[k] == peer.sent[k] {
			k++
		}
		what := "bytes are missing"
		if k < len(got) {
			what = "foreign or altered bytes were delivered"
		}
		rep.violate("udp-client-stream-mismatch", fmt.Sprintf("case %d (%s, fec %d/%d): the dialled session delivered %d bytes, its peer %s sent %d in order on loopback; first difference at byte %d (%s); %d valid-looking segments of the same conversation came from other addresses and %d datagrams were empty / short / failing the integrity check, in the same batches", id, ci.name, ds, ps, len(got), srv.LocalAddr(), len(peer.sent), k, what, nforged, nbad), replay)
	}
	rep.Monitors["udp_client_source_filter_counter"]++
	if d := atomic.LoadUint64(&DefaultSnmp.InErrs) - errs0; nforged > 0 && d == 0 {
		rep.Distribution["udp_client_inerrs_not_counted"]++
	}
	rep.Cases++
	if nforged+nbad > 0 {
		rep.Nontrivial++
	}
}

// ---------------------------------------------------------------- transmit path over a real socket

// a PacketConn that hides the *net.UDPConn inside (no SyscallConn / ReadMsgUDP): the session then
// starts with no batchConn, its read loop takes the generic path for good, and the harness can
// install a batch writer of its own before the first Write (tx() looks at the field on every call)
type udpPlainConn struct{ c *net.UDPConn }

func (p udpPlainConn) ReadFrom(b []byte) (int, net.Addr, error)     { return p.c.ReadFrom(b) }
func (p udpPlainConn) WriteTo(b []byte, a net.Addr) (int, error)    { return p.c.WriteTo(b, a) }
func (p udpPlainConn) Close() error                                 { return p.c.Close() }
func (p udpPlainConn) LocalAddr() net.Addr                          { return p.c.LocalAddr() }
func (p udpPlainConn) SetDeadline(t time.Time) error                { return p.c.SetDeadline(t) }
func (p udpPlainConn) SetReadDeadline(t time.Time) error            { return p.c.SetReadDeadline(t) }
func (p udpPlainConn) SetWriteDeadline(t time.Time) error           { return p.c.SetWriteDeadline(t) }

// sendmmsg accepting only a prefix of the batch (the kernel may do that at any time)
type udpShortWriter struct {
	c      *net.UDPConn
	max    int
	calls  int
	shorts int
}

func (w *udpShortWriter) WriteBatch(ms []ipv4.Message, flags int) (int, error) {
	w.calls++
	n := len(ms)
	if n > w.max {
		n = w.max
		w.shorts++
	}
	for i := 0; i < n; i++ {
		if _, err := w.c.WriteTo(ms[i].Buffers[0], ms[i].Addr); err != nil {
			return i, err
		}
	}
	return n, nil
}
func (w *udpShortWriter) ReadBatch(ms []ipv4.Message, flags int) (int, error) {
	return 0, fmt.Errorf("udpShortWriter: ReadBatch is never used (generic read loop)")
}

func udpTxCase(t *testing.T, id int, rep *vreport, rng *vrng, ci udpCipher, ds, ps, mtu int) {
	block := ci.mk()
	srv, err := net.ListenUDP("udp4", &net.UDPAddr{IP: net.IPv4(127, 0, 0, 1)})
	if err != nil {
		t.Fatal(err)
	}
	defer srv.Close()
	srv.SetReadBuffer(8 << 20)
	var s *UDPSession
	var short *udpShortWriter
	if id%2 == 1 {
		// partial batch writes: at most `max` datagrams per sendmmsg call
		cc, err := net.ListenUDP("udp4", &net.UDPAddr{IP: net.IPv4(127, 0, 0, 1)})
		if err != nil {
			t.Fatal(err)
		}
		var conv uint32
		binary.Read(bytes.NewReader(rng.bytes(4)), binary.LittleEndian, &conv)
		before := udpCountStacks("(*UDPSession).defaultReadLoop")
		s, err = NewConn4(conv, srv.LocalAddr(), block, ds, ps, true, udpPlainConn{cc})
		if err != nil {
			t.Fatal(err)
		}
		for i := 0; i < 2000 && udpCountStacks("(*UDPSession).defaultReadLoop") <= before; i++ {
			time.Sleep(100 * time.Microsecond) // its receive goroutine has taken the generic path
		}
		short = &udpShortWriter{c: cc, max: 1 + rng.intn(3)}
		s.platform.batchConn = short
		rep.Distribution["udp_tx_short_batch_writes"]++
	} else {
		s, err = DialWithOptions(srv.LocalAddr().String(), block, ds, ps)
		if err != nil {
			t.Fatal(err)
		}
	}
	if !s.SetMtu(mtu) {
		s.Close()
		rep.Distribution["udp_tx_mtu_refused"]++
		return
	}
	s.SetWindowSize(128, 128)
	s.SetNoDelay(1, 10, 2, 1)
	replay := map[string]any{"test": "TestVerifUDPTx", "seed": vSeed(), "case": id, "cipher": ci.name, "ds": ds, "ps": ps, "mtu": mtu}
	out0 := atomic.LoadUint64(&DefaultSnmp.OutPkts)
	var mu sync.Mutex
	var dgs [][]byte
	done := make(chan struct{})
	go func() {
		defer close(done)
		buf := make([]byte, 65536)
		for {
			n, _, err := srv.ReadFromUDP(buf)
			if err != nil {
				return
			}
			mu.Lock()
			dgs = append(dgs, append([]byte(nil), buf[:n]...))
			mu.Unlock()
		}
	}()
	total := 0
	for w := 0; w < 3+rng.intn(4); w++ {
		n := rng.pick(1, 50, mtu-60, mtu, 3*mtu, 20000)
		s.SetWriteDeadline(time.Now().Add(200 * time.Millisecond))
		k, _ := s.Write(rng.bytes(n))
		total += k
		time.Sleep(time.Duration(rng.intn(25)) * time.Millisecond)
	}
	time.Sleep(60 * time.Millisecond)
	s.Close()
	time.Sleep(30 * time.Millisecond)
	sentPkts := atomic.LoadUint64(&DefaultSnmp.OutPkts) - out0
	srv.Close()
	<-done
	mu.Lock()
	defer mu.Unlock()
	rep.Monitors["udp_tx_datagrams"] += len(dgs)
	if short != nil {
		rep.Distribution["udp_tx_short_batches_hit"] += short.shorts
	}
	rep.Distribution[fmt.Sprintf("udp_tx_%s_fec%d+%d", ci.name, ds, ps)]++
	if uint64(len(dgs)) != sentPkts {
		rep.violate("udp-tx-count", fmt.Sprintf("case %d (%s, fec %d/%d, mtu %d): the session reports %d datagrams handed to the socket (OutPkts), %d arrived on the loopback receiver", id, ci.name, ds, ps, mtu, sentPkts, len(dgs)), replay)
	}
	var lastID uint32
	haveID := false
	for i, w := range dgs {
		if len(w) > mtu {
			rep.violate("udp-tx-over-mtu", fmt.Sprintf("case %d (%s, fec %d/%d): datagram %d on the wire has %d bytes, the session MTU is %d", id, ci.name, ds, ps, i, len(w), mtu), replay)
			break
		}
		pl, ok := udpOpen(block, w)
		if !ok {
			rep.violate("udp-tx-integrity", fmt.Sprintf("case %d (%s): datagram %d on the wire (%d bytes) does not pass the integrity check of its own cipher", id, ci.name, i, len(w)), replay)
			break
		}
		if ds > 0 {
			if len(pl) < fecHeaderSize {
				rep.violate("udp-tx-layout", fmt.Sprintf("case %d: datagram %d is too short for a FEC header", id, i), replay)
				break
			}
			sid, typ := binary.LittleEndian.Uint32(pl), binary.LittleEndian.Uint16(pl[4:])
			ss := uint32(ds + ps)
			if haveID && sid != lastID+1 {
				rep.violate("udp-tx-fec-id-gap", fmt.Sprintf("case %d (%s, fec %d/%d): FEC id %d follows id %d on a lossless loopback path - a datagram was lost or duplicated between postProcess and the socket", id, ci.name, ds, ps, sid, lastID), replay)
				break
			}
			lastID, haveID = sid, true
			isData := sid%ss < uint32(ds)
			if (typ == typeData) != isData || (typ != typeData && typ != typeParity) {
				rep.violate("udp-tx-layout", fmt.Sprintf("case %d: FEC id %d carries type %#x", id, sid, typ), replay)
				break
			}
			if typ != typeData {
				continue
			}
			if len(pl) < fecHeaderSizePlus2 || int(binary.LittleEndian.Uint16(pl[6:])) != len(pl)-fecHeaderSize {
				rep.violate("udp-tx-layout", fmt.Sprintf("case %d: FEC data packet %d has a size field that does not match its length", id, sid), replay)
				break
			}
			pl = pl[fecHeaderSizePlus2:]
		}
		for len(pl) > 0 {
			if len(pl) < IKCP_OVERHEAD {
				rep.violate("udp-tx-layout", fmt.Sprintf("case %d: datagram %d ends in %d stray bytes", id, i, len(pl)), replay)
				break
			}
			ln := int(binary.LittleEndian.Uint32(pl[20:]))
			if binary.LittleEndian.Uint32(pl) != s.GetConv() || pl[4] < IKCP_CMD_PUSH || pl[4] > IKCP_CMD_WINS || IKCP_OVERHEAD+ln > len(pl) {
				rep.violate("udp-tx-layout", fmt.Sprintf("case %d: datagram %d holds a malformed segment header (cmd %d len %d rest %d)", id, i, pl[4], ln, len(pl)), replay)
				break
			}
			pl = pl[IKCP_OVERHEAD+ln:]
		}
	}
	rep.Cases++
	if len(dgs) > 8 && total > 0 {
		rep.Nontrivial++
	}
}

// ---------------------------------------------------------------- end to end through a faulty relay

type udpRelay struct {
	front  *net.UDPConn // clients talk to this
	back   *net.UDPConn // the listener sees this address
	target *net.UDPAddr
	client atomic.Pointer[net.UDPAddr]
	rngMu  sync.Mutex
	rng    *vrng
	drop   int
	dup    int
	hold   int
	heal   atomic.Bool
	n      atomic.Int64
}

func (r *udpRelay) fate() (drop, dup, hold bool) {
	if r.heal.Load() {
		return
	}
	r.rngMu.Lock()
	defer r.rngMu.Unlock()
	return r.rng.chance(r.drop), r.rng.chance(r.dup), r.rng.chance(r.hold)
}

func (r *udpRelay) pump(in, out *net.UDPConn, to func() *net.UDPAddr, learn bool) {
	buf := make([]byte, 65536)
	var held [][]byte
	for {
		n, from, err := in.ReadFromUDP(buf)
		if err != nil {
			return
		}
		if learn {
			r.client.Store(from)
		}
		dst := to()
		if dst == nil {
			continue
		}
		r.n.Add(1)
		drop, dup, hold := r.fate()
		if drop {
			continue
		}
		w := append([]byte(nil), buf[:n]...)
		if hold {
			held = append(held, w)
			continue
		}
		out.WriteToUDP(w, dst)
		if dup {
			out.WriteToUDP(w, dst)
		}
		for len(held) > 0 && (len(held) > 3 || r.heal.Load()) {
			out.WriteToUDP(held[len(held)-1], dst) // reordered: newest first
			held = held[:len(held)-1]
		}
	}
}

func udpRelayCase(t *testing.T, id int, rep *vreport, rng *vrng, ci udpCipher, ds, ps int, directed bool) {
	block := ci.mk()
	l, err := ListenWithOptions("127.0.0.1:0", block, ds, ps)
	if err != nil {
		t.Fatal(err)
	}
	defer l.Close()
	mk := func() *net.UDPConn {
		c, _ := net.ListenUDP("udp4", &net.UDPAddr{IP: net.IPv4(127, 0, 0, 1)})
		c.SetReadBuffer(4 << 20)
		return c
	}
	r := &udpRelay{front: mk(), back: mk(), target: l.conn.LocalAddr().(*net.UDPAddr), rng: newRng(rng.u64()),
		drop: rng.pick(0, 5, 15, 30), dup: rng.pick(0, 10, 30), hold: rng.pick(0, 10, 25)}
	if directed { // FEC repairs losses before the ARQ retransmits: moderate loss, no reordering
		r.drop, r.dup, r.hold = 8, 0, 0
	}
	defer r.front.Close()
	defer r.back.Close()
	go r.pump(r.front, r.back, func() *net.UDPAddr { return r.target }, true)
	go r.pump(r.back, r.front, func() *net.UDPAddr { return r.client.Load() }, false)
	c, err := DialWithOptions(r.front.LocalAddr().String(), ci.mk(), ds, ps)
	if err != nil {
		t.Fatal(err)
	}
	defer c.Close()
	stream := rng.chance(50)
	c.SetStreamMode(stream)
	c.SetNoDelay(1, 10, 2, 1)
	c.SetWindowSize(64, 64)
	opts := ""
	if !directed { // session options: none of them may cost the stream a byte or a message boundary
		wd, and, dup, mtu, rl := rng.chance(50), rng.chance(50), rng.pick(0, 0, 1, 2), rng.pick(1400, 1400, 1500, 576, 300), rng.pick(0, 0, 50<<20)
		c.SetWriteDelay(wd)
		c.SetACKNoDelay(and)
		c.SetDUP(dup)
		c.SetMtu(mtu)
		c.SetRateLimit(uint32(rl))
		if rng.chance(30) {
			c.SetNoDelay(rng.pick(0, 1), rng.pick(10, 20, 40), rng.pick(0, 2), rng.pick(0, 1))
		}
		if rng.chance(30) {
			c.SetWindowSize(rng.pick(2, 8, 128, 1024), rng.pick(32, 128))
		}
		opts = fmt.Sprintf("writeDelay=%v ackNoDelay=%v dup=%d mtu=%d rate=%d", wd, and, dup, mtu, rl)
	}
	replay := map[string]any{"test": "TestVerifUDPRelay", "seed": vSeed(), "case": id, "cipher": ci.name, "ds": ds, "ps": ps,
		"drop_pct": r.drop, "dup_pct": r.dup, "hold_pct": r.hold, "stream": stream}
	defer func() { replay["options"] = opts }()
	total := 20000 + rng.intn(60000)
	data := rng.bytes(total)
	// the write plan (empty writes included: they carry nothing and must disturb nothing) and, for
	// message mode, the message sizes the reader has to see: a Write is cut into mss-sized messages
	c.mu.Lock()
	mss := int(c.kcp.mss)
	c.mu.Unlock()
	var plan [][]int // one entry per call: the buffer sizes handed to Write (one) / WriteBuffers (several)
	var msgs []int
	for off := 0; off < total; {
		var call []int
		for nb := rng.pick(1, 1, 1, 2, 3); nb > 0 && off < total; nb-- {
			n := rng.pick(0, 1, 100, 1000, 1400, 5000)
			if off+n > total {
				n = total - off
			}
			call = append(call, n)
			for k := n; k > 0; k -= mss { // every buffer is cut into mss-sized messages of its own
				msgs = append(msgs, min(k, mss))
			}
			off += n
		}
		plan = append(plan, call)
	}
	go func() {
		off := 0
		for _, call := range plan {
			c.SetWriteDeadline(time.Now().Add(10 * time.Second))
			var err error
			if len(call) == 1 {
				_, err = c.Write(data[off : off+call[0]])
				off += call[0]
			} else {
				var v [][]byte
				for _, n := range call {
					v = append(v, data[off:off+n])
					off += n
				}
				_, err = c.WriteBuffers(v)
			}
			if err != nil {
				return
			}
		}
	}()
	l.SetReadDeadline(time.Now().Add(10 * time.Second))
	s, err := l.AcceptKCP()
	if err != nil {
		rep.violate("udp-relay-no-accept", fmt.Sprintf("case %d (%s, fec %d/%d, drop %d%% dup %d%% reorder %d%%): no session was accepted within 10 s", id, ci.name, ds, ps, r.drop, r.dup, r.hold), replay)
		return
	}
	defer s.Close()
	s.SetNoDelay(1, 10, 2, 1)
	s.SetWindowSize(64, 64)
	var got []byte
	buf := make([]byte, 4096) // larger than any message: in message mode one Read = one message
	nread := 0
	healAt := time.Now().Add(1500 * time.Millisecond)
	deadline := time.Now().Add(25 * time.Second)
	for len(got) < total && time.Now().Before(deadline) {
		if time.Now().After(healAt) {
			r.heal.Store(true)
		}
		s.SetReadDeadline(time.Now().Add(100 * time.Millisecond))
		n, _ := s.Read(buf)
		got = append(got, buf[:n]...)
		rep.Monitors["udp_relay_prefix"]++
		if !stream && n > 0 {
			rep.Monitors["udp_relay_message_boundaries"]++
			if nread >= len(msgs) || msgs[nread] != n {
				want := -1
				if nread < len(msgs) {
					want = msgs[nread]
				}
				rep.violate("udp-relay-message-boundary", fmt.Sprintf("case %d (%s, fec %d/%d, message mode): Read %d returned %d bytes, the %d-th message the writer's session sent has %d (messages merged or split)", id, ci.name, ds, ps, nread, n, nread, want), replay)
				return
			}
			nread++
		}
		if len(got) > total || !bytes.Equal(got[len(got)-n:], data[len(got)-n:len(got)]) {
			rep.violate("udp-relay-prefix", fmt.Sprintf("case %d (%s, fec %d/%d, drop %d%% dup %d%% reorder %d%%): the bytes read from the accepted session are not a prefix of what the dialled session wrote (at %d of %d)", id, ci.name, ds, ps, r.drop, r.dup, r.hold, len(got), total), replay)
			return
		}
	}
	rep.Monitors["udp_relay_complete"]++
	if len(got) < total {
		rep.violate("udp-relay-incomplete", fmt.Sprintf("case %d (%s, fec %d/%d, drop %d%% dup %d%% reorder %d%% for 1.5 s, then a clean path): only %d of %d bytes were delivered 23 s after the path healed", id, ci.name, ds, ps, r.drop, r.dup, r.hold, len(got), total), replay)
	}
	rep.Distribution[fmt.Sprintf("udp_relay_drop%d_dup%d_hold%d", r.drop, r.dup, r.hold)]++
	if ds > 0 {
		rep.Distribution["udp_relay_fec_recovered_total"] = int(atomic.LoadUint64(&DefaultSnmp.FECRecovered))
	}
	rep.Steps += int(r.n.Load())
	rep.Cases++
	if r.drop+r.dup+r.hold > 0 {
		rep.Nontrivial++
	}
}

// ---------------------------------------------------------------- out-of-band messages and conversations

// Two conversations use ONE source address (two sessions on one socket - a restarted client that
// kept its port, several NewConn sessions on one PacketConn, a NAT remapping): an out-of-band
// message of conversation B must be delivered to B's handler or not at all, never to the handler
// of the session of conversation A.
// udpSafe runs f; a run-time panic becomes a value
func udpSafe(f func()) (panicked string) {
	defer func() {
		if r := recover(); r != nil {
			panicked = fmt.Sprint(r)
		}
	}()
	f()
	return ""
}

func udpOOBCase(t *testing.T, id int, rep *vreport, rng *vrng, ci udpCipher, ds, ps int) {
	block := ci.mk()
	l, err := ListenWithOptions("127.0.0.1:0", block, ds, ps)
	if err != nil {
		t.Fatal(err)
	}
	defer l.Close()
	conn, err := net.ListenUDP("udp4", &net.UDPAddr{IP: net.IPv4(127, 0, 0, 1)})
	if err != nil {
		t.Fatal(err)
	}
	defer conn.Close()
	convA, convB := uint32(0x0A000000+rng.intn(1<<20)), uint32(0x0B000000+rng.intn(1<<20))
	replay := map[string]any{"test": "TestVerifUDPOOB", "seed": vSeed(), "case": id, "cipher": ci.name, "ds": ds, "ps": ps, "convA": convA, "convB": convB}
	a, _ := NewConn3(convA, l.conn.LocalAddr(), ci.mk(), ds, ps, conn)
	defer a.Close()
	a.Write([]byte("hello from A"))
	l.SetReadDeadline(time.Now().Add(3 * time.Second))
	sa, err := l.AcceptKCP()
	if err != nil {
		rep.violate("udp-oob-no-accept", fmt.Sprintf("case %d (%s): conversation A was not accepted", id, ci.name), replay)
		return
	}
	defer sa.Close()
	var mu sync.Mutex
	var gotA [][]byte
	sa.SetOOBHandler(func(b []byte) {
		mu.Lock()
		gotA = append(gotA, append([]byte(nil), b...))
		mu.Unlock()
	})
	// A's own messages arrive intact (sizes 0 .. max)
	max := a.GetOOBMaxSize()
	var sentA [][]byte
	var gotC [][]byte // the dialled side's handler (messages of the accepted session)
	a.SetOOBHandler(func(b []byte) {
		mu.Lock()
		gotC = append(gotC, append([]byte(nil), b...))
		mu.Unlock()
	})
	sizes := []int{0, 1, 2, 5, 11, 12, 17, 23, 24, max / 2, max - 1, max}
	var sentC [][]byte
	mk := func(tag byte, n int) []byte {
		m := rng.bytes(n)
		if n > 0 {
			m[0] = tag
		}
		if n > 1 {
			m[1] = byte(n)
		}
		return m
	}
	// every size is sent (both directions) up to three times on the idle path: "any size from 0 to
	// GetOOBMaxSize" is deliverable, a size that never arrives while its neighbours do is not "best effort"
	msgA, msgC := map[int][]byte{}, map[int][]byte{}
	for _, n := range sizes {
		msgA[n], msgC[n] = mk(0xAA, n), mk(0xCC, n)
		sentA, sentC = append(sentA, msgA[n]), append(sentC, msgC[n])
	}
	has := func(got [][]byte, m []byte) bool {
		for _, g := range got {
			if bytes.Equal(g, m) {
				return true
			}
		}
		return false
	}
	for attempt := 0; attempt < 3; attempt++ {
		pending := 0
		for _, n := range sizes {
			mu.Lock()
			okA, okC := has(gotA, msgA[n]), has(gotC, msgC[n])
			mu.Unlock()
			if !okA {
				if pn := udpSafe(func() { a.SendOOB(msgA[n]) }); pn != "" {
					rep.violate("session-panic:SendOOB", fmt.Sprintf("case %d (%s, fec %d/%d): SendOOB(%d bytes) panicked on the dialled session (GetOOBMaxSize() = %d): %s", id, ci.name, ds, ps, n, max, pn), replay)
					return
				}
				pending++
			}
			if !okC {
				if pn := udpSafe(func() { sa.SendOOB(msgC[n]) }); pn != "" {
					rep.violate("session-panic:SendOOB", fmt.Sprintf("case %d (%s, fec %d/%d): SendOOB(%d bytes) panicked on the accepted session (GetOOBMaxSize() = %d): %s", id, ci.name, ds, ps, n, max, pn), replay)
					return
				}
				pending++
			}
			if !okA || !okC {
				time.Sleep(2 * time.Millisecond)
			}
		}
		if pending == 0 {
			break
		}
		time.Sleep(60 * time.Millisecond)
	}
	mu.Lock()
	for _, n := range sizes {
		rep.Monitors["udp_oob_every_size_deliverable"] += 2
		if !has(gotA, msgA[n]) {
			rep.violate("oob-size-undeliverable", fmt.Sprintf("case %d (%s, fec %d/%d): an out-of-band message of %d bytes (GetOOBMaxSize() = %d) sent three times by the dialled session on an idle loopback path never reached the accepted session's handler", id, ci.name, ds, ps, n, max), replay)
		}
		if !has(gotC, msgC[n]) {
			rep.violate("oob-size-undeliverable", fmt.Sprintf("case %d (%s, fec %d/%d): an out-of-band message of %d bytes (GetOOBMaxSize() = %d) sent three times by the accepted session on an idle loopback path never reached the dialled session's handler", id, ci.name, ds, ps, n, max), replay)
		}
	}
	for _, g := range gotC {
		if !has(sentC, g) {
			rep.violate("oob-corrupted", fmt.Sprintf("case %d (%s): the dialled session's handler received %d bytes that its peer never sent", id, ci.name, len(g)), replay)
		}
	}
	mu.Unlock()
	// conversation B on the same socket sends only out-of-band messages
	b, _ := NewConn3(convB, l.conn.LocalAddr(), ci.mk(), ds, ps, conn)
	defer b.Close()
	var sentB [][]byte
	for i := 0; i < 8; i++ {
		m := append([]byte{0xBB, byte(i)}, rng.bytes(5+rng.intn(40))...)
		sentB = append(sentB, m)
		b.SendOOB(m)
		time.Sleep(3 * time.Millisecond)
	}
	time.Sleep(80 * time.Millisecond)
	mu.Lock()
	defer mu.Unlock()
	rep.Monitors["udp_oob_intact_or_absent"] += len(gotA)
	for _, g := range gotA {
		okA := false
		for _, m := range sentA {
			if bytes.Equal(g, m) {
				okA = true
			}
		}
		if okA {
			continue
		}
		for _, m := range sentB {
			if bytes.Equal(g, m) {
				rep.violate("oob-misrouted", fmt.Sprintf("case %d (%s, fec %d/%d): an out-of-band message sent on conversation %#x was delivered to the handler of the session of conversation %#x (same remote address)", id, ci.name, ds, ps, convB, convA), replay)
				okA = true
				break
			}
		}
		if !okA {
			rep.violate("oob-corrupted", fmt.Sprintf("case %d (%s): the handler of conversation %#x received %d bytes that no conversation sent", id, ci.name, convA, len(g)), replay)
		}
	}
	rep.Distribution["udp_oob_delivered_to_A"] += len(gotA)
	rep.Cases++
	if len(gotA) > 0 {
		rep.Nontrivial++
	}
}

// ---------------------------------------------------------------- the batch loops against the model (coq/io)

// scripted kernel: WriteBatch answers from a list (accept a prefix of n / fail), ReadBatch hands
// out prepared batches and finally fails
type udpScript struct {
	mu      sync.Mutex
	resp    []int // >0: accept that many; 0: error
	wire    []int // ids (first payload byte pair) of the messages accepted, in order
	calls   int
	batches [][]udpScriptMsg
	closeAt int // index of the ReadBatch call during which the session is closed (-1: never)
	sess    *UDPSession
	rcalls  int
}

type udpScriptMsg struct {
	addr net.Addr
	pl   []byte
}

func (w *udpScript) WriteBatch(ms []ipv4.Message, flags int) (int, error) {
	w.mu.Lock()
	defer w.mu.Unlock()
	if w.calls >= len(w.resp) { // beyond the script (acknowledgements of the rx cases): accept everything
		return len(ms), nil
	}
	r := w.resp[w.calls]
	w.calls++
	if r == 0 {
		return 0, fmt.Errorf("scripted sendmmsg failure")
	}
	if r > len(ms) {
		r = len(ms)
	}
	for i := 0; i < r; i++ {
		b := ms[i].Buffers[0]
		w.wire = append(w.wire, int(b[0])<<8|int(b[1]))
	}
	return r, nil
}

func (w *udpScript) ReadBatch(ms []ipv4.Message, flags int) (int, error) {
	w.mu.Lock()
	k := w.rcalls
	w.rcalls++
	w.mu.Unlock()
	if k == w.closeAt {
		w.sess.Close()
	}
	if k >= len(w.batches) {
		return 0, fmt.Errorf("scripted recvmmsg failure")
	}
	for i, m := range w.batches[k] {
		ms[i].N = copy(ms[i].Buffers[0], m.pl)
		ms[i].Addr = m.addr
	}
	return len(w.batches[k]), nil
}

type udpStrAddr string

func (a udpStrAddr) Network() string { return "udp" }
func (a udpStrAddr) String() string  { return string(a) }

func udpIoSession(remote net.Addr, conv uint32) (*UDPSession, *net.UDPConn) {
	cc, err := net.ListenUDP("udp4", &net.UDPAddr{IP: net.IPv4(127, 0, 0, 1)})
	if err != nil {
		panic(err)
	}
	before := udpCountStacks("(*UDPSession).defaultReadLoop")
	s, _ := NewConn4(conv, remote, nil, 0, 0, true, udpPlainConn{cc})
	// the session's own receive goroutine must have taken the generic path (no batchConn yet)
	// before the harness installs its scripted batchConn - else it would consume scripted batches too
	for i := 0; i < 2000 && udpCountStacks("(*UDPSession).defaultReadLoop") <= before; i++ {
		time.Sleep(100 * time.Microsecond)
	}
	return s, cc
}

func udpCountStacks(fn string) int {
	buf := make([]byte, 1<<20)
	for {
		n := runtime.Stack(buf, true)
		if n < len(buf) {
			buf = buf[:n]
			break
		}
		buf = make([]byte, 2*len(buf))
	}
	return strings.Count(string(buf), fn+"(")
}

func TestVerifUDPIo(t *testing.T) {
	rng := newRng(vSeed() ^ 0x0DE)
	rep := newReport("UDP-io")
	lg := newVlog(t, "UDPio.log")
	defer lg.close()
	ncase := 150
	if vThorough() {
		ncase = 2000
	}
	sink, _ := net.ListenUDP("udp4", &net.UDPAddr{IP: net.IPv4(127, 0, 0, 1)})
	defer sink.Close()
	// ---- tx: UDPSession.tx called directly with a prepared queue and a scripted kernel
	for c := 0; c < ncase; c++ {
		s, cc := udpIoSession(sink.LocalAddr(), uint32(5000+c))
		L := rng.pick(0, 1, 2, 3, 5, 8, 13, 40)
		var q []ipv4.Message
		var sizes []int
		for i := 0; i < L; i++ {
			b := make([]byte, 2+rng.intn(60))
			b[0], b[1] = byte(i>>8), byte(i)
			q = append(q, ipv4.Message{Buffers: [][]byte{b}, Addr: sink.LocalAddr()})
			sizes = append(sizes, len(b))
		}
		sc := &udpScript{closeAt: -1}
		rest := L
		failing := rng.chance(30)
		for rest > 0 {
			if failing && rng.chance(30) {
				sc.resp = append(sc.resp, 0)
				break
			}
			n := 1 + rng.intn(rest)
			if rng.chance(40) {
				n = 1 + rng.intn(min(rest, 3))
			}
			sc.resp = append(sc.resp, n)
			rest -= n
		}
		s.platform.batchConn = sc
		p0, b0 := atomic.LoadUint64(&DefaultSnmp.OutPkts), atomic.LoadUint64(&DefaultSnmp.OutBytes)
		s.tx(q)
		np, nb := atomic.LoadUint64(&DefaultSnmp.OutPkts)-p0, atomic.LoadUint64(&DefaultSnmp.OutBytes)-b0
		werr := 0
		select {
		case <-s.chSocketWriteError:
			werr = 1
		default:
		}
		lg.printf("TX q=%s rs=%s wire=%s npkts=%d nbytes=%d err=%d calls=%d\n", udpInts(sizes), udpInts(sc.resp), udpInts(sc.wire), np, nb, werr, sc.calls)
		// the property's own reading: nothing twice, nothing out of order, nothing skipped; all of it unless the kernel failed
		rep.Monitors["io_tx_prefix"]++
		for i, id := range sc.wire {
			if id != i {
				rep.violate("io-tx-order", fmt.Sprintf("tx of %d queued datagrams with the kernel accepting %v per call: datagram %d was written at position %d (a datagram sent twice, skipped or out of order)", L, sc.resp, id, i),
					map[string]any{"test": "TestVerifUDPIo", "queue": sizes, "responses": sc.resp, "wire": sc.wire})
				break
			}
		}
		if werr == 0 && len(sc.wire) != L {
			rep.violate("io-tx-incomplete", fmt.Sprintf("tx of %d queued datagrams with the kernel accepting %v per call and no error: %d were written", L, sc.resp, len(sc.wire)),
				map[string]any{"test": "TestVerifUDPIo", "queue": sizes, "responses": sc.resp, "wire": sc.wire})
		}
		rep.Distribution[fmt.Sprintf("io_tx_calls_%d", min(sc.calls, 6))]++
		s.Close()
		cc.Close()
		rep.Cases++
		if sc.calls > 1 {
			rep.Nontrivial++
		}
	}
	// ---- rx: UDPSession.readLoop run on scripted batches
	for c := 0; c < ncase; c++ {
		src := &net.UDPAddr{IP: net.IPv4(10, 0, 0, 1), Port: 4000}
		addrs := []net.Addr{
			src,
			&net.UDPAddr{IP: net.IPv4(10, 0, 0, 1), Port: 4000},                    // equal, another object
			&net.UDPAddr{IP: net.ParseIP("::ffff:10.0.0.1"), Port: 4000},           // equal in 16-byte form
			&net.UDPAddr{IP: net.IPv4(10, 0, 0, 1), Port: 4001},                    // other port
			&net.UDPAddr{IP: net.IPv4(10, 0, 0, 2), Port: 4000},                    // other host
			&net.UDPAddr{IP: net.IPv4(10, 0, 0, 1), Port: 4000, Zone: "eth0"},      // other zone
			udpStrAddr("10.0.0.1:4000"),                                            // prints alike, not a UDP address
		}
		mode := rng.intn(3) // 0: UDP remote, 1: remote of another type (string comparison), 2: no remote (learned)
		var remote net.Addr = src
		if mode == 1 {
			remote = udpStrAddr("10.0.0.1:4000")
		} else if mode == 2 {
			remote = nil
		}
		conv := uint32(9000 + c)
		s, cc := udpIoSession(remote, conv)
		s.SetWindowSize(32, 4096)
		sc := &udpScript{closeAt: -1, sess: s}
		if rng.chance(15) {
			sc.closeAt = rng.intn(4)
		}
		nb := rng.intn(5)
		id := 0
		var desc []string
		for b := 0; b < nb; b++ {
			var batch []udpScriptMsg
			for i, n := 0, rng.pick(0, 1, 2, 5, 20); i < n; i++ {
				ai := rng.intn(len(addrs))
				if rng.chance(50) {
					ai = rng.intn(3)
				}
				var pl []byte
				if rng.chance(8) {
					pl = []byte{} // an empty datagram in the middle of a batch
				} else {
					pl = udpSeg(conv, IKCP_CMD_PUSH, 0, 32, 0, uint32(id), 0, []byte{byte(id)})
				}
				batch = append(batch, udpScriptMsg{addrs[ai], pl})
				desc = append(desc, fmt.Sprintf("%d:%d:%d:%d", b, ai, id, len(pl)))
				id++
			}
			sc.batches = append(sc.batches, batch)
		}
		s.platform.batchConn = sc
		e0 := atomic.LoadUint64(&DefaultSnmp.InErrs)
		s.readLoop() // returns on the scripted failure (or when it finds the session closed)
		refused := atomic.LoadUint64(&DefaultSnmp.InErrs) - e0
		var got []int
		s.mu.Lock()
		s.kcp.rcv_queue.ForEach(func(seg *segment) bool { got = append(got, int(seg.sn)); return true })
		for _, seg := range s.kcp.rcv_buf.segments {
			got = append(got, int(seg.sn))
		}
		s.mu.Unlock()
		sortInts(got)
		lg.printf("RX mode=%d close=%d msgs=%s got=%s refused=%d\n", mode, sc.closeAt, udpStrs(desc), udpInts(got), refused)
		rep.Distribution[fmt.Sprintf("io_rx_mode_%d", mode)]++
		s.Close()
		cc.Close()
		rep.Cases++
		if id > 3 {
			rep.Nontrivial++
		}
	}
	rep.write(t, "UDPio.report.json")
	for _, v := range rep.Violations {
		t.Logf("violation %s: %s", v.Key, v.What)
	}
}

func udpInts(xs []int) string {
	if len(xs) == 0 {
		return "-"
	}
	var b bytes.Buffer
	for i, x := range xs {
		if i > 0 {
			b.WriteByte(',')
		}
		fmt.Fprintf(&b, "%d", x)
	}
	return b.String()
}

func udpStrs(xs []string) string {
	if len(xs) == 0 {
		return "-"
	}
	return strings.Join(xs, ",")
}

func sortInts(xs []int) { sort.Ints(xs) }

// A session WITHOUT FEC whose peer uses FEC (it receives FEC-framed packets and decodes them) is
// still a session without FEC: the out-of-band calls are refused with an error, at any moment.
func udpOOBRefusedCase(t *testing.T, id int, rep *vreport, rng *vrng, ci udpCipher) {
	l, err := ListenWithOptions("127.0.0.1:0", ci.mk(), 2, 1)
	if err != nil {
		t.Fatal(err)
	}
	defer l.Close()
	c, err := DialWithOptions(l.conn.LocalAddr().String(), ci.mk(), 0, 0)
	if err != nil {
		t.Fatal(err)
	}
	defer c.Close()
	replay := map[string]any{"test": "TestVerifUDPOOB", "seed": vSeed(), "case": id, "cipher": ci.name, "kind": "session-without-fec"}
	check := func(when string) {
		rep.Monitors["udp_oob_refused_without_fec"]++
		if err := c.SetOOBHandler(func([]byte) {}); err == nil {
			rep.violate("oob-not-refused-without-fec", fmt.Sprintf("case %d (%s): SetOOBHandler on a session without FEC returned no error (%s)", id, ci.name, when), replay)
		}
		if n := c.GetOOBMaxSize(); n != 0 {
			rep.violate("oob-not-refused-without-fec", fmt.Sprintf("case %d (%s): GetOOBMaxSize on a session without FEC returned %d (%s)", id, ci.name, n, when), replay)
		}
		if err := c.SendOOB([]byte("x")); err == nil {
			rep.violate("oob-not-refused-without-fec", fmt.Sprintf("case %d (%s): SendOOB on a session without FEC returned no error (%s)", id, ci.name, when), replay)
		}
	}
	check("fresh session")
	c.Write([]byte("ping"))
	l.SetReadDeadline(time.Now().Add(3 * time.Second))
	s, err := l.AcceptKCP()
	if err != nil {
		rep.violate("udp-oob-no-accept", fmt.Sprintf("case %d (%s): the session without FEC was not accepted by the listener with FEC", id, ci.name), replay)
		return
	}
	defer s.Close()
	buf := make([]byte, 64)
	s.SetReadDeadline(time.Now().Add(2 * time.Second))
	s.Read(buf)
	for i := 0; i < 6; i++ { // the peer's packets are FEC-framed: the session decodes them
		s.Write([]byte(fmt.Sprintf("pong-%d", i)))
		time.Sleep(3 * time.Millisecond)
	}
	c.SetReadDeadline(time.Now().Add(2 * time.Second))
	n, _ := c.Read(buf)
	check(fmt.Sprintf("after %d bytes of FEC-framed traffic from the peer were received", n))
	rep.Cases++
	if n > 0 {
		rep.Nontrivial++
	}
}

// ---------------------------------------------------------------- a saturated neighbour on the same socket

// Two peers on ONE listener socket.  The accepted session of A is throttled (SetRateLimit) and given
// far more to send than its transmit queue holds, so that its pipeline is saturated for a long time
// while A's peer keeps acknowledging.  That is A's private problem: the session of B - another
// remote address on the same socket, served by the same monitor goroutine - keeps echoing at once.
func udpNeighbourCase(t *testing.T, id int, rep *vreport, rng *vrng, ci udpCipher) {
	l, err := ListenWithOptions("127.0.0.1:0", ci.mk(), 0, 0)
	if err != nil {
		t.Fatal(err)
	}
	defer l.Close()
	replay := map[string]any{"test": "TestVerifUDPNeighbour", "seed": vSeed(), "case": id, "cipher": ci.name}
	dial := func(tag string) *UDPSession {
		c, err := DialWithOptions(l.conn.LocalAddr().String(), ci.mk(), 0, 0)
		if err != nil {
			t.Fatal(err)
		}
		c.SetWindowSize(4096, 4096)
		c.SetNoDelay(1, 10, 2, 1)
		c.Write([]byte(tag))
		return c
	}
	cliA, cliB := dial("A"), dial("B")
	defer cliA.Close()
	defer cliB.Close()
	var srvA, srvB *UDPSession
	l.SetReadDeadline(time.Now().Add(5 * time.Second))
	for srvA == nil || srvB == nil {
		s, err := l.AcceptKCP()
		if err != nil {
			rep.violate("udp-neighbour-no-accept", fmt.Sprintf("case %d (%s): two peers dialled, accept failed: %v", id, ci.name, err), replay)
			return
		}
		s.SetWindowSize(4096, 4096)
		s.SetNoDelay(1, 10, 2, 1)
		tag := make([]byte, 1)
		s.SetReadDeadline(time.Now().Add(5 * time.Second))
		if _, err := io.ReadFull(s, tag); err != nil {
			rep.violate("udp-neighbour-no-accept", fmt.Sprintf("case %d (%s): first byte of an accepted session: %v", id, ci.name, err), replay)
			return
		}
		s.SetReadDeadline(time.Time{})
		if tag[0] == 'A' {
			srvA = s
		} else {
			srvB = s
		}
	}
	defer srvB.Close()
	defer func() { srvA.SetRateLimit(0); srvA.Close() }()
	go func() { // B: echo
		buf := make([]byte, 4096)
		for {
			n, err := srvB.Read(buf)
			if err != nil {
				return
			}
			if _, err := srvB.Write(buf[:n]); err != nil {
				return
			}
		}
	}()
	echo := func(round int, limit time.Duration) (time.Duration, error) {
		msg := bytes.Repeat([]byte{byte('a' + round%26)}, 100)
		start := time.Now()
		cliB.SetDeadline(start.Add(limit))
		if _, err := cliB.Write(msg); err != nil {
			return time.Since(start), err
		}
		got := make([]byte, len(msg))
		if _, err := io.ReadFull(cliB, got); err != nil {
			return time.Since(start), err
		}
		if !bytes.Equal(got, msg) {
			return time.Since(start), fmt.Errorf("foreign bytes in B's stream")
		}
		return time.Since(start), nil
	}
	if d, err := echo(0, 5*time.Second); err != nil {
		rep.violate("udp-neighbour-warmup", fmt.Sprintf("case %d (%s): B does not echo before anything happens on A: %v after %v", id, ci.name, err, d), replay)
		return
	}
	go io.Copy(io.Discard, cliA) // A's peer keeps reading and acknowledging what trickles through
	srvA.SetRateLimit(20000)
	go func() {
		srvA.SetWriteDeadline(time.Now().Add(20 * time.Second))
		srvA.Write(make([]byte, 6<<20))
	}()
	time.Sleep(700 * time.Millisecond)
	for round := 1; round <= 6; round++ {
		rep.Monitors["udp_neighbour_echo"]++
		d, err := echo(round, 6*time.Second)
		if err != nil || d > 3*time.Second {
			rep.violate("udp-neighbour-stalled", fmt.Sprintf("case %d (%s): session B (another address on the same listener socket) stalled behind session A, whose throttled transmit queue is saturated: echo round %d gave %v after %v", id, ci.name, round, err, d), replay)
			break
		}
	}
	rep.Cases++
	rep.Nontrivial++
}

func TestVerifUDPNeighbour(t *testing.T) {
	rng := newRng(vSeed() ^ 0x0DF)
	rep := newReport("UDP-neighbour")
	cs := udpCiphers()
	n := 1
	if vThorough() {
		n = 3
	}
	for id := 0; id < n; id++ {
		udpNeighbourCase(t, id, rep, rng, cs[(id*2)%len(cs)])
	}
	rep.write(t, "UDPneighbour.report.json")
	for _, v := range rep.Violations {
		t.Logf("violation %s: %s", v.Key, v.What)
	}
}

// ---------------------------------------------------------------- tests

// udpOOBByeCase: an out-of-band message used as a control message - the accepted session's handler
// closes its own session when it sees "bye".  Sending it must not delay anybody's reliable stream:
// the Close returns, the neighbour on the same listener keeps echoing and a new peer is still served.
func udpOOBByeCase(t *testing.T, id int, rep *vreport, rng *vrng, ci udpCipher) {
	l, err := ListenWithOptions("127.0.0.1:0", ci.mk(), 2, 1)
	if err != nil {
		t.Fatal(err)
	}
	replay := map[string]any{"test": "TestVerifUDPOOB/bye", "seed": vSeed(), "case": id, "cipher": ci.name}
	cleanup := []func(){func() { l.Close() }}
	// on a violation the listener may be wedged for good: clean-up must not wait for it
	defer func() {
		done := make(chan struct{})
		go func() {
			for i := len(cleanup) - 1; i >= 0; i-- {
				cleanup[i]()
			}
			close(done)
		}()
		select {
		case <-done:
		case <-time.After(3 * time.Second):
		}
	}()
	byeSeen, byeClosed := make(chan struct{}, 16), make(chan struct{}, 16)
	go func() {
		for {
			sess, err := l.AcceptKCP()
			if err != nil {
				return
			}
			sess.SetNoDelay(1, 10, 2, 1)
			sess.SetOOBHandler(func(p []byte) {
				if string(p) == "bye" {
					select {
					case byeSeen <- struct{}{}:
					default:
					}
					sess.Close()
					select {
					case byeClosed <- struct{}{}:
					default:
					}
				}
			})
			go func() {
				buf := make([]byte, 4096)
				for {
					sess.SetReadDeadline(time.Now().Add(20 * time.Second))
					n, err := sess.Read(buf)
					if err != nil {
						return
					}
					sess.Write(buf[:n])
				}
			}()
		}
	}()
	dial := func() *UDPSession {
		c, err := DialWithOptions(l.Addr().String(), ci.mk(), 2, 1)
		if err != nil {
			t.Fatal(err)
		}
		c.SetNoDelay(1, 10, 2, 1)
		cleanup = append(cleanup, func() { c.Close() })
		return c
	}
	echo := func(c *UDPSession, n int) error {
		msg := rng.bytes(n)
		c.SetDeadline(time.Now().Add(4 * time.Second))
		if _, err := c.Write(msg); err != nil {
			return err
		}
		got := make([]byte, n)
		if _, err := io.ReadFull(c, got); err != nil {
			return err
		}
		if !bytes.Equal(got, msg) {
			return fmt.Errorf("echo differs")
		}
		return nil
	}
	a, b := dial(), dial()
	if ea, eb := echo(a, 40), echo(b, 40); ea != nil || eb != nil {
		rep.violate("udp-oob-warmup", fmt.Sprintf("bye case %d (%s): echo before anything happened: %v / %v", id, ci.name, ea, eb), replay)
		return
	}
	seen := false
	for i := 0; i < 60 && !seen; i++ {
		a.SendOOB([]byte("bye"))
		select {
		case <-byeSeen:
			seen = true
		case <-time.After(50 * time.Millisecond):
		}
	}
	rep.Cases++
	if !seen {
		rep.Distribution["udp_oob_bye_never_arrived"]++
		return
	}
	rep.Nontrivial++
	rep.Monitors["udp_oob_handler_close"]++
	select {
	case <-byeClosed:
	case <-time.After(3 * time.Second):
		rep.violate("oob-disturbs-stream", fmt.Sprintf("bye case %d (%s): Close() called by the out-of-band handler of an accepted session on its own session did not return within 3 s", id, ci.name), replay)
	}
	if err := echo(b, 3000); err != nil {
		rep.violate("oob-disturbs-stream", fmt.Sprintf("bye case %d (%s): after an out-of-band message to session A (whose handler closes A), the reliable stream of session B on the same listener stalled: %v", id, ci.name, err), replay)
		return
	}
	if err := echo(dial(), 40); err != nil {
		rep.violate("oob-disturbs-stream", fmt.Sprintf("bye case %d (%s): after an out-of-band message to session A (whose handler closes A), a new peer of the same listener is not served: %v", id, ci.name, err), replay)
	}
}

// udpOOBSuccessorCase: a caller-owned socket carries session A, then - after A.Close() returned -
// session B (another conversation).  A's reader goroutine may still sit in the kernel when B's first
// datagrams arrive; whatever it reads then is dropped: an out-of-band message for B never reaches
// the handler of the closed session A, and B keeps receiving its messages and its stream.
func udpOOBSuccessorCase(t *testing.T, id int, rep *vreport, rng *vrng, ci udpCipher) {
	local, _ := net.ListenUDP("udp4", &net.UDPAddr{IP: net.IPv4(127, 0, 0, 1)})
	remote, _ := net.ListenUDP("udp4", &net.UDPAddr{IP: net.IPv4(127, 0, 0, 1)})
	defer local.Close()
	defer remote.Close()
	replay := map[string]any{"test": "TestVerifUDPOOB/successor", "seed": vSeed(), "case": id, "cipher": ci.name}
	var mu sync.Mutex
	var gotA, lateA, gotB [][]byte
	closedA := false
	convA, convB := uint32(0x1A000000+rng.intn(1<<16)), uint32(0x1B000000+rng.intn(1<<16))
	sessA, _ := NewConn3(convA, remote.LocalAddr(), ci.mk(), 2, 1, local)
	sessA.SetOOBHandler(func(b []byte) {
		mu.Lock()
		if closedA {
			lateA = append(lateA, append([]byte(nil), b...))
		} else {
			gotA = append(gotA, append([]byte(nil), b...))
		}
		mu.Unlock()
	})
	p1, _ := NewConn3(convA, local.LocalAddr(), ci.mk(), 2, 1, remote)
	waitFor := func(d time.Duration, f func() bool) bool {
		end := time.Now().Add(d)
		for time.Now().Before(end) {
			mu.Lock()
			ok := f()
			mu.Unlock()
			if ok {
				return true
			}
			time.Sleep(5 * time.Millisecond)
		}
		return false
	}
	for i := 0; i < 20 && !waitFor(100*time.Millisecond, func() bool { return len(gotA) > 0 }); i++ {
		p1.SendOOB([]byte("one: for session A"))
	}
	rep.Cases++
	if !waitFor(time.Millisecond, func() bool { return len(gotA) > 0 }) {
		rep.Distribution["udp_oob_successor_setup_failed"]++
		sessA.Close()
		p1.Close()
		return
	}
	sessA.Close()
	mu.Lock()
	closedA = true
	mu.Unlock()
	p1.Close()
	sessB, _ := NewConn3(convB, remote.LocalAddr(), ci.mk(), 2, 1, local)
	defer sessB.Close()
	sessB.SetOOBHandler(func(b []byte) {
		mu.Lock()
		gotB = append(gotB, append([]byte(nil), b...))
		mu.Unlock()
	})
	p2, _ := NewConn3(convB, local.LocalAddr(), ci.mk(), 2, 1, remote)
	defer p2.Close()
	for i := 0; i < 40 && !waitFor(50*time.Millisecond, func() bool { return len(gotB) > 0 }); i++ {
		p2.SendOOB([]byte(fmt.Sprintf("msg %d: for session B", i)))
	}
	rep.Nontrivial++
	rep.Monitors["udp_oob_closed_session_handler_silent"]++
	mu.Lock()
	late, nb := len(lateA), len(gotB)
	var sample []byte
	if late > 0 {
		sample = lateA[0]
	}
	mu.Unlock()
	if late > 0 {
		rep.violate("oob-misrouted", fmt.Sprintf("successor case %d (%s): %d out-of-band message(s) sent to conversation %#x were delivered to the handler of conversation %#x on the same caller-owned socket AFTER that session's Close() had returned (first: %q)", id, ci.name, late, convB, convA, sample), replay)
	}
	if nb == 0 {
		rep.violate("oob-size-undeliverable", fmt.Sprintf("successor case %d (%s): 40 out-of-band messages to the successor session on a shared socket, none arrived", id, ci.name), replay)
	}
}

func TestVerifUDPOOB(t *testing.T) {
	rng := newRng(vSeed() ^ 0x0DD)
	rep := newReport("UDP-oob")
	rounds := 1
	if vThorough() {
		rounds = 4
	}
	id := 0
	for r := 0; r < rounds; r++ {
		for _, ci := range udpCiphers() {
			for _, f := range [][2]int{{2, 1}, {3, 2}} {
				udpOOBCase(t, id, rep, rng, ci, f[0], f[1])
				id++
			}
			udpOOBRefusedCase(t, id, rep, rng, ci)
			id++
		}
	}
	for k, ci := range udpCiphers() {
		if vThorough() || k%3 == 1 {
			udpOOBByeCase(t, id, rep, rng, ci)
			id++
		}
		if vThorough() || k%3 == 2 {
			udpOOBSuccessorCase(t, id, rep, rng, ci)
			id++
		}
	}
	rep.write(t, "UDPoob.report.json")
	for _, v := range rep.Violations {
		t.Logf("violation %s: %s", v.Key, v.What)
	}
}

func udpFecs(rng *vrng) [][2]int { return [][2]int{{0, 0}, {2, 1}, {3, 2}} }

// udpResetCase: a conversation reset with a half-read message.  Peer A's message is read in part,
// then A restarts with a new conversation id (the listener closes the old session and builds the
// replacement) and another address opens a third session; the rest of the OLD session's stream is
// still A's first message - not bytes of the replacement or of the neighbour.
func udpResetCase(t *testing.T, id int, rep *vreport, rng *vrng, ci udpCipher) {
	block := ci.mk()
	l, err := ListenWithOptions("127.0.0.1:0", block, 0, 0)
	if err != nil {
		t.Fatal(err)
	}
	defer l.Close()
	dst := l.conn.LocalAddr().(*net.UDPAddr)
	replay := map[string]any{"test": "TestVerifUDPListener/reset", "seed": vSeed(), "case": id, "cipher": ci.name}
	for round := 0; round < 4; round++ {
		a1 := udpNewPeer(uint32(0x100+round*4), 0, 0, 0xA0)
		a2 := &udpPeer{sock: a1.sock, conv: a1.conv + 1, tag: 0xB3}
		c := udpNewPeer(a1.conv+2, 0, 0, 0x5C)
		head := 1 + rng.intn(40)
		n := 600 + rng.intn(400)
		open := func(p *udpPeer) *UDPSession {
			p.sock.WriteToUDP(udpSeal(block, p.nextClear(rng, n), rng), dst)
			l.SetReadDeadline(time.Now().Add(3 * time.Second))
			s, err := l.AcceptKCP()
			if err != nil || s.GetConv() != p.conv {
				return nil
			}
			return s
		}
		read := func(s *UDPSession, k int) []byte {
			buf := make([]byte, k)
			s.SetReadDeadline(time.Now().Add(2 * time.Second))
			m, _ := s.Read(buf)
			return buf[:m]
		}
		var got [3][]byte
		var ss [3]*UDPSession
		ok := true
		for i, p := range []*udpPeer{a1, a2, c} {
			if ss[i] = open(p); ss[i] == nil {
				rep.violate("udp-listener-missing-session", fmt.Sprintf("reset case %d (%s) round %d: the first datagram of conversation %d did not produce an accepted session", id, ci.name, round, p.conv), replay)
				ok = false
				break
			}
			got[i] = read(ss[i], head)
		}
		if ok {
			for i, p := range []*udpPeer{a1, a2, c} {
				got[i] = append(got[i], read(ss[i], 2*n)...)
				rep.Monitors["udp_listener_reset_stream"]++
				if !bytes.Equal(got[i], p.sent) {
					who := [3]string{"the session closed by the reset", "the replacement session", "the neighbour's session"}[i]
					rep.violate("udp-listener-stream-mismatch", fmt.Sprintf("reset case %d (%s) round %d: %s (conv %d) delivered %d bytes that differ from the %d its own peer sent (first difference at byte %d; %d bytes were read before the reset)", id, ci.name, round, who, p.conv, len(got[i]), len(p.sent), udpFirstDiff(got[i], p.sent), head), replay)
				}
			}
		}
		for _, s := range ss {
			if s != nil {
				s.Close()
			}
		}
		a1.sock.Close()
		c.sock.Close()
		if !ok {
			break
		}
	}
	rep.Cases++
	rep.Nontrivial++
}

func udpFirstDiff(a, b []byte) int {
	for i := 0; i < len(a) && i < len(b); i++ {
		if a[i] != b[i] {
			return i
		}
	}
	return min(len(a), len(b))
}

func TestVerifUDPListener(t *testing.T) {
	rng := newRng(vSeed() ^ 0x0D9)
	rep := newReport("UDP-listener")
	rounds := 1
	if vThorough() {
		rounds = 6
	}
	id := 0
	for r := 0; r < rounds; r++ {
		for _, ci := range udpCiphers() {
			for _, f := range udpFecs(rng) {
				udpListenerCase(t, id, rep, rng, ci, f[0], f[1])
				id++
			}
		}
	}
	for k, ci := range udpCiphers() {
		if vThorough() || k%3 == 0 {
			udpResetCase(t, id, rep, rng, ci)
			id++
		}
	}
	rep.write(t, "UDPlistener.report.json")
	for _, v := range rep.Violations {
		t.Logf("violation %s: %s", v.Key, v.What)
	}
}

func TestVerifUDPClient(t *testing.T) {
	rng := newRng(vSeed() ^ 0x0DA)
	rep := newReport("UDP-client")
	rounds := 1
	if vThorough() {
		rounds = 6
	}
	id := 0
	for r := 0; r < rounds; r++ {
		for _, ci := range udpCiphers() {
			for _, f := range udpFecs(rng) {
				udpClientCase(t, id, rep, rng, ci, f[0], f[1])
				id++
			}
		}
	}
	rep.write(t, "UDPclient.report.json")
	for _, v := range rep.Violations {
		t.Logf("violation %s: %s", v.Key, v.What)
	}
}

func TestVerifUDPTx(t *testing.T) {
	rng := newRng(vSeed() ^ 0x0DB)
	rep := newReport("UDP-tx")
	rounds := 1
	if vThorough() {
		rounds = 5
	}
	id := 0
	for r := 0; r < rounds; r++ {
		for _, ci := range udpCiphers() {
			for _, f := range udpFecs(rng) {
				udpTxCase(t, id, rep, rng, ci, f[0], f[1], rng.pick(200, 576, 1200, 1400, 1500))
				id++
			}
		}
	}
	rep.write(t, "UDPtx.report.json")
	for _, v := range rep.Violations {
		t.Logf("violation %s: %s", v.Key, v.What)
	}
}

func TestVerifUDPRelay(t *testing.T) {
	rng := newRng(vSeed() ^ 0x0DC)
	rep := newReport("UDP-relay")
	cs := udpCiphers()
	n := 4
	if vThorough() {
		n = 24
	}
	id := 0
	// directed: every cipher class with a header in front of the FEC shard x FEC on x loss that
	// parity can repair (the recovered packets take the FEC path into the core)
	for _, ci := range cs {
		if ci.name == "nil" {
			continue
		}
		udpRelayCase(t, id, rep, rng, ci, 3, 2, true)
		id++
	}
	for ; id < n+3; id++ {
		f := udpFecs(rng)[rng.intn(3)]
		udpRelayCase(t, id, rep, rng, cs[rng.intn(len(cs))], f[0], f[1], false)
	}
	rep.write(t, "UDPrelay.report.json")
	for _, v := range rep.Violations {
		t.Logf("violation %s: %s", v.Key, v.What)
	}
}
