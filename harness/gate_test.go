//go:build verif

package kcp

// C06 - packets failing the integrity check have no effect at all.
//
// What this harness does, per configuration (cipher class x FEC off/on):
//  1. real traffic: a client session and a listener over an in-memory net.PacketConn pair
//     (gateConn) exchange data; everything handed to WriteTo is captured;
//  2. targets: a fresh Listener and a fresh client UDPSession on sink conns are brought into a
//     non-trivial state by feeding them a subset of the captured VALID datagrams through the
//     real packetInput (holes in the sequence -> out-of-order rcv_buf, open FEC groups,
//     a partial Read -> carry-over in recvbuf/bufptr, one session left in the accept backlog);
//  3. quiescence: the targets never Write, so once their pending ACKs are flushed an idle
//     update()/flush is idempotent on every compared field (acklist empty, probe 0, ts_probe 0,
//     cwnd 1); the harness WAITS until three consecutive deep snapshots 40 ms apart are
//     byte-identical (the sessions run at interval 10 ms, i.e. >= 12 idle flushes in between),
//     and re-checks for drift after the sweep.  Only the three RingBuffer* SNMP gauges, which
//     every flush of every session overwrites, are left out of the comparison;
//  4. corruptions are generated from the captured datagrams (see gateCorruptions) and fed
//     SYNCHRONOUSLY to UDPSession.packetInput / Listener.packetInput; a deep snapshot
//     (gateSnapshot*) is taken before and after under the session / listener locks;
//  5. monitors (from the property text): a datagram that fails the integrity check - decided by
//     construction for the guaranteed classes, and by an oracle that calls the cipher and
//     hash/crc32 itself for truncations >= header size and random bytes - must leave the deep
//     snapshot identical, apart from DefaultSnmp.InCsumErrors.  Datagrams on which the oracle
//     says "passes" are outside the property and are not fed (they would legitimately change
//     state); for a guaranteed-class corruption "passes" is itself a violation.
//  6. op log C06.log for ml/gate_driver.ml: K lines (hash/crc32 vs Crc.crc32), D/A lines
//     (decrypted bytes resp. wire bytes + Open result, and the counter deltas the
//     implementation showed) replayed on the extracted gate model.

import (
	"bytes"
	"encoding/binary"
	"fmt"
	"hash/crc32"
	"net"
	"runtime"
	"runtime/debug"
	"sort"
	"sync"
	"sync/atomic"
	"testing"
	"time"
	"unsafe"
)

// ---------------------------------------------------------------- in-memory PacketConn

type gateAddr string

func (a gateAddr) Network() string { return "gate" }
func (a gateAddr) String() string  { return string(a) }

type gatePkt struct {
	b    []byte
	from net.Addr
}

type gateConn struct {
	local    gateAddr
	inbox    chan gatePkt
	closed   chan struct{}
	once     sync.Once
	mu       sync.Mutex
	peer     *gateConn // nil = sink
	captured [][]byte  // every buffer handed to WriteTo, in order
}

func gateNewConn(name string) *gateConn {
	return &gateConn{local: gateAddr(name), inbox: make(chan gatePkt, 8192), closed: make(chan struct{})}
}

func (c *gateConn) ReadFrom(p []byte) (int, net.Addr, error) {
	select {
	case pk := <-c.inbox:
		return copy(p, pk.b), pk.from, nil
	case <-c.closed:
		return 0, nil, fmt.Errorf("gateConn closed")
	}
}

func (c *gateConn) WriteTo(p []byte, _ net.Addr) (int, error) {
	select {
	case <-c.closed:
		return 0, fmt.Errorf("gateConn closed")
	default:
	}
	b := append([]byte(nil), p...)
	c.mu.Lock()
	c.captured = append(c.captured, b)
	peer := c.peer
	c.mu.Unlock()
	if peer != nil {
		select {
		case peer.inbox <- gatePkt{append([]byte(nil), p...), c.local}:
		default: // full: dropped, like a network
		}
	}
	return len(p), nil
}

func (c *gateConn) take() [][]byte {
	c.mu.Lock()
	defer c.mu.Unlock()
	r := c.captured
	c.captured = nil
	return r
}
func (c *gateConn) Close() error                     { c.once.Do(func() { close(c.closed) }); return nil }
func (c *gateConn) LocalAddr() net.Addr              { return c.local }
func (c *gateConn) SetDeadline(time.Time) error      { return nil }
func (c *gateConn) SetReadDeadline(time.Time) error  { return nil }
func (c *gateConn) SetWriteDeadline(time.Time) error { return nil }

// ---------------------------------------------------------------- cipher classes

type gateCipher struct {
	name       string // stable class name used in violation keys
	mk         func(key []byte) (BlockCrypt, error)
	aead       bool
	streamLike bool // c06_wire_level applies (none, xor, salsa20 beyond its 8 clear bytes)
}

func gateCiphers() []gateCipher {
	cs := []gateCipher{
		{"none", NewNoneBlockCrypt, false, true},
		{"xor", NewSimpleXORBlockCrypt, false, true},
		{"salsa20", NewSalsa20BlockCrypt, false, true},
		{"cfb8-blowfish", NewBlowfishBlockCrypt, false, false},
		{"cfb16-aes", NewAESBlockCrypt, false, false},
		{"aead-aesgcm", NewAESGCMCrypt, true, false},
	}
	if vThorough() {
		cs = append(cs,
			gateCipher{"cfb8-3des", func(k []byte) (BlockCrypt, error) { return NewTripleDESBlockCrypt(k[:24]) }, false, false},
			gateCipher{"cfb8-cast5", func(k []byte) (BlockCrypt, error) { return NewCast5BlockCrypt(k[:16]) }, false, false},
			gateCipher{"cfb8-tea", func(k []byte) (BlockCrypt, error) { return NewTEABlockCrypt(k[:16]) }, false, false},
			gateCipher{"cfb8-xtea", func(k []byte) (BlockCrypt, error) { return NewXTEABlockCrypt(k[:16]) }, false, false},
			gateCipher{"cfb16-twofish", NewTwofishBlockCrypt, false, false},
			gateCipher{"cfb16-sm4", func(k []byte) (BlockCrypt, error) { return NewSM4BlockCrypt(k[:16]) }, false, false},
		)
	}
	return cs
}

// the independent oracle: does this datagram fail the integrity check?  It calls the cipher
// and hash/crc32 itself, never packetInput.  dec = the decrypted bytes (CRC classes: the
// whole datagram after Decrypt; AEAD: the plaintext when Open succeeded).
type gateVerdict struct {
	short bool // too short to carry a check
	fails bool // short, or CRC mismatch / Open error
	dec   []byte
	crcIn uint32 // CRC computed over the covered bytes (CRC classes, not short)
	crcSt uint32 // stored CRC
}

func gateOracle(block BlockCrypt, wire []byte) gateVerdict {
	if a, ok := block.(*aeadCrypt); ok {
		ns, ov := a.NonceSize(), a.Overhead()
		if len(wire) < ns+ov {
			return gateVerdict{short: true, fails: true}
		}
		w := append([]byte(nil), wire...)
		pt, err := a.Open(nil, w[:ns], w[ns:], nil)
		if err != nil {
			return gateVerdict{fails: true}
		}
		return gateVerdict{dec: pt}
	}
	if len(wire) < cryptHeaderSize {
		return gateVerdict{short: true, fails: true, dec: append([]byte(nil), wire...)}
	}
	d := make([]byte, len(wire))
	block.Decrypt(d, wire) // dst != src: wire is left untouched
	v := gateVerdict{dec: d}
	v.crcIn = crc32.ChecksumIEEE(d[cryptHeaderSize:])
	v.crcSt = binary.LittleEndian.Uint32(d[nonceSize:])
	v.fails = v.crcIn != v.crcSt
	return v
}

// re-encrypt a (possibly corrupted) plaintext image nonce|crc|payload as postProcess does
func gateEncrypt(block BlockCrypt, plain []byte) []byte {
	out := append([]byte(nil), plain...)
	block.Encrypt(out, out)
	return out
}

// ---------------------------------------------------------------- deep snapshot

type gateSnap struct {
	b      []byte
	labels [][2]string // (prefix, field): kept apart so that taking a snapshot does not allocate
	offs   []int
	table  []byte // listener targets: the encoded session table (addresses and session identities)
}

func (w *gateSnap) reset() { w.b, w.labels, w.offs = w.b[:0], w.labels[:0], w.offs[:0] }
func (w *gateSnap) field2(p, label string) {
	w.labels = append(w.labels, [2]string{p, label})
	w.offs = append(w.offs, len(w.b))
}
func (w *gateSnap) field(label string) { w.field2("", label) }
func (w *gateSnap) u64(x uint64)       { w.b = binary.LittleEndian.AppendUint64(w.b, x) }
func (w *gateSnap) u32(x uint32)       { w.b = binary.LittleEndian.AppendUint32(w.b, x) }
func (w *gateSnap) i(x int)            { w.u64(uint64(int64(x))) }
func (w *gateSnap) bool(x bool) {
	if x {
		w.b = append(w.b, 1)
	} else {
		w.b = append(w.b, 0)
	}
}
func (w *gateSnap) bytes(p []byte) { w.u32(uint32(len(p))); w.b = append(w.b, p...) }
func (w *gateSnap) str(s string)   { w.u32(uint32(len(s))); w.b = append(w.b, s...) }

// labels of the fields that differ between two snapshots
func gateDiff(a, b *gateSnap) []string {
	var out []string
	n := len(a.labels)
	if len(b.labels) != n {
		return []string{fmt.Sprintf("shape(%d fields -> %d fields)", len(a.labels), len(b.labels))}
	}
	for k := 0; k < n; k++ {
		if a.labels[k] != b.labels[k] {
			out = append(out, "shape@"+a.labels[k][0]+a.labels[k][1])
			continue
		}
		ae, be := len(a.b), len(b.b)
		if k+1 < n {
			ae, be = a.offs[k+1], b.offs[k+1]
		}
		if !bytes.Equal(a.b[a.offs[k]:ae], b.b[b.offs[k]:be]) {
			out = append(out, a.labels[k][0]+a.labels[k][1])
		}
	}
	return out
}

func gateSnapSeg(w *gateSnap, s *segment) {
	w.u32(s.conv)
	w.b = append(w.b, s.cmd, s.frg)
	w.u32(uint32(s.wnd))
	w.u32(s.ts)
	w.u32(s.sn)
	w.u32(s.una)
	w.u32(s.rto)
	w.u32(s.xmit)
	w.u32(s.resendts)
	w.u32(s.fastack)
	w.u32(s.acked)
	w.bytes(s.data)
}

func gateSnapRing(w *gateSnap, p, label string, r *RingBuffer[segment]) {
	w.field2(p, label)
	w.i(r.head)
	w.i(r.tail)
	w.i(len(r.elements))
	w.i(r.Len())
	n := len(r.elements)
	for k, i := 0, r.head; k < r.Len(); k, i = k+1, (i+1)%n {
		gateSnapSeg(w, &r.elements[i])
	}
}

func gateSnapKCP(w *gateSnap, p string, k *KCP) {
	w.field2(p, "kcp.scalars")
	for _, x := range []uint32{k.conv, k.mtu, k.mss, k.state, k.snd_una, k.snd_nxt, k.rcv_nxt, k.ssthresh,
		uint32(k.rx_rttvar), uint32(k.rx_srtt), k.rx_rto, k.rx_minrto, k.snd_wnd, k.rcv_wnd, k.rmt_wnd,
		k.cwnd, k.incr, k.probe, k.ts_probe, k.probe_wait, k.interval, k.ts_flush, k.nodelay, k.updated,
		k.dead_link, uint32(k.fastresend), uint32(k.nocwnd), uint32(k.stream), uint32(k.logmask)} {
		w.u32(x)
	}
	gateSnapRing(w, p, "kcp.snd_queue", k.snd_queue)
	gateSnapRing(w, p, "kcp.rcv_queue", k.rcv_queue)
	gateSnapRing(w, p, "kcp.snd_buf", k.snd_buf)
	w.field2(p, "kcp.rcv_buf")
	w.i(len(k.rcv_buf.segments))
	for i := range k.rcv_buf.segments {
		gateSnapSeg(w, &k.rcv_buf.segments[i])
	}
	marks := make([]uint32, 0, len(k.rcv_buf.marks))
	for m := range k.rcv_buf.marks {
		marks = append(marks, m)
	}
	sort.Slice(marks, func(i, j int) bool { return marks[i] < marks[j] })
	w.i(len(marks))
	for _, m := range marks {
		w.u32(m)
	}
	w.field2(p, "kcp.acklist")
	w.i(len(k.acklist))
	for _, a := range k.acklist {
		w.u32(a.sn)
		w.u32(a.ts)
	}
	w.field2(p, "kcp.buffer.len")
	w.i(len(k.buffer))
}

func gateSnapTune(w *gateSnap, p, label string, t *autoTune) {
	w.field2(p, label)
	w.i(t.head)
	w.i(t.tail)
	w.i(t.count)
	for i := range t.pulses {
		w.bool(t.pulses[i].bit)
		w.u32(t.pulses[i].seq)
	}
	for i := range t.sortCache {
		w.bool(t.sortCache[i].bit)
		w.u32(t.sortCache[i].seq)
	}
}

func gateSnapFEC(w *gateSnap, p string, d *fecDecoder) {
	w.field2(p, "fec.params")
	w.bool(d != nil)
	if d == nil {
		return
	}
	w.i(d.dataShards)
	w.i(d.parityShards)
	w.i(d.shardSize)
	w.u32(d.paws)
	w.u32(d.newestShardId)
	w.bool(d.shouldTune)
	w.i(len(d.decodeCache))
	w.i(len(d.flagCache))
	w.field2(p, "fec.shardSet")
	ids := make([]uint32, 0, len(d.shardSet))
	for id := range d.shardSet {
		ids = append(ids, id)
	}
	sort.Slice(ids, func(i, j int) bool { return ids[i] < ids[j] })
	w.i(len(ids))
	for _, id := range ids {
		h := d.shardSet[id]
		w.u32(id)
		w.i(len(h.elements))
		for _, e := range h.elements {
			w.bytes(e)
		}
		ms := make([]uint32, 0, len(h.marks))
		for m := range h.marks {
			ms = append(ms, m)
		}
		sort.Slice(ms, func(i, j int) bool { return ms[i] < ms[j] })
		w.i(len(ms))
		for _, m := range ms {
			w.u32(m)
		}
	}
	gateSnapTune(w, p, "fec.autotune", &d.autoTune)
}

// everything reachable from one session that packetInput could touch; taken under s.mu
func gateSnapSession(w *gateSnap, p string, s *UDPSession, oob *gateOOB) {
	s.mu.Lock()
	gateSnapKCP(w, p, s.kcp)
	gateSnapFEC(w, p, s.fecDecoder)
	w.field2(p, "reader.recvbuf")
	w.bytes(s.recvbuf[:cap(s.recvbuf)])
	w.i(len(s.recvbuf))
	w.field2(p, "reader.bufptr")
	w.bytes(s.bufptr)
	w.i(cap(s.bufptr))
	w.field2(p, "events")
	w.i(len(s.chReadEvent))
	w.i(len(s.chWriteEvent))
	w.i(len(s.chPostProcessing))
	w.field2(p, "settings")
	w.i(s.headerSize)
	w.bool(s.ackNoDelay)
	w.bool(s.writeDelay)
	w.i(s.dup)
	w.str(s.remote.String())
	w.bool(s.socketReadError.Load() != nil)
	w.bool(s.socketWriteError.Load() != nil)
	s.mu.Unlock()
	w.field2(p, "closed")
	w.bool(s.isClosed())
	w.field2(p, "oob.deliveries")
	w.i(int(atomic.LoadInt64(&oob.n)))
}

type gateOOB struct{ n int64 }

func gateSnapSnmp(w *gateSnap) {
	c := DefaultSnmp.Copy()
	// "apart from an error counter": the input error counters (InCsumErrors is the one the code
	// uses; InErrs / KCPInErrors would be equally allowed by the text) are not compared here -
	// their exact deltas are compared with the model by the driver instead.  RingBuffer*: gauges
	// overwritten by every flush of every live session (timer driven, not by packetInput).
	c.InCsumErrors, c.InErrs, c.KCPInErrors = 0, 0, 0
	c.RingBufferSndQueue, c.RingBufferRcvQueue, c.RingBufferSndBuffer = 0, 0, 0
	w.field("snmp")
	for _, f := range []uint64{c.BytesSent, c.BytesReceived, c.MaxConn, c.ActiveOpens, c.PassiveOpens, c.CurrEstab,
		c.InPkts, c.OutPkts, c.InSegs, c.OutSegs, c.InBytes, c.OutBytes, c.RetransSegs,
		c.FastRetransSegs, c.EarlyRetransSegs, c.LostSegs, c.RepeatSegs, c.FECFullShardSet, c.FECRecovered,
		c.FECErrs, c.FECParityShards, c.FECShardSet, c.FECShardMin, c.OOBPackets} {
		w.u64(f)
	}
}

// ---------------------------------------------------------------- targets

type gateTarget struct {
	path    string // "session" or "listener"
	sess    *UDPSession
	lst     *Listener
	oob     *gateOOB
	feed    func(d []byte, addr net.Addr)
	addrs   []net.Addr // addresses a datagram may claim (listener: existing peers and new ones)
	rich    bool       // non-trivial state reached (see TestVerifC06)
	created int
	prefixes map[string]string
}

func (t *gateTarget) snapshot() *gateSnap { return t.snapshotInto(&gateSnap{b: make([]byte, 0, 1<<15)}) }

func (t *gateTarget) snapshotInto(w *gateSnap) *gateSnap {
	w.reset()
	if t.lst != nil {
		t.lst.sessionLock.RLock()
		keys := make([]string, 0, len(t.lst.sessions))
		for k := range t.lst.sessions {
			keys = append(keys, k)
		}
		sort.Strings(keys)
		ss := make([]*UDPSession, len(keys))
		for i, k := range keys {
			ss[i] = t.lst.sessions[k]
		}
		t.lst.sessionLock.RUnlock()
		w.field("listener.table")
		w.i(len(keys))
		for i, k := range keys {
			w.str(k)
			w.u64(uint64(uintptr(unsafe.Pointer(ss[i])))) // identity of the session object
		}
		w.table = append(w.table[:0], w.b[w.offs[len(w.offs)-1]:]...)
		w.field("listener.backlog")
		w.i(len(t.lst.chAccepts))
		for i, k := range keys {
			gateSnapSession(w, t.prefix(k), ss[i], t.oob)
		}
	} else {
		gateSnapSession(w, "sess.", t.sess, t.oob)
	}
	gateSnapSnmp(w)
	return w
}

func (t *gateTarget) prefix(k string) string {
	if t.prefixes == nil {
		t.prefixes = map[string]string{}
	}
	p, ok := t.prefixes[k]
	if !ok {
		p = "sess[" + k + "]."
		t.prefixes[k] = p
	}
	return p
}

func gateQuiesce(t *gateTarget) bool {
	prev := t.snapshot()
	stable := 0
	for i := 0; i < 75; i++ {
		time.Sleep(40 * time.Millisecond)
		cur := t.snapshot()
		if bytes.Equal(prev.b, cur.b) {
			stable++
			if stable >= 3 {
				return true
			}
		} else {
			stable = 0
		}
		prev = cur
	}
	return false
}

// ---------------------------------------------------------------- corruptions

type gateCase struct {
	kind       string // corruption kind (distribution + replay)
	wire       []byte // the datagram to feed
	guaranteed bool   // in the class the check is guaranteed to catch
	detail     string
	base       []byte // wire-bitflip: the valid datagram the bit was flipped in
	bit        int
	addrSel    int  // 0 = rotate over the target's addresses, 1 = known peer, 2 = unknown address
	alwaysLog  bool // goes to the correspondence log regardless of sampling
}

func gateXorBits(b []byte, start, length int, rng *vrng) {
	// burst in CRC bit order: position p = 8*byte + bit, least significant bit first;
	// first and last bit of the burst set, interior random
	for k := 0; k < length; k++ {
		set := k == 0 || k == length-1 || rng.chance(50)
		if set {
			p := start + k
			b[p/8] ^= 1 << uint(p%8)
		}
	}
}

// corruptions of one captured valid datagram
func gateCorruptions(c gateCipher, block BlockCrypt, wire []byte, rng *vrng, budget int) []gateCase {
	var out []gateCase
	add := func(kind string, w []byte, g bool, detail string) {
		out = append(out, gateCase{kind: kind, wire: w, guaranteed: g, detail: detail})
	}
	if c.aead {
		// any change is in the guaranteed class (idealised authenticity)
		nbits := len(wire) * 8
		step := 1
		if nbits > budget {
			step = nbits/budget + 1
		}
		for p := rng.intn(step); p < nbits; p += step {
			w := append([]byte(nil), wire...)
			w[p/8] ^= 1 << uint(p%8)
			add("aead-bitflip", w, true, fmt.Sprintf("bit %d", p))
		}
		for L := 2; L <= 32; L++ {
			for rep := 0; rep < 4; rep++ {
				if nbits <= L {
					continue
				}
				s := rng.intn(nbits - L)
				w := append([]byte(nil), wire...)
				gateXorBits(w, s, L, rng)
				add("aead-burst", w, true, fmt.Sprintf("start %d len %d", s, L))
			}
		}
		for n := 0; n < len(wire); n++ {
			add("aead-truncate", append([]byte(nil), wire[:n]...), true, fmt.Sprintf("len %d", n))
		}
		return out
	}
	v := gateOracle(block, wire)
	plain := v.dec // nonce | crc | covered
	cov0 := cryptHeaderSize * 8
	nbits := len(plain)*8 - cov0
	// (a) single-bit flips in the CRC-covered bytes, applied to the decrypted image, re-encrypted
	step := 1
	if nbits > budget {
		step = nbits/budget + 1
	}
	for p := rng.intn(step); p < nbits; p += step {
		q := append([]byte(nil), plain...)
		q[(cov0+p)/8] ^= 1 << uint((cov0+p)%8)
		add("crc-bitflip", gateEncrypt(block, q), true, fmt.Sprintf("covered bit %d", p))
	}
	// (b) bursts of 2..32 bits at every start-bit class (start mod 8) and at the front, a random
	// middle position and the very end of the covered bytes
	for L := 2; L <= 32; L++ {
		if nbits < L {
			continue
		}
		for m := 0; m < 8; m++ {
			var starts []int
			starts = append(starts, m)
			if nbits-L-8 > 8 {
				starts = append(starts, 8*(1+rng.intn((nbits-L-8)/8))+m)
			}
			last := nbits - L
			last -= (last - m + 8*4096) % 8 // largest start <= nbits-L with start mod 8 = m
			starts = append(starts, last)
			for _, s := range starts {
				if s < 0 || s+L > nbits {
					continue
				}
				q := append([]byte(nil), plain...)
				gateXorBits(q, cov0+s, L, rng)
				add("crc-burst", gateEncrypt(block, q), true, fmt.Sprintf("covered start %d len %d", s, L))
			}
		}
	}
	// (c) any change of the stored CRC: all single-bit changes, random masks, +-1
	for k := 0; k < 32; k++ {
		q := append([]byte(nil), plain...)
		q[nonceSize+k/8] ^= 1 << uint(k%8)
		add("crc-field", gateEncrypt(block, q), true, fmt.Sprintf("stored bit %d", k))
	}
	for k := 0; k < 34; k++ {
		q := append([]byte(nil), plain...)
		st := binary.LittleEndian.Uint32(q[nonceSize:])
		nv := st ^ (uint32(rng.u64()) | 1)
		if k == 32 {
			nv = st + 1
		} else if k == 33 {
			nv = st - 1
		}
		binary.LittleEndian.PutUint32(q[nonceSize:], nv)
		add("crc-field", gateEncrypt(block, q), true, fmt.Sprintf("stored %08x -> %08x", st, nv))
	}
	// (d) truncations: below the header = too short (guaranteed); at or above the header the
	// stored CRC no longer matches except by a 2^-32 coincidence -> decided by the oracle
	for n := 0; n < len(wire); n++ {
		add("truncate", append([]byte(nil), wire[:n]...), n < cryptHeaderSize, fmt.Sprintf("len %d", n))
	}
	// (e) wire-level single-bit flips anywhere (nonce, CRC field, covered bytes).  Guaranteed
	// where c06_wire_level / c06_crc_field apply: stream-like ciphers, byte offset >= nonceSize;
	// elsewhere (CFB: the next block is garbled; salsa20's clear 8 bytes re-key the stream; the
	// rest of the nonce is not covered by the CRC at all) the oracle decides.
	wbits := len(wire) * 8
	wstep := 1
	if wbits > budget/2 {
		wstep = wbits/(budget/2) + 1
	}
	for p := rng.intn(wstep); p < wbits; p += wstep {
		w := append([]byte(nil), wire...)
		w[p/8] ^= 1 << uint(p%8)
		add("wire-bitflip", w, c.streamLike && p/8 >= nonceSize, fmt.Sprintf("wire bit %d", p))
		out[len(out)-1].base, out[len(out)-1].bit = wire, p
	}
	return out
}

// Datagrams that are too short for (or simply fail) the check but, READ AS CLEARTEXT at the
// offsets the demultiplexer uses behind the gate, look like meaningful frames: FEC data /
// parity / OOB frames (seqid | type | size | conv | KCP header ...) and raw KCP segments
// (conv | cmd | frg | wnd | ts | sn ...), carrying the live session's conversation id or a
// foreign one, sn = 0 (the listener's "reset" trigger) or another value, from a known peer or
// an unknown address.  Every length from 0 up to header + fecHeaderSizePlus2 + convSize + 4,
// with the cleartext frame placed at offset 0, behind nonceSize bytes and behind the whole
// crypto header (whatever a broken gate might strip).  A correct gate never looks at any of
// this: all of them must be dropped without effect.  Also: the bare decrypted payload and
// the unencrypted image of captured valid datagrams.
func gateClearShaped(c gateCipher, block BlockCrypt, liveConv uint32, samples [][]byte, rng *vrng, twoAddrs bool) []gateCase {
	var out []gateCase
	hdr, mid := cryptHeaderSize, nonceSize
	if a, ok := block.(*aeadCrypt); ok {
		hdr, mid = a.NonceSize()+a.Overhead(), a.NonceSize()
	}
	maxLen := hdr + fecHeaderSizePlus2 + convSize + 4
	types := []struct {
		name string
		flag int // -1: raw KCP layout
	}{{"fec-data", typeData}, {"fec-parity", typeParity}, {"oob", typeOOB}, {"kcp", -1}}
	sels := []int{1}
	if twoAddrs {
		sels = []int{1, 2}
	}
	for _, place := range []int{0, mid, hdr} {
		for n := 0; n <= maxLen; n++ {
			for _, ty := range types {
				for _, conv := range []uint32{liveConv, liveConv ^ 0x5a5a0001} {
					for _, sn := range []uint32{0, 1 + uint32(rng.intn(1000))} {
						f := rng.bytes(maxLen + 32)
						if ty.flag >= 0 {
							binary.LittleEndian.PutUint32(f[0:], uint32(rng.intn(4096)))
							binary.LittleEndian.PutUint16(f[4:], uint16(ty.flag))
							sz := n - fecHeaderSize
							if sz < 2 {
								sz = 2
							}
							binary.LittleEndian.PutUint16(f[6:], uint16(sz))
							k := f[fecHeaderSizePlus2:]
							binary.LittleEndian.PutUint32(k[0:], conv)
							k[4], k[5] = IKCP_CMD_PUSH, 0
							binary.LittleEndian.PutUint16(k[6:], 32)
							binary.LittleEndian.PutUint32(k[IKCP_SN_OFFSET:], sn)
							binary.LittleEndian.PutUint32(k[16:], 0)
							binary.LittleEndian.PutUint32(k[20:], 0)
						} else {
							binary.LittleEndian.PutUint32(f[0:], conv)
							f[4], f[5] = IKCP_CMD_PUSH, 0
							binary.LittleEndian.PutUint16(f[6:], 32)
							binary.LittleEndian.PutUint32(f[IKCP_SN_OFFSET:], sn)
							binary.LittleEndian.PutUint32(f[16:], 0)
							binary.LittleEndian.PutUint32(f[20:], 0)
						}
						d := append(rng.bytes(place), f[:n]...)
						short := len(d) < hdr
						kind := "clear-shaped"
						if short {
							kind = "clear-shaped-short"
						}
						for _, sel := range sels {
							out = append(out, gateCase{kind: kind, wire: d, guaranteed: short || c.aead,
								detail:  fmt.Sprintf("%s conv=%08x sn=%d len=%d at offset %d addrSel=%d", ty.name, conv, sn, n, place, sel),
								addrSel: sel, alwaysLog: place == 0 || rng.chance(15)})
						}
					}
				}
			}
		}
	}
	for _, w := range samples {
		v := gateOracle(block, w)
		if v.fails {
			continue
		}
		if c.aead {
			out = append(out, gateCase{kind: "clear-payload", wire: v.dec, guaranteed: true, detail: "bare plaintext of a valid datagram", alwaysLog: true})
		} else {
			out = append(out, gateCase{kind: "clear-payload", wire: append([]byte(nil), v.dec[cryptHeaderSize:]...), detail: "bare payload of a valid datagram", alwaysLog: true})
			out = append(out, gateCase{kind: "clear-image", wire: v.dec, detail: "unencrypted nonce|crc|payload of a valid datagram", alwaysLog: true})
		}
	}
	return out
}

// ---------------------------------------------------------------- traffic

type gateTraffic struct {
	toServer [][]byte // client -> listener datagrams, in send order
	toClient [][]byte
	conv     uint32
}

func gateRunTraffic(t *testing.T, block BlockCrypt, ds, ps int, rng *vrng) (gateTraffic, error) {
	ca, cb := gateNewConn("client:1"), gateNewConn("server:1")
	ca.peer, cb.peer = cb, ca
	l, err := ServeConn(block, ds, ps, cb)
	if err != nil {
		t.Fatal(err)
	}
	conv := uint32(rng.u64()) | 1
	a, err := NewConn3(conv, cb.local, block, ds, ps, ca)
	if err != nil {
		t.Fatal(err)
	}
	a.SetNoDelay(1, 10, 2, 1)
	a.SetWindowSize(64, 64)
	sizes := []int{1, 17, 200, 900, 1300, 2500, 64, 3000, 5, 1200, 700, 33}
	total := 0
	for _, n := range sizes {
		total += n
	}
	done := make(chan error, 2)
	go func() { // echo server
		l.SetDeadline(time.Now().Add(10 * time.Second))
		s, err := l.AcceptKCP()
		if err != nil {
			done <- err
			return
		}
		s.SetNoDelay(1, 10, 2, 1)
		s.SetWindowSize(64, 64)
		s.SetDeadline(time.Now().Add(10 * time.Second))
		buf := make([]byte, 8192)
		got := 0
		for got < total {
			n, err := s.Read(buf)
			if err != nil {
				done <- err
				return
			}
			got += n
			if _, err := s.Write(buf[:n]); err != nil {
				done <- err
				return
			}
		}
		done <- nil
	}()
	go func() {
		a.SetDeadline(time.Now().Add(10 * time.Second))
		for _, n := range sizes {
			if _, err := a.Write(rng.bytes(n)); err != nil {
				done <- err
				return
			}
			time.Sleep(3 * time.Millisecond)
		}
		buf := make([]byte, 8192)
		got := 0
		for got < total {
			n, err := a.Read(buf)
			if err != nil {
				done <- err
				return
			}
			got += n
		}
		done <- nil
	}()
	var terr error
	for i := 0; i < 2; i++ {
		if err := <-done; err != nil && terr == nil {
			terr = err
			a.Close() // unblocks the other side
			l.Close()
		}
	}
	time.Sleep(30 * time.Millisecond) // let the last ACKs out
	tr := gateTraffic{toServer: ca.take(), toClient: cb.take(), conv: conv}
	a.Close()
	l.sessionLock.RLock()
	var ss []*UDPSession
	for _, s := range l.sessions {
		ss = append(ss, s)
	}
	l.sessionLock.RUnlock()
	for _, s := range ss {
		s.Close()
	}
	l.Close()
	ca.Close()
	cb.Close()
	return tr, terr
}

// ---------------------------------------------------------------- the test

type gateObs struct{ csum, kcperr, inpkts uint64 }

func gateCounters() gateObs {
	return gateObs{atomic.LoadUint64(&DefaultSnmp.InCsumErrors), atomic.LoadUint64(&DefaultSnmp.KCPInErrors), atomic.LoadUint64(&DefaultSnmp.InPkts)}
}

func TestVerifC06(t *testing.T) {
	// The machine may be heavily oversubscribed: keep the collector out of the way (snapshots
	// reuse their buffers; fewer Ps = cheaper stop-the-world phases).  Restored on exit.
	defer debug.SetGCPercent(debug.SetGCPercent(800))
	defer runtime.GOMAXPROCS(runtime.GOMAXPROCS(4))
	rng := newRng(vSeed())
	rep := newReport("C06")
	lg := newVlog(t, "C06.log")
	defer lg.close()
	// D/A lines per (configuration, target): the extracted CRC runs on inductive Z (~2.5 us per
	// byte, twice per line), so the decision log is a sample, evenly spread over configurations
	perTarget := 150
	if vThorough() {
		perTarget = 1500
	}
	logged, logBudget := 0, 0
	streamLikeChecks, streamLikeBad := 0, 0
	var trafficFailed []string
	nK := 0
	fecs := [][2]int{{0, 0}, {3, 2}}
	defer func() { // also runs when a t.Fatalf ends the test early: the report is always written
		rep.Extra["traffic_failed"] = trafficFailed
		rep.Extra["crc_compare_inputs"] = nK
		rep.Extra["decision_lines_logged"] = logged
		rep.Extra["stream_like_checks"] = streamLikeChecks
		rep.Extra["stream_like_mismatches"] = streamLikeBad
		rep.Extra["nontrivial_rule"] = "a fed failing datagram counts as non-trivial when the target session held received data (rcv_queue/rcv_buf non-empty), a reader carry-over (bufptr non-empty) and, with FEC on, at least one open shard group"
		rep.sample(map[string]any{"ciphers": len(gateCiphers()), "fec": fecs})
		rep.write(t, "C06.report.json")
	}()

	// ---- K lines: hash/crc32 vs the Coq model, random and structured inputs, lengths 0..1500
	kline := func(b []byte) {
		lg.printf("K %s %d\n", hx(b), crc32.ChecksumIEEE(b))
		nK++
	}
	for n := 0; n <= 1500; n++ {
		if vThorough() || n <= 64 || n%3 == int(vSeed()%3) || n >= 1490 {
			kline(rng.bytes(n))
		}
	}
	for _, n := range []int{0, 1, 2, 3, 4, 5, 7, 8, 9, 15, 16, 17, 31, 32, 33, 63, 64, 65, 255, 256, 1499, 1500} {
		kline(make([]byte, n))
		kline(bytes.Repeat([]byte{0xff}, n))
	}
	for p := 0; p < 64*8; p += 3 { // single set bit in 64 zero bytes
		b := make([]byte, 64)
		b[p/8] = 1 << uint(p%8)
		kline(b)
	}
	kline([]byte("123456789"))
	rep.Distribution["crc-compare-inputs"] = nK

	force := false
	feedLog := func(c gateCipher, block BlockCrypt, path string, wire []byte, v gateVerdict, before, after gateObs) {
		if logged >= logBudget && !force {
			return
		}
		logged++
		dc, dk, dp := after.csum-before.csum, after.kcperr-before.kcperr, after.inpkts-before.inpkts
		if c.aead {
			a := block.(*aeadCrypt)
			ok := 0
			if !v.fails {
				ok = 1
			}
			lg.printf("A %s %d %d %s %d %s %d %d %d\n", path, a.NonceSize(), a.Overhead(), hx(wire), ok, hx(v.dec), dc, dk, dp)
		} else {
			dec := v.dec
			if dec == nil {
				dec = wire
			}
			lg.printf("D %s %s %s %d %d %d\n", path, c.name, hx(dec), dc, dk, dp)
		}
	}

	for _, c := range gateCiphers() {
		for _, fec := range fecs {
			ds, ps := fec[0], fec[1]
			cfgName := fmt.Sprintf("%s/fec%d-%d", c.name, ds, ps)
			block, err := c.mk(rng.bytes(32))
			if err != nil {
				t.Fatalf("%s: %v", cfgName, err)
			}
			t0 := time.Now()
			tr, terr := gateRunTraffic(t, block, ds, ps, rng)
			tTraffic := time.Since(t0)
			if terr != nil || len(tr.toServer) < 8 || len(tr.toClient) < 8 {
				// no valid traffic to start from (the echo did not complete): nothing to corrupt
				// for this configuration; the run is reported as incomplete, the others go on
				t.Errorf("%s: real traffic did not complete (%v; captured %d/%d)", cfgName, terr, len(tr.toServer), len(tr.toClient))
				trafficFailed = append(trafficFailed, cfgName)
				continue
			}
			// every captured datagram must be valid (the gate is not vacuous on real output,
			// data and parity alike): monitor from the property's premise "valid datagram"
			nData, nParity, nOther := 0, 0, 0
			for _, set := range [][][]byte{tr.toServer, tr.toClient} {
				for _, d := range set {
					v := gateOracle(block, d)
					rep.Monitors["captured-datagram-passes-check"]++
					if v.fails {
						rep.violate("gate-valid-datagram-rejected:"+c.name, cfgName+": a datagram emitted by postProcess fails the integrity check", map[string]any{"config": cfgName, "datagram": hx(d)})
						continue
					}
					pl := v.dec
					if !c.aead {
						pl = v.dec[cryptHeaderSize:]
					}
					switch {
					case len(pl) >= 6 && binary.LittleEndian.Uint16(pl[4:]) == typeData:
						nData++
					case len(pl) >= 6 && binary.LittleEndian.Uint16(pl[4:]) == typeParity:
						nParity++
					default:
						nOther++
					}
				}
			}
			rep.Distribution["captured:"+cfgName] = len(tr.toServer) + len(tr.toClient)
			if ds > 0 && nParity == 0 {
				t.Fatalf("%s: no parity packet captured", cfgName)
			}
			rep.Distribution["captured-parity"] += nParity
			rep.Distribution["captured-fec-data"] += nData
			rep.Distribution["captured-plain"] += nOther

			// ---- targets
			logBudget = logged + 2*perTarget/5 // setup feeds (valid datagrams) of this configuration
			oob := &gateOOB{}
			oobcb := func([]byte) { atomic.AddInt64(&oob.n, 1) }
			skip := func(i int) bool { return i == 2 || i == 5 || i == 6 } // holes: out-of-order + open FEC groups
			// listener with two peers; one accepted (partial Read), one left in the backlog
			lc := gateNewConn("sink:L")
			lt, _ := ServeConn(block, ds, ps, lc)
			peers := []net.Addr{gateAddr("peer:A"), gateAddr("peer:B")}
			lfeed := func(d []byte, a net.Addr) { lt.packetInput(d, a) }
			for pi, pa := range peers {
				for i, d := range tr.toServer {
					if skip(i+pi) || i > 24+pi {
						continue
					}
					b0 := gateCounters()
					w := append([]byte(nil), d...)
					lfeed(w, pa)
					feedLog(c, block, "L", d, gateOracle(block, d), b0, gateCounters())
				}
			}
			lt.SetDeadline(time.Now().Add(5 * time.Second))
			acc, err := lt.AcceptKCP()
			if err != nil {
				t.Fatalf("%s: accept on the target listener: %v", cfgName, err)
			}
			// client session fed with the server->client stream
			sc := gateNewConn("sink:C")
			st, _ := NewConn3(tr.conv, gateAddr("server:1"), block, ds, ps, sc)
			for i, d := range tr.toClient {
				if skip(i) || i > 24 {
					continue
				}
				b0 := gateCounters()
				w := append([]byte(nil), d...)
				st.packetInput(w)
				feedLog(c, block, "S", d, gateOracle(block, d), b0, gateCounters())
			}
			// valid frames whose payload is below the minimum size: pass the check, are counted
			// (KCPInErrors on the session path, nothing on the listener path) - correspondence only
			if !c.aead {
				force = true
				for n := 0; n < 14; n++ {
					pl := rng.bytes(n)
					img := append(rng.bytes(nonceSize), 0, 0, 0, 0)
					img = append(img, pl...)
					binary.LittleEndian.PutUint32(img[nonceSize:], crc32.ChecksumIEEE(pl))
					d := gateEncrypt(block, img)
					if n >= 12 {
						continue // would reach kcpInput with junk: not wanted in the target state
					}
					b0 := gateCounters()
					st.packetInput(append([]byte(nil), d...))
					feedLog(c, block, "S", d, gateOracle(block, d), b0, gateCounters())
					b0 = gateCounters()
					lfeed(append([]byte(nil), d...), peers[0])
					feedLog(c, block, "L", d, gateOracle(block, d), b0, gateCounters())
				}
				force = false
			}
			for _, s := range []*UDPSession{acc, st} {
				s.SetNoDelay(1, 10, 2, 1)
				s.SetOOBHandler(oobcb)
				// partial reads: the rest of a message stays in recvbuf/bufptr
				one := make([]byte, 1)
				for k := 0; k < 6; k++ {
					s.SetReadDeadline(time.Now().Add(300 * time.Millisecond))
					if _, err := s.Read(one); err != nil {
						break
					}
					s.mu.Lock()
					carry := len(s.bufptr)
					s.mu.Unlock()
					if carry > 0 {
						break
					}
				}
				s.SetReadDeadline(time.Time{})
			}
			lt.sessionLock.RLock()
			for _, s := range lt.sessions {
				s.SetNoDelay(1, 10, 2, 1)
				s.SetOOBHandler(oobcb)
			}
			nsess := len(lt.sessions)
			lt.sessionLock.RUnlock()
			targets := []*gateTarget{
				{path: "listener", lst: lt, oob: oob, feed: lfeed,
					addrs: []net.Addr{peers[0], peers[1], gateAddr("peer:new1"), gateAddr("peer:new2")}},
				{path: "session", sess: st, oob: oob, feed: func(d []byte, _ net.Addr) { st.packetInput(d) },
					addrs: []net.Addr{gateAddr("server:1")}},
			}
			// a dialled session that has neither sent nor received anything yet: the very first datagram it
			// sees fails the check (a wrong key at the other end, line noise) - still no effect at all
			fresh, _ := NewConn3(tr.conv+777, gateAddr("server:1"), block, ds, ps, gateNewConn("sink:F"))
			fresh.SetOOBHandler(oobcb)
			defer fresh.Close()
			targets = append(targets, &gateTarget{path: "session-fresh", sess: fresh, oob: oob, feed: func(d []byte, _ net.Addr) { fresh.packetInput(d) },
				addrs: []net.Addr{gateAddr("server:1")}})
			if nsess != 2 || len(lt.chAccepts) != 1 {
				t.Fatalf("%s: target listener not in the intended state (sessions %d, backlog %d)", cfgName, nsess, len(lt.chAccepts))
			}
			richOf := func(s *UDPSession) bool {
				s.mu.Lock()
				defer s.mu.Unlock()
				r := s.kcp.rcv_buf.Len()+s.kcp.rcv_queue.Len() > 0 && len(s.bufptr) > 0
				if ds > 0 {
					r = r && s.fecDecoder != nil && len(s.fecDecoder.shardSet) > 0
				}
				return r
			}
			targets[0].rich = richOf(acc)
			targets[1].rich = richOf(st)

			// ---- the sweep
			sampleOf := func(set [][]byte) [][]byte {
				// shortest, longest, one parity (if any), one random
				var out [][]byte
				si, li, pi := 0, 0, -1
				for i, d := range set {
					if len(d) < len(set[si]) {
						si = i
					}
					if len(d) > len(set[li]) {
						li = i
					}
					v := gateOracle(block, d)
					pl := v.dec
					if !c.aead && len(pl) >= cryptHeaderSize {
						pl = pl[cryptHeaderSize:]
					}
					if pi < 0 && len(pl) >= 6 && binary.LittleEndian.Uint16(pl[4:]) == typeParity {
						pi = i
					}
				}
				out = append(out, set[si], set[li])
				if pi >= 0 {
					out = append(out, set[pi])
				}
				if vThorough() {
					out = append(out, set[rng.intn(len(set))], set[rng.intn(len(set))])
				}
				return out
			}
			budget := 500
			if vThorough() {
				budget = 1 << 30
			}
			for _, tg := range targets {
				tq := time.Now()
				if !gateQuiesce(tg) {
					t.Fatalf("%s/%s: target did not become quiescent", cfgName, tg.path)
				}
				t.Logf("%s/%s: setup done at %v, quiesce %v", cfgName, tg.path, tq.Sub(t0), time.Since(tq))
				src := tr.toServer
				if tg.path != "listener" {
					src = tr.toClient
				}
				var cases []gateCase
				samples := sampleOf(src)
				for _, d := range samples {
					cases = append(cases, gateCorruptions(c, block, d, rng, budget)...)
				}
				cases = append(cases, gateClearShaped(c, block, tr.conv, samples, rng, tg.lst != nil)...)
				// random datagrams of every length 0..1500 (quick: every third length + the edges)
				for n := 0; n <= 1500; n++ {
					if vThorough() || n <= 48 || n >= 1490 || n%3 == int(vSeed()%3) {
						short := n < cryptHeaderSize
						if c.aead {
							short = true // any datagram that is not a sealed frame
						}
						cases = append(cases, gateCase{kind: "random", wire: rng.bytes(n), guaranteed: short, detail: fmt.Sprintf("len %d", n)})
					}
				}
				logBudget = logged + perTarget
				violated := false
				nviol := 0
				seenSig := map[string]int{}
				var last *gateSnap
				snapA, snapB := &gateSnap{b: make([]byte, 0, 1<<16)}, &gateSnap{b: make([]byte, 0, 1<<16)}
				feedBuf := make([]byte, 0, 2048)
				for ci, cs := range cases {
					v := gateOracle(block, cs.wire)
					rep.Cases++
					rep.Steps++
					rep.Distribution[cs.kind]++
					if !v.fails {
						if cs.guaranteed {
							rep.Monitors["guaranteed-corruption-fails-check"]++
							rep.violate("gate-guaranteed-corruption-passed:"+c.name+":"+cs.kind,
								cfgName+": a corruption of the guaranteed class ("+cs.kind+", "+cs.detail+") passes the integrity check",
								map[string]any{"config": cfgName, "kind": cs.kind, "detail": cs.detail, "datagram": hx(cs.wire)})
						}
						rep.Distribution["not-fed:passes-check"]++
						continue // passes the check: outside the property, would legitimately change state
					}
					if cs.guaranteed {
						rep.Monitors["guaranteed-corruption-fails-check"]++
					}
					addr := tg.addrs[ci%len(tg.addrs)]
					switch cs.addrSel {
					case 1:
						addr = tg.addrs[0]
					case 2:
						addr = tg.addrs[len(tg.addrs)-1]
					}
					before := tg.snapshotInto(snapA)
					b0 := gateCounters()
					panicked := any(nil)
					func() {
						defer func() { panicked = recover() }()
						feedBuf = append(feedBuf[:0], cs.wire...) // packetInput decrypts in place
						tg.feed(feedBuf, addr)
					}()
					b1 := gateCounters()
					after := tg.snapshotInto(snapB)
					last = after
					rep.Monitors["no-effect:"+tg.path]++
					if tg.rich {
						rep.Nontrivial++
					}
					replay := map[string]any{"config": cfgName, "path": tg.path, "kind": cs.kind, "detail": cs.detail,
						"addr": addr.String(), "datagram": hx(cs.wire), "seed": vSeed()}
					if panicked != nil {
						rep.violate("gate-panic:"+tg.path+":"+c.name, fmt.Sprintf("%s: packetInput panicked on a datagram failing the check (%s): %v", cfgName, cs.kind, panicked), replay)
						violated = true
					}
					if !bytes.Equal(before.b, after.b) {
						diff := gateDiff(before, after)
						replay["changed"] = diff
						createdNow := tg.lst != nil && !bytes.Equal(before.table, after.table)
						sig := fmt.Sprintf("%v/%v/%s", diff, createdNow, cs.kind)
						violated = true
						// at most 2 reports per distinct effect and 16 per target: enough replayable
						// inputs of every kind without drowning in repetitions
						if seenSig[sig] < 2 {
							seenSig[sig]++
							nviol++
							if createdNow {
								rep.violate("gate-session-created", fmt.Sprintf("%s: a datagram failing the integrity check (%s, %s) changed the listener's session table", cfgName, cs.kind, cs.detail), replay)
							}
							rep.violate("gate-state-changed:"+tg.path+":"+c.name, fmt.Sprintf("%s: a datagram failing the integrity check (%s, %s) changed %v", cfgName, cs.kind, cs.detail, diff), replay)
							if nviol >= 16 {
								break
							}
							gateQuiesce(tg) // let whatever was triggered settle before the next comparison
						}
					}
					// correspondence log: a uniform sample of the fed datagrams, plus every
					// datagram around the header-size boundary
					if cs.alwaysLog || rng.intn(len(cases)) < perTarget || (len(cs.wire) >= 10 && len(cs.wire) <= 30 && rng.chance(10)) {
						force = cs.alwaysLog
						feedLog(c, block, map[string]string{"session": "S", "session-fresh": "S", "listener": "L"}[tg.path], cs.wire, v, b0, b1)
						force = false
					}
					// tie for the premise of c06_wire_level on the real stream-like ciphers
					if c.streamLike && cs.kind == "wire-bitflip" && cs.guaranteed {
						streamLikeChecks++
						// dec(d xor e) must equal dec(d) xor e on the real cipher
						want := gateOracle(block, cs.base).dec
						want[cs.bit/8] ^= 1 << uint(cs.bit%8)
						if !bytes.Equal(want, v.dec) {
							streamLikeBad++
						}
					}
				}
				// drift check: with no datagram fed the snapshot must still be what it was
				if last != nil && !violated {
					time.Sleep(60 * time.Millisecond)
					now := tg.snapshot()
					if !bytes.Equal(now.b, last.b) {
						t.Errorf("%s/%s: background drift after the sweep in %v - the quiescence argument does not hold", cfgName, tg.path, gateDiff(last, now))
					}
				}
				rep.Distribution["target:"+tg.path]++
				if tg.rich {
					rep.Distribution["target-nontrivial:"+tg.path]++
				}
			}
			t.Logf("%s: traffic %v, total %v", cfgName, tTraffic, time.Since(t0))
			// tear down
			st.Close()
			lt.sessionLock.RLock()
			var ss []*UDPSession
			for _, s := range lt.sessions {
				ss = append(ss, s)
			}
			lt.sessionLock.RUnlock()
			for _, s := range ss {
				s.Close()
			}
			lt.Close()
			lc.Close()
			sc.Close()
		}
	}
	if len(rep.Violations) > 0 {
		t.Logf("C06: %d violation(s), first: %s", len(rep.Violations), rep.Violations[0].What)
	}
}
