//go:build verif

package kcp

// Engine `fec`: properties C07 (FEC reconstructs exactly the missing packets from any k of n)
// and C16 (ratio mismatch is harmless, the decoder converges to the peer's ratio).
//
// The harness drives the REAL fecEncoder / fecDecoder / autoTune (built in-package with
// newFECEncoder / newFECDecoder) on generated packet sequences under a fake clock
// (testing/synctest: fecEncoder.encode reads time.Now()), writes an op log that the extracted
// Coq model (coq/fec/Fec.v instantiated with the independent Rs.v) replays byte for byte, and
// runs monitors written from the property text (independent of the model).
//
// Op log (space separated; byte strings lower-case hex, "-" = empty):
//   C <id> <class>                           new case
//   E <d> <p> <hoff> <next>                  encoder, positioned at seqid next (group aligned)
//   D <d> <p>                                newFECDecoder(d, p)
//   e <buf> <now> <rto> > <data> <k> <parity>*k | <next> <count> <max>
//   o <buf> > <pkt>                          encodeOOB
//   d <pkt> > <k> <rec>*k | <d> <p> <ss> <paws> <newest> <tune> | <g> (<id>:<seq,seq..>)*g | <head> <tail> <count> <hash>
//   d <pkt> > panic
//   T                                        fresh autoTune
//   s <bit> <seq>                            Sample
//   f <bit> > <v>                            FindPeriod

import (
	"encoding/binary"
	"fmt"
	"sort"
	"strings"
	"testing"
	"testing/synctest"
	"time"
)

// fecRng: the splitmix64 stream of this engine.  newRng(seed) starts at state seed*gamma+c and
// every draw adds gamma, so newRng(k+1) is newRng(k) shifted by one draw (the streams of
// neighbouring seeds re-synchronise as soon as one of them draws one value more); the state is
// therefore taken from the OUTPUT of the seed's stream, which decorrelates neighbouring seeds.
func fecRng(stream int) *vrng {
	r := newRng(vSeed())
	for i := 0; i < stream; i++ {
		r.u64()
	}
	return newRng(r.u64())
}

// at most three replays per key, so that one failing class cannot crowd out another
func fecViolate(rep *vreport, key, what string, replay any) {
	rep.Distribution["violations:"+key]++
	if rep.Distribution["violations:"+key] <= 3 {
		rep.violate(key, what, replay)
	}
}

// ------------------------------------------------------------------ logging

type fecLogger struct {
	l  *vlog
	on bool // log the current case (model comparison) or run it for the monitors only
}

func (g *fecLogger) printf(format string, a ...any) {
	if g.on {
		g.l.printf(format, a...)
	}
}

func fecHexList(xs [][]byte) string {
	var sb strings.Builder
	fmt.Fprintf(&sb, "%d", len(xs))
	for _, x := range xs {
		sb.WriteByte(' ')
		sb.WriteString(hx(x))
	}
	return sb.String()
}

func fecTuneHash(t *autoTune) uint64 {
	h := uint64(0)
	for i := 0; i < t.count; i++ {
		p := t.pulses[(t.head+i)%maxAutoTuneSamples]
		b := uint64(0)
		if p.bit {
			b = 1
		}
		h = (h*131 + uint64(p.seq)*2 + b) % 1000000007
	}
	return h
}

func fecDecState(dec *fecDecoder) string {
	var sb strings.Builder
	tune := 0
	if dec.shouldTune {
		tune = 1
	}
	fmt.Fprintf(&sb, "%d %d %d %d %d %d |", dec.dataShards, dec.parityShards, dec.shardSize, dec.paws, dec.newestShardId, tune)
	ids := make([]uint32, 0, len(dec.shardSet))
	for id := range dec.shardSet {
		ids = append(ids, id)
	}
	sort.Slice(ids, func(i, j int) bool { return ids[i] < ids[j] })
	fmt.Fprintf(&sb, " %d", len(ids))
	for _, id := range ids {
		sh := dec.shardSet[id]
		seqs := make([]uint32, 0, len(sh.elements))
		for _, e := range sh.elements {
			seqs = append(seqs, e.seqid())
		}
		sort.Slice(seqs, func(i, j int) bool { return seqs[i] < seqs[j] })
		fmt.Fprintf(&sb, " %d:", id)
		if len(seqs) == 0 {
			sb.WriteByte('-')
		}
		for i, s := range seqs {
			if i > 0 {
				sb.WriteByte(',')
			}
			fmt.Fprintf(&sb, "%d", s)
		}
	}
	fmt.Fprintf(&sb, " | %d %d %d %d", dec.autoTune.head, dec.autoTune.tail, dec.autoTune.count, fecTuneHash(&dec.autoTune))
	return sb.String()
}

// fecDecode calls the real decoder (recovering a runtime panic), copies the recovered shards
// and logs the call with its full observable result and the state projection.
func fecDecode(lg *fecLogger, dec *fecDecoder, pkt []byte) (rec [][]byte, panicked bool) {
	in := append([]byte(nil), pkt...)
	func() {
		defer func() {
			if r := recover(); r != nil {
				panicked = true
			}
		}()
		out := dec.decode(fecPacket(in))
		for _, r := range out {
			rec = append(rec, append([]byte(nil), r...))
		}
	}()
	if panicked {
		lg.printf("d %s > panic\n", hx(pkt))
		return
	}
	if len(rec) > 0 && dec.shouldTune {
		fecEmittedWhileTuning++ // a decoder that knows its ratio is wrong hands nothing to the session (checked by the callers)
	}
	if lg.on {
		lg.printf("d %s > %s | %s\n", hx(pkt), fecHexList(rec), fecDecState(dec))
	}
	return
}

// calls of decode that returned reconstructed packets while the decoder was (still) suspended for
// re-tuning: under a layout it has already seen contradicted, anything it reconstructs is garbage
var fecEmittedWhileTuning int

// ------------------------------------------------------------------ sender side

type fecGroup struct {
	base     uint32   // seqid of data packet 0
	payloads [][]byte // the d original payloads (what the session would feed to kcp.Input)
	pkts     [][]byte // data 0..d-1 then parity 0..p-1 (empty parity list when skipped), from the FEC header on
	skipped  bool
}

type fecSender struct {
	d, p, hoff int
	enc        *fecEncoder
	paws       uint32
	lastTs     int64 // time of the previous encode (0 = none yet, as tsLatestPacket)
	lastGap    int64 // gap between the last two encodes
	broken     bool  // encode panicked in this case: the layout monitors are void for it
}

func fecNewSender(lg *fecLogger, d, p, hoff int, next uint32) *fecSender {
	enc := newFECEncoder(d, p, hoff)
	enc.next = next // a state the encoder reaches by itself after next/(d+p) groups
	lg.printf("E %d %d %d %d\n", d, p, hoff, next)
	return &fecSender{d: d, p: p, hoff: hoff, enc: enc, paws: enc.paws}
}

// encode one payload through the real encoder; returns the data packet and the parity packets
func (s *fecSender) encode(lg *fecLogger, payload []byte, gap time.Duration, rep *vreport, mon bool) (data []byte, parity [][]byte) {
	if gap > 0 {
		time.Sleep(gap)
	}
	b := make([]byte, s.hoff+fecHeaderSizePlus2+len(payload))
	for i := range b[:s.hoff+fecHeaderSizePlus2] {
		b[i] = 0xEE // stale bytes in the reserved header area must not matter
	}
	copy(b[s.hoff+fecHeaderSizePlus2:], payload)
	buf := append([]byte(nil), b[s.hoff:]...)
	now := time.Now().UnixMilli()
	s.lastGap, s.lastTs = now-s.lastTs, now
	expectID := s.enc.next
	cntBefore := s.enc.shardCount
	var ps [][]byte
	panicked := false
	func() {
		defer func() {
			if r := recover(); r != nil {
				panicked = true
			}
		}()
		ps = s.enc.encode(b, maxFECEncodeLatency)
	}()
	if panicked {
		fecViolate(rep, "C07/encoder-panic", fmt.Sprintf("fecEncoder.encode panicked on a buffer of %d bytes (headerOffset %d)", len(b), s.hoff),
			map[string]any{"d": s.d, "p": s.p, "hoff": s.hoff, "buf": hx(buf), "shardCount": cntBefore})
		lg.printf("e %s %d %d > panic\n", hx(buf), now, maxFECEncodeLatency)
		// the object is half-updated: start over with a fresh encoder at the next group boundary
		next := (expectID/uint32(s.d+s.p) + 1) * uint32(s.d+s.p) % s.paws
		s.enc = newFECEncoder(s.d, s.p, s.hoff)
		s.enc.next = next
		lg.printf("E %d %d %d %d\n", s.d, s.p, s.hoff, next)
		s.broken = true
		return append([]byte(nil), b[s.hoff:]...), nil
	}
	data = append([]byte(nil), b[s.hoff:]...)
	for _, q := range ps {
		parity = append(parity, append([]byte(nil), q[s.hoff:]...))
	}
	lg.printf("e %s %d %d > %s %s | %d %d %d\n", hx(buf), now, maxFECEncodeLatency, hx(data), fecHexList(parity), s.enc.next, s.enc.shardCount, s.enc.maxSize)
	if mon && !s.broken {
		// layout monitor (property text / wire format): seqid, type, size field, payload verbatim
		rep.Monitors["encoder-layout"]++
		bad := ""
		switch {
		case binary.LittleEndian.Uint32(data) != expectID:
			bad = "seqid"
		case binary.LittleEndian.Uint16(data[4:]) != typeData:
			bad = "type"
		case int(binary.LittleEndian.Uint16(data[6:])) != len(payload)+2:
			bad = "size-field"
		case string(data[8:]) != string(payload):
			bad = "payload"
		case expectID >= s.paws || int(expectID%uint32(s.d+s.p)) != cntBefore:
			bad = "id-alignment"
		}
		if bad != "" {
			fecViolate(rep, "C07/encoder-layout/"+bad, "fecEncoder.encode: data packet layout ("+bad+")",
				map[string]any{"d": s.d, "p": s.p, "hoff": s.hoff, "buf": hx(buf), "out": hx(data)})
		}
	}
	return
}

// fecSizes returns d payload lengths for a size-vector kind
func fecSizes(r *vrng, kind, d, hoff int) []int {
	sz := make([]int, d)
	switch kind {
	case 0: // all equal
		l := 1 + r.intn(16)
		for i := range sz {
			sz[i] = l
		}
	case 1: // strictly increasing
		l := r.intn(6)
		for i := range sz {
			sz[i] = l + i*(1+r.intn(3))
			if i > 0 && sz[i] <= sz[i-1] {
				sz[i] = sz[i-1] + 1
			}
		}
	case 2: // one maximal (rarely the true maximum mtuLimit, mostly a long one)
		for i := range sz {
			sz[i] = 1 + r.intn(12)
		}
		long := 100 + r.intn(200)
		if r.intn(12) == 0 {
			long = mtuLimit - hoff - fecHeaderSizePlus2
		}
		sz[r.intn(d)] = long
	default: // one minimal (empty payload or a bare 24-byte KCP header), the others longer
		for i := range sz {
			sz[i] = 25 + r.intn(16)
		}
		sz[r.intn(d)] = r.pick(0, 0, 1, 24)
	}
	return sz
}

// make one group: d payloads through the real encoder; skip => the last data packet comes
// >= 500 ms after the previous one so that the encoder skips the parity
func (s *fecSender) group(lg *fecLogger, r *vrng, sizes []int, skip bool, rep *vreport, mon bool) *fecGroup {
	g := &fecGroup{base: s.enc.next}
	for i := 0; i < s.d; i++ {
		pl := r.bytes(sizes[i])
		gap := time.Duration(1+r.intn(20)) * time.Millisecond
		if i == s.d-1 {
			if skip {
				gap = time.Duration(maxFECEncodeLatency+r.intn(300)) * time.Millisecond
			} else {
				gap = time.Duration(r.pick(0, 1, 10, maxFECEncodeLatency-1)) * time.Millisecond
			}
		}
		data, par := s.encode(lg, pl, gap, rep, mon)
		g.payloads = append(g.payloads, pl)
		g.pkts = append(g.pkts, data)
		if i == s.d-1 {
			// the sender skips the parity iff the last two data packets were >= 500 ms apart (a fresh
			// encoder has seen "a packet at time 0": with d = 1 its very first group has no parity)
			skip = s.lastGap >= maxFECEncodeLatency
			g.skipped = skip
			if mon && !s.broken {
				rep.Monitors["encoder-parity-shape"]++
				mx := 0
				for _, q := range g.pkts {
					mx = max(mx, len(q))
				}
				ok := (skip && len(par) == 0) || (!skip && len(par) == s.p)
				for k, q := range par {
					id := (g.base + uint32(s.d+k)) % s.paws
					if len(q) != mx || binary.LittleEndian.Uint32(q) != id || binary.LittleEndian.Uint16(q[4:]) != typeParity {
						ok = false
					}
				}
				want := (g.base + uint32(s.d+s.p)) % s.paws
				if s.enc.next != want || s.enc.shardCount != 0 || s.enc.maxSize != 0 {
					ok = false
				}
				if !ok {
					fecViolate(rep, "C07/encoder-parity-shape", "fecEncoder.encode: parity count/length/ids or group reset wrong",
						map[string]any{"d": s.d, "p": s.p, "base": g.base, "skip": skip, "parity": len(par)})
				}
			}
			g.pkts = append(g.pkts, par...)
		} else if len(par) != 0 && mon {
			fecViolate(rep, "C07/encoder-early-parity", "parity emitted before the group is complete", map[string]any{"d": s.d, "p": s.p})
		}
	}
	return g
}

// ------------------------------------------------------------------ receiver-side monitors (property text)

type fecOrig struct {
	ord      int // position of the group in the sender's order
	payloads [][]byte
	d        int
	received map[uint32]bool
	base     uint32
	paws     uint32
}

type fecMonitor struct {
	rep    *vreport
	groups map[uint32]*fecOrig // keyed by the seqid of data packet 0
	ss     uint32
	d, p   int
	trace  []string // arrival trace for replays
	prop   string
	missKey string // key of the "missing not recovered" alarm (names the case class)
	newestOrd int // the most advanced group (sender order) of which a packet has arrived
	recov  int // packets recovered (all of them checked to be originals)
	demand int // data packets whose reconstruction the property demanded
}

func fecNewMonitor(rep *vreport, prop string, d, p int) *fecMonitor {
	return &fecMonitor{rep: rep, groups: map[uint32]*fecOrig{}, ss: uint32(d + p), d: d, p: p, prop: prop, missKey: prop + "/missing-not-recovered"}
}

func (m *fecMonitor) add(g *fecGroup, paws uint32) {
	m.groups[g.base] = &fecOrig{ord: len(m.groups) + 1, payloads: g.payloads, d: m.d, received: map[uint32]bool{}, base: g.base, paws: paws}
}

// strip the 2-byte size exactly as the session does; ok=false if the session would drop it
func fecStrip(r []byte) ([]byte, bool) {
	if len(r) < 2 {
		return nil, false
	}
	sz := int(binary.LittleEndian.Uint16(r))
	if sz < 2 || sz > len(r) {
		return nil, false
	}
	return r[2:sz], true
}

// observe one decode call on a packet of a matching sender: pkt went in, rec came out
func (m *fecMonitor) observe(pkt []byte, rec [][]byte, retained bool) {
	seq := binary.LittleEndian.Uint32(pkt)
	base := seq - seq%m.ss
	g := m.groups[base]
	m.trace = append(m.trace, hx(pkt[:min(len(pkt), 8)]))
	replay := func() map[string]any {
		return map[string]any{"d": m.d, "p": m.p, "group_base": base, "arrivals(header)": m.trace}
	}
	if g == nil { // positioning packet / foreign group: nothing is known about it, nothing may come out
		m.rep.Monitors["only-originals"]++
		if len(rec) != 0 {
			fecViolate(m.rep, m.prop+"/only-originals/unknown-group", "decoder emitted packets for a group with a single known packet", replay())
		}
		return
	}
	before := len(g.received)
	g.received[seq] = true
	after := len(g.received)
	// "still among the few most recent groups": at most two groups behind the most advanced group
	// seen so far (what the decoder keeps in every position of the id space, c07_wrap)
	m.newestOrd = max(m.newestOrd, g.ord)
	retained = retained && m.newestOrd-g.ord <= 2
	// (1) recovered subset of originals of that group, exact bytes and lengths
	m.rep.Monitors["only-originals"]++
	var got [][]byte
	for _, r := range rec {
		pl, ok := fecStrip(r)
		found := false
		if ok {
			for _, o := range g.payloads {
				if string(o) == string(pl) {
					found = true
				}
			}
			// the padding behind the payload must be zero (the shard is the zero padded image)
			for _, z := range r[2+len(pl):] {
				if z != 0 {
					found = false
				}
			}
		}
		if !found {
			fecViolate(m.rep, m.prop+"/only-originals", "decoder emitted a packet that is not an original data packet of that group",
				map[string]any{"case": replay(), "emitted": hx(r)})
		}
		got = append(got, pl)
		m.recov++
	}
	// (2) nothing is emitted before k distinct packets of the group arrived
	m.rep.Monitors["nothing-before-k"]++
	if after < g.d && len(rec) != 0 {
		fecViolate(m.rep, m.prop+"/emit-before-k", "decoder emitted packets although fewer than dataShards distinct packets of the group were received", replay())
	}
	// (3) as soon as the k-th distinct packet arrives (group still retained): every data packet
	// not received is reconstructed
	if before < g.d && after == g.d && retained {
		m.rep.Monitors["missing-recovered-at-k"]++
		for i := 0; i < g.d; i++ {
			id := (g.base + uint32(i)) % g.paws
			if g.received[id] {
				continue
			}
			m.demand++
			found := false
			for _, pl := range got {
				if string(pl) == string(g.payloads[i]) {
					found = true
				}
			}
			if !found {
				fecViolate(m.rep, m.missKey, fmt.Sprintf("k distinct packets of a retained group arrived but data packet %d was not reconstructed", i), replay())
			}
		}
	}
}

// stability: a matching sender never changes (d, p) nor sets shouldTune
func (m *fecMonitor) stable(dec *fecDecoder) {
	m.rep.Monitors["stability"]++
	if dec.dataShards != m.d || dec.parityShards != m.p || dec.shouldTune {
		fecViolate(m.rep, m.prop+"/stability", "genuine packets of a matching sender changed the decoder's ratio or suspended decoding",
			map[string]any{"d": m.d, "p": m.p, "now_d": dec.dataShards, "now_p": dec.parityShards, "tune": dec.shouldTune, "arrivals(header)": m.trace})
	}
}

// positioning.  A decoder takes its position in the id space from the first packet it stores
// (and again after a re-tune); group ids are then compared by SIGNED 32-bit difference.  Half of
// the cases feed a FRESH decoder directly ("late join": before repair f7e57a2 such a decoder,
// joined above 2^31, dropped every group - finding fec-late-join-no-recovery); the other half
// first walk it there with one or two well-typed packets (each < 2^31 ahead of the previous one,
// far behind the groups under test) - the state of a long-running connection.
func fecPosition(lg *fecLogger, r *vrng, dec *fecDecoder, m *fecMonitor, base uint32, ss uint32) (walked bool) {
	var hops []uint32
	switch {
	case uint64(base)+8*uint64(ss) < 0x80000000:
	case base < 0x80000000:
		hops = []uint32{base - 16*ss}
	case base < 0xc0000000:
		hops = []uint32{0x7fffff00 / ss * ss}
	default:
		hops = []uint32{0x7fffff00 / ss * ss, 0xbfffff00 / ss * ss}
	}
	if len(hops) == 0 || r.chance(50) {
		if len(hops) > 0 {
			m.rep.Distribution["decoder:fresh-late-join"]++
			m.missKey = "fec-late-join-no-recovery"
		}
		return false
	}
	m.rep.Distribution["decoder:walked-to-position"]++
	for _, h := range hops {
		pkt := make([]byte, 9)
		binary.LittleEndian.PutUint32(pkt, h) // h mod ss == 0: a data position
		binary.LittleEndian.PutUint16(pkt[4:], typeData)
		binary.LittleEndian.PutUint16(pkt[6:], 3)
		rec, _ := fecDecode(lg, dec, pkt)
		m.observe(pkt, rec, false)
	}
	return true
}

// ------------------------------------------------------------------ arrival generation

type fecArrival struct {
	pkt []byte
}

func fecShuffle(r *vrng, xs [][]byte) {
	for i := len(xs) - 1; i > 0; i-- {
		j := r.intn(i + 1)
		xs[i], xs[j] = xs[j], xs[i]
	}
}

// arrivals of three neighbouring groups: subject mask exhaustive, neighbours random subsets,
// order kind 0 = as sent, 1 = reversed, 2 = shuffled; duplicates sprinkled in
func fecArrivals(r *vrng, groups []*fecGroup, subject int, mask uint64, order int) [][]byte {
	var seq [][]byte
	for gi, g := range groups {
		for i, p := range g.pkts {
			take := false
			if gi == subject {
				take = mask>>uint(i)&1 == 1
			} else {
				take = r.chance(60)
			}
			if take {
				seq = append(seq, p)
			}
		}
	}
	switch order {
	case 1:
		for a, b := 0, len(seq)-1; a < b; a, b = a+1, b-1 {
			seq[a], seq[b] = seq[b], seq[a]
		}
	case 2:
		fecShuffle(r, seq)
	}
	// duplicates: re-deliver some packets at a random later point
	n := len(seq)
	for i := 0; i < n; i++ {
		if r.chance(15) {
			at := i + 1 + r.intn(len(seq)-i)
			seq = append(seq, nil)
			copy(seq[at+1:], seq[at:])
			seq[at] = seq[i]
		}
	}
	return seq
}

func fecPositions(r *vrng, ss uint32) (uint32, string) {
	paws := uint32(0xffffffff) / ss * ss
	switch r.intn(9) {
	case 0:
		return 0, "pos:0"
	case 1:
		return (uint32(r.u64()) % 0x7ff00000) / ss * ss, "pos:low-half"
	case 2:
		return (0x80000000 + uint32(r.u64())%0x7f000000) / ss * ss, "pos:high-half"
	case 3:
		return (0x80000000/ss - 1) * ss, "pos:2^31"
	case 4:
		return paws - 3*ss, "pos:paws-3ss"
	case 5:
		return paws - 2*ss, "pos:paws-2ss"
	case 6:
		return paws - ss, "pos:paws-ss"
	case 7:
		return ss, "pos:ss"
	default:
		return (uint32(r.u64()) % paws) / ss * ss, "pos:random"
	}
}

// ------------------------------------------------------------------ C07

// one C07 case: three consecutive groups from the real encoder, arrivals into a fresh real decoder
func fecCaseC07(lg *fecLogger, r *vrng, rep *vreport, id int, d, p int, sizeKind int, mask uint64, order int, class string) {
	ss := uint32(d + p)
	base, posName := fecPositions(r, ss)
	hoff := r.pick(0, 0, 20, 24)
	lg.printf("C %d C07 d=%d p=%d size=%d order=%d %s %s\n", id, d, p, sizeKind, order, posName, class)
	rep.Distribution[posName]++
	rep.Distribution[fmt.Sprintf("size-vector:%d", sizeKind)]++
	rep.Distribution[fmt.Sprintf("order:%d", order)]++
	snd := fecNewSender(lg, d, p, hoff, base)
	var groups []*fecGroup
	anySkip := false
	for gi := 0; gi < 3; gi++ {
		skip := r.chance(12)
		anySkip = anySkip || skip
		kind := sizeKind
		if gi != 1 {
			kind = r.intn(4)
		}
		groups = append(groups, snd.group(lg, r, fecSizes(r, kind, d, hoff), skip, rep, true))
	}
	if anySkip {
		rep.Distribution["parity-skipped"]++
	}
	subj := groups[1]
	if uint64(1)<<uint(len(subj.pkts)) <= mask { // parity skipped: fewer packets than mask bits
		mask &= uint64(1)<<uint(len(subj.pkts)) - 1
	}
	dec := newFECDecoder(d, p)
	lg.printf("D %d %d\n", d, p)
	mon := fecNewMonitor(rep, "C07", d, p)
	for _, g := range groups {
		mon.add(g, snd.paws)
	}
	fecPosition(lg, r, dec, mon, base, ss)
	arr := fecArrivals(r, groups, 1, mask, order)
	for _, pkt := range arr {
		rec, panicked := fecDecode(lg, dec, pkt)
		rep.Steps++
		if panicked {
			fecViolate(rep, "C07/panic", "fecDecoder.decode panicked on a genuine packet", map[string]any{"d": d, "p": p, "pkt": hx(pkt)})
			return
		}
		mon.observe(pkt, rec, true)
		mon.stable(dec)
	}
	rep.Cases++
	// non-trivial: a reconstruction of at least one missing data packet was demanded and checked
	if mon.demand > 0 {
		rep.Nontrivial++
	}
	rep.Distribution["recovered-packets"] += mon.recov
	rep.Distribution["demanded-reconstructions"] += mon.demand
	if len(rep.Samples) < 2 && mon.demand > 0 {
		rep.sample(map[string]any{"d": d, "p": p, "pos": posName, "arrivals(header)": mon.trace, "demanded": mon.demand})
	}
}

func TestVerifC07(t *testing.T) {
	synctest.Test(t, func(t *testing.T) {
		r := fecRng(0)
		rep := newReport("C07")
		lg := &fecLogger{l: newVlog(t, "C07.log"), on: true}
		defer lg.l.close()
		bound := 6
		orders := 3
		logEvery := 1
		if vThorough() {
			bound, orders, logEvery = 9, 2, 10
		}
		bound = vEnvInt("VERIF_FEC_BOUND", bound)
		id := 0
		for n := 2; n <= bound; n++ {
			for d := 1; d < n; d++ {
				p := n - d
				for mask := uint64(0); mask < 1<<uint(n); mask++ {
					for sk := 0; sk < 4; sk++ {
						for o := 0; o < orders; o++ {
							id++
							lg.on = id%logEvery == 0
							ord := o
							if vThorough() && o == 1 {
								ord = 2
							}
							fecCaseC07(lg, r, rep, id, d, p, sk, mask, ord, "exhaustive")
						}
					}
				}
			}
		}
		rep.Extra["exhaustive_bound_d_plus_p"] = bound
		// sampled larger ratios (codec construction near d+p = 255 costs 0.1-0.5 s: very sparse)
		type dp struct{ d, p, n int }
		large := []dp{{10, 3, 12}, {3, 10, 4}, {20, 10, 3}, {16, 16, 2}, {1, 30, 2}, {30, 1, 2}, {128, 127, 1}}
		if vThorough() {
			large = []dp{{10, 3, 200}, {3, 10, 60}, {20, 10, 30}, {16, 16, 20}, {1, 30, 10}, {30, 1, 10}, {64, 32, 4}, {128, 127, 2}, {254, 1, 2}, {1, 254, 2}, {100, 155, 1}, {128, 128, 1}}
		}
		for _, c := range large {
			for k := 0; k < c.n; k++ {
				id++
				lg.on = k == 0 || !vThorough()
				n := c.d + c.p
				// random arrival subset: between d-1 and n packets present
				mask := make([]bool, n)
				perm := make([]int, n)
				for i := range perm {
					perm[i] = i
				}
				for i := n - 1; i > 0; i-- {
					j := r.intn(i + 1)
					perm[i], perm[j] = perm[j], perm[i]
				}
				keep := c.d - 1 + r.intn(c.p+2)
				for _, i := range perm[:min(keep, n)] {
					mask[i] = true
				}
				fecCaseLarge(lg, r, rep, id, c.d, c.p, mask)
			}
		}
		// robustness boundary of decode: lengths 0..9 and mtuLimit-1..mtuLimit+1 (C05 relies on
		// decode being total for 8 <= len <= 1500); the model's Panic outcomes must coincide
		lg.on = true
		fecCaseLengths(lg, r, rep, &id)
		lg.printf("X\n")
		rep.write(t, "C07.report.json")
		t.Logf("C07: cases=%d nontrivial=%d steps=%d violations=%d", rep.Cases, rep.Nontrivial, rep.Steps, len(rep.Violations))
	})
}

// large ratios: a single group pattern over three groups, arrival subset given for the subject
func fecCaseLarge(lg *fecLogger, r *vrng, rep *vreport, id int, d, p int, present []bool) {
	ss := uint32(d + p)
	base, posName := fecPositions(r, ss)
	hoff := 0
	lg.printf("C %d C07 d=%d p=%d %s large\n", id, d, p, posName)
	rep.Distribution[posName]++
	rep.Distribution["large-ratio"]++
	snd := fecNewSender(lg, d, p, hoff, base)
	var groups []*fecGroup
	for gi := 0; gi < 2; gi++ {
		sz := make([]int, d)
		for i := range sz {
			sz[i] = 1 + r.intn(6)
		}
		groups = append(groups, snd.group(lg, r, sz, false, rep, true))
	}
	dec := newFECDecoder(d, p)
	lg.printf("D %d %d\n", d, p)
	mon := fecNewMonitor(rep, "C07", d, p)
	for _, g := range groups {
		mon.add(g, snd.paws)
	}
	fecPosition(lg, r, dec, mon, base, ss)
	var arr [][]byte
	for i, pk := range groups[0].pkts {
		if present[i] {
			arr = append(arr, pk)
		}
	}
	for _, pk := range groups[1].pkts {
		if r.chance(80) {
			arr = append(arr, pk)
		}
	}
	if r.chance(50) {
		fecShuffle(r, arr)
	}
	for _, pkt := range arr {
		rec, panicked := fecDecode(lg, dec, pkt)
		rep.Steps++
		if panicked {
			fecViolate(rep, "C07/panic", "fecDecoder.decode panicked on a genuine packet", map[string]any{"d": d, "p": p, "pkt": hx(pkt)})
			return
		}
		mon.observe(pkt, rec, true)
		mon.stable(dec)
	}
	rep.Cases++
	if mon.demand > 0 {
		rep.Nontrivial++
	}
	rep.Distribution["recovered-packets"] += mon.recov
	rep.Distribution["demanded-reconstructions"] += mon.demand
}

// packets of every short length and around mtuLimit into a decoder (well-typed headers when long enough)
func fecCaseLengths(lg *fecLogger, r *vrng, rep *vreport, id *int) {
	for _, cfg := range [][2]int{{1, 1}, {2, 1}, {3, 2}} {
		d, p := cfg[0], cfg[1]
		*id++
		lg.printf("C %d C07 d=%d p=%d lengths\n", *id, d, p)
		dec := newFECDecoder(d, p)
		lg.printf("D %d %d\n", d, p)
		seq := uint32(r.intn(1000)) * uint32(d+p)
		for _, n := range []int{0, 1, 3, 4, 5, 6, 6, 7, 8, 9, mtuLimit - 1, mtuLimit, mtuLimit + 1, mtuLimit + 1, 2000, 6, 6, 7} {
			pkt := r.bytes(n)
			if n >= 6 {
				binary.LittleEndian.PutUint32(pkt, seq)
				ty := uint16(typeParity)
				if int(seq%uint32(d+p)) < d {
					ty = typeData
				}
				binary.LittleEndian.PutUint16(pkt[4:], ty)
			}
			if n >= 8 {
				binary.LittleEndian.PutUint16(pkt[6:], uint16(n-6))
			}
			seq++
			_, panicked := fecDecode(lg, dec, pkt)
			rep.Steps++
			rep.Monitors["total-for-8..1500"]++
			rep.Distribution[fmt.Sprintf("len-class:%s", fecLenClass(n))]++
			if panicked { // a panic leaves the Go object half-updated; the model has no state after Panic
				dec = newFECDecoder(d, p)
				lg.printf("D %d %d\n", d, p)
			}
			if panicked && n >= fecHeaderSizePlus2 && n <= mtuLimit {
				fecViolate(rep, "C07/decode-panics-in-range", fmt.Sprintf("fecDecoder.decode panicked on a packet of length %d (8 <= len <= 1500)", n), map[string]any{"d": d, "p": p, "pkt": hx(pkt)})
			}
		}
		rep.Cases++
	}
}

func fecLenClass(n int) string {
	switch {
	case n < 6:
		return "<6"
	case n < 8:
		return "6-7"
	case n <= mtuLimit:
		return "8..1500"
	}
	return ">1500"
}

// ------------------------------------------------------------------ C16

// a packet with only a header and a tiny body, typed by the pattern (d, p) at seqid s
func fecTyped(s uint32, d, p int, body byte) []byte {
	pkt := make([]byte, 9)
	binary.LittleEndian.PutUint32(pkt, s)
	ty := uint16(typeParity)
	if int(s%uint32(d+p)) < d {
		ty = typeData
	}
	binary.LittleEndian.PutUint16(pkt[4:], ty)
	binary.LittleEndian.PutUint16(pkt[6:], 3)
	pkt[8] = body
	return pkt
}

// fecSwapRun: the next convergence cases run over a stream with adjacent swaps (see fecCaseConverge)
var fecSwapRun bool

type fecConvResult struct {
	n         int  // packets of the run fed when (d,p,!tune) first held for good (-1: never)
	bound     int
	converged bool
}

// one convergence case: receiver (dr,pr), sender (d,p), pre-run, then an uninterrupted run
func fecCaseConverge(lg *fecLogger, r *vrng, rep *vreport, id int, d, p, dr, pr int, pre int, startKind int) {
	ss := uint32(d + p)
	paws := uint32(0xffffffff) / ss * ss
	bound := maxAutoTuneSamples + 2*(d+p)
	runLen := bound
	if fecSwapRun {
		// a run in which two neighbouring packets of every group arrive swapped (nothing lost, nothing
		// duplicated): FindPeriod sorts its samples, so the ratio is still found - within twice the bound
		// of the in-order run (a swapped pair may straddle the edge of the sample window)
		runLen = 2 * bound
		lg.on = false
	}
	total := runLen + 3*int(ss) // the run, then the rest of the group and two more groups
	// the run starts at an arbitrary id, the encoder at the group boundary before it
	var base uint32
	var startName string
	switch startKind {
	case 0:
		base, startName = 0, "start:0"
	case 1:
		base, startName = uint32(r.intn(3000))/ss*ss, "start:<4096"
	case 2:
		base, startName = (uint32(r.u64())%0x7f000000)/ss*ss, "start:low-half"
	case 3:
		base, startName = (0x80000000+uint32(r.u64())%0x7e000000)/ss*ss, "start:high-half"
	case 4:
		base, startName = (0x80000000/ss-uint32(r.intn(3)))*ss, "start:2^31"
	default: // ends just before the sender's wrap point (not straddling it)
		groupsNeeded := uint32(total)/ss + 3
		base, startName = paws-groupsNeeded*ss, "start:before-paws"
	}
	off := r.intn(int(ss)) // the run starts off packets into the first group
	if startKind == 0 {
		off = 0 // the run starts with the very first packet of the sender
	}
	emitted0 := fecEmittedWhileTuning
	defer func() {
		rep.Monitors["suspended-decoder-emits-nothing"]++
		if n := fecEmittedWhileTuning - emitted0; n > 0 {
			fecViolate(rep, "C16/emits-while-suspended", fmt.Sprintf("sender %d/%d, receiver %d/%d: %d call(s) of decode returned reconstructed packets while the decoder was suspended for re-tuning (its layout already contradicted by a packet)", d, p, dr, pr, n),
				map[string]any{"sender": []int{d, p}, "receiver": []int{dr, pr}, "seed": vSeed(), "case": id})
		}
	}()
	preName := [...]string{"pre:none", "pre:own-lossy", "pre:own-older-lossy", "pre:junk-consistent", "pre:junk-wild"}[pre]
	lg.on = lg.on && pre != 4 // wild junk: sort.Slice output is implementation defined (AutoTune.v): monitors only
	lg.printf("C %d C16 converge s=%d/%d r=%d/%d %s %s off=%d\n", id, d, p, dr, pr, startName, preName, off)
	rep.Distribution[startName]++
	rep.Distribution[preName]++
	if dr == d && pr == p {
		rep.Distribution["pair:equal"]++
	} else if dr == d {
		rep.Distribution["pair:same-data-count"]++
	} else {
		rep.Distribution["pair:different-data-count"]++
	}
	dec := newFECDecoder(dr, pr)
	lg.printf("D %d %d\n", dr, pr)
	first := base + uint32(off)
	// Recovery after adoption: a re-tune empties the group table and the next stored packet defines
	// the position, so it is demanded for every start id and pre-run (before repair f7e57a2 the
	// position kept the units of the OLD shardSize - finding fec-retune-no-recovery).  Only a
	// MATCHING decoder (no re-tune, the table is kept) may have been moved ahead by arbitrary junk.
	equalPair := dr == d && pr == p
	demandRecovery := !(equalPair && pre == 4)
	if equalPair {
		fecPosition(lg, r, dec, fecNewMonitor(rep, "C16", d, p), base, ss)
	}
	// pre-run
	nPre := 0
	switch pre {
	case 1, 2: // the sender's own earlier packets (ids before the run), lost / duplicated / reordered
		span := 40 + r.intn(400)
		gapBack := uint32(0)
		if pre == 2 {
			gapBack = uint32(1000 + r.intn(100000))
		}
		if uint64(first) > uint64(span)+uint64(gapBack) {
			var ids []uint32
			for s := first - gapBack - uint32(span); s != first-gapBack; s++ {
				if r.chance(65) {
					ids = append(ids, s)
					if r.chance(10) {
						ids = append(ids, s)
					}
				}
			}
			for i := range ids { // local reordering
				j := i + r.intn(4)
				if j < len(ids) {
					ids[i], ids[j] = ids[j], ids[i]
				}
			}
			for _, s := range ids {
				fecDecode(lg, dec, fecTyped(s, d, p, byte(s)))
				nPre++
			}
		}
	case 3: // junk whose type is a function of the seqid (another pattern), ids near the run
		jd, jp := 1+r.intn(7), 1+r.intn(7)
		n := 20 + r.intn(320)
		if lg.on { // the model's insertion sort is quadratic on samples in random order: keep logged junk short
			n = 10 + r.intn(30)
		}
		for i := 0; i < n; i++ {
			s := first - 5000 - uint32(r.intn(3000)) // behind the run (wraps below 0 for small starts)
			fecDecode(lg, dec, fecTyped(s, jd, jp, 7))
			nPre++
		}
	case 4: // arbitrary junk: any 32-bit seqid, any of the two types
		n := 20 + r.intn(320)
		for i := 0; i < n; i++ {
			pkt := fecTyped(uint32(r.u64()), 1, 1, 9)
			if r.chance(50) {
				binary.LittleEndian.PutUint16(pkt[4:], uint16(r.pick(typeData, typeParity)))
			}
			fecDecode(lg, dec, pkt)
			nPre++
		}
	}
	rep.Distribution["pre-run-packets"] += nPre
	// the sender
	snd := fecNewSender(lg, d, p, 0, base)
	mon := fecNewMonitor(rep, "C16", d, p)
	mon.missKey = "fec-retune-no-recovery"
	if dr == d && pr == p {
		mon.missKey = "fec-late-join-no-recovery"
	}
	var stream [][]byte
	var groups []*fecGroup
	for len(stream) < off+total {
		sz := make([]int, d)
		for i := range sz {
			sz[i] = 1 + r.intn(3)
		}
		g := snd.group(lg, r, sz, false, rep, false)
		groups = append(groups, g)
		stream = append(stream, g.pkts...)
	}
	if fecSwapRun {
		for k := off + 1; k+1 < off+runLen; k += int(ss) {
			stream[k], stream[k+1] = stream[k+1], stream[k]
		}
		rep.Distribution["run:adjacent-swaps"]++
	}
	res := fecConvResult{n: -1, bound: bound}
	fed := 0
	okSince := -1
	i := off
	for ; i < off+runLen; i++ {
		rec, panicked := fecDecode(lg, dec, stream[i])
		fed++
		rep.Steps++
		if panicked {
			fecViolate(rep, "C16/panic", "fecDecoder.decode panicked on a genuine packet", map[string]any{"pkt": hx(stream[i])})
			return
		}
		// whatever comes out while the ratios differ must still pass the session's size check or be dropped;
		// with the matching ratio adopted it must be an original: checked below from adoption on
		_ = rec
		if dec.dataShards == d && dec.parityShards == p && !dec.shouldTune {
			if okSince < 0 {
				okSince = fed
			}
		} else {
			okSince = -1
		}
	}
	res.n = okSince
	res.converged = okSince >= 0
	rep.Monitors["converges-within-258+2(d+p)"]++
	key := fmt.Sprintf("converged-after:%s", fecBucket(okSince, bound))
	rep.Distribution[key]++
	if !res.converged && fecSwapRun {
		fecViolate(rep, "C16/no-convergence-reordered", fmt.Sprintf("after a loss-free run of %d packets (twice 258+2(d+p)) in which two neighbouring packets of every group arrived swapped the decoder has %d/%d tune=%v instead of the sender's %d/%d",
			runLen, dec.dataShards, dec.parityShards, dec.shouldTune, d, p),
			map[string]any{"sender": []int{d, p}, "receiver": []int{dr, pr}, "first_seqid": first, "pre": preName, "seed": vSeed(), "case": id})
		return
	}
	if !res.converged {
		fecViolate(rep, "C16/no-convergence", fmt.Sprintf("after an uninterrupted run of 258+2(d+p)=%d packets the decoder has %d/%d tune=%v instead of the sender's %d/%d",
			bound, dec.dataShards, dec.parityShards, dec.shouldTune, d, p),
			map[string]any{"sender": []int{d, p}, "receiver": []int{dr, pr}, "first_seqid": first, "pre": preName, "seed": vSeed(), "case": id})
		return
	}
	if v, ok := rep.Extra["max_run_to_converge_minus_bound"].(int); !ok || okSince-bound > v {
		rep.Extra["max_run_to_converge_minus_bound"] = okSince - bound
	}
	// from then on: stable, and losses are recovered (C07 monitors on the following groups).
	// skip to the next group boundary, then drop one data packet (and one parity if p > 1) per group
	for ; i < len(stream) && binary.LittleEndian.Uint32(stream[i])%ss != 0; i++ {
		rec, _ := fecDecode(lg, dec, stream[i])
		_ = rec
		mon.stable(dec)
	}
	for _, g := range groups {
		if i < len(stream) && _itimediff(g.base, binary.LittleEndian.Uint32(stream[i])) >= 0 {
			mon.add(g, snd.paws)
		}
	}
	for ; i < len(stream); i++ {
		s := binary.LittleEndian.Uint32(stream[i])
		pos := int(s % ss)
		if pos == int(s/ss)%d { // lose one data packet per group, a different position each time
			rep.Distribution["post-convergence-loss"]++
			continue
		}
		rec, _ := fecDecode(lg, dec, stream[i])
		rep.Steps++
		mon.observe(stream[i], rec, demandRecovery)
		mon.stable(dec)
	}
	if demandRecovery {
		rep.Monitors["recovers-after-convergence"]++
		if mon.demand == 0 || mon.recov < mon.demand {
			key := "fec-retune-no-recovery"
			if equalPair {
				key = "fec-late-join-no-recovery"
			}
			fecViolate(rep, key, "after adopting the sender's ratio a lost data packet was not recovered",
				map[string]any{"sender": []int{d, p}, "receiver": []int{dr, pr}, "first_seqid": first, "pre": preName, "demand": mon.demand, "recovered": mon.recov, "seed": vSeed(), "case": id})
		}
	}
	rep.Cases++
	if dr != d || pr != p || pre >= 3 {
		rep.Nontrivial++
	}
}

func fecBucket(n, bound int) string {
	switch {
	case n < 0:
		return "never"
	case n <= 1:
		return "0-1"
	case n <= 258:
		return "<=258"
	case n <= bound-10:
		return "<=bound-10"
	default:
		return "bound-9..bound"
	}
}

// stability: a long stream of a matching sender with loss, duplication and reordering, across
// the wrap, with parity skipped in some groups
func fecCaseStable(lg *fecLogger, r *vrng, rep *vreport, id int, d, p int) {
	ss := uint32(d + p)
	paws := uint32(0xffffffff) / ss * ss
	ngroups := 12 + r.intn(30)
	var base uint32
	var posName string
	switch r.intn(4) {
	case 0:
		base, posName = 0, "pos:0"
	case 1:
		base, posName = paws-uint32(1+r.intn(ngroups-1))*ss, "pos:across-paws"
	case 2:
		base, posName = (0x80000000/ss-uint32(r.intn(ngroups)))*ss, "pos:2^31"
	default:
		base, posName = (uint32(r.u64())%paws)/ss*ss, "pos:random"
	}
	loss := r.pick(0, 10, 30, 60)
	window := r.pick(1, 3, 8, 40)
	lg.printf("C %d C16 stable d=%d p=%d %s loss=%d window=%d\n", id, d, p, posName, loss, window)
	rep.Distribution[posName]++
	snd := fecNewSender(lg, d, p, r.pick(0, 24), base)
	mon := fecNewMonitor(rep, "C16", d, p)
	var stream [][]byte
	for gi := 0; gi < ngroups; gi++ {
		g := snd.group(lg, r, fecSizes(r, r.intn(4), d, 24), r.chance(15), rep, false)
		mon.add(g, snd.paws)
		stream = append(stream, g.pkts...)
	}
	// network: loss, duplicates, bounded reordering
	var arr [][]byte
	nl, nd, nr := 0, 0, 0
	for _, pk := range stream {
		if r.chance(loss) {
			nl++
			continue
		}
		arr = append(arr, pk)
		if r.chance(8) {
			arr = append(arr, pk)
			nd++
		}
	}
	for i := range arr {
		if window > 1 && r.chance(40) {
			j := i + r.intn(window)
			if j < len(arr) && j != i {
				arr[i], arr[j] = arr[j], arr[i]
				nr++
			}
		}
	}
	dec := newFECDecoder(d, p)
	lg.printf("D %d %d\n", d, p)
	fecPosition(lg, r, dec, mon, base, ss)
	for _, pkt := range arr {
		rec, panicked := fecDecode(lg, dec, pkt)
		rep.Steps++
		if panicked {
			fecViolate(rep, "C16/panic", "fecDecoder.decode panicked on a genuine packet", map[string]any{"d": d, "p": p, "pkt": hx(pkt)})
			return
		}
		// retention is not guaranteed under wide reordering: only the safety monitors apply
		mon.observe(pkt, rec, window <= 3)
		mon.stable(dec)
	}
	rep.Cases++
	rep.Distribution["lost"] += nl
	rep.Distribution["duplicated"] += nd
	rep.Distribution["reordered"] += nr
	rep.Distribution["recovered-packets"] += mon.recov
	if nl > 0 && nd > 0 && nr > 0 {
		rep.Nontrivial++
	}
}

// raw autoTune against the model: pulse trains with loss / duplication / local reordering, ids
// around 0, 2^31 and 2^32 (the +1 of the continuity test wraps there)
func fecCaseTrain(lg *fecLogger, r *vrng, rep *vreport, id int) {
	d, p := 1+r.intn(12), 1+r.intn(12)
	if r.chance(15) {
		d, p = 1+r.intn(200), 1+r.intn(54)
	}
	ss := uint32(d + p)
	start := uint32(r.u64())
	switch r.intn(4) {
	case 0:
		start = uint32(r.intn(50))
	case 1:
		start = 0x80000000 - uint32(r.intn(300))
	case 2:
		start = 0xffffffff - uint32(r.intn(300))
	}
	loss := r.pick(0, 0, 0, 2, 10)
	n := r.pick(2, 5, 100, 258, 259, 300, 600)
	lg.printf("C %d C16 train d=%d p=%d start=%d loss=%d n=%d\n", id, d, p, start, loss, n)
	var tune autoTune
	lg.printf("T\n")
	find := func() {
		for _, b := range []bool{true, false} {
			v := tune.FindPeriod(b)
			bit := 0
			if b {
				bit = 1
			}
			lg.printf("f %d > %d\n", bit, v)
			rep.Steps++
			rep.Monitors["findperiod-sound-on-consistent-ring"]++
			// property text / comment of FindPeriod: a positive result on samples of ONE pattern is that pattern's width
			want := d
			if !b {
				want = p
			}
			if v > 0 && v != want {
				fecViolate(rep, "C16/findperiod-unsound", fmt.Sprintf("FindPeriod(%v)=%d on samples of a %d/%d stream", b, v, d, p),
					map[string]any{"d": d, "p": p, "start": start, "seed": vSeed(), "case": id})
			}
			if v > 0 {
				rep.Distribution["findperiod:found"]++
			} else {
				rep.Distribution["findperiod:-1"]++
			}
		}
	}
	// the pattern is laid over the index start+i computed in 64 bits, the sample's seq is its low
	// 32 bits: across 2^32 the seqs wrap (the +1 of the continuity test wraps with them) while the
	// pattern continues (a genuine sender wraps at paws instead and never emits ids >= paws)
	var pending []uint64
	for i := 0; i < n; i++ {
		s := uint64(start) + uint64(i)
		if r.chance(loss) {
			continue
		}
		pending = append(pending, s)
		if r.chance(loss) {
			pending = append(pending, s)
		}
		if len(pending) > 1 && r.chance(loss) {
			a, b := len(pending)-1, len(pending)-2
			pending[a], pending[b] = pending[b], pending[a]
		}
		for len(pending) > 2 || (len(pending) > 0 && !r.chance(loss)) {
			q := pending[0]
			pending = pending[1:]
			bit := q%uint64(ss) < uint64(d)
			tune.Sample(bit, uint32(q))
			bi := 0
			if bit {
				bi = 1
			}
			lg.printf("s %d %d\n", bi, uint32(q))
			if len(pending) == 0 {
				break
			}
		}
		if r.chance(4) || i == n-1 {
			find()
		}
	}
	rep.Cases++
	if loss > 0 && n >= 100 {
		rep.Nontrivial++
	}
}

// TestVerifC12Fec: C12's FEC half beyond matched pairs - a decoder that has to RE-TUNE behaves the
// same wherever in the id space the stream is: every convergence case is run twice with the same
// random choices, once at small ids and once ending just before the sender's wrap point, and the
// monitor outcomes (convergence, stability, recovery of the losses after it) must coincide.
func TestVerifC12Fec(t *testing.T) {
	synctest.Test(t, func(t *testing.T) {
		r := fecRng(7)
		rep := newReport("C12fec")
		n := 40
		if vThorough() {
			n = 400
		}
		for id := 0; id < n; id++ {
			var d, p, dr, pr int
			if id%4 == 0 {
				c := [][4]int{{3, 2, 10, 3}, {2, 1, 1, 1}, {10, 5, 1, 1}, {10, 3, 10, 1}, {4, 2, 10, 3}, {2, 4, 2, 1}}[(id/4)%6]
				d, p, dr, pr = c[0], c[1], c[2], c[3]
			} else {
				nn, nr := 2+r.intn(9), 2+r.intn(9)
				d, dr = 1+r.intn(nn-1), 1+r.intn(nr-1)
				p, pr = nn-d, nr-dr
			}
			pre := r.intn(4)
			seed := r.u64()
			var keys [2][]string
			for k, startKind := range []int{1, 5} {
				tmp := newReport("tmp")
				fecCaseConverge(&fecLogger{}, newRng(seed), tmp, id, d, p, dr, pr, pre, startKind)
				for _, v := range tmp.Violations {
					keys[k] = append(keys[k], v.Key)
				}
				sort.Strings(keys[k])
				rep.Steps += tmp.Steps
			}
			rep.Cases++
			rep.Monitors["fec-retune-position-independent"]++
			if dr != d || pr != p {
				rep.Nontrivial++
				rep.Distribution["pair:mismatched"]++
			} else {
				rep.Distribution["pair:equal"]++
			}
			if strings.Join(keys[0], ",") != strings.Join(keys[1], ",") {
				fecViolate(rep, "fec-offset-dependent", fmt.Sprintf("sender %d/%d, receiver %d/%d: the same run (same losses, same pre-run) gives monitor outcomes [%s] at small sequence ids and [%s] when it ends just before the id wrap",
					d, p, dr, pr, strings.Join(keys[0], ","), strings.Join(keys[1], ",")),
					map[string]any{"sender": []int{d, p}, "receiver": []int{dr, pr}, "pre": pre, "case_seed": seed, "seed": vSeed(), "case": id})
			}
		}
		rep.write(t, "C12fec.report.json")
	})
}

func TestVerifC16(t *testing.T) {
	synctest.Test(t, func(t *testing.T) {
		r := fecRng(1)
		rep := newReport("C16")
		lg := &fecLogger{l: newVlog(t, "C16.log"), on: true}
		defer lg.l.close()
		id := 0
		// (1) raw autoTune pulse trains
		ntr := 60
		if vThorough() {
			ntr = 600
		}
		for i := 0; i < ntr; i++ {
			id++
			lg.on = true
			fecCaseTrain(lg, r, rep, id)
		}
		// (2) stability of a matching pair
		bound := 6
		if vThorough() {
			bound = 9
		}
		for n := 2; n <= bound; n++ {
			for d := 1; d < n; d++ {
				reps := 2
				if vThorough() {
					reps = 6
				}
				for k := 0; k < reps; k++ {
					id++
					lg.on = true
					fecCaseStable(lg, r, rep, id, d, n-d)
				}
			}
		}
		for _, c := range [][2]int{{10, 3}, {20, 10}, {3, 10}} {
			id++
			lg.on = true
			fecCaseStable(lg, r, rep, id, c[0], c[1])
		}
		// (3) convergence: every sender/receiver pair with d+p <= bound (incl. the lazily created 1/1
		// decoder of an end without FEC), sampled up to d+p = 255
		logged := 0
		maxLogged := 24 // the model replays FindPeriod twice per packet while tuning: keep the logged sample small
		if vThorough() {
			maxLogged = 200
		}
		for n := 2; n <= bound; n++ {
			for d := 1; d < n; d++ {
				for nr := 2; nr <= bound; nr++ {
					for dr := 1; dr < nr; dr++ {
						id++
						pre := r.intn(5)
						lg.on = logged < maxLogged && r.chance(12) && pre != 4
						if lg.on {
							logged++
						}
						fecCaseConverge(lg, r, rep, id, d, n-d, dr, nr-dr, pre, r.intn(8)%6)
					}
				}
			}
		}
		type pair struct{ d, p, dr, pr int }
		large := []pair{{10, 3, 10, 1}, {10, 3, 1, 1}, {1, 1, 10, 3}, {128, 127, 10, 3}, {254, 1, 128, 127}, {1, 254, 2, 2}, {100, 155, 3, 3}}
		if vThorough() {
			for k := 0; k < 40; k++ {
				d := 1 + r.intn(254)
				p := 1 + r.intn(255-d)
				dr := 1 + r.intn(254)
				pr := 1 + r.intn(256-dr)
				large = append(large, pair{d, p, dr, pr})
			}
			large = append(large, pair{127, 128, 128, 127}, pair{1, 254, 254, 1}, pair{254, 1, 1, 254}, pair{10, 3, 128, 128})
		}
		for _, c := range large {
			id++
			lg.on = false
			fecCaseConverge(lg, r, rep, id, c.d, c.p, c.dr, c.pr, r.intn(5), r.intn(8)%6)
			rep.Distribution["large-ratio-pair"]++
		}
		// (4) the run arrives with two neighbouring packets of every group swapped (monitors only)
		fecSwapRun = true
		swapped := []pair{{10, 3, 5, 2}, {10, 3, 1, 1}, {20, 4, 10, 3}, {3, 1, 1, 1}, {2, 2, 10, 3}, {128, 32, 10, 3}}
		nsw := 12
		if vThorough() {
			nsw = 120
		}
		for k := 0; k < nsw; k++ {
			nn, nr := 2+r.intn(12), 2+r.intn(12)
			d, dr := 1+r.intn(nn-1), 1+r.intn(nr-1)
			if d != dr || nn != nr {
				swapped = append(swapped, pair{d, nn - d, dr, nr - dr})
			}
		}
		for _, c := range swapped {
			id++
			lg.on = false
			fecCaseConverge(lg, r, rep, id, c.d, c.p, c.dr, c.pr, r.pick(0, 1, 2), r.intn(8)%6)
		}
		fecSwapRun = false
		lg.on = true
		lg.printf("X\n")
		rep.Extra["exhaustive_pairs_bound_d_plus_p"] = bound
		rep.Extra["convergence_cases_logged_for_model"] = logged
		rep.write(t, "C16.report.json")
		t.Logf("C16: cases=%d nontrivial=%d steps=%d violations=%d", rep.Cases, rep.Nontrivial, rep.Steps, len(rep.Violations))
	})
}

// ------------------------------------------------------------------ C05 (FEC decoder part)

// TestVerifC05Fec feeds the REAL decoder arbitrary and forged packets interleaved with genuine
// traffic.  Monitors (property text of C05: no datagram can crash or bloat the process):
//   fec-decode-panic        decode panics on a packet of 8..1500 bytes
//   fec-shardset-unbounded  more than maxShardSets+1 groups are held (the proven bound K), a group
//                           holds >= dataShards packets, or the autotune ring exceeds its capacity
// Logged for the model comparison are the cases whose forged packets are well typed for their
// position (then the decoder never tunes, so the unspecified order of sort.Slice on windows
// spanning >= 2^31 ids is not observable); arbitrary bytes / types run for the monitors only.
func fecCaseC05(lg *fecLogger, r *vrng, rep *vreport, id int, d, p int, wellTyped bool) {
	ss := uint32(d + p)
	paws := uint32(0xffffffff) / ss * ss
	K := maxShardSets + 1
	base, posName := fecPositions(r, ss)
	lg.printf("C %d C05 d=%d p=%d %s welltyped=%v\n", id, d, p, posName, wellTyped)
	rep.Distribution[posName]++
	snd := fecNewSender(lg, d, p, 0, base)
	var stream [][]byte
	for gi := 0; gi < 6+r.intn(10); gi++ {
		g := snd.group(lg, r, fecSizes(r, r.intn(4), d, 0), r.chance(10), rep, false)
		stream = append(stream, g.pkts...)
	}
	dec := newFECDecoder(d, p)
	lg.printf("D %d %d\n", d, p)
	var trace []string
	forge := func(last []byte) []byte {
		var seq uint32
		kind := r.intn(10)
		newest := dec.newestShardId * uint32(dec.shardSize)
		switch kind {
		case 0:
			seq = 0
		case 1:
			seq = paws - 1
		case 2:
			seq = paws - ss
		case 3:
			seq = 0x80000000 + uint32(r.intn(7)) - 3
		case 4:
			seq = 0xffffffff - uint32(r.intn(3))
		case 5: // exactly 2^31 ids from the newest group: int32 difference -2^31 in both directions
			seq = newest + 0x80000000 + uint32(r.intn(int(ss)))
		case 6: // almost 2^31 ahead of the newest
			seq = newest + 0x80000000 - uint32(1+r.intn(4*int(ss)))
		case 7: // just behind / ahead of the newest
			seq = newest + uint32(r.intn(9*int(ss))) - 4*ss
		case 8:
			seq = uint32(r.u64())
		default:
			seq = uint32(r.u64()) % paws
		}
		n := 8 + r.intn(24)
		if r.chance(5) {
			n = r.pick(8, 9, mtuLimit-1, mtuLimit)
		}
		pkt := r.bytes(n)
		if len(last) >= 8 && r.chance(50) {
			pkt = append([]byte(nil), last...) // a valid packet with its header fields replaced
		}
		binary.LittleEndian.PutUint32(pkt, seq)
		ty := uint16(typeParity)
		if int(seq%uint32(dec.shardSize)) < dec.dataShards {
			ty = typeData
		}
		if !wellTyped {
			switch r.intn(6) {
			case 0:
				ty = typeData
			case 1:
				ty = typeParity
			case 2:
				ty = typeOOB
			case 3:
				ty = uint16(r.u64())
			}
		}
		binary.LittleEndian.PutUint16(pkt[4:], ty)
		rep.Distribution[fmt.Sprintf("forged-kind:%d", kind)]++
		if !wellTyped && r.chance(30) {
			pkt = r.bytes(8 + r.intn(1493)) // arbitrary bytes, any length 8..1500
			rep.Distribution["random-bytes"]++
		}
		return pkt
	}
	feed := func(pkt []byte, what string) bool {
		_, panicked := fecDecode(lg, dec, pkt)
		rep.Steps++
		trace = append(trace, hx(pkt[:min(8, len(pkt))]))
		if len(trace) > 400 {
			trace = trace[len(trace)-400:]
		}
		rep.Monitors["fec-decode-panic"]++
		if panicked {
			fecViolate(rep, "fec-decode-panic", fmt.Sprintf("fecDecoder.decode panicked on a %s packet of %d bytes", what, len(pkt)),
				map[string]any{"d": d, "p": p, "pkt": hx(pkt), "history(header)": trace})
			return false
		}
		rep.Monitors["fec-shardset-unbounded"]++
		worst := 0
		for _, s := range dec.shardSet {
			worst = max(worst, len(s.elements))
		}
		if len(dec.shardSet) > K || worst >= dec.dataShards || dec.autoTune.count > maxAutoTuneSamples {
			fecViolate(rep, "fec-shardset-unbounded", fmt.Sprintf("the decoder holds %d groups (bound %d), largest group %d packets (dataShards %d), ring %d",
				len(dec.shardSet), K, worst, dec.dataShards, dec.autoTune.count),
				map[string]any{"d": d, "p": p, "history(header)": trace})
			return false
		}
		if v, _ := rep.Extra["max_groups_held"].(int); len(dec.shardSet) > v {
			rep.Extra["max_groups_held"] = len(dec.shardSet)
		}
		return true
	}
	var last []byte
	for _, pk := range stream {
		if !feed(pk, "genuine") {
			return
		}
		last = pk
		for r.chance(45) {
			if !feed(forge(last), "forged") {
				return
			}
		}
	}
	// a targeted burst: the stream advances group by group, a forged group 2^31 ids ahead each time
	if r.chance(50) {
		rep.Distribution["antipodal-burst"]++
		cur := dec.newestShardId * uint32(dec.shardSize)
		for i := 0; i < 12; i++ {
			cur += uint32(dec.shardSize)
			for _, s := range []uint32{cur, cur + 0x80000000} {
				if s >= dec.paws {
					continue
				}
				pkt := make([]byte, 12)
				binary.LittleEndian.PutUint32(pkt, s)
				ty := uint16(typeParity)
				if int(s%uint32(dec.shardSize)) < dec.dataShards {
					ty = typeData
				}
				binary.LittleEndian.PutUint16(pkt[4:], ty)
				if !feed(pkt, "forged") {
					return
				}
			}
		}
	}
	rep.Cases++
	rep.Nontrivial++ // every case mixes genuine and forged packets
}

func TestVerifC05Fec(t *testing.T) {
	synctest.Test(t, func(t *testing.T) {
		r := fecRng(2)
		rep := newReport("C05")
		lg := &fecLogger{l: newVlog(t, "C05fec.log"), on: true}
		defer lg.l.close()
		n := 300
		if vThorough() {
			n = 6000
		}
		cfgs := [][2]int{{1, 1}, {2, 2}, {3, 1}, {2, 1}, {3, 2}, {10, 3}, {5, 3}, {12, 4}, {4, 3}, {1, 3}, {6, 2}}
		for id := 1; id <= n; id++ {
			c := cfgs[r.intn(len(cfgs))]
			wellTyped := id%2 == 0
			lg.on = wellTyped && (!vThorough() || id%8 == 0)
			fecCaseC05(lg, r, rep, id, c[0], c[1], wellTyped)
		}
		lg.on = true
		lg.printf("X\n")
		rep.Extra["bound_K_groups"] = maxShardSets + 1
		rep.write(t, "C05fec.report.json")
		t.Logf("C05fec: cases=%d steps=%d violations=%d", rep.Cases, rep.Steps, len(rep.Violations))
	})
}
