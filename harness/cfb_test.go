//go:build verif

package kcp

// C08 - ciphers round-trip every length and equal textbook CFB.
//
// (a) Correspondence: the REAL encrypt8/encrypt16/decrypt8/decrypt16 are run with a toy
//     cipher.Block that is also defined in Gallina (coq/cfb/Cfb.v: toyE) for every length
//     0..1500, in place and out of place (the destination a little longer than the source and
//     pre-filled, the scratch registers holding stale bytes); every resulting buffer goes to
//     the op log and ml/cfb_driver.ml recomputes it with the extracted enc_unrolled /
//     dec_unrolled.  Go's crypto/cipher CFB over the same toy block is logged too and compared
//     with the extracted textbook spec.  The salsa20 / simple-xor / none Encrypt and Decrypt
//     are logged for a set of lengths (incl. 0..80 and both sides of the 1500-byte pad) together
//     with the real keystream / pad, and replayed in the extracted control-logic models.
// (b) Monitors written from the property text, on every real BlockCrypt constructor of
//     crypt.go: Decrypt(Encrypt(x)) == x for all lengths 0..1500 x {in place, out of place into
//     a pre-filled buffer} for both calls; block ciphers: ciphertext == crypto/cipher
//     NewCFBEncrypter under the package IV and NewCFBDecrypter inverts it; 4 goroutines
//     sharing one BlockCrypt obtain what a lone caller obtains; AES-GCM seal/open inside the
//     packet buffer, as sess.go slices it, never reallocates.

import (
	"bytes"
	"crypto/aes"
	"crypto/cipher"
	"crypto/des"
	"encoding/hex"
	"encoding/json"
	"fmt"
	"os"
	"sort"
	"sync"
	"testing"
	"unsafe"

	"github.com/tjfoc/gmsm/sm4"
	"golang.org/x/crypto/blowfish"
	"golang.org/x/crypto/cast5"
	"golang.org/x/crypto/salsa20"
	"golang.org/x/crypto/tea"
	"golang.org/x/crypto/twofish"
	"golang.org/x/crypto/xtea"
)

const cfbMaxLen = 1500 // the property's bound (= mtuLimit, asserted below)

// ---- the toy block function; the same arithmetic as Cfb.v: toy_digest, toy_mix, toyE

type cfbToyBlock struct {
	bs  int
	key []byte
}

func (b *cfbToyBlock) BlockSize() int { return b.bs }
func (b *cfbToyBlock) Encrypt(dst, src []byte) {
	var out [16]byte
	x := src[:b.bs]
	d := byte(7)
	for i := 0; i < b.bs; i++ {
		d = d*5 + x[i] + b.key[i] + 1
	}
	acc := byte(1)
	for i := 0; i < b.bs; i++ {
		acc = acc*3 + (x[i] ^ b.key[i]) + 1
		out[i] = acc ^ d
	}
	copy(dst[:b.bs], out[:b.bs])
}
func (b *cfbToyBlock) Decrypt(dst, src []byte) { panic("CFB never inverts the block function") }

// pre-fill pattern of destination buffers in the differential part (the driver knows it)
func cfbPat(n int) []byte {
	b := make([]byte, n)
	for i := range b {
		b[i] = byte(0xA5 + 13*i)
	}
	return b
}

func cfbClone(b []byte) []byte { return append([]byte{}, b...) }

func cfbNot(b []byte) []byte {
	o := make([]byte, len(b))
	for i := range b {
		o[i] = ^b[i]
	}
	return o
}

func cfbMode(inplace bool) string {
	if inplace {
		return "in-place"
	}
	return "out-of-place"
}

func cfbB2i(b bool) int {
	if b {
		return 1
	}
	return 0
}

// length class of a failing input (part of the stable key of a violation)
func cfbLenClass(n int) string {
	switch {
	case n == 0:
		return "empty"
	case n < 8:
		return "short" // below the smallest block / the salsa20 nonce
	default:
		return "long"
	}
}

type cfbCipher struct {
	name   string
	keyLen int
	mk     func([]byte) (BlockCrypt, error)
}

var cfbCiphers = []cfbCipher{
	{"aes-128", 16, NewAESBlockCrypt},
	{"aes-192", 24, NewAESBlockCrypt},
	{"aes-256", 32, NewAESBlockCrypt},
	{"sm4", 16, NewSM4BlockCrypt},
	{"twofish", 32, NewTwofishBlockCrypt},
	{"3des", 24, NewTripleDESBlockCrypt},
	{"cast5", 16, NewCast5BlockCrypt},
	{"blowfish", 32, NewBlowfishBlockCrypt},
	{"tea", 16, NewTEABlockCrypt},
	{"xtea", 16, NewXTEABlockCrypt},
	{"salsa20", 32, NewSalsa20BlockCrypt},
	{"xor", 32, NewSimpleXORBlockCrypt},
	{"none", 16, NewNoneBlockCrypt},
}

// at most two violations per key go into the report (the check de-duplicates by key anyway;
// vreport.violate keeps the first 50 only, so one flooding class must not hide another)
var (
	cfbVioMu   sync.Mutex
	cfbVioSeen = map[string]int{}
)

func cfbViolate(rep *vreport, key, what string, replay any) {
	cfbVioMu.Lock()
	defer cfbVioMu.Unlock()
	cfbVioSeen[key]++
	if cfbVioSeen[key] <= 2 {
		rep.violate(key, what, replay)
	}
}

type cfbReplay struct {
	Cipher     string `json:"cipher"`
	Key        string `json:"key"`
	Len        int    `json:"len"`
	Src        string `json:"src"`
	EncInplace bool   `json:"enc_inplace"`
	DecInplace bool   `json:"dec_inplace"`
	Got        string `json:"got,omitempty"`
	Note       string `json:"note,omitempty"`
}

// cfbEnc / cfbDec: one call on the real code.  Out of place the destination is pre-filled
// with the bitwise complement of `expect-visible` bytes, so a byte left unwritten can never
// equal the plaintext.
// cfbGuard runs f; a run-time panic becomes a value
func cfbGuard(f func()) (panicked string) {
	defer func() {
		if r := recover(); r != nil {
			panicked = fmt.Sprint(r)
		}
	}()
	f()
	return ""
}

func cfbEnc(bc BlockCrypt, src []byte, inplace bool) []byte {
	if inplace {
		b := cfbClone(src)
		bc.Encrypt(b, b)
		return b
	}
	dst := cfbNot(src)
	bc.Encrypt(dst, cfbClone(src))
	return dst
}

func cfbDec(bc BlockCrypt, ct, plain []byte, inplace bool) []byte {
	if inplace {
		b := cfbClone(ct)
		bc.Decrypt(b, b)
		return b
	}
	dst := cfbNot(plain)
	bc.Decrypt(dst, cfbClone(ct))
	return dst
}

// the round-trip monitor for one input; returns the replay record of the first failing
// combination of modes, or nil
func cfbRoundTrip(rep *vreport, c cfbCipher, key []byte, bc BlockCrypt, src []byte) {
	for _, encIn := range []bool{false, true} {
		ct := cfbEnc(bc, src, encIn)
		rep.Steps++
		for _, decIn := range []bool{false, true} {
			got := cfbDec(bc, ct, src, decIn)
			rep.Steps++
			rep.Monitors["roundtrip"]++
			if !bytes.Equal(got, src) {
				mode := cfbMode(encIn && decIn)
				cfbViolate(rep, fmt.Sprintf("%s-%s-%s", c.name, cfbLenClass(len(src)), mode),
					fmt.Sprintf("%s: Decrypt(Encrypt(x)) != x for a %s packet (len %d), encrypt %s, decrypt %s",
						c.name, cfbLenClass(len(src)), len(src), cfbMode(encIn), cfbMode(decIn)),
					cfbReplay{Cipher: c.name, Key: hex.EncodeToString(key), Len: len(src), Src: hex.EncodeToString(src),
						EncInplace: encIn, DecInplace: decIn, Got: hex.EncodeToString(got)})
			}
		}
	}
}

func TestVerifC08(t *testing.T) {
	rep := newReport("C08")
	defer rep.write(t, "C08.report.json")
	if mtuLimit != cfbMaxLen {
		t.Fatalf("mtuLimit = %d: the property speaks of lengths 0..%d", mtuLimit, cfbMaxLen)
	}
	if p := os.Getenv("VERIF_REPLAY"); p != "" {
		cfbRunReplay(t, rep, p)
		return
	}
	rng := newRng(vSeed())
	lg := newVlog(t, "C08.log")
	defer lg.close()

	rounds, keysPerCipher := 1, 1
	if vThorough() {
		rounds, keysPerCipher = 2, 5
	}
	rep.Extra["rounds_toy"] = rounds
	rep.Extra["keys_per_cipher"] = keysPerCipher

	lg.printf("IV %s\n", hx(initialVector))
	lg.printf("MTU %d\n", mtuLimit)
	for r := 0; r < rounds; r++ {
		cfbToySweep(t, rep, lg, rng, r)
		cfbStreamLog(t, rep, lg, rng, r)
	}
	for _, c := range cfbCiphers {
		for k := 0; k < keysPerCipher; k++ {
			cfbRealCipher(t, rep, rng, c, nil)
		}
	}
	cfbAEAD(t, rep, rng)

	rep.Extra["nontrivial_rule"] = "block ciphers and toy: len >= block size and len % block size != 0 (feedback used and a partial tail); stream ciphers: len > 8; AEAD: plaintext non-empty"
	rep.Extra["concurrency_model"] = "sess.go: one BlockCrypt is shared by every session of a Listener: each session's postProcess goroutine calls Encrypt(buf, buf), the listener's single monitor goroutine calls Decrypt(data, data); a dialled session uses its readLoop goroutine (Decrypt) and its postProcess goroutine (Encrypt). blockCrypt serialises Encrypt calls by encMu and Decrypt calls by decMu over the per-object scratch buffers encbuf/decbuf; salsa20/xor/none/aead keep no mutable state. The monitor therefore runs 4 goroutines on ONE object, each mixing Encrypt and Decrypt, in place and out of place."
}

// ---- (a) differential part: the unrolled functions with the toy block

func cfbToySweep(t *testing.T, rep *vreport, lg *vlog, rng *vrng, round int) {
	key := rng.bytes(16)
	x := rng.bytes(cfbMaxLen + 20)
	stale := rng.bytes(32) // what the scratch registers hold from "the previous call"
	lg.printf("R %d\nK %s\nX %s\nG %s\n", round, hx(key), hx(x), hx(stale))
	classes := map[[4]int]bool{}
	for _, bs := range []int{8, 16} {
		blk := &cfbToyBlock{bs: bs, key: key}
		enc, dec := encrypt8, decrypt8
		if bs == 16 {
			enc, dec = encrypt16, decrypt16
		}
		iv := initialVector[:bs]
		for n := 0; n <= cfbMaxLen; n++ {
			src := x[:n]
			extra := n % 3
			nb := n / bs
			classes[[4]int{bs, nb >> 3, nb & 7, n % bs}] = true
			rep.Distribution[fmt.Sprintf("toy-bs%d-left%d", bs, nb&7)]++
			if n%bs != 0 {
				rep.Distribution[fmt.Sprintf("toy-bs%d-tail", bs)]++
			}
			if nb>>3 > 0 {
				rep.Distribution[fmt.Sprintf("toy-bs%d-groups>=1", bs)]++
			}
			// a fault inside the unrolled code (index out of range ...) is a finding of this length, not the end of the sweep
			if pn := cfbGuard(func() {
				enc(blk, cfbPat(n+extra), cfbClone(src), cfbClone(stale[:bs]))
				e1 := cfbClone(src)
				enc(blk, e1, e1, cfbClone(stale[:bs]))
				dec(blk, cfbPat(n+extra), cfbClone(src), cfbClone(stale[:2*bs]))
				d1 := cfbClone(src)
				dec(blk, d1, d1, cfbClone(stale[:2*bs]))
			}); pn != "" {
				cfbViolate(rep, fmt.Sprintf("toy%d-%s-panic", bs, cfbLenClass(n)),
					fmt.Sprintf("encrypt%d/decrypt%d with the toy block, len %d: the call panicked: %s", bs, bs, n, pn),
					map[string]any{"bs": bs, "len": n, "key": hx(key), "src": hx(src)})
				continue
			}
			// encrypt, two buffers
			encSep := cfbPat(n + extra)
			enc(blk, encSep, cfbClone(src), cfbClone(stale[:bs]))
			lg.printf("T E %d 0 %d %d %s\n", bs, n, extra, hx(encSep))
			// encrypt, one buffer
			encIn := cfbClone(src)
			enc(blk, encIn, encIn, cfbClone(stale[:bs]))
			lg.printf("T E %d 1 %d 0 %s\n", bs, n, hx(encIn))
			ct := encSep[:n]
			// decrypt, two buffers
			decSep := cfbPat(n + extra)
			dec(blk, decSep, cfbClone(ct), cfbClone(stale[:2*bs]))
			lg.printf("T D %d 0 %d %d %s\n", bs, n, extra, hx(decSep))
			// decrypt, one buffer
			decIn := cfbClone(ct)
			dec(blk, decIn, decIn, cfbClone(stale[:2*bs]))
			lg.printf("T D %d 1 %d 0 %s\n", bs, n, hx(decIn))
			// Go's crypto/cipher CFB over the same toy block
			refE := make([]byte, n)
			cipher.NewCFBEncrypter(blk, iv).XORKeyStream(refE, src)
			refD := make([]byte, n)
			cipher.NewCFBDecrypter(blk, iv).XORKeyStream(refD, ct)
			lg.printf("S E %d %d %s\n", bs, n, hx(refE))
			lg.printf("S D %d %d %s\n", bs, n, hx(refD))
			rep.Cases += 4
			rep.Steps += 4
			if n >= bs && n%bs != 0 {
				rep.Nontrivial += 4
			}
			// the property monitors hold for the toy block as for any other
			rep.Monitors["toy-unrolled-vs-crypto/cipher"] += 2
			bad := ""
			switch {
			case !bytes.Equal(ct, refE):
				bad = "encrypt out of place != crypto/cipher CFB"
			case !bytes.Equal(encIn, refE):
				bad = "encrypt in place != crypto/cipher CFB"
			case !bytes.Equal(decSep[:n], src) || !bytes.Equal(decIn, src):
				bad = "decrypt(encrypt(x)) != x"
			case !bytes.Equal(refD, src):
				bad = "crypto/cipher CFB decrypter does not invert the unrolled encryptor"
			case !bytes.Equal(encSep[n:], cfbPat(n + extra)[n:]) || !bytes.Equal(decSep[n:], cfbPat(n + extra)[n:]):
				bad = "bytes of dst beyond len(src) were written"
			}
			if bad != "" {
				cfbViolate(rep, fmt.Sprintf("toy%d-%s-cfb", bs, cfbLenClass(n)),
					fmt.Sprintf("encrypt%d/decrypt%d with the toy block, len %d: %s", bs, bs, n, bad),
					map[string]any{"bs": bs, "len": n, "key": hx(key), "src": hx(src)})
			}
		}
	}
	rep.Extra["toy_path_classes_covered"] = len(classes)
	rep.sample(map[string]any{"toy_key": hx(key), "lengths": "0..1500", "block_sizes": []int{8, 16}})
}

// lengths of the stream-cipher differential part
func cfbStreamLens() []int {
	set := map[int]bool{}
	for n := 0; n <= 80; n++ {
		set[n] = true
	}
	for n := 81; n <= cfbMaxLen; n += 37 {
		set[n] = true
	}
	for n := cfbMaxLen - 10; n <= cfbMaxLen+10; n++ { // both sides of the xor pad's end
		set[n] = true
	}
	var out []int
	for n := range set {
		out = append(out, n)
	}
	sort.Ints(out)
	return out
}

func cfbStreamLog(t *testing.T, rep *vreport, lg *vlog, rng *vrng, round int) {
	x := rng.bytes(cfbMaxLen + 20)
	skey := rng.bytes(32)
	xkey := rng.bytes(32)
	sal, _ := NewSalsa20BlockCrypt(skey)
	xo, _ := NewSimpleXORBlockCrypt(xkey)
	no, _ := NewNoneBlockCrypt(nil)
	// the keystream the salsa20 model is instantiated with: the real one for nonce x[:8]
	var k32 [32]byte
	copy(k32[:], skey)
	ks := make([]byte, cfbMaxLen+20)
	salsa20.XORKeyStream(ks, ks, x[:8], &k32)
	lg.printf("SX %s\nKS %s\nPAD %s\n", hx(x), hx(ks), hx(xo.(*simpleXORBlockCrypt).xortbl))
	for _, c := range []struct {
		name string
		bc   BlockCrypt
	}{{"salsa", sal}, {"xor", xo}, {"none", no}} {
		for _, n := range cfbStreamLens() {
			extra := n % 3
			src := x[:n]
			// E out of place, E in place, then D of the out-of-place result, both ways
			eSep := cfbPat(n + extra)
			c.bc.Encrypt(eSep, cfbClone(src))
			lg.printf("U %s E 0 %d %d %s\n", c.name, n, extra, hx(eSep))
			eIn := cfbClone(src)
			c.bc.Encrypt(eIn, eIn)
			lg.printf("U %s E 1 %d 0 %s\n", c.name, n, hx(eIn))
			in := eSep[:n]
			dSep := cfbPat(n + extra)
			c.bc.Decrypt(dSep, cfbClone(in))
			lg.printf("U %s D 0 %d %d %s\n", c.name, n, extra, hx(dSep))
			dIn := cfbClone(in)
			c.bc.Decrypt(dIn, dIn)
			lg.printf("U %s D 1 %d 0 %s\n", c.name, n, hx(dIn))
			rep.Cases += 4
			rep.Steps += 4
			if n > 8 {
				rep.Nontrivial += 4
			}
			rep.Distribution["stream-model-"+c.name] += 4
		}
	}
}

// ---- (b) monitors on every real BlockCrypt

func cfbRefBlock(name string, key []byte) (cipher.Block, error) {
	switch name {
	case "aes-128", "aes-192", "aes-256":
		return aes.NewCipher(key)
	case "sm4":
		return sm4.NewCipher(key)
	case "twofish":
		return twofish.NewCipher(key)
	case "3des":
		return des.NewTripleDESCipher(key)
	case "cast5":
		return cast5.NewCipher(key)
	case "blowfish":
		return blowfish.NewCipher(key)
	case "tea":
		return tea.NewCipherWithRounds(key, 16)
	case "xtea":
		return xtea.NewCipher(key)
	}
	return nil, fmt.Errorf("no reference for %s", name)
}

func cfbRealCipher(t *testing.T, rep *vreport, rng *vrng, c cfbCipher, key []byte) {
	if key == nil {
		key = rng.bytes(c.keyLen)
	}
	bc, err := c.mk(key)
	if err != nil || bc == nil {
		t.Fatalf("%s: constructor failed: %v", c.name, err)
	}
	var blk cipher.Block
	bs := 0
	if _, ok := bc.(*blockCrypt); ok {
		// the reference block cipher is built HERE, from the published parameters of each option (TEA is
		// the 16-round variant old peers speak), not taken from the library's object: "old peers and other
		// implementations interoperate" is about the block function too
		ref, err := cfbRefBlock(c.name, key)
		if err != nil {
			t.Fatalf("%s: reference block cipher: %v", c.name, err)
		}
		blk = ref
		bs = blk.BlockSize()
	}
	pool := rng.bytes(4096)
	srcs := make([][]byte, cfbMaxLen+1)
	// what a lone caller obtains, per length: [enc out-of-place, enc in-place, dec out-of-place, dec in-place]
	alone := make([][4][]byte, cfbMaxLen+1)
	faulty := map[int]bool{} // lengths whose lone call panicked (reported; left out of the concurrent phases)
	for n := 0; n <= cfbMaxLen; n++ {
		src := cfbClone(pool[rng.intn(4096-cfbMaxLen):][:n])
		srcs[n] = src
		rep.Cases++
		rep.Distribution["cipher-"+c.name]++
		if (bs > 0 && n >= bs && n%bs != 0) || (bs == 0 && n > 8) {
			rep.Nontrivial++
		}
		// probe on a throw-away object first: a panic inside Encrypt/Decrypt leaves the object's mutex
		// held, and must be a finding of this length rather than the end (or a hang) of the whole run
		if pn := cfbGuard(func() {
			probe, _ := c.mk(key)
			p1 := cfbEnc(probe, src, false)
			cfbEnc(probe, src, true)
			cfbDec(probe, p1, src, false)
			cfbDec(probe, p1, src, true)
		}); pn != "" {
			cfbViolate(rep, fmt.Sprintf("%s-%s-panic", c.name, cfbLenClass(n)),
				fmt.Sprintf("%s: Encrypt/Decrypt of a %d-byte packet panicked: %s", c.name, n, pn),
				cfbReplay{Cipher: c.name, Key: hex.EncodeToString(key), Len: n, Src: hex.EncodeToString(src), Note: "panic: " + pn})
			alone[n] = [4][]byte{src, src, src, src}
			faulty[n] = true
			continue
		}
		cfbRoundTrip(rep, c, key, bc, src)
		alone[n][0] = cfbEnc(bc, src, false)
		alone[n][1] = cfbEnc(bc, src, true)
		alone[n][2] = cfbDec(bc, alone[n][1], src, false)
		alone[n][3] = cfbDec(bc, alone[n][1], src, true)
		rep.Steps += 4
		if blk == nil {
			continue
		}
		// block ciphers: exactly standard full-block CFB under the package IV
		iv := initialVector[:bs]
		ref := make([]byte, n)
		cipher.NewCFBEncrypter(blk, iv).XORKeyStream(ref, src)
		for mode := 0; mode < 2; mode++ {
			rep.Monitors["ciphertext==crypto/cipher-CFB"]++
			if !bytes.Equal(alone[n][mode], ref) {
				cfbViolate(rep, fmt.Sprintf("%s-%s-%s-cfb", c.name, cfbLenClass(n), cfbMode(mode == 1)),
					fmt.Sprintf("%s: ciphertext of a %d-byte packet (%s) differs from crypto/cipher NewCFBEncrypter with the package IV",
						c.name, n, cfbMode(mode == 1)),
					cfbReplay{Cipher: c.name, Key: hex.EncodeToString(key), Len: n, Src: hex.EncodeToString(src),
						EncInplace: mode == 1, Got: hex.EncodeToString(alone[n][mode]), Note: "expected " + hex.EncodeToString(ref)})
			}
		}
		// ... and the standard decrypter (an old peer, another implementation) reads it back
		back := make([]byte, n)
		cipher.NewCFBDecrypter(blk, iv).XORKeyStream(back, alone[n][1])
		rep.Monitors["crypto/cipher-CFB-decrypter-inverts"]++
		if !bytes.Equal(back, src) {
			cfbViolate(rep, fmt.Sprintf("%s-%s-in-place-cfbdec", c.name, cfbLenClass(n)),
				fmt.Sprintf("%s: crypto/cipher NewCFBDecrypter does not recover a %d-byte packet", c.name, n),
				cfbReplay{Cipher: c.name, Key: hex.EncodeToString(key), Len: n, Src: hex.EncodeToString(src), EncInplace: true})
		}
		// ... and Decrypt reads what the standard encrypter produced
		rep.Monitors["decrypt-of-crypto/cipher-CFB"]++
		if got := cfbDec(bc, ref, src, true); !bytes.Equal(got, src) {
			cfbViolate(rep, fmt.Sprintf("%s-%s-in-place-cfbenc", c.name, cfbLenClass(n)),
				fmt.Sprintf("%s: Decrypt does not recover a %d-byte packet encrypted by crypto/cipher NewCFBEncrypter", c.name, n),
				cfbReplay{Cipher: c.name, Key: hex.EncodeToString(key), Len: n, Src: hex.EncodeToString(src), DecInplace: true})
		}
	}
	rep.sample(map[string]any{"cipher": c.name, "key": hex.EncodeToString(key), "lengths": "0..1500"})

	// concurrent callers: 4 goroutines on the one object, each through all lengths (staggered
	// starts); every result must be what the lone caller got.  Three phases, so that the
	// report says which mix fails first: only Encrypt, only Decrypt, both.
	const workers = 4
	ops := []string{"Encrypt out-of-place", "Encrypt in-place", "Decrypt out-of-place", "Decrypt in-place"}
	call := func(k, n int) []byte {
		switch k {
		case 0:
			return cfbEnc(bc, srcs[n], false)
		case 1:
			return cfbEnc(bc, srcs[n], true)
		case 2:
			return cfbDec(bc, alone[n][1], srcs[n], false)
		default:
			return cfbDec(bc, alone[n][1], srcs[n], true)
		}
	}
	for _, phase := range []struct {
		name string
		ops  [][]int // per worker: the calls it makes for each length
	}{
		{"all goroutines in Encrypt", [][]int{{0, 1}, {1, 0}, {0, 1}, {1, 0}}},
		{"all goroutines in Decrypt", [][]int{{2, 3}, {3, 2}, {2, 3}, {3, 2}}},
		{"goroutines mixing Encrypt and Decrypt", [][]int{{0, 3, 1, 2}, {2, 1, 3, 0}, {1, 2}, {3, 0}}},
	} {
		var mu sync.Mutex
		var wg sync.WaitGroup
		evals := 0
		for w := 0; w < workers; w++ {
			wg.Add(1)
			go func(w int) {
				defer wg.Done()
				local := 0
				for i := 0; i <= cfbMaxLen; i++ {
					n := (i + w*(cfbMaxLen+1)/workers) % (cfbMaxLen + 1)
					if faulty[n] {
						continue
					}
					for _, k := range phase.ops[w] {
						got := call(k, n)
						local++
						if !bytes.Equal(got, alone[n][k]) {
							cfbViolate(rep, c.name+"-concurrent",
								fmt.Sprintf("%s: %d goroutines sharing one BlockCrypt (%s): %s of a %d-byte packet returned other bytes than the same call made alone",
									c.name, workers, phase.name, ops[k], n),
								cfbReplay{Cipher: c.name, Key: hex.EncodeToString(key), Len: n, Src: hex.EncodeToString(srcs[n]),
									Note: "concurrent: " + phase.name + "; " + ops[k]})
						}
					}
				}
				mu.Lock()
				evals += local
				mu.Unlock()
			}(w)
		}
		wg.Wait()
		rep.Monitors["concurrent==alone"] += evals
		rep.Steps += evals
	}
}

// ---- AEAD as sess.go uses it (postProcess: Seal(buf[:ns], buf[:ns], buf[ns:], nil);
// packetInput: Open(ct[:0], nonce, ct, nil))

func cfbAEAD(t *testing.T, rep *vreport, rng *vrng) {
	for _, kl := range []int{16, 24, 32} {
		key := rng.bytes(kl)
		bc, err := NewAESGCMCrypt(key)
		if err != nil {
			t.Fatal(err)
		}
		a := bc.(*aeadCrypt)
		ns, ov := a.NonceSize(), a.Overhead()
		name := fmt.Sprintf("aes-%d-gcm", kl*8)
		for n := 0; ns+n+ov <= cfbMaxLen; n++ {
			// capacities: the pool buffer (mtuLimit), exactly enough, one byte short
			for _, capa := range []int{cfbMaxLen, ns + n + ov, ns + n + ov - 1} {
				buf := make([]byte, ns+n, capa)
				copy(buf, rng.bytes(ns+n))
				nonce := cfbClone(buf[:ns])
				plain := cfbClone(buf[ns:])
				base := unsafe.Pointer(unsafe.SliceData(buf))
				var out []byte
				panicked := func() (p bool) {
					defer func() {
						if recover() != nil {
							p = true
						}
					}()
					out = a.Seal(buf[:ns], buf[:ns], buf[ns:], nil)
					return false
				}()
				rep.Cases++
				rep.Steps++
				rep.Distribution["cipher-"+name]++
				if n > 0 {
					rep.Nontrivial++
				}
				rep.Monitors["aead-seal-no-realloc"]++
				rp := map[string]any{"cipher": name, "key": hx(key), "plaintext_len": n, "cap": capa, "nonce": hx(nonce), "plaintext": hx(plain)}
				if panicked {
					rep.Distribution["aead-seal-refused(panic)"]++
					if capa >= ns+n+ov {
						cfbViolate(rep, name+"-seal-refused", fmt.Sprintf("%s: Seal panics although the buffer has room (len %d cap %d)", name, ns+n, capa), rp)
					}
					continue
				}
				if unsafe.Pointer(unsafe.SliceData(out)) != base || len(out) != ns+n+ov {
					cfbViolate(rep, name+"-seal-realloc", fmt.Sprintf("%s: Seal left the packet buffer (len %d cap %d -> len %d, moved=%v)",
						name, ns+n, capa, len(out), unsafe.Pointer(unsafe.SliceData(out)) != base), rp)
					continue
				}
				// receive side
				data := out
				ct := data[ns:]
				pt, err := a.Open(ct[:0], data[:ns], ct, nil)
				rep.Steps++
				rep.Monitors["aead-open(seal(x))==x-in-buffer"]++
				moved := len(pt) > 0 && unsafe.Pointer(unsafe.SliceData(pt)) != unsafe.Pointer(unsafe.SliceData(ct))
				if err != nil || !bytes.Equal(pt, plain) || !bytes.Equal(data[:ns], nonce) || moved {
					cfbViolate(rep, name+"-roundtrip", fmt.Sprintf("%s: Open(Seal(x)) inside the packet buffer: err=%v equal=%v moved=%v (plaintext len %d)",
						name, err, bytes.Equal(pt, plain), moved, n), rp)
				}
			}
		}
		rep.sample(map[string]any{"cipher": name, "key": hx(key), "plaintext_lengths": fmt.Sprintf("0..%d", cfbMaxLen-ns-ov)})
	}
}

// ---- replay of one recorded input (bin/check C08 --replay <file>)

func cfbRunReplay(t *testing.T, rep *vreport, path string) {
	raw, err := os.ReadFile(path)
	if err != nil {
		t.Fatal(err)
	}
	var f struct {
		Replay cfbReplay `json:"replay"`
	}
	if err := json.Unmarshal(raw, &f); err != nil {
		t.Fatal(err)
	}
	r := f.Replay
	for _, c := range cfbCiphers {
		if c.name != r.Cipher {
			continue
		}
		key, _ := hex.DecodeString(r.Key)
		src, _ := hex.DecodeString(r.Src)
		bc, err := c.mk(key)
		if err != nil {
			t.Fatal(err)
		}
		rep.Extra["replayed"] = path
		if len(r.Note) >= 10 && r.Note[:10] == "concurrent" {
			// a concurrency finding: the whole per-cipher run (all lengths, the three goroutine mixes) under the recorded key
			cfbRealCipher(t, rep, newRng(vSeed()), c, key)
			return
		}
		rep.Cases++
		cfbRoundTrip(rep, c, key, bc, src)
		return
	}
	t.Fatalf("replay %s: no round-trip input in it (cipher %q)", path, r.Cipher)
}
