//go:build verif

package kcp

// Property C15 - Close releases goroutines and callbacks; pooled buffers have one owner.
//
// TestVerifC15Buffers
//   A SANITIZER sits behind the two call-outs of bufferPool.Get/Put (build tag verif): an
//   ownership map keyed by the backing array, states {owned, in pool}; Put of a buffer that is
//   in the pool = double Put; every recycled buffer is POISONED and the poison is verified
//   when the buffer is handed out again (and for all pooled buffers at the end) = write after
//   Put; reads after Put cannot be trapped, they are caught by content oracles: all payload
//   bytes the harness sends are < 0x80, the poison byte is 0xDB, so a read of a recycled buffer
//   shows up as poison in a delivered stream, in a datagram on the (clear-text) wire, or as a
//   stream mismatch.  Driven (1) on two raw KCP cores op by op, with an exact census after every
//   op (the buffers behind the segments of the four queues are pairwise distinct, owned, and
//   are ALL the outstanding buffers) and an op log "C15.log" with the per-op Get/Put counts that
//   ml/pool_driver.ml replays on the extracted ownership model (coq/pool/Pool.v); (2) on the raw
//   FEC decoder (+ the recycling its caller does); (3) on real sessions over an in-memory
//   PacketConn pair under several cipher / FEC / loss configurations incl. two concurrent
//   sessions on one listener.
// TestVerifC15Close
//   Real sessions, listener and transport are closed in generated orders at generated points
//   of a traffic history; afterwards no goroutine the library started for them may remain
//   (runtime.Stack, compared as sets of entry functions after a generous grace period) and no
//   update callback may stay scheduled (SystemTimedSched is replaced by a private instance
//   without workers whose queue the harness pumps and can inspect).

import (
	"bytes"
	"encoding/binary"
	"fmt"
	"net"
	"reflect"
	"runtime"
	"sort"
	"strings"
	"sync"
	"sync/atomic"
	"testing"
	"time"
	"unsafe"
)

const poolPoison = 0xDB

// ------------------------------------------------------------------------------- sanitizer

type poolSanEntry struct {
	buf    []byte // full-capacity view; keeps the memory alive, so an address is never reused
	inPool bool
	epoch  int
	putAt  string
	getAt  string
}

type poolSanitizer struct {
	mu           sync.Mutex
	m            map[*byte]*poolSanEntry
	gets, puts   uint64
	fresh        uint64 // Gets of buffers never seen before (pool.New or dropped by the GC)
	foreign      uint64 // Puts of buffers that never came out of the pool
	poisonChecks uint64
	epoch        int
	ctx          func() any // replay information of whatever is running
	viol         []vviolation
	putSites     map[string]int
	getSites     map[string]int
}

func newPoolSanitizer() *poolSanitizer {
	return &poolSanitizer{m: map[*byte]*poolSanEntry{}, putSites: map[string]int{}, getSites: map[string]int{}}
}

// poolSite names the code site of the Get/Put in progress ("recycleSegment<parse_ack", ...).
func poolSite() string {
	var pcs [14]uintptr
	n := runtime.Callers(3, pcs[:])
	fr := runtime.CallersFrames(pcs[:n])
	short := func(fn string) string {
		if i := strings.LastIndex(fn, "/"); i >= 0 {
			fn = fn[i+1:]
		}
		fn = strings.TrimPrefix(fn, "v5.")
		fn = strings.TrimPrefix(fn, "kcp.")
		return fn
	}
	site := ""
	for {
		f, more := fr.Next()
		name := short(f.Function)
		skip := strings.Contains(name, "verifPool") || strings.Contains(name, "(*bufferPool)") ||
			strings.Contains(name, "poolSanitizer") || strings.Contains(name, "poolSite")
		if !skip && name != "" {
			if site == "" {
				site = name
				if !strings.HasSuffix(name, "recycleSegment") && !strings.HasSuffix(name, "newSegment") {
					return site
				}
			} else {
				return site + "<" + name
			}
		}
		if !more {
			break
		}
	}
	return site
}

func (z *poolSanitizer) violate(key, what string) {
	var r any
	if z.ctx != nil {
		r = z.ctx()
	}
	if len(z.viol) < 20 {
		z.viol = append(z.viol, vviolation{key, what, r})
	}
}

func poolFirstNonPoison(b []byte) int {
	for i, c := range b {
		if c != poolPoison {
			return i
		}
	}
	return -1
}

func (z *poolSanitizer) onGet(buf []byte) {
	full := buf[:cap(buf)]
	key := unsafe.SliceData(full)
	site := poolSite()
	z.mu.Lock()
	defer z.mu.Unlock()
	z.gets++
	z.getSites[site]++
	e := z.m[key]
	if e == nil {
		z.fresh++
		z.m[key] = &poolSanEntry{buf: full, epoch: z.epoch, getAt: site}
		return
	}
	if !e.inPool {
		z.violate("pool-double-put", fmt.Sprintf("the pool handed out (to %s) a buffer that is still owned (acquired at %s): it was recycled twice", site, e.getAt))
		e.getAt = site
		return
	}
	z.poisonChecks++
	if off := poolFirstNonPoison(e.buf); off >= 0 {
		z.violate("pool-write-after-put", fmt.Sprintf("a buffer recycled at %s was written after its Put: byte %d holds %#x (seen when re-acquired at %s)", e.putAt, off, e.buf[off], site))
	}
	e.inPool, e.epoch, e.getAt = false, z.epoch, site
}

func (z *poolSanitizer) onPut(buf []byte) {
	full := buf[:cap(buf)]
	key := unsafe.SliceData(full)
	site := poolSite()
	z.mu.Lock()
	defer z.mu.Unlock()
	z.puts++
	z.putSites[site]++
	e := z.m[key]
	if e == nil {
		z.foreign++
		e = &poolSanEntry{buf: full, epoch: z.epoch}
		z.m[key] = e
	} else if e.inPool {
		z.violate("pool-double-put", fmt.Sprintf("buffer recycled twice: first at %s, again at %s", e.putAt, site))
	}
	for i := range full {
		full[i] = poolPoison
	}
	e.inPool, e.putAt = true, site
}

// sweep verifies the poison of every buffer that is in the pool as far as the sanitizer knows.
func (z *poolSanitizer) sweep() int {
	z.mu.Lock()
	defer z.mu.Unlock()
	n := 0
	for _, e := range z.m {
		if e.inPool {
			n++
			z.poisonChecks++
			if off := poolFirstNonPoison(e.buf); off >= 0 {
				z.violate("pool-write-after-put", fmt.Sprintf("a buffer recycled at %s was written after its Put: byte %d holds %#x (final sweep)", e.putAt, off, e.buf[off]))
				for i := range e.buf { // re-poison so that one write is reported once
					e.buf[i] = poolPoison
				}
			}
		}
	}
	return n
}

func (z *poolSanitizer) counts() (g, p uint64) {
	z.mu.Lock()
	defer z.mu.Unlock()
	return z.gets, z.puts
}

// owned returns the buffers acquired in the current epoch that have not been recycled.
func (z *poolSanitizer) owned() map[*byte]string {
	z.mu.Lock()
	defer z.mu.Unlock()
	r := map[*byte]string{}
	for k, e := range z.m {
		if !e.inPool && e.epoch == z.epoch {
			r[k] = e.getAt
		}
	}
	return r
}

func (z *poolSanitizer) newEpoch() {
	z.mu.Lock()
	z.epoch++
	z.mu.Unlock()
}

// state: 0 unknown, 1 owned, 2 in pool
func (z *poolSanitizer) state(k *byte) int {
	z.mu.Lock()
	defer z.mu.Unlock()
	e := z.m[k]
	if e == nil {
		return 0
	}
	if e.inPool {
		return 2
	}
	return 1
}

func (z *poolSanitizer) install() {
	VerifPoolGetHook = z.onGet
	VerifPoolPutHook = z.onPut
}
func poolUninstall() {
	VerifPoolGetHook = nil
	VerifPoolPutHook = nil
}

func (z *poolSanitizer) drainInto(rep *vreport) {
	z.mu.Lock()
	defer z.mu.Unlock()
	for _, v := range z.viol {
		rep.violate(v.Key, v.What, v.Replay)
	}
	z.viol = nil
}

// ------------------------------------------------------------------------------- census helpers

func poolKey(b []byte) *byte { return unsafe.SliceData(b[:cap(b)]) }

// poolKcpHeld lists the buffers behind the segments of the four queues of a core.
func poolKcpHeld(k *KCP) []*byte {
	var r []*byte
	add := func(s *segment) bool {
		if s.data != nil {
			r = append(r, poolKey(s.data))
		}
		return true
	}
	k.snd_queue.ForEach(add)
	k.snd_buf.ForEach(add)
	k.rcv_queue.ForEach(add)
	for i := range k.rcv_buf.segments {
		add(&k.rcv_buf.segments[i])
	}
	return r
}

func poolFecHeld(d *fecDecoder) []*byte {
	var r []*byte
	if d == nil {
		return r
	}
	for _, sh := range d.shardSet {
		for _, p := range sh.elements {
			r = append(r, poolKey(p))
		}
	}
	return r
}

// poolCensus checks the holders handed to it: pairwise distinct, each owned (not in the pool).
func poolCensus(z *poolSanitizer, holders map[string][]*byte, where string) (total int) {
	seen := map[*byte]string{}
	names := make([]string, 0, len(holders))
	for n := range holders {
		names = append(names, n)
	}
	sort.Strings(names)
	for _, n := range names {
		for _, p := range holders[n] {
			total++
			if o, dup := seen[p]; dup {
				z.mu.Lock()
				z.violate("pool-shared-buffer", fmt.Sprintf("%s: one pooled buffer is held by two holders (%s and %s)", where, o, n))
				z.mu.Unlock()
			}
			seen[p] = n
			if z.state(p) == 2 {
				z.mu.Lock()
				z.violate("pool-held-after-put", fmt.Sprintf("%s: %s still holds a buffer that has been recycled", where, n))
				z.mu.Unlock()
			}
		}
	}
	return
}

// ------------------------------------------------------------------------------- raw core

type poolCoreCfg struct {
	Conv    uint32    `json:"conv"`
	Mtu     int       `json:"mtu"`
	Stream  int       `json:"stream"`
	Snd     [2]int    `json:"snd"`
	Rcv     [2]int    `json:"rcv"`
	Nodelay int       `json:"nodelay"`
	Nc      int       `json:"nc"`
	Isn     [2]uint32 `json:"isn"`
}

type poolCore struct {
	cfg        poolCoreCfg
	k          [2]*KCP
	wire       [2][][]byte // every datagram endpoint e has emitted
	nextd      [2]int      // next undelivered datagram of endpoint e
	now        uint32
	lg         *vlog
	rep        *vreport
	z          *poolSanitizer
	rng        *vrng
	ops        []string
	id         int
	sent       [2][]byte // accepted stream of endpoint e
	rcvd       [2][]byte // what endpoint e received
	forged     [2]bool   // a forged PUSH was delivered to endpoint e
	g0, p0     uint64    // sanitizer counters at the start of the case
	sawNilSeg  bool
	sawDupPush bool
	sawRecv    bool
}

func poolSetClock(ms uint32) { refTime = time.Now().Add(-time.Duration(ms) * time.Millisecond) }

func newPoolCore(id int, cfg poolCoreCfg, lg *vlog, rep *vreport, z *poolSanitizer, rng *vrng) *poolCore {
	c := &poolCore{cfg: cfg, lg: lg, rep: rep, z: z, rng: rng, id: id, now: 1000}
	poolSetClock(c.now)
	for e := 0; e < 2; e++ {
		e := e
		k := NewKCP(cfg.Conv, func(buf []byte, size int) {
			d := make([]byte, size)
			copy(d, buf[:size])
			c.wire[e] = append(c.wire[e], d)
		})
		k.snd_una, k.snd_nxt = cfg.Isn[e], cfg.Isn[e]
		k.stream = int32(cfg.Stream)
		k.WndSize(cfg.Snd[e], cfg.Rcv[e])
		k.NoDelay(cfg.Nodelay, 10, 2, cfg.Nc)
		if k.SetMtu(cfg.Mtu) != 0 {
			panic("pool: bad mtu")
		}
		c.k[e] = k
	}
	c.k[0].rcv_nxt, c.k[1].rcv_nxt = cfg.Isn[1], cfg.Isn[0]
	c.g0, c.p0 = z.counts()
	lg.printf("C %d\n", id)
	for e := 0; e < 2; e++ {
		lg.printf("K %d %d %d %d %d %d\n", e, c.k[e].mss, cfg.Stream, cfg.Rcv[e], cfg.Isn[e], cfg.Isn[1-e])
	}
	return c
}

func poolProj(k *KCP) string {
	sbnil := 0
	k.snd_buf.ForEach(func(s *segment) bool {
		if s.data == nil {
			sbnil++
		}
		return true
	})
	return fmt.Sprintf("%d %d %d %d %d %d %d %d", k.snd_queue.Len(), k.snd_buf.Len(), sbnil, k.rcv_buf.Len(),
		k.rcv_queue.Len(), k.snd_una, k.snd_nxt, k.rcv_nxt)
}

func (c *poolCore) replay() any {
	return map[string]any{"test": "TestVerifC15Buffers/core", "seed": vSeed(), "case": c.id, "cfg": c.cfg, "ops": append([]string(nil), c.ops...)}
}

// after runs the monitors that follow every operation and writes the log line.
func (c *poolCore) after(e int, line string, ret int, g1, p1 uint64) {
	g2, p2 := c.z.counts()
	c.lg.printf("%s | %d %d %d %s\n", line, ret, g2-g1, p2-p1, poolProj(c.k[e]))
	c.rep.Steps++
	// census: the buffers behind the queued segments are distinct, owned, and are all that is outstanding
	h := map[string][]*byte{"core0": poolKcpHeld(c.k[0]), "core1": poolKcpHeld(c.k[1])}
	total := poolCensus(c.z, h, line)
	out := int(g2-c.g0) - int(p2-c.p0)
	c.rep.Monitors["core_census"]++
	if out != total {
		c.z.mu.Lock()
		c.z.violate("pool-count-mismatch", fmt.Sprintf("after `%s`: %d buffers outstanding (Get-Put) but %d held by queue segments", line, out, total))
		c.z.mu.Unlock()
	}
	c.k[e].snd_buf.ForEach(func(s *segment) bool {
		if s.data == nil {
			c.sawNilSeg = true
		}
		return true
	})
}

func poolHasPoison(b []byte) bool { return bytes.IndexByte(b, poolPoison) >= 0 }

// checkWire: payload bytes of PUSH segments emitted by the cores are < 0x80 by construction.
func (c *poolCore) checkWire(e int, from int) {
	for _, d := range c.wire[e][from:] {
		p := d
		for len(p) >= IKCP_OVERHEAD {
			cmd := p[4]
			ln := int(binary.LittleEndian.Uint32(p[20:]))
			p = p[IKCP_OVERHEAD:]
			if ln > len(p) {
				break
			}
			c.rep.Monitors["core_wire_payload"]++
			if cmd == IKCP_CMD_PUSH && poolHasPoison(p[:ln]) {
				c.z.mu.Lock()
				c.z.violate("pool-read-after-put", "a PUSH segment emitted by flush carries poison: the data of a recycled buffer was read")
				c.z.mu.Unlock()
			}
			p = p[ln:]
		}
	}
}

func (c *poolCore) payload(n int) []byte {
	b := make([]byte, n)
	for i := range b {
		b[i] = byte(c.rng.u64()) & 0x7f
	}
	return b
}

func (c *poolCore) opSend(e, n int) {
	poolSetClock(c.now)
	data := c.payload(n)
	line := fmt.Sprintf("S %d %d", e, n)
	c.ops = append(c.ops, line)
	g1, p1 := c.z.counts()
	ret := c.k[e].Send(data)
	if ret == 0 {
		c.sent[e] = append(c.sent[e], data...)
	}
	c.after(e, line, ret, g1, p1)
	c.rep.Distribution["core_send"]++
}

func (c *poolCore) opRecv(e, buflen int) {
	poolSetClock(c.now)
	buf := make([]byte, buflen)
	line := fmt.Sprintf("R %d %d", e, buflen)
	c.ops = append(c.ops, line)
	g1, p1 := c.z.counts()
	ret := c.k[e].Recv(buf)
	if ret > 0 {
		c.sawRecv = true
		got := buf[:ret]
		c.rep.Monitors["core_recv_content"]++
		if poolHasPoison(got) {
			c.z.mu.Lock()
			c.z.violate("pool-read-after-put", "Recv returned poison: the data of a recycled buffer was copied out")
			c.z.mu.Unlock()
		}
		c.rcvd[e] = append(c.rcvd[e], got...)
		if !c.forged[e] {
			s := c.sent[1-e]
			if len(c.rcvd[e]) > len(s) || !bytes.Equal(c.rcvd[e], s[:len(c.rcvd[e])]) {
				c.z.mu.Lock()
				c.z.violate("pool-stream-mismatch", fmt.Sprintf("endpoint %d received bytes that are not a prefix of what its peer sent", e))
				c.z.mu.Unlock()
				c.forged[e] = true // report once
			}
		}
	}
	c.after(e, line, ret, g1, p1)
	c.rep.Distribution["core_recv"]++
}

func (c *poolCore) opFlush(e int, advance uint32, kind int) {
	c.now += advance
	poolSetClock(c.now)
	nxt := c.k[e].snd_nxt
	w0 := len(c.wire[e])
	g1, p1 := c.z.counts()
	switch kind {
	case 0:
		c.k[e].flush(IKCP_FLUSH_FULL)
	case 1:
		c.k[e].Update()
	default:
		c.k[e].flush(IKCP_FLUSH_ACKONLY)
	}
	line := fmt.Sprintf("F %d %d", e, c.k[e].snd_nxt-nxt)
	c.ops = append(c.ops, fmt.Sprintf("%s (clock+%d kind %d)", line, advance, kind))
	c.after(e, line, 0, g1, p1)
	c.checkWire(e, w0)
	c.rep.Distribution["core_flush"]++
}

// poolParseInput lists the segments KCP.Input will process, following its loop and its exits.
func poolParseInput(k *KCP, data []byte) (segs [][5]uint32) {
	if len(data) < IKCP_OVERHEAD {
		return
	}
	for len(data) >= IKCP_OVERHEAD {
		conv := binary.LittleEndian.Uint32(data)
		cmd := data[4]
		frg := data[5]
		sn := binary.LittleEndian.Uint32(data[12:])
		una := binary.LittleEndian.Uint32(data[16:])
		length := binary.LittleEndian.Uint32(data[20:])
		data = data[IKCP_OVERHEAD:]
		if conv != k.conv {
			return
		}
		if len(data) < int(length) || length > mtuLimit {
			return
		}
		if cmd != IKCP_CMD_PUSH && cmd != IKCP_CMD_ACK && cmd != IKCP_CMD_WASK && cmd != IKCP_CMD_WINS {
			return
		}
		segs = append(segs, [5]uint32{uint32(cmd), uint32(frg), sn, una, length})
		data = data[length:]
	}
	return
}

func (c *poolCore) opInput(e int, data []byte, what string, regular bool) {
	poolSetClock(c.now)
	segs := poolParseInput(c.k[e], data)
	dup := false
	for _, s := range segs {
		if s[0] == IKCP_CMD_PUSH {
			dup = true
		}
	}
	nxt := c.k[e].snd_nxt
	w0 := len(c.wire[e])
	g1, p1 := c.z.counts()
	pt := IKCP_PACKET_REGULAR
	if !regular {
		pt = IKCP_PACKET_FEC
	}
	c.k[e].Input(data, PacketType(pt), c.rng.chance(30))
	g2, _ := c.z.counts()
	if dup && g2 == g1 {
		c.sawDupPush = true
	}
	var sb strings.Builder
	fmt.Fprintf(&sb, "I %d %d %d", e, c.k[e].snd_nxt-nxt, len(segs))
	for _, s := range segs {
		fmt.Fprintf(&sb, " %d %d %d %d %d", s[0], s[1], s[2], s[3], s[4])
	}
	line := sb.String()
	c.ops = append(c.ops, line+" ("+what+" "+hx(data)+")")
	c.after(e, line, 0, g1, p1)
	c.checkWire(e, w0)
	c.rep.Distribution["core_input_"+what]++
}

func poolSeg(conv uint32, cmd, frg byte, wnd uint16, ts, sn, una uint32, data []byte) []byte {
	b := make([]byte, IKCP_OVERHEAD+len(data))
	binary.LittleEndian.PutUint32(b, conv)
	b[4], b[5] = cmd, frg
	binary.LittleEndian.PutUint16(b[6:], wnd)
	binary.LittleEndian.PutUint32(b[8:], ts)
	binary.LittleEndian.PutUint32(b[12:], sn)
	binary.LittleEndian.PutUint32(b[16:], una)
	binary.LittleEndian.PutUint32(b[20:], uint32(len(data)))
	copy(b[IKCP_OVERHEAD:], data)
	return b
}

// opForge delivers a crafted datagram to endpoint e.
func (c *poolCore) opForge(e int) {
	k := c.k[e]
	r := c.rng
	inflight := int(k.snd_nxt - k.snd_una)
	una := k.snd_una + uint32(r.intn(inflight+3)) - 1
	switch r.intn(8) {
	case 0, 1: // an ACK (or several) for sequence numbers around the send window
		var d []byte
		for i := 0; i <= r.intn(3); i++ {
			sn := k.snd_una + uint32(r.intn(inflight+4)) - 2
			d = append(d, poolSeg(k.conv, IKCP_CMD_ACK, 0, 32, c.now, sn, una, nil)...)
		}
		c.opInput(e, d, "forged-ack", true)
	case 2: // a PUSH around the receive window (new, duplicate or outside)
		sn := k.rcv_nxt + uint32(r.intn(int(k.rcv_wnd)+5)) - 2
		ln := r.pick(0, 1, 10, int(k.mss))
		c.forged[e] = true
		c.opInput(e, poolSeg(k.conv, IKCP_CMD_PUSH, byte(r.pick(0, 0, 1, 3)), 32, c.now, sn, una, c.payload(ln)), "forged-push", r.chance(70))
	case 3: // a genuine datagram cut short
		if len(c.wire[1-e]) > 0 {
			d := c.wire[1-e][r.intn(len(c.wire[1-e]))]
			c.opInput(e, d[:r.intn(len(d)+1)], "truncated", true)
		}
	case 4: // foreign conversation
		c.opInput(e, poolSeg(k.conv+1, IKCP_CMD_ACK, 0, 32, c.now, k.snd_una, k.snd_nxt, nil), "wrong-conv", true)
	case 5: // a valid ACK followed by an unknown command
		d := poolSeg(k.conv, IKCP_CMD_ACK, 0, 32, c.now, k.snd_una, una, nil)
		d = append(d, poolSeg(k.conv, 99, 0, 32, c.now, 0, k.snd_nxt, nil)...)
		c.opInput(e, d, "bad-cmd", true)
	case 6: // length field larger than what follows, after a valid window probe
		d := poolSeg(k.conv, IKCP_CMD_WASK, 0, 32, c.now, 0, una, nil)
		bad := poolSeg(k.conv, IKCP_CMD_PUSH, 0, 32, c.now, k.rcv_nxt, una, c.payload(5))
		binary.LittleEndian.PutUint32(bad[20:], 500)
		c.opInput(e, append(d, bad...), "bad-length", true)
	default: // una far ahead: everything in flight is acknowledged at once
		c.opInput(e, poolSeg(k.conv, IKCP_CMD_WINS, 0, 32, c.now, 0, k.snd_nxt+uint32(r.intn(2)), nil), "una-jump", true)
	}
}

// opPutView: Put of re-sliced views of a held buffer must be refused and leave everything untouched.
func (c *poolCore) opPutView(e int) {
	var held []byte
	c.k[e].snd_queue.ForEach(func(s *segment) bool { held = s.data; return false })
	if held == nil {
		c.k[e].rcv_queue.ForEach(func(s *segment) bool { held = s.data; return false })
	}
	if held == nil {
		return
	}
	off := 1 + c.rng.intn(cap(held)-1)
	line := fmt.Sprintf("V %d %d", e, off)
	c.ops = append(c.ops, line)
	g1, p1 := c.z.counts()
	err := defaultBufferPool.Put(held[:cap(held)][off:])
	c.rep.Monitors["put_resliced_refused"]++
	if err == nil {
		c.z.mu.Lock()
		c.z.violate("pool-accepts-resliced", fmt.Sprintf("Put accepted a view that starts %d bytes into a pooled buffer (capacity %d)", off, cap(held)-off))
		c.z.mu.Unlock()
	}
	c.after(e, line, 0, g1, p1)
	c.rep.Distribution["core_putview"]++
}

func (c *poolCore) deliverNext(e int) { // e = sender
	if c.nextd[e] < len(c.wire[e]) {
		d := c.wire[e][c.nextd[e]]
		c.nextd[e]++
		c.opInput(1-e, d, "genuine", true)
	}
}

func poolRunCoreCase(id int, lg *vlog, rep *vreport, z *poolSanitizer, rng *vrng, steps int) {
	mtu := rng.pick(50, 60, 100, 200, 576, 1400, 1500)
	cfg := poolCoreCfg{Conv: uint32(rng.u64()), Mtu: mtu, Stream: rng.intn(2),
		Snd: [2]int{rng.pick(1, 2, 8, 32, 128), rng.pick(1, 2, 8, 32, 128)},
		Rcv: [2]int{rng.pick(1, 2, 4, 8, 32, 128), rng.pick(1, 2, 4, 8, 32, 128)},
		Nodelay: rng.intn(2), Nc: rng.intn(2)}
	for e := 0; e < 2; e++ {
		switch rng.intn(3) {
		case 0:
			cfg.Isn[e] = 0
		case 1:
			cfg.Isn[e] = 0xffffffff - uint32(rng.intn(40))
		default:
			cfg.Isn[e] = uint32(rng.u64())
		}
	}
	c := newPoolCore(id, cfg, lg, rep, z, rng)
	z.mu.Lock()
	z.ctx = c.replay
	z.mu.Unlock()
	rep.Distribution[fmt.Sprintf("core_mtu_%d", mtu)]++
	rep.Distribution[fmt.Sprintf("core_stream_%d", cfg.Stream)]++
	mss := int(c.k[0].mss)
	lossy := rng.pick(0, 5, 25)
	for i := 0; i < steps; i++ {
		e := rng.intn(2)
		switch x := rng.intn(100); {
		case x < 22:
			n := rng.pick(1, mss/2+1, mss, mss+1, 3*mss+7, rng.intn(4*mss)+1)
			if rng.chance(3) {
				n = rng.pick(0, 256*mss+1)
			}
			c.opSend(e, n)
		case x < 36:
			c.opRecv(e, rng.pick(1<<16, 1<<16, 1<<16, 1, mss))
		case x < 56:
			c.opFlush(e, uint32(rng.pick(0, 10, 10, 50, 100, 300, 5000)), rng.pick(0, 0, 1, 1, 2))
		case x < 84:
			if rng.chance(lossy) {
				if c.nextd[e] < len(c.wire[e]) {
					c.nextd[e]++ // lost
					rep.Distribution["core_loss"]++
				}
			} else if rng.chance(12) && len(c.wire[e]) > 0 {
				c.opInput(1-e, c.wire[e][rng.intn(len(c.wire[e]))], "duplicate", rng.chance(80))
			} else if rng.chance(10) && c.nextd[e]+1 < len(c.wire[e]) {
				w := c.wire[e]
				w[c.nextd[e]], w[c.nextd[e]+1] = w[c.nextd[e]+1], w[c.nextd[e]]
				c.deliverNext(e)
			} else {
				c.deliverNext(e)
			}
		case x < 96:
			c.opForge(e)
		default:
			c.opPutView(e)
		}
	}
	// wind down: drain both directions so that most cases end with everything recycled
	for round := 0; round < 40; round++ {
		for e := 0; e < 2; e++ {
			c.opFlush(e, 100, 0)
			for c.nextd[e] < len(c.wire[e]) {
				c.deliverNext(e)
			}
			c.opRecv(e, 1<<16)
		}
	}
	lg.printf("E\n")
	rep.Cases++
	if c.sawNilSeg && c.sawDupPush && c.sawRecv {
		rep.Nontrivial++
	}
	rep.sample(map[string]any{"case": id, "cfg": cfg, "first_ops": c.ops[:min(len(c.ops), 12)]})
}

// ------------------------------------------------------------------------------- raw FEC decoder

// poolFecCase feeds a real fecDecoder with the output of a real fecEncoder under loss,
// duplication and reordering, recycles `recovered` the way kcpInput does, and checks the
// census after every packet.  The branch taken by decode() is read off the decoder's state
// before / after and logged for the model replay.
// layouts of sender / receiver that differ; the first block keeps the GROUP SIZE and changes only
// the data/parity ratio, the second changes the size as well
var poolFecPairs = [][4]int{
	{3, 1, 2, 2}, {2, 2, 3, 1}, {2, 2, 1, 3}, {1, 3, 2, 2}, {10, 3, 11, 2}, {11, 2, 10, 3}, {5, 2, 4, 3}, {4, 3, 5, 2}, {3, 2, 2, 3},
	{3, 1, 5, 2}, {10, 3, 3, 1}, {2, 1, 3, 3}, {5, 2, 2, 2},
}

func poolRunFecCase(id int, lg *vlog, rep *vreport, z *poolSanitizer, rng *vrng, npkts int) {
	// mode 0: sender and receiver agree; mode 1: they differ from the first packet on;
	// mode 2: they agree, packets are parked under loss, then the sender changes its layout
	mode := rng.pick(0, 1, 1, 2, 2)
	ds, ps := rng.pick(1, 2, 3, 5, 10), rng.pick(1, 2, 3)
	ds2, ps2 := ds, ps
	if mode != 0 {
		pr := poolFecPairs[rng.intn(len(poolFecPairs))]
		ds, ps, ds2, ps2 = pr[0], pr[1], pr[2], pr[3]
	}
	dec := newFECDecoder(ds, ps)
	enc := newFECEncoder(ds, ps, 0)
	if mode == 1 {
		enc = newFECEncoder(ds2, ps2, 0)
	}
	lossy := rng.pick(10, 20, 30)
	if mode == 0 {
		lossy = rng.pick(0, 10, 30)
	}
	var ops []string
	z.mu.Lock()
	z.ctx = func() any {
		return map[string]any{"test": "TestVerifC15Buffers/fec", "seed": vSeed(), "case": id, "mode": mode,
			"receiver": [2]int{ds, ps}, "sender": [2]int{ds2, ps2}, "loss": lossy, "ops": append([]string(nil), ops...)}
	}
	z.mu.Unlock()
	g0, p0 := z.counts()
	lg.printf("C %d\nX\n", id)
	var pending [][]byte
	feed := func(pkt []byte) {
		f := fecPacket(pkt)
		seqid := f.seqid()
		sid := seqid / uint32(dec.shardSize)
		before := map[uint32]int{}
		for k, sh := range dec.shardSet {
			before[k] = sh.Len()
		}
		dsBefore, psBefore := dec.dataShards, dec.parityShards
		var hadData map[uint32]bool
		if sh, ok := dec.shardSet[sid]; ok {
			hadData = map[uint32]bool{}
			for _, p := range sh.elements {
				if p.flag() == typeData {
					hadData[p.seqid()%uint32(dec.shardSize)] = true
				}
			}
		}
		dupBefore := false
		if sh, ok := dec.shardSet[sid]; ok {
			dupBefore = sh.Has(seqid)
		}
		// the gates of decode(), evaluated on the state before the call
		pos := seqid % uint32(dec.shardSize)
		mismatch := (pos < uint32(dec.dataShards)) != (f.flag() == typeData)
		if pos >= uint32(dec.dataShards) {
			mismatch = f.flag() != typeParity
		}
		gated := seqid >= dec.paws || dec.shouldTune || mismatch
		g1, p1 := z.counts()
		var rec [][]byte
		if pn := func() (p string) {
			defer func() {
				if r := recover(); r != nil {
					p = fmt.Sprint(r)
				}
			}()
			rec = dec.decode(f)
			return ""
		}(); pn != "" {
			// a decoder working on recycled or stale buffers may well crash: that is the finding
			z.mu.Lock()
			z.violate("pool-fec-decode-panic", fmt.Sprintf("fecDecoder.decode panicked on a genuine packet (seqid %d) after earlier recoveries: %s", seqid, pn))
			z.mu.Unlock()
			return
		}
		for _, r := range rec { // what kcpInput does with them
			if len(r) >= 2 && binary.LittleEndian.Uint16(r) == 0xdbdb {
				z.mu.Lock()
				z.violate("pool-read-after-put", "a recovered shard is poison")
				z.mu.Unlock()
			}
			defaultBufferPool.Put(r)
		}
		g2, p2 := z.counts()
		line := ""
		var old []uint32
		for k := range before {
			if _, ok := dec.shardSet[k]; !ok {
				old = append(old, k)
			}
		}
		if _, ok := dec.shardSet[sid]; !ok && !gated && !dupBefore {
			if _, was := before[sid]; !was { // a late packet opened a group that was discarded at once
				old = append(old, sid)
			}
		}
		sort.Slice(old, func(i, j int) bool { return old[i] < old[j] })
		oldS := fmt.Sprint(len(old))
		for _, k := range old {
			oldS += fmt.Sprintf(" %d", k)
		}
		switch {
		case dec.dataShards != dsBefore || dec.parityShards != psBefore:
			line = "D retune"
			rep.Distribution["fec_retune"]++
			held := 0
			for _, n := range before {
				held += n
			}
			if held > 0 {
				rep.Distribution["fec_retune_with_packets_parked"]++
			}
			if dsBefore+psBefore == dec.dataShards+dec.parityShards {
				rep.Distribution["fec_retune_same_group_size"]++
				if held > 0 {
					rep.Distribution["fec_retune_same_group_size_with_packets_parked"]++
				}
			}
		case gated || dupBefore:
			line = "D drop"
		default:
			n := before[sid] + 1
			if n >= dsBefore {
				have := len(hadData)
				if f.flag() == typeData && !hadData[pos] {
					have++
				}
				if have == dsBefore {
					line = fmt.Sprintf("D accept %d alldata %s", sid, oldS)
				} else {
					okr := 0
					if len(rec) > 0 {
						okr = 1
					}
					line = fmt.Sprintf("D accept %d recover %d %d %s", sid, dsBefore-have, okr, oldS)
					rep.Distribution["fec_recover"]++
				}
			} else {
				line = fmt.Sprintf("D accept %d keep %s", sid, oldS)
			}
		}
		ops = append(ops, line)
		h := map[string][]*byte{"fecDecoder": poolFecHeld(dec)}
		total := poolCensus(z, h, line)
		lg.printf("%s | %d %d %d\n", line, g2-g1, p2-p1, total)
		rep.Steps++
		rep.Monitors["fec_census"]++
		if out := int(g2-g0) - int(p2-p0); out != total {
			z.mu.Lock()
			z.violate("pool-count-mismatch", fmt.Sprintf("FEC decoder after `%s`: %d buffers outstanding but %d parked in shard sets", line, out, total))
			z.mu.Unlock()
		}
	}
	// phases of the history, in data packets: [from, to) with a loss rate
	quiet := (ds2 + ps2 + ds + ps) * (2 + rng.intn(3)) // long enough for the period detector to see whole pulses
	switchAt, quietFrom := -1, 0
	switch mode {
	case 1:
		quietFrom = rng.intn(2 * (ds + ps)) // a few packets are parked under the receiver's own layout first
	case 2:
		switchAt = (ds + ps) * (3 + rng.intn(8))
		quietFrom = switchAt
	}
	total := quietFrom + quiet + npkts
	for i := 0; i < total; i++ {
		if i == switchAt {
			// the peer changes its layout; its sequence ids go on, aligned to a group of the new size
			e2 := newFECEncoder(ds2, ps2, 0)
			ss2 := uint32(ds2 + ps2)
			e2.next = (enc.next/ss2 + 1) * ss2 % e2.paws
			enc = e2
		}
		loss := lossy
		if mode != 0 && i >= quietFrom && i < quietFrom+quiet && rng.chance(90) {
			loss = 0
		}
		body := make([]byte, fecHeaderSizePlus2+1+rng.intn(60))
		for j := fecHeaderSizePlus2; j < len(body); j++ {
			body[j] = byte(rng.u64()) & 0x7f
		}
		par := enc.encode(body, 1<<30)
		var batch [][]byte
		batch = append(batch, append([]byte(nil), body...))
		for _, p := range par {
			batch = append(batch, append([]byte(nil), p...))
		}
		for _, p := range batch {
			if rng.chance(loss) {
				continue
			}
			if loss > 0 && rng.chance(8) {
				pending = append(pending, p) // delayed: may arrive after a re-tune, as a late packet of a stale group
				continue
			}
			feed(p)
			if rng.chance(6) {
				feed(p) // duplicate
			}
		}
		if len(pending) > 0 && rng.chance(12) {
			j := rng.intn(len(pending))
			feed(pending[j])
			pending = append(pending[:j], pending[j+1:]...)
		}
	}
	for _, p := range pending {
		feed(p)
	}
	rep.Distribution[fmt.Sprintf("fec_mode_%d", mode)]++
	lg.printf("E\n")
	rep.Cases++
	rep.Distribution[fmt.Sprintf("fec_rx%d+%d_tx%d+%d", ds, ps, ds2, ps2)]++
}

// ------------------------------------------------------------------------------- in-memory network

type poolAddr struct{ name string }

func (a poolAddr) Network() string { return "poolmem" }
func (a poolAddr) String() string  { return a.name }

type poolPkt struct {
	data []byte
	from net.Addr
}

type poolHub struct {
	mu      sync.Mutex
	eps     map[string]*poolEP
	rng     *vrng
	lossPct int32
	clear   bool // datagrams are clear text (no cipher): inspect them for poison
	z       *poolSanitizer
	sent    uint64
	dropped uint64
	poison  uint64
}

func newPoolHub(seed uint64, z *poolSanitizer) *poolHub {
	return &poolHub{eps: map[string]*poolEP{}, rng: newRng(seed), z: z}
}

type poolEP struct {
	hub    *poolHub
	addr   poolAddr
	ch     chan poolPkt
	closed chan struct{}
	once   sync.Once
}

func (h *poolHub) endpoint(name string) *poolEP {
	ep := &poolEP{hub: h, addr: poolAddr{name}, ch: make(chan poolPkt, 8192), closed: make(chan struct{})}
	h.mu.Lock()
	h.eps[name] = ep
	h.mu.Unlock()
	return ep
}

func (e *poolEP) isClosed() bool {
	select {
	case <-e.closed:
		return true
	default:
		return false
	}
}

func (e *poolEP) ReadFrom(p []byte) (int, net.Addr, error) {
	select {
	case <-e.closed:
		return 0, nil, net.ErrClosed
	default:
	}
	select {
	case pk := <-e.ch:
		return copy(p, pk.data), pk.from, nil
	case <-e.closed:
		return 0, nil, net.ErrClosed
	}
}

func poolPoisonRun(b []byte, n int) bool {
	run := 0
	for _, c := range b {
		if c == poolPoison {
			run++
			if run >= n {
				return true
			}
		} else {
			run = 0
		}
	}
	return false
}

func (e *poolEP) WriteTo(p []byte, to net.Addr) (int, error) {
	if e.isClosed() {
		return 0, net.ErrClosed
	}
	h := e.hub
	h.mu.Lock()
	dst := h.eps[to.String()]
	h.sent++
	drop := h.lossPct > 0 && h.rng.chance(int(h.lossPct))
	clear := h.clear
	h.mu.Unlock()
	if clear {
		// parity packets (type 0xf2) are Reed-Solomon output, everything else is clear text
		if !(len(p) >= 6 && binary.LittleEndian.Uint16(p[4:]) == typeParity) && poolPoisonRun(p, 24) {
			atomic.AddUint64(&h.poison, 1)
			h.z.mu.Lock()
			h.z.violate("pool-read-after-put", "a datagram on the clear-text wire carries a run of poison: a recycled (or never written) pool buffer was transmitted")
			h.z.mu.Unlock()
		}
	}
	if drop || dst == nil || dst.isClosed() {
		atomic.AddUint64(&h.dropped, 1)
		return len(p), nil
	}
	d := append([]byte(nil), p...)
	select {
	case dst.ch <- poolPkt{d, e.addr}:
	default:
		atomic.AddUint64(&h.dropped, 1)
	}
	return len(p), nil
}

func (e *poolEP) Close() error                       { e.once.Do(func() { close(e.closed) }); return nil }
func (e *poolEP) LocalAddr() net.Addr                { return e.addr }
func (e *poolEP) SetDeadline(t time.Time) error      { return nil }
func (e *poolEP) SetReadDeadline(t time.Time) error  { return nil }
func (e *poolEP) SetWriteDeadline(t time.Time) error { return nil }

// ------------------------------------------------------------------------------- session scenarios

type poolSessCfg struct {
	Name    string `json:"name"`
	Cipher  string `json:"cipher"`
	DS, PS  int  // FEC layout of the dialling side (and of the listener unless SDS/SPS are set)
	SDS     int  `json:"listener_ds"` // a listener configured differently: both decoders have to re-tune
	SPS     int  `json:"listener_ps"`
	Loss    int  `json:"loss_pct"`
	Dup     int  `json:"dup"`
	Clients int  `json:"clients"`
	Bytes   int  `json:"bytes"`
	Own     bool `json:"own_conn"`
	Stream  bool `json:"stream"`
}

func poolBlock(name string) BlockCrypt {
	key := []byte("0123456789abcdef0123456789abcdef")
	var b BlockCrypt
	var err error
	switch name {
	case "none":
		return nil
	case "aes":
		b, err = NewAESBlockCrypt(key)
	case "salsa20":
		b, err = NewSalsa20BlockCrypt(key)
	case "xor":
		b, err = NewSimpleXORBlockCrypt(key)
	case "aes-gcm":
		b, err = NewAESGCMCrypt(key)
	default:
		panic("pool: cipher " + name)
	}
	if err != nil {
		panic(err)
	}
	return b
}

func poolContent(rng *vrng, n int) []byte {
	b := make([]byte, n)
	for i := 0; i < n; i += 8 {
		x := rng.u64()
		for j := 0; j < 8 && i+j < n; j++ {
			b[i+j] = byte(x>>(8*j)) & 0x7f
		}
	}
	return b
}

type poolPeer struct {
	s     *UDPSession
	send  []byte
	mu    sync.Mutex
	got   []byte
	wdone chan struct{}
	rdone chan struct{}
}

func (p *poolPeer) run(want int) {
	p.wdone, p.rdone = make(chan struct{}), make(chan struct{})
	go func() { // writer
		defer close(p.wdone)
		d := p.send
		for len(d) > 0 {
			n := min(len(d), 1+len(d)%4000)
			p.s.SetWriteDeadline(time.Now().Add(40 * time.Second))
			if _, err := p.s.Write(d[:n]); err != nil {
				return
			}
			d = d[n:]
		}
	}()
	go func() { // reader
		defer close(p.rdone)
		buf := make([]byte, 3000)
		for {
			p.mu.Lock()
			have := len(p.got)
			p.mu.Unlock()
			if have >= want {
				return
			}
			p.s.SetReadDeadline(time.Now().Add(40 * time.Second))
			n, err := p.s.Read(buf)
			if n > 0 {
				p.mu.Lock()
				p.got = append(p.got, buf[:n]...)
				p.mu.Unlock()
			}
			if err != nil {
				return
			}
		}
	}()
}

func (p *poolPeer) received() []byte {
	p.mu.Lock()
	defer p.mu.Unlock()
	return append([]byte(nil), p.got...)
}

func poolCheckStream(z *poolSanitizer, what string, got, sent []byte) {
	n := min(len(got), len(sent))
	if len(got) <= len(sent) && bytes.Equal(got, sent[:n]) {
		return
	}
	key, why := "pool-stream-mismatch", "differs from what the peer wrote"
	if poolHasPoison(got) {
		key, why = "pool-read-after-put", "contains poison: bytes of a recycled buffer reached the application"
	}
	z.mu.Lock()
	z.violate(key, fmt.Sprintf("%s: the delivered stream %s", what, why))
	z.mu.Unlock()
}

func poolTune(s *UDPSession, cfg poolSessCfg) {
	s.SetNoDelay(1, 10, 2, 1)
	s.SetWindowSize(128, 128)
	s.SetStreamMode(cfg.Stream)
	s.SetDUP(cfg.Dup)
}

// poolSessCensus locks all the sessions (the library never holds two session locks at once, so
// any order is safe), lists what their cores and FEC decoders hold and runs the census while
// nothing can be recycled behind its back.  Returns the holders for the accounting.
func poolSessCensus(z *poolSanitizer, names []string, ss []*UDPSession, where string) (map[string][]*byte, int) {
	for _, s := range ss {
		s.mu.Lock()
	}
	h := map[string][]*byte{}
	for i, s := range ss {
		h[names[i]+".kcp"] = poolKcpHeld(s.kcp)
		h[names[i]+".fec"] = poolFecHeld(s.fecDecoder)
	}
	n := poolCensus(z, h, where)
	for _, s := range ss {
		s.mu.Unlock()
	}
	return h, n
}

func poolDecoderLayouts(ss []*UDPSession) []string {
	var r []string
	for _, s := range ss {
		s.mu.Lock()
		if s.fecDecoder != nil {
			r = append(r, fmt.Sprintf("%d+%d", s.fecDecoder.dataShards, s.fecDecoder.parityShards))
		}
		s.mu.Unlock()
	}
	return r
}

func poolWaitGoroutines(base map[string]int, d time.Duration) map[string]int {
	deadline := time.Now().Add(d)
	for {
		extra := poolExtraGoroutines(base)
		if len(extra) == 0 || time.Now().After(deadline) {
			return extra
		}
		time.Sleep(20 * time.Millisecond)
	}
}

func poolRunSessScenario(t *testing.T, idx int, cfg poolSessCfg, rep *vreport, z *poolSanitizer, rng *vrng) {
	z.newEpoch()
	z.mu.Lock()
	z.ctx = func() any { return map[string]any{"test": "TestVerifC15Buffers/sessions", "seed": vSeed(), "scenario": cfg} }
	z.mu.Unlock()
	base := poolGoroutines()
	hub := newPoolHub(rng.u64(), z)
	hub.clear = cfg.Cipher == "none"
	srvConn := hub.endpoint("srv")
	lds, lps := cfg.DS, cfg.PS
	if cfg.SDS > 0 {
		lds, lps = cfg.SDS, cfg.SPS
	}
	l, err := serveConn(poolBlock(cfg.Cipher), lds, lps, srvConn, cfg.Own)
	if err != nil {
		t.Fatal(err)
	}
	var clients, servers []*poolPeer
	var conns []*poolEP
	accepted := make(chan *UDPSession, cfg.Clients)
	go func() {
		for i := 0; i < cfg.Clients; i++ {
			l.SetReadDeadline(time.Now().Add(40 * time.Second))
			s, err := l.AcceptKCP()
			if err != nil {
				close(accepted)
				return
			}
			accepted <- s
		}
	}()
	for i := 0; i < cfg.Clients; i++ {
		cc := hub.endpoint(fmt.Sprintf("cli%d", i))
		conns = append(conns, cc)
		s, _ := NewConn4(uint32(1000+i), srvConn.addr, poolBlock(cfg.Cipher), cfg.DS, cfg.PS, cfg.Own, cc)
		poolTune(s, cfg)
		p := &poolPeer{s: s, send: poolContent(rng, cfg.Bytes)}
		clients = append(clients, p)
	}
	// the reply streams are fixed before the sessions exist so that the run is a function of the seed
	reply := make([][]byte, cfg.Clients)
	for i := range reply {
		reply[i] = poolContent(rng, cfg.Bytes)
	}
	hub.mu.Lock()
	hub.lossPct = int32(cfg.Loss)
	hub.mu.Unlock()
	for _, p := range clients {
		p.run(cfg.Bytes)
	}
	byRemote := map[string]int{}
	for i, c := range conns {
		byRemote[c.addr.String()] = i
	}
	for i := 0; i < cfg.Clients; i++ {
		s, ok := <-accepted
		if !ok {
			break
		}
		poolTune(s, cfg)
		ci := byRemote[s.RemoteAddr().String()]
		p := &poolPeer{s: s, send: reply[ci]}
		servers = append(servers, p)
		p.run(cfg.Bytes)
	}
	// periodic census while traffic flows
	stop := make(chan struct{})
	var censuses int
	var cwg sync.WaitGroup
	cwg.Add(1)
	go func() {
		defer cwg.Done()
		for {
			select {
			case <-stop:
				return
			case <-time.After(3 * time.Millisecond):
			}
			var names []string
			var ss []*UDPSession
			for i, p := range clients {
				names, ss = append(names, fmt.Sprintf("client%d", i)), append(ss, p.s)
			}
			for i, p := range servers {
				names, ss = append(names, fmt.Sprintf("server%d", i)), append(ss, p.s)
			}
			poolSessCensus(z, names, ss, cfg.Name+" (live census)")
			censuses++
		}
	}()
	complete := true
	waitAll := func(ps []*poolPeer) {
		for _, p := range ps {
			select {
			case <-p.rdone:
			case <-time.After(60 * time.Second):
				complete = false
			}
		}
	}
	waitAll(clients)
	waitAll(servers)
	close(stop)
	cwg.Wait()
	rep.Monitors["session_live_census"] += censuses
	fecRecovered := atomic.LoadUint64(&DefaultSnmp.FECRecovered)
	// content oracles
	for i, p := range servers {
		ci := byRemote[p.s.RemoteAddr().String()]
		got := p.received()
		poolCheckStream(z, fmt.Sprintf("%s client%d->server", cfg.Name, ci), got, clients[ci].send)
		rep.Monitors["session_stream_oracle"]++
		if len(got) < cfg.Bytes {
			complete = false
		}
		_ = i
	}
	for i, p := range clients {
		got := p.received()
		poolCheckStream(z, fmt.Sprintf("%s server->client%d", cfg.Name, i), got, reply[i])
		rep.Monitors["session_stream_oracle"]++
		if len(got) < cfg.Bytes {
			complete = false
		}
	}
	// a message left half-read when its session is closed: the rest sits in the session's own
	// receive buffer and Read still hands it out after Close - from memory that must not have been
	// given back to the pool (the sanitizer poisons every recycled buffer)
	tails := make([][]byte, len(servers))
	heads := make([][]byte, len(servers))
	queued := make([]int, len(servers))
	for i, p := range servers {
		ci := byRemote[p.s.RemoteAddr().String()]
		tails[i] = poolContent(rng, 1200)
		clients[ci].s.SetWriteDeadline(time.Now().Add(5 * time.Second))
		clients[ci].s.Write(tails[i])
	}
	for i, p := range servers {
		sess := p.s
		if !poolWaitFor(3*time.Second, func() bool {
			sess.mu.Lock()
			defer sess.mu.Unlock()
			queued[i] = sess.kcp.PeekSize()
			return queued[i] > 16
		}) {
			queued[i] = 0
			rep.Distribution["session_tail_not_arrived"]++
			continue
		}
		sess.SetReadDeadline(time.Now().Add(time.Second))
		h := make([]byte, 16)
		n, _ := sess.Read(h)
		heads[i] = h[:n]
	}
	// close everything, wait for the goroutines, then account for what is still outstanding
	for _, p := range clients {
		p.s.Close()
	}
	for _, p := range servers {
		p.s.Close()
	}
	for i, p := range servers {
		if queued[i] == 0 {
			continue
		}
		got := append([]byte(nil), heads[i]...)
		buf := make([]byte, 4096)
		for k := 0; k < 64; k++ {
			n, err := p.s.Read(buf)
			got = append(got, buf[:n]...)
			if err != nil {
				break
			}
		}
		rep.Monitors["session_read_after_close_oracle"]++
		poolCheckStream(z, fmt.Sprintf("%s server%d, message half-read before Close and drained after it", cfg.Name, i), got, tails[i])
		if len(got) < queued[i] {
			z.mu.Lock()
			z.violate("pool-residue-lost", fmt.Sprintf("%s server%d: %d bytes were readable before Close, Reads before and after Close returned %d", cfg.Name, i, queued[i], len(got)))
			z.mu.Unlock()
		}
	}
	l.Close()
	srvConn.Close()
	for _, c := range conns {
		c.Close()
	}
	for _, p := range append(append([]*poolPeer{}, clients...), servers...) {
		<-p.wdone
		<-p.rdone
	}
	// sessions nobody accepted (a retransmission after the server side closed creates one): F14 is
	// the business of TestVerifC15Close; here they are closed so that the accounting is exact
	var strays []*UDPSession
	for {
		select {
		case s := <-l.chAccepts:
			strays = append(strays, s)
			s.Close()
			continue
		default:
		}
		break
	}
	extra := poolWaitGoroutines(base, 10*time.Second)
	if len(extra) > 0 {
		t.Logf("scenario %s: goroutines still alive at accounting time: %v", cfg.Name, extra)
	}
	time.Sleep(30 * time.Millisecond)
	var names []string
	var ss []*UDPSession
	for i, p := range clients {
		names, ss = append(names, fmt.Sprintf("client%d", i)), append(ss, p.s)
	}
	for i, p := range servers {
		names, ss = append(names, fmt.Sprintf("server%d", i)), append(ss, p.s)
	}
	for i, s := range strays {
		names, ss = append(names, fmt.Sprintf("stray%d", i)), append(ss, s)
	}
	h, _ := poolSessCensus(z, names, ss, cfg.Name+" (final census, sessions)")
	inChan := 0
	for i, s := range ss {
		n := names[i]
		for {
			select {
			case r := <-s.chPostProcessing:
				h[n+".chPostProcessing"] = append(h[n+".chPostProcessing"], poolKey(r.buffer))
				inChan++
				continue
			default:
			}
			break
		}
	}
	accounted := poolCensus(z, h, cfg.Name+" (final census)")
	rep.Monitors["session_final_census"]++
	owned := z.owned()
	for _, ps := range h {
		for _, p := range ps {
			delete(owned, p)
		}
	}
	unacc := map[string]int{}
	for _, site := range owned {
		unacc[site]++
	}
	inKcp, inFec := 0, 0
	for n, ps := range h {
		if strings.HasSuffix(n, ".kcp") {
			inKcp += len(ps)
		} else if strings.HasSuffix(n, ".fec") {
			inFec += len(ps)
		}
	}
	rep.Extra["sess_"+cfg.Name] = map[string]any{
		"complete": complete, "datagrams": hub.sent, "dropped": hub.dropped, "fec_recovered_total": fecRecovered,
		"outstanding_after_close": accounted + len(owned),
		"held_by_core_queues_of_closed_sessions": inKcp, "held_by_fec_decoders": inFec,
		"left_in_chPostProcessing": inChan, "dropped_without_put_by_site": unacc, "unaccepted_sessions": len(strays),
		"decoder_layouts_at_end": poolDecoderLayouts(ss),
	}
	rep.Cases++
	if complete {
		rep.Nontrivial++
	}
	rep.Distribution["sess_"+cfg.Name]++
}

// ------------------------------------------------------------------------------- the Buffers test

func TestVerifC15Buffers(t *testing.T) {
	rng := newRng(vSeed())
	lg := newVlog(t, "C15.log")
	rep := newReport("C15")
	z := newPoolSanitizer()
	savedRef := refTime
	z.install()
	defer poolUninstall()

	// 0. the capacity rule of Put, on the real pool
	{
		b := defaultBufferPool.Get()
		g1, p1 := z.counts()
		errs := 0
		for _, v := range [][]byte{b[1:], b[6:], b[2:100], b[1499:], make([]byte, 100), make([]byte, 1501), make([]byte, 10, 1499)} {
			rep.Monitors["put_resliced_refused"]++
			if defaultBufferPool.Put(v) == nil {
				errs++
			}
		}
		g2, p2 := z.counts()
		if errs > 0 || g2 != g1 || p2 != p1 {
			rep.violate("pool-accepts-resliced", "Put accepted a slice whose capacity is not mtuLimit", map[string]any{"accepted": errs})
		}
		if defaultBufferPool.Put(b[:10]) != nil { // [:n] keeps the capacity: this is the whole buffer
			rep.violate("pool-refuses-full", "Put refused a slice of full capacity", nil)
		}
	}

	// 1. raw cores against the model log, census after every op
	ncases, steps := 400, 120
	if vThorough() {
		ncases, steps = 1500, 200
	}
	ncases = vEnvInt("VERIF_POOL_CASES", ncases)
	for i := 0; i < ncases; i++ {
		z.newEpoch()
		poolRunCoreCase(i, lg, rep, z, rng, steps/2+rng.intn(steps))
		z.drainInto(rep)
	}
	refTime = savedRef
	coreCases := rep.Cases

	// 2. raw FEC decoder
	nfec := 120
	if vThorough() {
		nfec = 1500
	}
	nfec = vEnvInt("VERIF_POOL_FEC_CASES", nfec)
	for i := 0; i < nfec; i++ {
		z.newEpoch()
		poolRunFecCase(100000+i, lg, rep, z, rng, 60+rng.intn(200))
		z.drainInto(rep)
	}
	lg.close()

	// 3. real sessions
	scen := []poolSessCfg{
		{Name: "none", Cipher: "none", Clients: 1, Bytes: 2000000, Stream: true},
		{Name: "none-fec-loss", Cipher: "none", DS: 3, PS: 1, Loss: 8, Clients: 1, Bytes: 8000000, Stream: true},
		{Name: "aes", Cipher: "aes", Clients: 1, Bytes: 8000000, Own: true},
		{Name: "aes-fec-loss", Cipher: "aes", DS: 2, PS: 2, Loss: 12, Clients: 1, Bytes: 800000, Stream: true},
		{Name: "gcm-fec-loss", Cipher: "aes-gcm", DS: 3, PS: 1, Loss: 8, Clients: 1, Bytes: 800000},
		{Name: "salsa20-dup", Cipher: "salsa20", Dup: 1, Clients: 1, Bytes: 800000, Stream: true},
		{Name: "aes-dup3-two-sessions", Cipher: "aes", Dup: 3, Clients: 2, Bytes: 400000, Stream: true},
		{Name: "none-two-sessions", Cipher: "none", Clients: 2, Bytes: 1200000, Stream: true},
		{Name: "none-fec-2+2-vs-3+1-loss", Cipher: "none", DS: 2, PS: 2, SDS: 3, SPS: 1, Loss: 6, Clients: 2, Bytes: 600000, Stream: true},
		{Name: "aes-fec-10+3-vs-11+2-loss", Cipher: "aes", DS: 10, PS: 3, SDS: 11, SPS: 2, Loss: 5, Clients: 1, Bytes: 600000},
		{Name: "xor-fec-three-sessions", Cipher: "xor", DS: 5, PS: 2, Loss: 5, Clients: 3, Bytes: 400000, Own: true},
	}
	if vThorough() {
		for i := range scen {
			scen[i].Bytes *= 6
		}
	}
	for i, sc := range scen {
		poolRunSessScenario(t, i, sc, rep, z, rng)
		z.drainInto(rep)
	}
	inPool := z.sweep()
	z.drainInto(rep)
	g, p := z.counts()
	rep.Extra["core_cases"] = coreCases
	rep.Extra["gets"], rep.Extra["puts"], rep.Extra["fresh_buffers"], rep.Extra["foreign_puts"] = g, p, z.fresh, z.foreign
	rep.Extra["poison_checks"], rep.Extra["in_pool_at_end"] = z.poisonChecks, inPool
	rep.Extra["put_sites"], rep.Extra["get_sites"] = z.putSites, z.getSites
	rep.Monitors["sanitizer_get"], rep.Monitors["sanitizer_put"], rep.Monitors["poison_verified"] = int(g), int(p), int(z.poisonChecks)
	rep.write(t, "C15.report.json")
	for _, v := range rep.Violations {
		t.Logf("violation %s: %s", v.Key, v.What)
	}
}

// ------------------------------------------------------------------------------- goroutine snapshots

var poolPkgPrefix = func() string {
	n := runtime.FuncForPC(reflect.ValueOf(NewKCP).Pointer()).Name()
	return n[:strings.LastIndex(n, ".")+1]
}()

type poolGor struct {
	entry string // short name of the goroutine's entry function
	recv  string // first argument of the entry frame as printed by the runtime (the receiver)
}

// poolLibGoroutines lists the goroutines whose entry function belongs to the library (not to
// the harness, not to the process-wide scheduler workers).
func poolLibGoroutines() []poolGor {
	buf := make([]byte, 1<<20)
	for {
		n := runtime.Stack(buf, true)
		if n < len(buf) {
			buf = buf[:n]
			break
		}
		buf = make([]byte, 2*len(buf))
	}
	var out []poolGor
	for _, blk := range strings.Split(string(buf), "\n\n") {
		lines := strings.Split(blk, "\n")
		entry := ""
		for _, ln := range lines[1:] {
			if strings.HasPrefix(ln, "\t") || strings.HasPrefix(ln, "created by ") || ln == "" {
				continue
			}
			entry = ln // the last function line is the entry function
		}
		if !strings.HasPrefix(entry, poolPkgPrefix) {
			continue
		}
		name := entry[len(poolPkgPrefix):]
		args := ""
		if k := strings.LastIndex(name, "("); k > 0 && strings.HasSuffix(name, ")") {
			// "(*UDPSession).postProcess(0xc000123000)"
			args, name = name[k+1:len(name)-1], name[:k]
		}
		short := name
		if i := strings.LastIndex(short, "."); i >= 0 {
			short = short[i+1:]
		}
		if strings.HasPrefix(name, "pool") || strings.HasPrefix(name, "(*pool") || strings.HasPrefix(name, "TestVerif") ||
			strings.HasPrefix(name, "newPool") || strings.HasPrefix(name, "(*TimedSched)") {
			continue
		}
		recv := strings.TrimSuffix(strings.TrimSpace(strings.Split(args, ",")[0]), "?")
		out = append(out, poolGor{entry: strings.TrimSuffix(short, "-fm"), recv: recv})
	}
	return out
}

func poolGoroutines() map[string]int {
	m := map[string]int{}
	for _, g := range poolLibGoroutines() {
		m[g.entry]++
	}
	return m
}

func poolExtraGoroutines(base map[string]int) map[string]int {
	extra := map[string]int{}
	for k, v := range poolGoroutines() {
		if v > base[k] {
			extra[k] = v - base[k]
		}
	}
	return extra
}

// ------------------------------------------------------------------------------- the scheduler pump

// poolPump stands in for the workers of a TimedSched: the instance has no goroutines, Put only
// appends to prependTasks; the pump moves the tasks to its own list and runs those that are due.
type poolPump struct {
	ts      *TimedSched
	mu      sync.Mutex
	pending []timedFunc
	running int
	ran     uint64
	stop    chan struct{}
	done    chan struct{}
}

func newPoolPump() *poolPump {
	p := &poolPump{ts: &TimedSched{chTask: make(chan timedFunc), die: make(chan struct{}), chPrependNotify: make(chan struct{}, 1)},
		stop: make(chan struct{}), done: make(chan struct{})}
	go p.loop()
	return p
}

func (p *poolPump) collect() {
	p.ts.prependLock.Lock()
	nt := p.ts.prependTasks
	p.ts.prependTasks = nil
	p.ts.prependLock.Unlock()
	select {
	case <-p.ts.chPrependNotify:
	default:
	}
	if len(nt) > 0 {
		p.mu.Lock()
		p.pending = append(p.pending, nt...)
		p.mu.Unlock()
	}
}

func (p *poolPump) loop() {
	defer close(p.done)
	tk := time.NewTicker(time.Millisecond)
	defer tk.Stop()
	for {
		select {
		case <-p.stop:
			return
		case <-tk.C:
		}
		p.collect()
		now := time.Now()
		var due []timedFunc
		p.mu.Lock()
		keep := p.pending[:0]
		for _, tf := range p.pending {
			if now.After(tf.ts) {
				due = append(due, tf)
			} else {
				keep = append(keep, tf)
			}
		}
		p.pending = keep
		p.running = len(due)
		p.mu.Unlock()
		for _, tf := range due {
			tf.execute()
			atomic.AddUint64(&p.ran, 1)
			p.mu.Lock()
			p.running--
			p.mu.Unlock()
		}
	}
}

// scheduled = callbacks waiting or running right now
func (p *poolPump) scheduled() int {
	p.ts.prependLock.Lock()
	n := len(p.ts.prependTasks)
	p.ts.prependLock.Unlock()
	p.mu.Lock()
	n += len(p.pending) + p.running
	p.mu.Unlock()
	return n
}

// settled samples the number of scheduled callbacks over a window longer than the largest
// update interval and returns the largest value seen (a self-resubmitting callback is always
// either waiting or running, a finished one never comes back).
func (p *poolPump) settled(window time.Duration) int {
	mx := 0
	end := time.Now().Add(window)
	for time.Now().Before(end) {
		if n := p.scheduled(); n > mx {
			mx = n
		}
		time.Sleep(2 * time.Millisecond)
	}
	return mx
}

func (p *poolPump) waitZero(d time.Duration) int {
	deadline := time.Now().Add(d)
	for {
		n := p.settled(250 * time.Millisecond)
		if n == 0 || time.Now().After(deadline) {
			return n
		}
	}
}

func (p *poolPump) close() { close(p.stop); <-p.done }

// ------------------------------------------------------------------------------- the Close test

type poolCloseCfg struct {
	Name     string   `json:"name"`
	Cipher   string   `json:"cipher"`
	DS, PS   int
	Loss     int      `json:"loss_pct"`
	Own      bool     `json:"own_conn"`
	Point    string   `json:"close_point"` // idle | mid-transfer | full-queues | fec-recovery | backlog | dispatch-after-close
	Order    []string `json:"close_order"` // permutation of client accepted listener transport
	Clients  int      `json:"clients"`
	RealSched bool    `json:"real_scheduler"`
}

func poolPtr(s *UDPSession) string { return fmt.Sprintf("0x%x", uintptr(unsafe.Pointer(s))) }

func poolRunCloseScenario(t *testing.T, cfg poolCloseCfg, rep *vreport, rng *vrng, pump *poolPump, grace time.Duration) {
	replay := map[string]any{"test": "TestVerifC15Close", "seed": vSeed(), "scenario": cfg}
	nviol0 := len(rep.Violations)
	base := poolGoroutines()
	hub := newPoolHub(rng.u64(), newPoolSanitizer())
	srvConn := hub.endpoint("srv")
	l, err := serveConn(poolBlock(cfg.Cipher), cfg.DS, cfg.PS, srvConn, cfg.Own)
	if err != nil {
		t.Fatal(err)
	}
	sc := poolSessCfg{Stream: true}
	var clients []*poolPeer
	var conns []*poolEP
	var servers []*poolPeer
	nbytes := 4 << 20 // far more than can be moved before the close
	if cfg.Point == "idle" || cfg.Point == "backlog-overflow" {
		nbytes = 2000
	}
	mkClient := func(i int) *poolPeer {
		cc := hub.endpoint(fmt.Sprintf("cli%d", i))
		conns = append(conns, cc)
		s, _ := NewConn4(uint32(7000+i), srvConn.addr, poolBlock(cfg.Cipher), cfg.DS, cfg.PS, cfg.Own, cc)
		poolTune(s, sc)
		p := &poolPeer{s: s, send: poolContent(rng, nbytes)}
		clients = append(clients, p)
		return p
	}
	hub.mu.Lock()
	hub.lossPct = int32(cfg.Loss)
	hub.mu.Unlock()
	fec0 := atomic.LoadUint64(&DefaultSnmp.FECRecovered)
	createdAfterClose := 0

	switch cfg.Point {
	case "backlog":
		// clients connect and talk, nobody accepts
		for i := 0; i < cfg.Clients; i++ {
			p := mkClient(i)
			p.s.Write(p.send[:1500])
		}
		poolWaitFor(3*time.Second, func() bool { return len(l.chAccepts) == cfg.Clients })
	case "backlog-overflow":
		// more new peers than the accept backlog holds, nobody accepts: whatever the listener does with
		// the peers it cannot queue, it keeps nothing of them that Close could not release
		for i := 0; i < cfg.Clients; i++ {
			p := mkClient(i)
			p.s.Write(p.send[:600])
		}
		poolWaitFor(3*time.Second, func() bool { return len(l.chAccepts) == cap(l.chAccepts) })
		time.Sleep(50 * time.Millisecond)
	case "dispatch-after-close":
		// the listener (socket not owned) is closed first; then a new peer shows up
		l.Close()
		before := poolSessionCount(l)
		for i := 0; i < cfg.Clients; i++ {
			p := mkClient(i)
			p.s.Write(p.send[:1500])
		}
		poolWaitFor(700*time.Millisecond, func() bool { return poolSessionCount(l)-before == cfg.Clients })
		createdAfterClose = poolSessionCount(l) - before
	case "accept-races-close":
		// Accept is called while Listener.Close sits between close(l.die) and the drain of the accept
		// backlog (frozen there: the harness holds the mutex of every waiting session, which the
		// drain's s.Close() needs).  Each Accept returns a session - then the application owns it and
		// closes it - or an error; either way no session may be left that nobody can reach.
		for i := 0; i < cfg.Clients; i++ {
			p := mkClient(i)
			p.s.Write(p.send[:800])
		}
		poolWaitFor(3*time.Second, func() bool { return len(l.chAccepts) == cfg.Clients })
		l.sessionLock.RLock()
		var waiting []*UDPSession
		for _, ws := range l.sessions {
			waiting = append(waiting, ws)
		}
		l.sessionLock.RUnlock()
		for _, ws := range waiting {
			ws.mu.Lock()
		}
		closed := make(chan struct{})
		go func() { l.Close(); close(closed) }()
		poolWaitFor(time.Second, func() bool {
			select {
			case <-l.die:
				return len(l.chAccepts) < cfg.Clients // die closed and the drain holds its first session
			default:
				return false
			}
		})
		var handed []*UDPSession
		for i := 0; i < cfg.Clients-1; i++ {
			l.SetReadDeadline(time.Now().Add(200 * time.Millisecond))
			if as, err := l.AcceptKCP(); err == nil && as != nil {
				handed = append(handed, as)
			}
		}
		for _, ws := range waiting {
			ws.mu.Unlock()
		}
		<-closed
		for _, as := range handed { // the application closes what it was given
			as.Close()
		}
		rep.Distribution["accept_races_close_handed"] += len(handed)
		lost := 0
		for _, ws := range waiting {
			if !poolWaitFor(500*time.Millisecond, ws.isClosed) {
				lost++
			}
		}
		rep.Monitors["close_accept_race_sessions"] += len(waiting)
		if lost > 0 {
			rep.violate("close-leak:accept-races-close", fmt.Sprintf("scenario %s: %d of %d sessions that waited in the accept backlog while Accept raced Listener.Close were neither handed to the application nor closed (%d were handed out)", cfg.Name, lost, len(waiting), len(handed)), replay)
			for _, ws := range waiting {
				ws.Close()
			}
		}
	case "dispatch-races-close":
		// Listener.Close runs to completion (die closed, backlog drained) while the monitor goroutine is
		// in the middle of dispatching the first datagram of a new peer: it has passed its own die test
		// and is parked on the table lock, just before it queues the session.  Whoever loses the race,
		// the session nobody can reach must end up closed.
		l.sessionLock.RLock()
		for i := 0; i < cfg.Clients; i++ {
			p := mkClient(i)
			p.s.Write(p.send[:600])
		}
		parked := poolWaitFor(3*time.Second, func() bool {
			return poolGoroutines()["postProcess"] >= base["postProcess"]+cfg.Clients+1
		})
		time.Sleep(5 * time.Millisecond)
		// Close in its own goroutine: should it need the table lock itself (a session already queued
		// that it has to close), it can only finish after the harness lets go of its read lock
		closedCh := make(chan struct{})
		go func() { l.Close(); close(closedCh) }()
		select {
		case <-closedCh:
		case <-time.After(100 * time.Millisecond):
			rep.Distribution["dispatch_races_close_needed_the_table_lock"]++
		}
		l.sessionLock.RUnlock()
		select {
		case <-closedCh:
		case <-time.After(5 * time.Second):
			rep.violate("close-hang:Listener.Close", fmt.Sprintf("scenario %s: Listener.Close did not return within 5 s", cfg.Name), replay)
		}
		if !parked {
			rep.Distribution["dispatch_races_close_not_parked"]++
		}
		poolWaitFor(300*time.Millisecond, func() bool { return poolSessionCount(l) == 0 && len(l.chAccepts) == 0 })
	default:
		accepted := make(chan *UDPSession, cfg.Clients)
		go func() {
			for i := 0; i < cfg.Clients; i++ {
				l.SetReadDeadline(time.Now().Add(20 * time.Second))
				s, err := l.AcceptKCP()
				if err != nil {
					close(accepted)
					return
				}
				accepted <- s
			}
		}()
		for i := 0; i < cfg.Clients; i++ {
			mkClient(i)
		}
		for _, p := range clients {
			p.run(nbytes)
		}
		for i := 0; i < cfg.Clients; i++ {
			s, ok := <-accepted
			if !ok {
				t.Fatalf("scenario %s: accept failed", cfg.Name)
			}
			poolTune(s, sc)
			p := &poolPeer{s: s, send: poolContent(rng, nbytes)}
			servers = append(servers, p)
			if cfg.Point != "full-queues" {
				p.run(nbytes)
			} else { // the server application neither reads nor writes: queues and windows fill up
				p.wdone, p.rdone = make(chan struct{}), make(chan struct{})
				close(p.wdone)
				close(p.rdone)
			}
		}
		switch cfg.Point {
		case "idle":
			for _, p := range append(append([]*poolPeer{}, clients...), servers...) {
				select {
				case <-p.rdone:
				case <-time.After(20 * time.Second):
				}
			}
			poolWaitFor(3*time.Second, func() bool {
				for _, p := range append(append([]*poolPeer{}, clients...), servers...) {
					p.s.mu.Lock()
					w := p.s.kcp.WaitSnd()
					p.s.mu.Unlock()
					if w != 0 {
						return false
					}
				}
				return true
			})
		case "mid-transfer":
			time.Sleep(time.Duration(20+rng.intn(120)) * time.Millisecond)
		case "full-queues":
			poolWaitFor(5*time.Second, func() bool {
				for _, p := range clients {
					p.s.mu.Lock()
					full := p.s.kcp.WaitSnd() >= int(p.s.kcp.snd_wnd) && p.s.kcp.rmt_wnd == 0
					p.s.mu.Unlock()
					if !full {
						return false
					}
				}
				return true
			})
		case "fec-recovery":
			poolWaitFor(5*time.Second, func() bool { return atomic.LoadUint64(&DefaultSnmp.FECRecovered) > fec0+3 })
		}
	}
	rep.Distribution["close_point_"+cfg.Point]++

	// close in the generated order
	for _, what := range cfg.Order {
		switch what {
		case "client":
			for _, p := range clients {
				p.s.Close()
			}
		case "accepted":
			for _, p := range servers {
				p.s.Close()
			}
		case "listener":
			l.Close()
		case "transport":
			srvConn.Close()
			for _, c := range conns {
				c.Close()
			}
		}
		if rng.chance(50) {
			time.Sleep(time.Duration(rng.intn(15)) * time.Millisecond)
		}
	}
	// the harness' own reader / writer goroutines end because their sessions are closed
	for _, p := range append(append([]*poolPeer{}, clients...), servers...) {
		if p.wdone != nil {
			<-p.wdone
			<-p.rdone
		}
	}

	// what the application cannot reach: sessions still waiting in the accept backlog (collected
	// again on every poll: a monitor that was in the middle of a dispatch may still add one)
	var backlog []*UDPSession
	backlogPtr := map[string]bool{}
	collect := func() {
		for {
			select {
			case s := <-l.chAccepts:
				backlog = append(backlog, s)
				backlogPtr[poolPtr(s)] = true
				continue
			default:
			}
			return
		}
	}

	// goroutines: wait (generously) until only those of backlog sessions are left
	deadline := time.Now().Add(grace)
	var left []poolGor
	for {
		collect()
		left = left[:0]
		cnt := map[string]int{}
		for _, g := range poolLibGoroutines() {
			cnt[g.entry]++
			if cnt[g.entry] > base[g.entry] {
				left = append(left, g)
			}
		}
		onlyBacklog := true
		for _, g := range left {
			if !(g.entry == "postProcess" && (backlogPtr[g.recv] || g.recv == "")) {
				onlyBacklog = false
			}
		}
		if len(left) == 0 || (onlyBacklog && len(left) <= len(backlog)) || time.Now().After(deadline) {
			break
		}
		time.Sleep(20 * time.Millisecond)
	}
	collect()
	rep.Monitors["close_goroutines"]++
	if len(left) > 0 {
		t.Logf("scenario %s: goroutines left after the grace period: %v (backlog sessions %v)", cfg.Name, left, backlogPtr)
	}
	leakBacklogG := 0
	for _, g := range left {
		if g.entry == "postProcess" && (backlogPtr[g.recv] || (g.recv == "" && leakBacklogG < len(backlog))) {
			leakBacklogG++
			continue
		}
		rep.violate("close-leak:"+g.entry, fmt.Sprintf("scenario %s: goroutine %s (receiver %s) is still alive %v after everything was closed", cfg.Name, g.entry, g.recv, grace), replay)
	}
	// callbacks
	leakBacklogU := 0
	if pump != nil {
		rep.Monitors["close_update_callbacks"]++
		n := 0
		if len(backlog) == 0 {
			n = pump.waitZero(grace)
		} else {
			time.Sleep(300 * time.Millisecond)
			n = pump.settled(400 * time.Millisecond)
		}
		leakBacklogU = min(n, len(backlog))
		if n > len(backlog) {
			rep.violate("close-leak:update-callback", fmt.Sprintf("scenario %s: %d update callbacks are still scheduled after everything was closed (%d belong to never-accepted sessions)", cfg.Name, n, len(backlog)), replay)
		}
	}
	if len(backlog) > 0 && (leakBacklogG > 0 || leakBacklogU > 0) || createdAfterClose > 0 {
		what := fmt.Sprintf("scenario %s: %d session(s) were still in the listener's accept backlog when listener, sessions and transport were closed; %d postProcess goroutine(s) and %d self-resubmitting update callback(s) of theirs stay alive for ever",
			cfg.Name, len(backlog), leakBacklogG, leakBacklogU)
		if createdAfterClose > 0 {
			what += fmt.Sprintf("; the monitor created %d of them AFTER Listener.Close (socket not owned by the listener)", createdAfterClose)
		}
		rep.violate("close-leak:unaccepted-backlog-sessions", what, replay)
	}
	rep.Extra["close_"+cfg.Name] = map[string]any{"backlog_sessions": len(backlog), "leaked_postProcess": leakBacklogG,
		"leaked_update": leakBacklogU, "created_after_listener_close": createdAfterClose, "datagrams": hub.sent}

	// clean up what leaked so that the next scenario starts from a clean slate
	for _, s := range backlog {
		s.Close()
	}
	l.sessionLock.Lock()
	var rest []*UDPSession
	for _, s := range l.sessions {
		rest = append(rest, s)
	}
	l.sessionLock.Unlock()
	for _, s := range rest {
		s.Close()
	}
	// what a reported leak left behind cannot be cleaned up (that is the finding): the next scenario
	// takes its own baseline; anything else that stays is trouble of the harness
	reported := len(rep.Violations) > nviol0
	cleanGrace := 10 * time.Second
	if reported {
		cleanGrace = time.Second
	}
	if extra := poolWaitGoroutines(base, cleanGrace); len(extra) > 0 {
		if !reported {
			t.Fatalf("scenario %s: could not clean up: %v", cfg.Name, extra)
		}
		t.Logf("scenario %s: the leaked goroutines stay: %v", cfg.Name, extra)
	}
	if pump != nil {
		if n := pump.waitZero(cleanGrace); n != 0 {
			if !reported {
				t.Fatalf("scenario %s: could not clean up: %d callbacks still scheduled", cfg.Name, n)
			}
			t.Logf("scenario %s: %d leaked callbacks stay scheduled", cfg.Name, n)
		}
	}
	rep.Cases++
	if cfg.Point != "idle" {
		rep.Nontrivial++
	}
}

// a socket whose first WriteTo blocks until the gate opens and which then fails every write
type poolGateConn struct {
	writes  atomic.Int32
	entered chan struct{}
	gate    chan struct{}
	closed  chan struct{}
	once    sync.Once
}

func newPoolGateConn() *poolGateConn {
	return &poolGateConn{entered: make(chan struct{}), gate: make(chan struct{}), closed: make(chan struct{})}
}
func (c *poolGateConn) ReadFrom(p []byte) (int, net.Addr, error) {
	<-c.closed
	return 0, nil, net.ErrClosed
}
func (c *poolGateConn) WriteTo(p []byte, addr net.Addr) (int, error) {
	if c.writes.Add(1) == 1 {
		close(c.entered)
		<-c.gate
	}
	return 0, fmt.Errorf("sendto: network is unreachable")
}
func (c *poolGateConn) Close() error                       { c.once.Do(func() { close(c.closed) }); return nil }
func (c *poolGateConn) LocalAddr() net.Addr                { return poolAddr{"gate"} }
func (c *poolGateConn) SetDeadline(t time.Time) error      { return nil }
func (c *poolGateConn) SetReadDeadline(t time.Time) error  { return nil }
func (c *poolGateConn) SetWriteDeadline(t time.Time) error { return nil }

// poolRunWriteErrorClose: sessions whose socket fails while packets are still queued for
// post-processing are closed; then the transport is closed.  Every goroutine of theirs ends.
func poolRunWriteErrorClose(t *testing.T, rep *vreport, rng *vrng, n int, grace time.Duration) {
	replay := map[string]any{"test": "TestVerifC15Close", "seed": vSeed(), "scenario": "write-error-with-queue"}
	base := poolGoroutines()
	ready := 0
	for i := 0; i < n; i++ {
		conn := newPoolGateConn()
		sess, err := NewConn3(uint32(9000+i), poolAddr{"nowhere"}, poolBlock(poolPickS(rng, "none", "aes")), 0, 0, conn)
		if err != nil {
			t.Fatal(err)
		}
		sess.SetNoDelay(1, 10, 2, 1)
		sess.SetWriteDelay(false)
		sess.Write([]byte("first"))
		select {
		case <-conn.entered:
		case <-time.After(5 * time.Second):
			t.Fatalf("write-error scenario: the first packet never reached the socket")
		}
		for k := 0; k < 2+rng.intn(4); k++ {
			sess.SetWriteDeadline(time.Now().Add(time.Second))
			sess.Write([]byte("more"))
		}
		if len(sess.chPostProcessing) > 0 {
			ready++
		}
		sess.Close()
		close(conn.gate)
		conn.Close()
	}
	rep.Distribution["close_write_error_sessions_with_queue"] += ready
	rep.Monitors["close_goroutines"]++
	extra := poolWaitGoroutines(base, grace)
	for entry, k := range extra {
		rep.violate("close-leak:"+entry, fmt.Sprintf("scenario write-error-with-queue: %d %s goroutine(s) of %d sessions closed after a socket write error with packets still queued are alive %v after sessions and transports were closed", k, entry, n, grace), replay)
	}
	rep.Cases++
	if ready > 0 {
		rep.Nontrivial++
	}
}

func poolSessionCount(l *Listener) int {
	l.sessionLock.RLock()
	defer l.sessionLock.RUnlock()
	return len(l.sessions)
}

func poolWaitFor(d time.Duration, f func() bool) bool {
	deadline := time.Now().Add(d)
	for !f() {
		if time.Now().After(deadline) {
			return false
		}
		time.Sleep(5 * time.Millisecond)
	}
	return true
}

func poolPerms(xs []string) [][]string {
	if len(xs) <= 1 {
		return [][]string{append([]string(nil), xs...)}
	}
	var r [][]string
	for i := range xs {
		rest := append(append([]string(nil), xs[:i]...), xs[i+1:]...)
		for _, p := range poolPerms(rest) {
			r = append(r, append([]string{xs[i]}, p...))
		}
	}
	return r
}

func TestVerifC15Close(t *testing.T) {
	rng := newRng(vSeed() ^ 0xC15)
	rep := newReport("C15")
	grace := 6 * time.Second
	saved := SystemTimedSched
	pump := newPoolPump()
	SystemTimedSched = pump.ts
	defer func() { SystemTimedSched = saved; pump.close() }()

	perms := poolPerms([]string{"client", "accepted", "listener", "transport"})
	points := []string{"idle", "mid-transfer", "full-queues", "fec-recovery"}
	var scen []poolCloseCfg
	add := func(point string, order []string, own bool) {
		c := poolCloseCfg{Point: point, Order: order, Own: own, Clients: 1 + rng.intn(2), Cipher: poolPickS(rng, "none", "aes", "salsa20")}
		if point == "fec-recovery" {
			c.DS, c.PS, c.Loss = 3, 1, 15
		} else if rng.chance(30) {
			c.DS, c.PS = 2, 1
		}
		c.Name = fmt.Sprintf("%02d/%s/%s/own=%v", len(scen), point, strings.Join(order, ">"), own)
		scen = append(scen, c)
	}
	if vThorough() {
		for _, pt := range points {
			for _, o := range perms {
				add(pt, o, true)
				add(pt, o, false)
			}
		}
	} else {
		// every close point x both ownerships, the orders drawn so that every order is used at least once per 3 seeds
		k := int(vSeed() % 3)
		for i, o := range perms {
			if i%3 == k {
				add(points[(i/3)%4], o, i%2 == 0)
			}
		}
		for i, pt := range points {
			add(pt, perms[rng.intn(len(perms))], i%2 == 1)
		}
	}
	// F14: sessions nobody accepted
	all := []string{"client", "listener", "transport"}
	poolRunCloseScenario(t, poolCloseCfg{Name: "backlog/own=true", Point: "backlog", Order: all, Own: true, Clients: 3, Cipher: "none"}, rep, rng, pump, grace)
	poolRunCloseScenario(t, poolCloseCfg{Name: "backlog/own=false", Point: "backlog", Order: []string{"listener", "client", "transport"}, Own: false, Clients: 2, Cipher: "aes"}, rep, rng, pump, grace)
	poolRunCloseScenario(t, poolCloseCfg{Name: "backlog-overflow/own=true", Point: "backlog-overflow", Order: all, Own: true, Clients: acceptBacklog + 8, Cipher: "none"}, rep, rng, pump, grace)
	poolRunCloseScenario(t, poolCloseCfg{Name: "dispatch-after-close/own=false", Point: "dispatch-after-close", Order: []string{"client", "transport"}, Own: false, Clients: 2, Cipher: "none"}, rep, rng, pump, grace)

	// Listener.Close completing inside the monitor's dispatch of a new peer (a select between the die
	// channel and the accept queue would pick either arm: several rounds)
	rounds := 10
	if vThorough() {
		rounds = 24
	}
	for i := 0; i < 2; i++ {
		poolRunCloseScenario(t, poolCloseCfg{Name: fmt.Sprintf("accept-races-close/%d/own=%v", i, i%2 == 0), Point: "accept-races-close",
			Order: []string{"listener", "client", "transport"}, Own: i%2 == 0, Clients: 12, Cipher: poolPickS(rng, "none", "aes")}, rep, rng, pump, grace)
	}
	for i := 0; i < rounds; i++ {
		poolRunCloseScenario(t, poolCloseCfg{Name: fmt.Sprintf("dispatch-races-close/%d/own=%v", i, i%2 == 0), Point: "dispatch-races-close",
			Order: []string{"listener", "client", "transport"}, Own: i%2 == 0, Clients: 1, Cipher: poolPickS(rng, "none", "aes")}, rep, rng, pump, grace)
	}

	for _, c := range scen {
		poolRunCloseScenario(t, c, rep, rng, pump, grace)
	}
	nw := 16
	if vThorough() {
		nw = 64
	}
	poolRunWriteErrorClose(t, rep, rng, nw, grace)
	// the same with the real scheduler (goroutines only: its queue cannot be inspected)
	SystemTimedSched = saved
	poolRunCloseScenario(t, poolCloseCfg{Name: "real-sched/mid-transfer", Point: "mid-transfer", Order: perms[rng.intn(len(perms))], Own: true, Clients: 2, Cipher: "aes", RealSched: true}, rep, rng, nil, grace)
	poolRunCloseScenario(t, poolCloseCfg{Name: "real-sched/idle", Point: "idle", Order: perms[rng.intn(len(perms))], Own: false, Clients: 1, Cipher: "none", RealSched: true}, rep, rng, nil, grace)
	SystemTimedSched = pump.ts

	rep.Extra["update_callbacks_run_by_pump"] = atomic.LoadUint64(&pump.ran)
	rep.write(t, "C15close.report.json")
	for _, v := range rep.Violations {
		t.Logf("violation %s: %s", v.Key, v.What)
	}
}

func poolPickS(r *vrng, xs ...string) string { return xs[r.intn(len(xs))] }
