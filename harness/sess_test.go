//go:build verif

package kcp

// C01 / C04, session-level clauses - engine `sess`.
//
// REAL UDPSession objects (newUDPSession over an in-memory net.PacketConn) are driven through
// the real Write / WriteBuffers / Read / kcpInput / update; nothing in /repo is touched.
//
// Phase W (frozen session, writer side).  The library scheduler is replaced, for the duration
// of the phase, by a TimedSched with no worker, so the session's self-resubmitting update()
// never runs by itself: the only flushes are those of WriteBuffers itself, of kcp.Input, and
// the update() calls the harness makes.  Generated buffer vectors (sizes 0, 1, mss-1, mss,
// mss+1, k*mss, k*mss+-1, random; 1..5 buffers; Write and WriteBuffers; write delay on/off;
// send windows 1..32; both modes) are written with the write deadline in the past, so that a
// pass that does not admit returns a timeout at once; the window is re-opened by feeding forged
// peer segments (cumulative una, selective ACK, window advertisement) to the real kcpInput.
// After every call, under s.mu: WaitSnd, |snd_buf|, |snd_queue|, the payload of every pending
// segment.  Everything goes to the op log C01sess.log; ml/sess_driver.ml replays it on the
// extracted write_full / input / flush.
//
// Phase R (frozen session, reader side).  A real raw KCP core plays the peer: its datagrams
// are delivered to the real kcpInput in order, late, twice or after a gap; the real Read is
// called with generated buffer lengths (0, 1, 2, size-1, size, size+1, carry-over +-1, large);
// every returned byte string is logged and replayed on the extracted read_full.  A few cases
// park a forged zero-length message at the head of the queue (boundary B1).
//
// Phase L (live).  Two real sessions with the real scheduler over a lossy, duplicating,
// reordering in-memory link; concurrent writer (WriteBuffers, random vectors) and reader
// (random buffer lengths); content oracle.
//
// Monitors (from the property text, independent of the Coq model):
//   session-read-corrupts-stream         bytes returned by Read are not a prefix of the bytes written
//   session-read-overrun                 Read returned more bytes than len(b) / than were written
//   session-write-admitted-beyond-window Write returned n > 0 although WaitSnd >= snd_wnd when it was called
//   session-write-count                  an admitted Write did not return the total length of its vector
//   session-write-chunk-oversize         a pending segment is longer than mss
//   session-write-stream                 the pending payload stream is not old stream ++ concat(v) after an admitted write
//   session-write-blocked-changed-state  a Write that timed out changed the send side
//   session-write-occupancy-bound        WaitSnd after an admitted write > snd_wnd - 1 + sum ceil(len/mss)

import (
	"bytes"
	"encoding/binary"
	"fmt"
	"hash/fnv"
	"net"
	"strings"
	"sync"
	"sync/atomic"
	"testing"
	"time"

	"github.com/pkg/errors"
)

// ---------------------------------------------------------------- in-memory PacketConn

type sessAddr string

func (a sessAddr) Network() string { return "sess" }
func (a sessAddr) String() string  { return string(a) }

type sessPkt struct {
	b    []byte
	from net.Addr
}

type sessConn struct {
	local  sessAddr
	inbox  chan sessPkt
	closed chan struct{}
	once   sync.Once

	mu   sync.Mutex
	peer *sessConn // nil = sink
	rng  *vrng     // link faults (live phase); nil = perfect link
	drop, dup, hold int
	held []byte
	sent, dropped, dupped, reordered int
}

func sessNewConn(name string) *sessConn {
	return &sessConn{local: sessAddr(name), inbox: make(chan sessPkt, 4096), closed: make(chan struct{})}
}

func (c *sessConn) ReadFrom(p []byte) (int, net.Addr, error) {
	select {
	case pk := <-c.inbox:
		return copy(p, pk.b), pk.from, nil
	case <-c.closed:
		return 0, nil, fmt.Errorf("sessConn closed")
	}
}

func (c *sessConn) push(b []byte) {
	select {
	case c.peer.inbox <- sessPkt{b, c.local}:
	default: // full: dropped, like a network
	}
}

func (c *sessConn) WriteTo(p []byte, _ net.Addr) (int, error) {
	select {
	case <-c.closed:
		return 0, fmt.Errorf("sessConn closed")
	default:
	}
	c.mu.Lock()
	defer c.mu.Unlock()
	c.sent++
	if c.peer == nil {
		return len(p), nil
	}
	b := append([]byte(nil), p...)
	if c.rng == nil {
		c.push(b)
		return len(p), nil
	}
	x := c.rng.intn(100)
	switch {
	case x < c.drop:
		c.dropped++
	case x < c.drop+c.dup:
		c.dupped++
		c.push(b)
		c.push(append([]byte(nil), b...))
	case x < c.drop+c.dup+c.hold && c.held == nil:
		c.reordered++
		c.held = b // delivered after the next datagram, at the latest 3 ms from now
		time.AfterFunc(3*time.Millisecond, func() {
			c.mu.Lock()
			if c.held != nil {
				c.push(c.held)
				c.held = nil
			}
			c.mu.Unlock()
		})
	default:
		c.push(b)
		if c.held != nil {
			c.push(c.held)
			c.held = nil
		}
	}
	return len(p), nil
}

func (c *sessConn) Close() error                     { c.once.Do(func() { close(c.closed) }); return nil }
func (c *sessConn) LocalAddr() net.Addr              { return c.local }
func (c *sessConn) SetDeadline(time.Time) error      { return nil }
func (c *sessConn) SetReadDeadline(time.Time) error  { return nil }
func (c *sessConn) SetWriteDeadline(time.Time) error { return nil }

// ---------------------------------------------------------------- helpers

type sessCfg struct {
	conv                                                          uint32
	stream, sndwnd, rcvwnd, mtu, nodelay, interval, resend, nc int
}

func (c sessCfg) String() string {
	return fmt.Sprintf("conv=%d stream=%d sndwnd=%d rcvwnd=%d mtu=%d nodelay=%d interval=%d resend=%d nc=%d",
		c.conv, c.stream, c.sndwnd, c.rcvwnd, c.mtu, c.nodelay, c.interval, c.resend, c.nc)
}

func sessNewSession(cfg sessCfg, conn *sessConn, remote string) *UDPSession {
	s := newUDPSession(cfg.conv, 0, 0, nil, conn, false, sessAddr(remote), nil)
	s.SetStreamMode(cfg.stream == 1)
	s.SetWindowSize(cfg.sndwnd, cfg.rcvwnd)
	s.SetNoDelay(cfg.nodelay, cfg.interval, cfg.resend, cfg.nc)
	if !s.SetMtu(cfg.mtu) {
		panic("sess harness: SetMtu refused")
	}
	return s
}

// sessFreeze replaces the library scheduler by one without workers: Put never blocks, nothing
// is ever executed.  The returned function restores the original.
func sessFreeze() func() {
	old := SystemTimedSched
	frozen := NewTimedSched(0)
	SystemTimedSched = frozen
	return func() {
		SystemTimedSched = old
		frozen.Close()
	}
}

// projection of the session under s.mu
type sessProj struct {
	ws, sb, sq       int
	lens             []int
	cat              []byte
	rq, rb           int
	rnxt             uint32
	bp, pk           int
	sndwnd, mss      int
	una, nxt, rmtwnd uint32
}

func sessProject(s *UDPSession) sessProj {
	s.mu.Lock()
	defer s.mu.Unlock()
	k := s.kcp
	p := sessProj{ws: k.WaitSnd(), sb: k.snd_buf.Len(), sq: k.snd_queue.Len(), rq: k.rcv_queue.Len(), rb: k.rcv_buf.Len(),
		rnxt: k.rcv_nxt, bp: len(s.bufptr), pk: k.PeekSize(), sndwnd: int(k.snd_wnd), mss: int(k.mss),
		una: k.snd_una, nxt: k.snd_nxt, rmtwnd: k.rmt_wnd}
	for seg := range k.snd_buf.ForEach {
		p.lens = append(p.lens, len(seg.data))
		p.cat = append(p.cat, seg.data...)
	}
	for seg := range k.snd_queue.ForEach {
		p.lens = append(p.lens, len(seg.data))
		p.cat = append(p.cat, seg.data...)
	}
	return p
}

func (p sessProj) String() string {
	ls := "-"
	if len(p.lens) > 0 {
		parts := make([]string, len(p.lens))
		for i, l := range p.lens {
			parts[i] = fmt.Sprint(l)
		}
		ls = strings.Join(parts, ",")
	}
	return fmt.Sprintf("ws=%d sb=%d sq=%d pl=%s pc=%s rq=%d rb=%d rnxt=%d bp=%d pk=%d", p.ws, p.sb, p.sq, ls, sessPayload(p.cat), p.rq, p.rb, p.rnxt, p.bp, p.pk)
}

// long payload strings are logged as their FNV-1a hash and length
func sessPayload(b []byte) string {
	if len(b) <= 256 {
		return hx(b)
	}
	h := fnv.New64a()
	h.Write(b)
	return fmt.Sprintf("#%016x:%d", h.Sum64(), len(b))
}

func sessForge(conv uint32, cmd, frg byte, wnd uint16, ts, sn, una uint32, data []byte) []byte {
	b := make([]byte, IKCP_OVERHEAD+len(data))
	binary.LittleEndian.PutUint32(b, conv)
	b[4] = cmd
	b[5] = frg
	binary.LittleEndian.PutUint16(b[6:], wnd)
	binary.LittleEndian.PutUint32(b[8:], ts)
	binary.LittleEndian.PutUint32(b[12:], sn)
	binary.LittleEndian.PutUint32(b[16:], una)
	binary.LittleEndian.PutUint32(b[20:], uint32(len(data)))
	copy(b[24:], data)
	return b
}

func sessIsTimeout(err error) bool { return err != nil && errors.Cause(err) == error(errTimeout) }

func sessCeil(n, m int) int {
	if n == 0 {
		return 0
	}
	return (n + m - 1) / m
}

// sessSizes: the size classes of the property ("1 byte .. many MSS")
func sessSize(r *vrng, mss int) (int, string) {
	switch r.intn(12) {
	case 0:
		return 0, "0"
	case 1:
		return 1, "1"
	case 2:
		return max(mss-1, 0), "mss-1"
	case 3:
		return mss, "mss"
	case 4:
		return mss + 1, "mss+1"
	case 5:
		return (2 + r.intn(4)) * mss, "k*mss"
	case 6:
		return (2+r.intn(4))*mss - 1, "k*mss-1"
	case 7:
		return (2+r.intn(4))*mss + 1, "k*mss+1"
	case 8:
		return 2 + r.intn(6), "tiny"
	default:
		return 1 + r.intn(5*mss+3), "random"
	}
}

type sessCase struct {
	kind string
	cfg  sessCfg
	ops  []string
}

func (c *sessCase) replay() any {
	ops := c.ops
	if len(ops) > 60 {
		ops = ops[len(ops)-60:]
	}
	return map[string]any{"phase": c.kind, "cfg": c.cfg.String(), "last_ops": ops,
		"how": "VERIF_SEED=<seed> go test -tags verif -overlay ... -run '^TestVerifSess$' (the frozen phases are deterministic functions of the seed)"}
}

// ---------------------------------------------------------------- phase W

func sessPhaseW(t *testing.T, r *vrng, lg *vlog, rep *vreport, ncases int) {
	restore := sessFreeze()
	defer restore()
	for ci := 0; ci < ncases; ci++ {
		cfg := sessCfg{conv: uint32(1 + r.intn(1<<20)), stream: r.intn(2), sndwnd: r.pick(1, 2, 3, 4, 4, 8, 8, 16, 32),
			rcvwnd: 32, mtu: r.pick(25, 26, 30, 30, 50, 50, 100, 100, 300, 600, 1400), nodelay: r.intn(2),
			interval: r.pick(10, 40, 100), resend: r.pick(0, 2), nc: r.pick(0, 1, 1)}
		conn := sessNewConn("A")
		s := sessNewSession(cfg, conn, "B")
		c := &sessCase{kind: "W", cfg: cfg}
		lg.printf("wcase %d %s\n", ci, cfg)
		lost0 := atomic.LoadUint64(&DefaultSnmp.LostSegs)
		wd := false
		mss := cfg.mtu - IKCP_OVERHEAD
		admitted, blocked, multi, drained := 0, 0, 0, 0
		nops := 10 + r.intn(20)
		for oi := 0; oi < nops; oi++ {
			before := sessProject(s)
			x := r.intn(100)
			switch {
			case x < 58: // a write
				nb := 1 + r.intn(5)
				single := r.chance(30)
				if single {
					nb = 1
				}
				if !single && r.chance(3) {
					nb = 0
				}
				v := make([][]byte, nb)
				total, chunks := 0, 0
				var cat []byte
				hexes := make([]string, nb)
				for i := range v {
					n, cls := sessSize(r, mss)
					rep.Distribution["write-size:"+cls]++
					v[i] = r.bytes(n)
					total += n
					chunks += sessCeil(n, mss)
					cat = append(cat, v[i]...)
					hexes[i] = hx(v[i])
				}
				rep.Distribution[fmt.Sprintf("write-bufs:%d", nb)]++
				now := currentMs()
				s.SetWriteDeadline(time.Now().Add(-time.Second))
				var n int
				var err error
				if single {
					n, err = s.Write(v[0])
				} else {
					n, err = s.WriteBuffers(v)
				}
				after := sessProject(s)
				out := "A"
				if sessIsTimeout(err) {
					out = "B"
				} else if err != nil {
					t.Fatalf("sess W: unexpected error %v", err)
				}
				line := fmt.Sprintf("w %d %d %d %s = %s %d %s", now, sessB2i(wd), nb, strings.Join(hexes, " "), out, n, after)
				if nb == 0 {
					line = fmt.Sprintf("w %d %d 0 = %s %d %s", now, sessB2i(wd), out, n, after)
				}
				lg.printf("%s\n", line)
				c.ops = append(c.ops, sessShort(line))
				rep.Steps++
				// ---- monitors
				rep.Monitors["session-write-admitted-beyond-window"]++
				if before.ws >= before.sndwnd && (out == "A") {
					rep.violate("session-write-admitted-beyond-window", fmt.Sprintf("Write returned n=%d, err=nil although WaitSnd=%d >= snd_wnd=%d when it was called", n, before.ws, before.sndwnd), c.replay())
				}
				if out == "A" {
					admitted++
					if chunks >= 2 {
						multi++
					}
					rep.Monitors["session-write-count"]++
					if n != total {
						rep.violate("session-write-count", fmt.Sprintf("admitted write of %d bytes returned %d", total, n), c.replay())
					}
					rep.Monitors["session-write-stream"]++
					if !bytes.Equal(after.cat, append(append([]byte(nil), before.cat...), cat...)) {
						rep.violate("session-write-stream", "pending payload stream after an admitted write is not the old stream followed by the written bytes", c.replay())
					}
					rep.Monitors["session-write-chunk-oversize"]++
					for _, l := range after.lens {
						if l > mss {
							rep.violate("session-write-chunk-oversize", fmt.Sprintf("pending segment of %d bytes > mss %d", l, mss), c.replay())
						}
					}
					rep.Monitors["session-write-occupancy-bound"]++
					if after.ws > before.sndwnd-1+chunks {
						rep.violate("session-write-occupancy-bound", fmt.Sprintf("WaitSnd=%d after an admitted write > snd_wnd-1+chunks = %d", after.ws, before.sndwnd-1+chunks), c.replay())
					}
				} else {
					blocked++
					rep.Monitors["session-write-blocked-changed-state"]++
					if n != 0 || after.ws != before.ws || !bytes.Equal(after.cat, before.cat) || after.sb != before.sb {
						rep.violate("session-write-blocked-changed-state", "a Write that timed out changed the send side or returned n != 0", c.replay())
					}
				}
			case x < 68: // the session's own update(): a FULL flush
				now := currentMs()
				s.update()
				line := fmt.Sprintf("u %d = %s", now, sessProject(s))
				lg.printf("%s\n", line)
				c.ops = append(c.ops, sessShort(line))
				rep.Steps++
			case x < 90: // the peer acknowledges cumulatively and advertises a window
				if before.sb == 0 {
					continue
				}
				k := 1 + r.intn(before.sb)
				wnd := uint16(r.pick(128, 128, 128, 32, 4, 2, 1))
				now := currentMs()
				d := sessForge(cfg.conv, IKCP_CMD_WINS, 0, wnd, now, 0, before.una+uint32(k), nil)
				s.kcpInput(d)
				line := fmt.Sprintf("i %d 0 %s = %s", now, hx(d), sessProject(s))
				lg.printf("%s\n", line)
				c.ops = append(c.ops, sessShort(line))
				rep.Distribution["peer-una-advance"]++
				rep.Steps++
				drained++
			case x < 95: // a selective ACK of one outstanding segment
				if before.sb == 0 {
					continue
				}
				sn := before.una + uint32(r.intn(before.sb))
				now := currentMs()
				d := sessForge(cfg.conv, IKCP_CMD_ACK, 0, 128, now, sn, before.una, nil)
				s.kcpInput(d)
				line := fmt.Sprintf("i %d 0 %s = %s", now, hx(d), sessProject(s))
				lg.printf("%s\n", line)
				c.ops = append(c.ops, sessShort(line))
				rep.Distribution["peer-selective-ack"]++
				rep.Steps++
			default:
				wd = !wd
				s.SetWriteDelay(wd)
				rep.Distribution["write-delay-toggle"]++
			}
		}
		if atomic.LoadUint64(&DefaultSnmp.LostSegs) != lost0 {
			// a retransmission timeout fired during the case: with congestion control on, the
			// split between snd_buf and snd_queue then depends on the wall clock
			lg.printf("taint\n")
			rep.Distribution["W-case-tainted-by-timeout"]++
		}
		lg.printf("end\n")
		s.Close()
		conn.Close()
		rep.Cases++
		if admitted > 0 && blocked > 0 && multi > 0 {
			rep.Nontrivial++
		}
		rep.Distribution[fmt.Sprintf("W-mode:stream=%d", cfg.stream)]++
		if drained > 0 && blocked > 0 {
			rep.Distribution["W-block-then-reopen"]++
		}
		if ci == 0 {
			rep.sample(map[string]any{"phase": "W", "cfg": cfg.String(), "ops": c.ops[:min(6, len(c.ops))]})
		}
	}
}

func sessB2i(b bool) int {
	if b {
		return 1
	}
	return 0
}

func sessShort(s string) string {
	if len(s) > 300 {
		return s[:300] + "..."
	}
	return s
}

// ---------------------------------------------------------------- phase R

func sessPhaseR(t *testing.T, r *vrng, lg *vlog, rep *vreport, ncases int) {
	restore := sessFreeze()
	defer restore()
	for ci := 0; ci < ncases; ci++ {
		cfg := sessCfg{conv: uint32(1 + r.intn(1<<20)), stream: r.intn(2), sndwnd: 32, rcvwnd: r.pick(2, 4, 8, 32, 128),
			mtu: r.pick(25, 30, 50, 50, 100, 100, 300, 1400), nodelay: 1, interval: 10, resend: 2, nc: 1}
		mss := cfg.mtu - IKCP_OVERHEAD
		conn := sessNewConn("B")
		s := sessNewSession(cfg, conn, "A")
		ackNoDelay := r.chance(30)
		s.SetACKNoDelay(ackNoDelay)
		c := &sessCase{kind: "R", cfg: cfg}
		lg.printf("rcase %d %s\n", ci, cfg)

		// the peer: a real raw core whose output is captured synchronously
		var dgrams [][]byte
		p := NewKCP(cfg.conv, func(buf []byte, size int) { dgrams = append(dgrams, append([]byte(nil), buf[:size]...)) })
		p.stream = int32(cfg.stream)
		p.WndSize(4096, 128)
		p.NoDelay(1, 10, 2, 1)
		p.SetMtu(cfg.mtu)
		p.rmt_wnd = 4096 // the harness never feeds the peer B's window advertisements

		var sent, got []byte
		next := 0 // next datagram never delivered yet
		var skipped []int
		b1 := r.chance(4)
		b1done := false
		direct, carried, blocks := 0, 0, 0

		fedIdx := map[string]int{} // datagrams already in the log are referred to by index
		feed := func(d []byte) {
			now := currentMs()
			s.kcpInput(append([]byte(nil), d...))
			ref := hx(d)
			if i, ok := fedIdx[string(d)]; ok {
				ref = fmt.Sprintf("@%d", i)
			} else {
				fedIdx[string(d)] = len(fedIdx)
			}
			line := fmt.Sprintf("i %d %d %s = %s", now, sessB2i(ackNoDelay), ref, sessProject(s))
			lg.printf("%s\n", line)
			c.ops = append(c.ops, sessShort(line))
			rep.Steps++
		}
		read := func(n int, cls string) bool {
			rep.Distribution["read-len:"+cls]++
			before := sessProject(s)
			buf := make([]byte, n)
			s.SetReadDeadline(time.Now().Add(-time.Second))
			m, err := s.Read(buf)
			after := sessProject(s)
			var line string
			ok := true
			if sessIsTimeout(err) {
				line = fmt.Sprintf("r %d = B %s", n, after)
				blocks++
				ok = false
			} else if err != nil {
				t.Fatalf("sess R: unexpected error %v", err)
			} else {
				rep.Monitors["session-read-overrun"]++
				if m > n || m < 0 {
					rep.violate("session-read-overrun", fmt.Sprintf("Read returned n=%d for len(b)=%d", m, n), c.replay())
					m = min(max(m, 0), n)
				}
				line = fmt.Sprintf("r %d = D %s %s", n, hx(buf[:m]), after)
				got = append(got, buf[:m]...)
				if before.bp == 0 && after.bp == 0 && m > 0 {
					direct++
				}
				if after.bp > 0 {
					carried++
				}
			}
			lg.printf("%s\n", line)
			c.ops = append(c.ops, sessShort(line))
			rep.Steps++
			rep.Monitors["session-read-corrupts-stream"]++
			if len(got) > len(sent) || !bytes.Equal(got, sent[:len(got)]) {
				rep.violate("session-read-corrupts-stream", fmt.Sprintf("after %d bytes read the reader's stream is not a prefix of the %d bytes written", len(got), len(sent)), c.replay())
			}
			return ok
		}
		readLen := func() (int, string) {
			pr := sessProject(s)
			ref := pr.bp
			if ref == 0 {
				ref = max(pr.pk, 0)
			}
			switch r.intn(11) {
			case 0:
				return 1, "1"
			case 1:
				return 2, "2"
			case 2:
				return max(ref-1, 0), "size-1"
			case 3:
				return ref, "size"
			case 4:
				return ref + 1, "size+1"
			case 5:
				return ref / 2, "size/2"
			case 6:
				return 2 * ref, "2*size"
			case 7:
				return 4096, "large"
			case 8:
				if r.chance(20) {
					return 0, "0"
				}
				return 3, "3"
			default:
				return 1 + r.intn(2*mss+2), "random"
			}
		}

		nops := 25 + r.intn(40)
		for oi := 0; oi < nops; oi++ {
			x := r.intn(100)
			switch {
			case x < 30: // the peer writes a message and flushes
				maxfrag := min(5, cfg.rcvwnd) // message mode: at most rcv_wnd fragments (B8)
				n, _ := sessSize(r, mss)
				if n == 0 {
					n = 1
				}
				n = min(n, maxfrag*mss)
				msg := r.bytes(n)
				if p.Send(msg) == 0 {
					sent = append(sent, msg...)
				}
				p.flush(IKCP_FLUSH_FULL)
			case x < 58:
				if next < len(dgrams) {
					feed(dgrams[next])
					next++
				}
			case x < 63: // lose the next datagram for now
				if next < len(dgrams) {
					skipped = append(skipped, next)
					next++
					rep.Distribution["datagram-skipped-then-late"]++
				}
			case x < 68: // duplicate / late delivery
				if next > 0 {
					feed(dgrams[r.intn(next)])
					rep.Distribution["datagram-redelivered"]++
				}
			case x < 70 && b1 && !b1done: // boundary B1: a zero-length message parked at the head
				pr := sessProject(s)
				if pr.rq == 0 && pr.rb == 0 {
					feed(sessForge(cfg.conv, IKCP_CMD_PUSH, 0, 128, currentMs(), pr.rnxt, 0, nil))
					b1done = true
					rep.Distribution["b1-forged-empty-message"]++
				}
			default:
				n, cls := readLen()
				read(n, cls)
			}
		}
		// heal: everything the peer emitted is delivered (again) in order; the first round reads
		// now and then, the later ones drain after every datagram
		for round := 0; round < 3 && !(round > 0 && bytes.Equal(got, sent)); round++ {
			p.flush(IKCP_FLUSH_FULL)
			for i := 0; i < len(dgrams); i++ {
				feed(dgrams[i])
				if round > 0 {
					for read(4096, "large") {
					}
				} else if r.chance(40) {
					n, cls := readLen()
					read(n, cls)
				}
			}
			next = len(dgrams)
			for read(4096, "large") {
			}
		}
		lg.printf("end\n")
		s.Close()
		conn.Close()
		rep.Cases++
		complete := bytes.Equal(got, sent)
		if complete {
			rep.Distribution["R-stream-complete"]++
		} else if b1done {
			rep.Distribution["R-stream-stuck-behind-empty-message(B1)"]++
		} else {
			rep.Distribution["R-stream-incomplete"]++
		}
		if direct > 0 && carried > 0 && blocks > 0 && len(got) > 0 {
			rep.Nontrivial++
		}
		if ci == 0 {
			rep.sample(map[string]any{"phase": "R", "cfg": cfg.String(), "ops": c.ops[:min(6, len(c.ops))]})
		}
	}
}

// ---------------------------------------------------------------- phase L

type sessLiveResult struct {
	cfg                 sessCfg
	sentN, gotN         int
	writes, timeouts    int
	reads               int
	bad, stall          string
	occ                 string
	linkA, linkB        string
}

func sessLivePair(seed uint64, cfg sessCfg, total int, deadline time.Duration) sessLiveResult {
	r := newRng(seed)
	ca, cb := sessNewConn("A"), sessNewConn("B")
	ca.peer, cb.peer = cb, ca
	ca.rng, cb.rng = newRng(r.u64()), newRng(r.u64())
	ca.drop, ca.dup, ca.hold = 10, 5, 10
	cb.drop, cb.dup, cb.hold = 10, 5, 10
	a := sessNewSession(cfg, ca, "B")
	b := sessNewSession(cfg, cb, "A")
	a.SetWriteDelay(r.chance(50))
	defer func() { a.Close(); b.Close(); ca.Close(); cb.Close() }()
	data := r.bytes(total)
	res := sessLiveResult{cfg: cfg, sentN: total}
	mss := cfg.mtu - IKCP_OVERHEAD
	stop := time.Now().Add(deadline)
	var wg sync.WaitGroup
	wg.Add(2)
	wr, rr := newRng(r.u64()), newRng(r.u64())
	go func() { // writer
		defer wg.Done()
		off := 0
		for off < total && time.Now().Before(stop) {
			nb := 1 + wr.intn(4)
			var v [][]byte
			chunks, n := 0, 0
			for i := 0; i < nb && off+n < total; i++ {
				l, _ := sessSize(wr, mss)
				l = min(l, total-off-n)
				v = append(v, data[off+n:off+n+l])
				chunks += sessCeil(l, mss)
				n += l
			}
			a.SetWriteDeadline(time.Now().Add(20 * time.Millisecond))
			m, err := a.WriteBuffers(v)
			if sessIsTimeout(err) {
				res.timeouts++
				continue
			}
			if err != nil {
				res.bad = "write error: " + err.Error()
				return
			}
			res.writes++
			if m != n {
				res.bad = fmt.Sprintf("session-write-count: admitted write of %d bytes returned %d", n, m)
				return
			}
			// acknowledgements can only lower WaitSnd between the return and this observation
			a.mu.Lock()
			ws, sw := a.kcp.WaitSnd(), int(a.kcp.snd_wnd)
			a.mu.Unlock()
			if ws > sw-1+chunks {
				res.occ = fmt.Sprintf("WaitSnd=%d after an admitted write of %d chunks with snd_wnd=%d", ws, chunks, sw)
			}
			off += n
		}
	}()
	go func() { // reader
		defer wg.Done()
		got := 0
		for got < total && time.Now().Before(stop) {
			n := 1
			switch rr.intn(6) {
			case 0:
				n = 1
			case 1:
				n = 1 + rr.intn(8)
			case 2:
				n = mss
			case 3:
				n = mss + 1 + rr.intn(mss+1)
			case 4:
				n = 4096
			default:
				n = 1 + rr.intn(3*mss+1)
			}
			buf := make([]byte, n)
			b.SetReadDeadline(time.Now().Add(200 * time.Millisecond))
			m, err := b.Read(buf)
			if sessIsTimeout(err) {
				continue
			}
			if err != nil {
				res.bad = "read error: " + err.Error()
				return
			}
			res.reads++
			if m > n || got+m > total {
				res.bad = fmt.Sprintf("session-read-overrun: Read returned %d for len(b)=%d with %d of %d bytes outstanding", m, n, total-got, total)
				return
			}
			if !bytes.Equal(buf[:m], data[got:got+m]) {
				res.bad = fmt.Sprintf("session-read-corrupts-stream: bytes %d..%d returned by Read differ from the bytes written", got, got+m)
				return
			}
			got += m
			res.gotN = got
		}
	}()
	wg.Wait()
	if res.gotN < total {
		dump := func(s *UDPSession) string {
			s.mu.Lock()
			defer s.mu.Unlock()
			k := s.kcp
			return fmt.Sprintf("una=%d nxt=%d rnxt=%d sb=%d sq=%d rq=%d rb=%d rmt_wnd=%d cwnd=%d probe=%d probe_wait=%d ts_probe=%d now=%d state=%d bp=%d pk=%d",
				k.snd_una, k.snd_nxt, k.rcv_nxt, k.snd_buf.Len(), k.snd_queue.Len(), k.rcv_queue.Len(), k.rcv_buf.Len(), k.rmt_wnd, k.cwnd, k.probe, k.probe_wait, k.ts_probe, currentMs(), k.state, len(s.bufptr), k.PeekSize())
		}
		res.stall = "A{" + dump(a) + "} B{" + dump(b) + "}"
	}
	res.linkA = fmt.Sprintf("sent=%d dropped=%d dup=%d reordered=%d", ca.sent, ca.dropped, ca.dupped, ca.reordered)
	res.linkB = fmt.Sprintf("sent=%d dropped=%d dup=%d reordered=%d", cb.sent, cb.dropped, cb.dupped, cb.reordered)
	return res
}

func sessPhaseL(t *testing.T, r *vrng, rep *vreport, npairs, total int) {
	results := make([]sessLiveResult, npairs)
	var wg sync.WaitGroup
	for i := 0; i < npairs; i++ {
		cfg := sessCfg{conv: uint32(1 + r.intn(1<<20)), stream: r.intn(2), sndwnd: r.pick(2, 4, 8, 32), rcvwnd: r.pick(4, 8, 32),
			mtu: r.pick(40, 60, 100, 300, 1400), nodelay: 1, interval: 10, resend: 2, nc: r.pick(0, 1)}
		seed := r.u64()
		wg.Add(1)
		go func(i int) {
			defer wg.Done()
			// about 200 segments at small mss, `total` bytes at large mss
			results[i] = sessLivePair(seed, cfg, min(total, max(3000, 200*(cfg.mtu-IKCP_OVERHEAD))), 20*time.Second)
		}(i)
	}
	wg.Wait()
	for _, res := range results {
		rep.Cases++
		rep.Monitors["session-read-corrupts-stream"] += res.reads
		rep.Monitors["session-write-occupancy-bound"] += res.writes
		rep.Monitors["session-write-count"] += res.writes
		rp := map[string]any{"phase": "L", "cfg": res.cfg.String(), "linkA": res.linkA, "linkB": res.linkB,
			"written": res.sentN, "read": res.gotN}
		if res.bad != "" {
			key := "session-live-error"
			if i := strings.Index(res.bad, ":"); i > 0 && strings.HasPrefix(res.bad, "session-") {
				key = res.bad[:i]
			}
			rep.violate(key, res.bad, rp)
		}
		if res.occ != "" {
			rep.violate("session-write-occupancy-bound", res.occ, rp)
		}
		if res.gotN == res.sentN {
			rep.Distribution["L-stream-complete"]++
			if res.timeouts > 0 {
				rep.Nontrivial++
			}
		} else {
			rep.Distribution["L-stream-incomplete-at-deadline"]++
			rep.Extra[fmt.Sprintf("L-incomplete:%s", res.cfg.String())] = res.stall
		}
		if res.timeouts > 0 {
			rep.Distribution["L-writer-blocked-at-least-once"]++
		}
	}
	if len(results) > 0 {
		rep.sample(map[string]any{"phase": "L", "cfg": results[0].cfg.String(), "linkA": results[0].linkA, "read": results[0].gotN, "writer_timeouts": results[0].timeouts})
	}
}

// ---------------------------------------------------------------- the test

// sessPhaseClose: C04 at the very end of a session's life.  Close flushes once more; that flush is
// bound by the same admission rule as every other: with congestion control on, after a timeout loss
// (cwnd collapsed, the oldest segment still unacknowledged) it numbers and transmits nothing new,
// and in general no more than min(snd_wnd, rmt_wnd, cwnd) segments are outstanding after it.
func sessPhaseClose(t *testing.T, r *vrng, lg *vlog, rep *vreport, ncases int) {
	unfreeze := sessFreeze()
	defer unfreeze()
	for i := 0; i < ncases; i++ {
		cfg := sessCfg{conv: uint32(4000 + i), stream: i % 2, sndwnd: r.pick(8, 32, 128), rcvwnd: 32, mtu: 1400, nodelay: r.intn(2), interval: 10, resend: r.pick(0, 2), nc: 0}
		conn := sessNewConn(fmt.Sprintf("close%d", i))
		s := sessNewSession(cfg, conn, "nobody")
		s.SetWriteDelay(false)
		// the case is logged in the format of the writer cases: the model replays the writes, the
		// timer-expiry flush and Close - which is one more full flush ("u") - and compares the state
		lg.printf("wcase %d %s\n", 100000+i, cfg)
		nmsg := 4 + r.intn(12)
		for k := 0; k < nmsg; k++ {
			msg := r.bytes(900 + r.intn(400))
			now := currentMs()
			s.SetWriteDeadline(time.Now().Add(-time.Second)) // never block: a refused write returns at once
			n, err := s.Write(msg)
			out := "A"
			if sessIsTimeout(err) {
				out = "B"
			}
			lg.printf("w %d 0 1 %s = %s %d %s\n", now, hx(msg), out, n, sessProject(s))
		}
		// the peer is silent: let the retransmission timer of the oldest segment expire and flush once
		saved := refTime
		s.mu.Lock()
		refTime = refTime.Add(-time.Duration(int(s.kcp.rx_rto)+50) * time.Millisecond)
		tFlush := currentMs()
		s.kcp.flush(IKCP_FLUSH_FULL)
		cwnd, nxt0, una0, queued := s.kcp.cwnd, s.kcp.snd_nxt, s.kcp.snd_una, s.kcp.snd_queue.Len()
		lim := min(s.kcp.snd_wnd, s.kcp.rmt_wnd, s.kcp.cwnd)
		s.mu.Unlock()
		lg.printf("u %d = %s\n", tFlush, sessProject(s))
		tClose := currentMs()
		s.Close()
		lg.printf("c %d = %s\n", tClose, sessProject(s))
		lg.printf("end\n")
		s.mu.Lock()
		nxt1 := s.kcp.snd_nxt
		s.mu.Unlock()
		refTime = saved
		conn.Close()
		rep.Cases++
		rep.Monitors["session-close-admission"]++
		if queued > 0 && cwnd == 1 {
			rep.Nontrivial++
			rep.Distribution["close-after-timeout-loss-with-queue"]++
		}
		outstanding := nxt1 - una0
		if nxt1 != nxt0 && outstanding > lim {
			rep.violate("session-close-admits-beyond-window", fmt.Sprintf("case %d (%s): after a timeout loss cwnd=%d with %d segment(s) outstanding and %d queued; Close's final flush numbered %d new segment(s): %d outstanding > min(snd_wnd, rmt_wnd, cwnd) = %d",
				i, cfg.String(), cwnd, nxt0-una0, queued, nxt1-nxt0, outstanding, lim), map[string]any{"cfg": cfg.String(), "messages": nmsg, "seed": vSeed(), "case": i})
		}
	}
}

func TestVerifSess(t *testing.T) {
	r := newRng(vSeed())
	lg := newVlog(t, "C01sess.log")
	rep := newReport("C01sess")
	nw, nr, nl, total := 700, 400, 10, 24000
	if vThorough() {
		nw, nr, nl, total = 1600, 900, 32, 120000
	}
	nw = vEnvInt("VERIF_SESS_W", nw)
	nr = vEnvInt("VERIF_SESS_R", nr)
	nl = vEnvInt("VERIF_SESS_L", nl)
	t0 := time.Now()
	sessPhaseW(t, r, lg, rep, nw)
	tw := time.Since(t0)
	sessPhaseR(t, r, lg, rep, nr)
	tr := time.Since(t0) - tw
	nc := 24
	if vThorough() {
		nc = 200
	}
	sessPhaseClose(t, r, lg, rep, nc)
	lg.close()
	sessPhaseL(t, r, rep, nl, total)
	rep.Extra["phase_seconds"] = map[string]float64{"W": tw.Seconds(), "R": tr.Seconds(), "L": (time.Since(t0) - tw - tr).Seconds()}
	rep.Extra["cases_W"], rep.Extra["cases_R"], rep.Extra["pairs_L"] = nw, nr, nl
	rep.write(t, "C01sess.report.json")
	for _, v := range rep.Violations {
		t.Logf("VIOLATION %s: %s", v.Key, v.What)
	}
}
