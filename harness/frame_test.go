//go:build verif

package kcp

// C09 / C19 - real sessions (client + listener-accepted) over an in-memory PacketConn pair.
//
// EVERY datagram a session hands to the conn's WriteTo is captured (on linux tx() uses
// WriteBatch only when newBatchConn(conn) != nil, i.e. for conns with SyscallConn/ReadMsgUDP;
// the in-memory conn below has neither, so all traffic goes through defaultTx -> WriteTo) and
//   (1) decoded by an INDEPENDENT decoder written from README.md / the property text
//       (crypto/cipher CFB, x/crypto salsa20, pbkdf2 xor pad, crypto/cipher GCM, hash/crc32,
//       FEC header by type, 24-byte little-endian KCP headers each followed by len bytes);
//       the byte stream is reassembled from the wire ALONE and compared with what the
//       application wrote;
//   (2) logged (decrypted) so that ml/frame_driver.ml can run the extracted spec_decode /
//       parse_all / pp_step on it and compare;
//   (3) checked for the FEC id/type cycle and size = payload+2;
//   (4) inserted into a set: with a cipher, no two datagrams of a run are identical;
//   (5) parity recomputed with klauspost/reedsolomon from the captured data packets.
// OOB monitors: the handler gets exactly bytes the peer sent, or nothing; never another
// session's; SendOOB refuses oversize payloads and sessions without FEC; the reliable stream is
// unaffected; the real fecEncoder run twice (with / without interleaved encodeOOB) produces
// identical data/parity packets and ends in the identical state.
// Observables are bytes only, never timing.

import (
	"bytes"
	"crypto/aes"
	"crypto/cipher"
	"crypto/sha1"
	"encoding/binary"
	"encoding/json"
	"fmt"
	"hash/crc32"
	"io"
	"net"
	"os"
	"os/exec"
	"path/filepath"
	"reflect"
	"runtime"
	"runtime/debug"
	"sort"
	"strings"
	"sync"
	"testing"
	"time"

	"github.com/klauspost/reedsolomon"
	"golang.org/x/crypto/blowfish"
	"golang.org/x/crypto/pbkdf2"
	"golang.org/x/crypto/salsa20"
)

// ---------------------------------------------------------------- in-memory network

type frameAddr string

func (a frameAddr) Network() string { return "framemem" }
func (a frameAddr) String() string  { return string(a) }

type framePkt struct {
	data []byte
	from net.Addr
}

type frameCapture struct {
	from, to string
	data     []byte
}

// frameHub connects endpoints by address; WriteTo captures, then applies the fault policy.
type frameHub struct {
	mu      sync.Mutex
	eps     map[string]*frameEP
	rng     *vrng
	lossPct int
	dupPct  int
	caps    []frameCapture
	frozen  bool // stop capturing / delivering (scenario over)
	dropped int
	duped   int
}

type frameEP struct {
	hub    *frameHub
	addr   frameAddr
	ch     chan framePkt
	closed chan struct{}
	once   sync.Once
}

func frameNewHub(rng *vrng, lossPct, dupPct int) *frameHub {
	return &frameHub{eps: map[string]*frameEP{}, rng: rng, lossPct: lossPct, dupPct: dupPct}
}

func (h *frameHub) endpoint(name string) *frameEP {
	ep := &frameEP{hub: h, addr: frameAddr(name), ch: make(chan framePkt, 8192), closed: make(chan struct{})}
	h.mu.Lock()
	h.eps[name] = ep
	h.mu.Unlock()
	return ep
}

func (ep *frameEP) ReadFrom(p []byte) (int, net.Addr, error) {
	select {
	case pkt := <-ep.ch:
		n := copy(p, pkt.data)
		return n, pkt.from, nil
	case <-ep.closed:
		return 0, nil, net.ErrClosed
	}
}

func (ep *frameEP) WriteTo(p []byte, addr net.Addr) (int, error) {
	h := ep.hub
	h.mu.Lock()
	defer h.mu.Unlock()
	if h.frozen {
		return len(p), nil
	}
	cp := append([]byte(nil), p...)
	h.caps = append(h.caps, frameCapture{string(ep.addr), addr.String(), cp})
	dst := h.eps[addr.String()]
	if dst == nil {
		return len(p), nil
	}
	n := 1
	if h.rng.chance(h.lossPct) {
		n = 0
		h.dropped++
	} else if h.rng.chance(h.dupPct) {
		n = 2
		h.duped++
	}
	for i := 0; i < n; i++ {
		select {
		case dst.ch <- framePkt{append([]byte(nil), cp...), ep.addr}:
		default: // receiver queue full: a loss
		}
	}
	return len(p), nil
}

func (ep *frameEP) Close() error {
	ep.once.Do(func() { close(ep.closed) })
	return nil
}
func (ep *frameEP) LocalAddr() net.Addr                { return ep.addr }
func (ep *frameEP) SetDeadline(t time.Time) error      { return nil }
func (ep *frameEP) SetReadDeadline(t time.Time) error  { return nil }
func (ep *frameEP) SetWriteDeadline(t time.Time) error { return nil }

// ---------------------------------------------------------------- cipher classes

const (
	frameClassNil  = 0 // no BlockCrypt: no nonce, no CRC
	frameClassCRC  = 1 // nonce(16) + CRC32(4) + Encrypt over the whole datagram
	frameClassAEAD = 2 // nonce(12) + sealed
)

type frameCipher struct {
	name  string
	class int
	ns    int                                    // nonce size on the wire
	mk    func(key []byte) BlockCrypt            // the package's cipher object (given to the sessions)
	plain func(key, dgram []byte) ([]byte, bool) // INDEPENDENT decryption: nonce|crc|rest, resp. nonce|plaintext
}

func frameCFB(newBlock func([]byte) (cipher.Block, error)) func(key, dgram []byte) ([]byte, bool) {
	return func(key, dgram []byte) ([]byte, bool) {
		blk, err := newBlock(key)
		if err != nil {
			return nil, false
		}
		out := make([]byte, len(dgram))
		// textbook CFB with the package's documented fixed IV
		cipher.NewCFBDecrypter(blk, initialVector[:blk.BlockSize()]).XORKeyStream(out, dgram)
		return out, true
	}
}

func frameCiphers() []frameCipher {
	must := func(b BlockCrypt, err error) BlockCrypt {
		if err != nil {
			panic(err)
		}
		return b
	}
	ident := func(key, d []byte) ([]byte, bool) { return append([]byte(nil), d...), true }
	return []frameCipher{
		{"nil", frameClassNil, 0, func(k []byte) BlockCrypt { return nil }, ident},
		{"none", frameClassCRC, 16, func(k []byte) BlockCrypt { return must(NewNoneBlockCrypt(k)) }, ident},
		{"xor", frameClassCRC, 16, func(k []byte) BlockCrypt { return must(NewSimpleXORBlockCrypt(k)) },
			func(key, d []byte) ([]byte, bool) {
				pad := pbkdf2.Key(key, []byte(saltxor), 32, mtuLimit, sha1.New)
				if len(d) > len(pad) {
					return nil, false
				}
				out := make([]byte, len(d))
				for i := range d {
					out[i] = d[i] ^ pad[i]
				}
				return out, true
			}},
		{"salsa20", frameClassCRC, 16, func(k []byte) BlockCrypt { return must(NewSalsa20BlockCrypt(k)) },
			func(key, d []byte) ([]byte, bool) {
				if len(d) < 8 {
					return nil, false
				}
				var k32 [32]byte
				copy(k32[:], key)
				out := make([]byte, len(d))
				copy(out[:8], d[:8]) // the first 8 bytes are the salsa nonce, sent in clear
				salsa20.XORKeyStream(out[8:], d[8:], d[:8], &k32)
				return out, true
			}},
		{"blowfish", frameClassCRC, 16, func(k []byte) BlockCrypt { return must(NewBlowfishBlockCrypt(k)) },
			frameCFB(func(k []byte) (cipher.Block, error) { return blowfish.NewCipher(k) })},
		{"aes", frameClassCRC, 16, func(k []byte) BlockCrypt { return must(NewAESBlockCrypt(k)) },
			frameCFB(func(k []byte) (cipher.Block, error) { return aes.NewCipher(k) })},
		{"aes-gcm", frameClassAEAD, 12, func(k []byte) BlockCrypt { return must(NewAESGCMCrypt(k)) },
			func(key, d []byte) ([]byte, bool) {
				blk, err := aes.NewCipher(key)
				if err != nil {
					return nil, false
				}
				g, err := cipher.NewGCM(blk)
				if err != nil || len(d) < g.NonceSize()+g.Overhead() {
					return nil, false
				}
				pt, err := g.Open(nil, d[:g.NonceSize()], d[g.NonceSize():], nil)
				if err != nil {
					return nil, false
				}
				return append(append([]byte(nil), d[:g.NonceSize()]...), pt...), true
			}},
	}
}

// ---------------------------------------------------------------- the independent decoder

type frameSeg struct {
	conv     uint32
	cmd, frg uint8
	wnd      uint16
	ts, sn   uint32
	una      uint32
	data     []byte
}

type frameInfo struct {
	kind    string // data | parity | oob
	plain   []byte // decrypted datagram (nonce|crc|rest or nonce|plaintext or raw)
	rest    []byte // after nonce/CRC
	fec     bool
	seqid   uint32
	ftype   uint16
	size    uint16
	segs    []frameSeg
	conv    uint32
	payload []byte // parity bytes / OOB payload / concatenated KCP frames
}

// frameWalk: one or more 24-byte little-endian headers, each followed by exactly len bytes.
func frameWalk(b []byte) ([]frameSeg, string) {
	var segs []frameSeg
	for len(b) > 0 {
		if len(b) < 24 {
			return nil, fmt.Sprintf("%d trailing bytes, less than a 24-byte header", len(b))
		}
		s := frameSeg{
			conv: binary.LittleEndian.Uint32(b[0:]), cmd: b[4], frg: b[5],
			wnd: binary.LittleEndian.Uint16(b[6:]), ts: binary.LittleEndian.Uint32(b[8:]),
			sn: binary.LittleEndian.Uint32(b[12:]), una: binary.LittleEndian.Uint32(b[16:]),
		}
		l := binary.LittleEndian.Uint32(b[20:])
		b = b[24:]
		if uint64(l) > uint64(len(b)) {
			return nil, fmt.Sprintf("segment sn=%d declares len=%d but only %d bytes follow", s.sn, l, len(b))
		}
		s.data = b[:l]
		b = b[l:]
		segs = append(segs, s)
	}
	if len(segs) == 0 {
		return nil, "no segment"
	}
	return segs, ""
}

func frameDecode(c frameCipher, key []byte, fec bool, dgram []byte) (*frameInfo, string) {
	fi := &frameInfo{fec: fec}
	pl, ok := c.plain(key, dgram)
	if !ok {
		return nil, "does not decrypt / authenticate"
	}
	fi.plain = pl
	switch c.class {
	case frameClassNil:
		fi.rest = pl
	case frameClassCRC:
		if len(pl) < 20 {
			return nil, "shorter than nonce+CRC"
		}
		fi.rest = pl[20:]
		if crc32.ChecksumIEEE(fi.rest) != binary.LittleEndian.Uint32(pl[16:]) {
			return nil, "CRC32 of the bytes after the CRC field does not match"
		}
	case frameClassAEAD:
		fi.rest = pl[c.ns:]
	}
	r := fi.rest
	if !fec {
		segs, e := frameWalk(r)
		if e != "" {
			return nil, e
		}
		fi.kind, fi.segs, fi.payload = "data", segs, r
		return fi, ""
	}
	if len(r) < 6 {
		return nil, "shorter than a FEC header"
	}
	fi.seqid = binary.LittleEndian.Uint32(r)
	fi.ftype = binary.LittleEndian.Uint16(r[4:])
	switch fi.ftype {
	case 0xF2:
		fi.kind, fi.payload = "parity", r[6:]
		return fi, ""
	case 0xF1, 0xF3:
		if len(r) < 8 {
			return nil, "no size field"
		}
		fi.size = binary.LittleEndian.Uint16(r[6:])
		body := r[8:]
		if int(fi.size) != len(body)+2 {
			return nil, fmt.Sprintf("size field %d != payload %d + 2", fi.size, len(body))
		}
		if fi.ftype == 0xF1 {
			segs, e := frameWalk(body)
			if e != "" {
				return nil, e
			}
			fi.kind, fi.segs, fi.payload = "data", segs, body
			return fi, ""
		}
		if len(body) < 4 {
			return nil, "OOB packet without conversation id"
		}
		fi.kind, fi.conv, fi.payload = "oob", binary.LittleEndian.Uint32(body), body[4:]
		return fi, ""
	}
	return nil, fmt.Sprintf("FEC type 0x%04x is none of 0xF1/0xF2/0xF3", fi.ftype)
}

func (fi *frameInfo) summary() string {
	segs := func() string {
		var sb strings.Builder
		for i, s := range fi.segs {
			if i > 0 {
				sb.WriteByte(';')
			}
			fmt.Fprintf(&sb, "%d.%d.%d.%d.%d.%d.%d.%s", s.conv, s.cmd, s.frg, s.wnd, s.ts, s.sn, s.una, hx(s.data))
		}
		return sb.String()
	}
	switch fi.kind {
	case "data":
		if fi.fec {
			return fmt.Sprintf("data:%d:%d:%s", fi.seqid, fi.size, segs())
		}
		return "data:-:-:" + segs()
	case "parity":
		return fmt.Sprintf("parity:%d:%s", fi.seqid, hx(fi.payload))
	default:
		return fmt.Sprintf("oob:%d:%d:%d:%s", fi.seqid, fi.size, fi.conv, hx(fi.payload))
	}
}

// ---------------------------------------------------------------- scenario description

var frameFecs = [][2]int{{0, 0}, {1, 1}, {2, 1}, {3, 2}, {10, 3}}
var frameMtuNames = []string{"small", "576", "1400", "1500"}

type frameCfg struct {
	ID       int
	Cipher   int // index into frameCiphers()
	D, P     int
	MtuKind  int // 0 smallest accepted (+0..15), 1..3 = 576/1400/1500
	Pattern  int // write pattern
	OOBMode  int // 0 none, 1 handlers on both sides, 2 server side only, 3 client side only
	Clients  int
	LossPct  int
	DupPct   int
	Seed     uint64
	MaxBytes int
	C05      int  // 1..3: a C05 cell (dialled session / listener, known address / listener, unknown addresses) instead of a traffic scenario
	Script   int  // 1: big write, wait for its ack, lower the MTU, small writes (a FEC group straddling the change)
	MtuOps   bool // UDPSession.SetMtu with arbitrary values at random points of the traffic, both sides
	Flood    bool // a burst of several thousand SendOOB calls in a tight loop in the middle of the transfer
	Slow     bool // readers start late behind a 4-segment receive window: zero-window probes (WASK/WINS) on the wire
}

func (c frameCfg) String() string {
	return fmt.Sprintf("id=%d cipher=%s fec=%d/%d mtu=%s pattern=%d oob=%d clients=%d loss=%d dup=%d slow=%v flood=%v mtuops=%v script=%d seed=%d",
		c.ID, frameCiphers()[c.Cipher].name, c.D, c.P, frameMtuNames[c.MtuKind], c.Pattern, c.OOBMode, c.Clients, c.LossPct, c.DupPct, c.Slow, c.Flood, c.MtuOps, c.Script, c.Seed)
}

type frameFinding struct {
	Key, What string
	Replay    any
}

type frameDirLog struct { // one sender session's datagrams, for the OCaml driver
	Header string
	Lines  []string
}

// frameResult crosses a process boundary as JSON (every scenario runs in a child process)
type frameResult struct {
	Cfg         frameCfg
	Findings    []frameFinding
	Dist        map[string]int
	Monitors    map[string]int
	Logs        []frameDirLog
	Retrans     int
	Parity      int
	OOBRecv     int
	Datagrams   int
	MtuAccepted int
	Err         string // harness-level failure (not a property violation)
	Sample      string
}

func (r *frameResult) violate(key, what string, detail any) {
	n := 0
	for _, f := range r.Findings {
		if f.Key == key {
			n++
		}
	}
	if n < 5 && len(r.Findings) < 40 {
		cj, _ := json.Marshal(r.Cfg)
		r.Findings = append(r.Findings, frameFinding{key, what, map[string]any{"scenario": r.Cfg.String(), "cfg": r.Cfg, "detail": detail,
			"how": "re-run this one scenario: FRAME_CHILD_CFG='" + string(cj) + "' FRAME_CHILD_OUT=/verif/.work/frame/replay.json VERIF_TIER=" + vTier() +
				" go1.26.8 test -tags verif -overlay <overlay of harness/common_test.go + harness/frame_test.go> -run '^TestVerifFrameChild$' . (in /repo; findings in the JSON written)"}})
	}
}

// frameSafe runs one library call; a panic in it becomes a value instead of killing the run
func frameSafe(f func()) (panicked string) {
	defer func() {
		if r := recover(); r != nil {
			panicked = fmt.Sprint(r)
		}
	}()
	f()
	return ""
}

// one endpoint of one conversation
type frameSide struct {
	lastRefused int // the last SetMtu value that was refused (retried later)
	name     string
	sess     *UDPSession
	tag      byte
	written  []byte
	chunks   []int
	mu       sync.Mutex
	read     []byte
	oobSent  [][]byte // accepted by SendOOB (nil error)
	oobGot   [][]byte
	handler  bool
	writeErr error

	hub    *frameHub
	res    *frameResult
	resMu  *sync.Mutex
	events []frameMtuEvent // every SetMtu call on this session, in order
}

// frameMtuEvent: one UDPSession.SetMtu call.  Datagrams captured before CapIndex were built
// under the previous MTU; an accepted call is followed by a marker segment pushed through the
// session's own post-processing queue (FIFO), so every datagram captured after the marker was
// built after SetMtu returned and must honour the new value.
type frameMtuEvent struct {
	CapIndex int
	Asked    int
	Bound    int // min(Asked, 1500)
	Accepted bool
	Epoch    int
}

const frameMarkerTS = 0xC10A0000

func (s *frameSide) violate(key, what string, detail any) {
	s.resMu.Lock()
	s.res.violate(key, what, detail)
	s.resMu.Unlock()
	// a library call panicked (recovered by frameSafe): the session mutex may still be held and the
	// rest of the scenario would only hang on it - hand the finding to the parent process at once
	if out := os.Getenv("FRAME_CHILD_OUT"); out != "" && strings.HasPrefix(key, "session-panic:") {
		s.resMu.Lock()
		b, err := json.Marshal(s.res)
		s.resMu.Unlock()
		if err == nil && os.WriteFile(out, b, 0o644) == nil {
			os.Exit(0)
		}
	}
}

// largest payload among the queued and in-flight segments (the core refuses an MTU they cannot honour)
func frameLargestSeg(k *KCP) int {
	max := 0
	f := func(seg *segment) bool {
		if len(seg.data) > max {
			max = len(seg.data)
		}
		return true
	}
	k.snd_queue.ForEach(f)
	k.snd_buf.ForEach(f)
	return max
}

// setMtu: UDPSession.SetMtu under the monitors "accepted iff min(m,1500) - headerSize - AEAD
// overhead passes the core's SetMtu; accepted => the core's mtu is that value; refused =>
// nothing changes", plus the bookkeeping for the size monitor.
func (s *frameSide) setMtu(m int) bool {
	sess := s.sess
	s.hub.mu.Lock()
	capIndex := len(s.hub.caps)
	s.hub.mu.Unlock()
	ov := 0
	if a, ok := sess.block.(*aeadCrypt); ok {
		ov = a.Overhead()
	}
	bound := m
	if bound > mtuLimit {
		bound = mtuLimit
	}
	km := bound - sess.headerSize - ov
	sess.mu.Lock()
	oldMtu, oldMss, preLargest := int(sess.kcp.mtu), int(sess.kcp.mss), frameLargestSeg(sess.kcp)
	sess.mu.Unlock()
	var ok bool
	detail := map[string]any{"asked": m, "headerSize": sess.headerSize, "aeadOverhead": ov, "coreMtuBefore": oldMtu}
	if p := frameSafe(func() { ok = sess.SetMtu(m) }); p != "" {
		s.violate("session-panic:SetMtu", fmt.Sprintf("%s: SetMtu(%d) panicked: %s", s.name, m, p), detail)
		return false
	}
	sess.mu.Lock()
	newMtu, newMss, postLargest := int(sess.kcp.mtu), int(sess.kcp.mss), frameLargestSeg(sess.kcp)
	sess.mu.Unlock()
	s.resMu.Lock()
	s.res.Monitors["session-setmtu-rule"]++
	s.res.Dist[fmt.Sprintf("setmtu-%s-%v", frameMtuClass(m, km), ok)]++
	if ok {
		s.res.MtuAccepted++
	}
	s.resMu.Unlock()
	switch {
	case ok && km <= IKCP_OVERHEAD:
		s.violate("session-setmtu-rule", fmt.Sprintf("%s: SetMtu(%d) accepted although it leaves the core %d <= 24 bytes", s.name, m, km), detail)
	case ok && postLargest > km-IKCP_OVERHEAD:
		s.violate("session-setmtu-rule", fmt.Sprintf("%s: SetMtu(%d) accepted although a queued segment of %d bytes exceeds the new mss %d", s.name, m, postLargest, km-IKCP_OVERHEAD), detail)
	case !ok && km > IKCP_OVERHEAD && preLargest <= km-IKCP_OVERHEAD:
		s.violate("session-setmtu-rule", fmt.Sprintf("%s: SetMtu(%d) refused although the core mtu %d is in range and every queued segment (largest %d) fits", s.name, m, km, preLargest), detail)
	case ok && (newMtu != km || newMss != km-IKCP_OVERHEAD):
		s.violate("session-setmtu-rule", fmt.Sprintf("%s: SetMtu(%d) accepted but the core has mtu %d / mss %d instead of %d / %d", s.name, m, newMtu, newMss, km, km-IKCP_OVERHEAD), detail)
	case !ok && (newMtu != oldMtu || newMss != oldMss):
		s.violate("session-setmtu-rule", fmt.Sprintf("%s: SetMtu(%d) refused but the core mtu changed %d -> %d", s.name, m, oldMtu, newMtu), detail)
	}
	s.mu.Lock()
	ev := frameMtuEvent{CapIndex: capIndex, Asked: m, Bound: bound, Accepted: ok, Epoch: len(s.events) + 1}
	s.events = append(s.events, ev)
	s.mu.Unlock()
	if ok {
		s.marker(ev.Epoch)
	}
	return ok
}

func frameMtuClass(m, km int) string {
	switch {
	case m <= 0:
		return "nonpositive"
	case km <= IKCP_OVERHEAD:
		return "too-small"
	case m > mtuLimit:
		return "above-1500"
	}
	return "in-range"
}

// marker: a window-tell segment (what a genuine flush emits on request) with a recognisable ts,
// pushed into the session's own post-processing queue behind everything built so far.
func (s *frameSide) marker(epoch int) {
	sess := s.sess
	sess.mu.Lock()
	seg := segment{conv: sess.kcp.conv, cmd: IKCP_CMD_WINS, wnd: sess.kcp.wnd_unused(), una: sess.kcp.rcv_nxt, ts: frameMarkerTS | uint32(epoch&0xffff)}
	buf := defaultBufferPool.Get()[:IKCP_OVERHEAD+sess.headerSize]
	seg.encode(buf[sess.headerSize:])
	sess.mu.Unlock()
	for try := 0; try < 2000; try++ {
		select {
		case sess.chPostProcessing <- sendRequest{buf, false}:
			return
		case <-sess.die:
			return
		default:
			time.Sleep(time.Millisecond)
		}
	}
	// never enqueued: the event stays pending, the monitor keeps allowing the older, larger bound
}

func (s *frameSide) onOOB(b []byte) {
	cp := append([]byte(nil), b...) // the slice is only valid during the call (boundary B15)
	s.mu.Lock()
	s.oobGot = append(s.oobGot, cp)
	s.mu.Unlock()
}

func frameChunks(rng *vrng, pattern, mss, maxBytes int) []int {
	reps := 1
	if vThorough() {
		reps = 3
	}
	var out []int
	for r := 0; r < reps; r++ {
		out = append(out, frameChunksOnce(rng, pattern, mss, maxBytes/reps)...)
	}
	return out
}

func frameChunksOnce(rng *vrng, pattern, mss, maxBytes int) []int {
	var out []int
	total := 0
	add := func(n int) {
		if n < 1 {
			n = 1
		}
		if total+n > maxBytes {
			n = maxBytes - total
		}
		if n > 0 {
			out = append(out, n)
			total += n
		}
	}
	switch pattern {
	case 0: // single bytes
		for i := 0; i < 12; i++ {
			add(1)
		}
	case 1: // around one MSS
		for _, n := range []int{1, mss - 1, mss, mss + 1, 2, mss} {
			add(n)
		}
	case 2: // several MSS at once
		add(3*mss + 7)
		add(1)
		add(5 * mss)
		add(2*mss - 1)
	default: // random mix
		for i := 0; i < 10; i++ {
			switch rng.intn(4) {
			case 0:
				add(1 + rng.intn(8))
			case 1:
				add(mss + rng.intn(3) - 1)
			case 2:
				add(rng.intn(4*mss) + 1)
			default:
				add(rng.intn(mss) + 1)
			}
		}
	}
	if len(out) == 0 {
		out = []int{1}
	}
	return out
}

// oob payload: self-describing so that a receiver can tell whose it is
func frameOOBPayload(rng *vrng, tag byte, idx, size int) []byte {
	b := rng.bytes(size)
	if size >= 1 {
		b[0] = tag
	}
	if size >= 2 {
		b[1] = byte(idx)
	}
	return b
}

// writer: the chunks of the stream with OOB messages interleaved at random points
// frameMtuValue: growing, shrinking, boundary and out-of-range values
// index of a cipher of the blockCrypt (CFB) family
func frameCFBIndex(rot int) int {
	var idx []int
	for i, c := range frameCiphers() {
		if c.name == "aes" || c.name == "blowfish" {
			idx = append(idx, i)
		}
	}
	return idx[rot%len(idx)]
}

func frameAEADIndex() int {
	for i, c := range frameCiphers() {
		if c.class == frameClassAEAD {
			return i
		}
	}
	return 0
}

func frameMtuValue(rng *vrng, sess *UDPSession) int {
	ov := 0
	if a, ok := sess.block.(*aeadCrypt); ok {
		ov = a.Overhead()
	}
	least := IKCP_OVERHEAD + 1 + sess.headerSize + ov // the smallest value the session can accept
	switch rng.intn(8) {
	case 0:
		return rng.pick(-1, 0, 1, 24, 25, least-1, least-2)
	case 1:
		return rng.pick(least, least+1, least+rng.intn(40))
	case 2:
		return rng.pick(1499, 1500, 1501, 1524, 2000, 65561, 1<<31)
	case 3:
		return rng.pick(576, 600, 1400)
	case 4: // shrink relative to now
		sess.mu.Lock()
		cur := int(sess.kcp.mtu) + sess.headerSize + ov
		sess.mu.Unlock()
		if rng.chance(50) { // by less than the header / tag sizes
			return cur - 1 - rng.intn(40)
		}
		return cur - 1 - rng.intn(cur/2+1)
	case 5: // grow relative to now
		sess.mu.Lock()
		cur := int(sess.kcp.mtu) + sess.headerSize + ov
		sess.mu.Unlock()
		return cur + 1 + rng.intn(200)
	}
	return 1 + rng.intn(1600)
}

func (s *frameSide) run(rng *vrng, oob, flood, mtuOps bool, res *frameResult, resMu *sync.Mutex, chunks []int, data []byte) {
	sess := s.sess
	off := 0
	idx := 0
	floodAt := -1
	if flood && oob {
		floodAt = len(chunks) / 2
	}
	sendOOB := func() {
		max := sess.GetOOBMaxSize()
		sizes := []int{0, 1, max - 1, max, max + 1, max + 1 + rng.intn(4), rng.intn(max + 1)}
		size := sizes[rng.intn(len(sizes))]
		if size < 0 {
			size = 0
		}
		p := frameOOBPayload(rng, s.tag, idx, size)
		idx++
		var err error
		if pn := frameSafe(func() { err = sess.SendOOB(p) }); pn != "" {
			sess.mu.Lock()
			km := int(sess.kcp.mtu)
			sess.mu.Unlock()
			s.violate("session-panic:SendOOB", fmt.Sprintf("%s: SendOOB(%d bytes) panicked (GetOOBMaxSize() = %d, core mtu %d, headerSize %d): %s", s.name, size, max, km, sess.headerSize, pn),
				map[string]any{"payloadLen": size, "oobMax": max, "coreMtu": km, "headerSize": sess.headerSize})
			return
		}
		resMu.Lock()
		res.Monitors["oob-limit"]++
		res.Dist[fmt.Sprintf("oob-size-%s", frameSizeClass(size, max))]++
		if size > max && err == nil {
			res.violate("oob-limit", fmt.Sprintf("SendOOB accepted %d bytes although GetOOBMaxSize() = %d", size, max), hx(p))
		}
		if size <= max && err != nil && !sess.isClosed() {
			res.violate("oob-limit", fmt.Sprintf("SendOOB refused %d bytes (GetOOBMaxSize() = %d): %v", size, max, err), hx(p))
		}
		resMu.Unlock()
		if err == nil && size <= max {
			s.mu.Lock()
			s.oobSent = append(s.oobSent, p)
			s.mu.Unlock()
		}
	}
	if s.res.Cfg.Script == 1 && s.tag < 0x80 { // the client side drives the script, then the ordinary chunks follow
		for round := 0; round < 3 && off+int(sess.kcp.mss)+8 < len(data); round++ {
			s.setMtu(1400)
			sess.mu.Lock()
			big := int(sess.kcp.mss)
			sess.mu.Unlock()
			if off+big+8 > len(data) {
				break
			}
			sess.Write(data[off : off+big])
			off += big
			for w := 0; w < 400; w++ { // until it is acknowledged: the shrink must not be refused
				sess.mu.Lock()
				idle := sess.kcp.WaitSnd() == 0
				sess.mu.Unlock()
				if idle {
					break
				}
				time.Sleep(5 * time.Millisecond)
			}
			// how far the MTU is lowered: far; by less than the AEAD tag / the cipher header (what
			// an on-wire limit compared with a pre-seal length misses); by a few dozen bytes
			switch round {
			case 0:
				s.setMtu(1400 - 1 - rng.intn(16))
			case 1:
				s.setMtu(576)
			default:
				s.setMtu(1400 - 1 - rng.intn(48))
			}
			for k := 0; k < 8; k++ {
				sess.Write(data[off : off+1])
				off++
				time.Sleep(2 * time.Millisecond)
			}
		}
		// hand the rest to the ordinary loop as one chunk list
		rest := len(data) - off
		chunks = nil
		for rest > 0 {
			n := 1 + rng.intn(600)
			if n > rest {
				n = rest
			}
			chunks = append(chunks, n)
			rest -= n
		}
	}
	for ci, n := range chunks {
		if ci == floodAt { // "at any rate": far more than the post-processing queue (2048) holds
			var mine [][]byte
			for k := 0; k < 5000; k++ {
				p := frameOOBPayload(rng, s.tag, k, 2+rng.intn(10))
				var err error
				if pn := frameSafe(func() { err = sess.SendOOB(p) }); pn != "" {
					s.violate("session-panic:SendOOB", fmt.Sprintf("%s: SendOOB(%d bytes) panicked during a burst: %s", s.name, len(p), pn), nil)
					break
				}
				if err == nil {
					mine = append(mine, p)
				}
			}
			s.mu.Lock()
			s.oobSent = append(s.oobSent, mine...)
			s.mu.Unlock()
			resMu.Lock()
			res.Dist["oob-flood-messages"] += len(mine)
			resMu.Unlock()
		}
		if oob && rng.chance(60) {
			sendOOB()
		}
		if mtuOps && rng.chance(35) {
			m := frameMtuValue(rng, sess)
			if s.lastRefused != 0 && rng.chance(40) {
				m = s.lastRefused // an application retrying the value it was refused (larger segments have drained meanwhile)
				resMu.Lock()
				res.Dist["setmtu-retry-of-refused"]++
				resMu.Unlock()
			}
			if s.setMtu(m) {
				s.lastRefused = 0
			} else if m > IKCP_OVERHEAD+1+sess.headerSize {
				s.lastRefused = m
			}
		}
		var werr error
		if pn := frameSafe(func() { _, werr = sess.Write(data[off : off+n]) }); pn != "" {
			s.violate("session-panic:Write", fmt.Sprintf("%s: Write(%d bytes) panicked: %s", s.name, n, pn), map[string]any{"len": n})
			s.writeErr = fmt.Errorf("panic: %s", pn)
			return
		}
		if werr != nil {
			s.writeErr = werr
			return
		}
		off += n
		if oob && rng.chance(30) {
			sendOOB()
			sendOOB()
		}
		if rng.chance(40) {
			time.Sleep(time.Duration(rng.intn(8)) * time.Millisecond)
		}
	}
	if oob {
		sendOOB()
	}
}

func frameSizeClass(size, max int) string {
	switch {
	case size == 0:
		return "0"
	case size == 1:
		return "1"
	case size == max-1:
		return "max-1"
	case size == max:
		return "max"
	case size > max:
		return "max+1"
	}
	return "mid"
}

func (s *frameSide) reader(want int, deadline time.Time, delay time.Duration, done chan<- struct{}) {
	defer close(done)
	time.Sleep(delay)
	buf := make([]byte, 4096)
	s.sess.SetReadDeadline(deadline)
	for {
		s.mu.Lock()
		got := len(s.read)
		s.mu.Unlock()
		if got >= want {
			return
		}
		var n int
		var err error
		if pn := frameSafe(func() { n, err = s.sess.Read(buf) }); pn != "" {
			s.violate("session-panic:Read", fmt.Sprintf("%s: Read panicked: %s", s.name, pn), nil)
			return
		}
		if n > 0 {
			s.mu.Lock()
			s.read = append(s.read, buf[:n]...)
			s.mu.Unlock()
		}
		if err != nil {
			return
		}
	}
}

// ---------------------------------------------------------------- one scenario on real sessions

func frameRunScenario(cfg frameCfg) *frameResult {
	if cfg.C05 != 0 {
		return frameRunC05(cfg)
	}
	res := &frameResult{Cfg: cfg, Dist: map[string]int{}, Monitors: map[string]int{}}
	var resMu sync.Mutex
	rng := newRng(cfg.Seed)
	ciph := frameCiphers()[cfg.Cipher]
	key := rng.bytes(32)
	fecOn := cfg.D > 0 && cfg.P > 0
	hub := frameNewHub(newRng(rng.u64()), cfg.LossPct, cfg.DupPct)
	srvEP := hub.endpoint("srv")
	l, err := ServeConn(ciph.mk(key), cfg.D, cfg.P, srvEP)
	if err != nil {
		res.Err = "ServeConn: " + err.Error()
		return res
	}
	defer func() {
		hub.mu.Lock()
		hub.frozen = true
		hub.mu.Unlock()
		l.Close()
		for _, ep := range hub.eps {
			ep.Close()
		}
	}()

	rcvWnd := 256
	if cfg.Slow {
		rcvWnd = 4
	}
	clients := make([]*frameSide, cfg.Clients)
	servers := make([]*frameSide, cfg.Clients)
	convs := make([]uint32, cfg.Clients)
	mtu := 0
	for i := range clients {
		ep := hub.endpoint(fmt.Sprintf("cli%d", i))
		convs[i] = uint32(rng.u64())
		sess, err := NewConn3(convs[i], frameAddr("srv"), ciph.mk(key), cfg.D, cfg.P, ep)
		if err != nil {
			res.Err = "NewConn3: " + err.Error()
			return res
		}
		defer sess.Close()
		// tx() uses WriteBatch only when the platform layer built a batch conn; for this conn it must not
		if f := reflect.ValueOf(&sess.platform).Elem().FieldByName("batchConn"); f.IsValid() && !f.IsNil() {
			res.Err = "the session uses the WriteBatch path: datagrams would bypass the capture"
			return res
		}
		c := &frameSide{name: fmt.Sprintf("cli%d", i), sess: sess, tag: byte(0x10 + i), hub: hub, res: res, resMu: &resMu}
		clients[i] = c
		if i == 0 {
			switch cfg.MtuKind {
			case 0:
				m := 1
				for !c.setMtu(m) && m < 200 {
					m++
				}
				mtu = m + rng.intn(16)
			case 1:
				mtu = 576
			case 2:
				mtu = 1400
			default:
				mtu = 1500
			}
		}
		if !c.setMtu(mtu) {
			res.Err = fmt.Sprintf("SetMtu(%d) refused", mtu)
			return res
		}
		sess.SetNoDelay(1, 10, 2, 1)
		sess.SetWindowSize(256, rcvWnd)
	}
	mss := int(clients[0].sess.kcp.mss)
	res.Dist["cipher-"+ciph.name]++
	res.Dist[fmt.Sprintf("fec-%d/%d", cfg.D, cfg.P)]++
	res.Dist["mtu-"+frameMtuNames[cfg.MtuKind]]++
	res.Dist[fmt.Sprintf("pattern-%d", cfg.Pattern)]++
	res.Dist[fmt.Sprintf("oobmode-%d", cfg.OOBMode)]++

	// sessions without FEC refuse OOB altogether
	if !fecOn {
		s := clients[0].sess
		res.Monitors["oob-limit"] += 3
		if s.GetOOBMaxSize() != 0 {
			res.violate("oob-limit", fmt.Sprintf("GetOOBMaxSize() = %d on a session without FEC", s.GetOOBMaxSize()), nil)
		}
		var e1, e2 error
		if pn := frameSafe(func() { e1, e2 = s.SendOOB([]byte{1}), s.SendOOB(nil) }); pn != "" {
			res.violate("oob-limit", "SendOOB panicked on a session without FEC: "+pn, nil)
		} else if e1 == nil || e2 == nil {
			res.violate("oob-limit", "SendOOB returned nil on a session without FEC", nil)
		}
		if s.SetOOBHandler(func([]byte) {}) == nil {
			res.violate("oob-limit", "SetOOBHandler returned nil on a session without FEC", nil)
		}
	}
	oob := fecOn && cfg.OOBMode != 0

	// streams
	for _, c := range clients {
		c.chunks = frameChunks(rng, cfg.Pattern, mss, cfg.MaxBytes)
		n := 0
		for _, k := range c.chunks {
			n += k
		}
		c.written = rng.bytes(n)
		if oob && (cfg.OOBMode == 1 || cfg.OOBMode == 3) {
			c.handler = true
			if err := c.sess.SetOOBHandler(c.onOOB); err != nil {
				res.violate("oob-limit", "SetOOBHandler refused on a FEC session: "+err.Error(), nil)
			}
		}
	}

	// first chunk of every client, then accept
	for _, c := range clients {
		var err error
		if pn := frameSafe(func() { _, err = c.sess.Write(c.written[:c.chunks[0]]) }); pn != "" {
			res.violate("session-panic:Write", fmt.Sprintf("%s: Write(%d bytes) panicked: %s", c.name, c.chunks[0], pn), nil)
			return res
		}
		if err != nil {
			res.Err = "first write: " + err.Error()
			return res
		}
	}
	l.SetReadDeadline(time.Now().Add(20 * time.Second))
	byAddr := map[string]*UDPSession{}
	for range clients {
		s, err := l.AcceptKCP()
		if err != nil {
			res.Err = "accept: " + err.Error()
			return res
		}
		byAddr[s.RemoteAddr().String()] = s
	}
	for i := range clients {
		s := byAddr[fmt.Sprintf("cli%d", i)]
		if s == nil {
			res.Err = "accepted session for an unknown address"
			return res
		}
		defer s.Close()
		sv := &frameSide{name: fmt.Sprintf("srv%d", i), sess: s, tag: byte(0x80 + i), hub: hub, res: res, resMu: &resMu}
		if !sv.setMtu(mtu) {
			res.Err = fmt.Sprintf("server SetMtu(%d) refused", mtu)
			return res
		}
		s.SetNoDelay(1, 10, 2, 1)
		s.SetWindowSize(256, rcvWnd)
		sv.chunks = frameChunks(rng, (cfg.Pattern+1+i)%4, mss, cfg.MaxBytes)
		n := 0
		for _, k := range sv.chunks {
			n += k
		}
		sv.written = rng.bytes(n)
		if oob && (cfg.OOBMode == 1 || cfg.OOBMode == 2) {
			sv.handler = true
			if err := s.SetOOBHandler(sv.onOOB); err != nil {
				res.violate("oob-limit", "SetOOBHandler refused on a FEC session: "+err.Error(), nil)
			}
		}
		servers[i] = sv
		if s.GetConv() != convs[i] {
			res.Err = "accepted session has another conv"
			return res
		}
	}

	// traffic in both directions
	deadline := time.Now().Add(40 * time.Second)
	var delay time.Duration
	if cfg.Slow {
		delay = 800 * time.Millisecond
	}
	var wg sync.WaitGroup
	var dones []chan struct{}
	for i := range clients {
		c, sv := clients[i], servers[i]
		rc, rs := newRng(rng.u64()), newRng(rng.u64())
		wg.Add(2)
		go func() { // the client's first chunk is already written
			defer wg.Done()
			c.run(rc, oob, cfg.Flood, cfg.MtuOps, res, &resMu, c.chunks[1:], c.written[c.chunks[0]:])
		}()
		go func() {
			defer wg.Done()
			sv.run(rs, oob, cfg.Flood, cfg.MtuOps, res, &resMu, sv.chunks, sv.written)
		}()
		d1, d2 := make(chan struct{}), make(chan struct{})
		dones = append(dones, d1, d2)
		go c.reader(len(sv.written), deadline, delay, d1)
		go sv.reader(len(c.written), deadline, delay, d2)
	}
	wg.Wait()
	for _, d := range dones {
		<-d
	}
	// let trailing ACKs / OOB datagrams through, then stop the world
	time.Sleep(60 * time.Millisecond)
	hub.mu.Lock()
	hub.frozen = true
	caps := hub.caps
	res.Dist["net-dropped"] += hub.dropped
	res.Dist["net-duplicated"] += hub.duped
	hub.mu.Unlock()
	res.Datagrams = len(caps)

	// ---- the application-level stream, both directions
	for i := range clients {
		for _, pr := range [][2]*frameSide{{clients[i], servers[i]}, {servers[i], clients[i]}} {
			w, r := pr[0], pr[1]
			if w.writeErr != nil {
				res.Err = fmt.Sprintf("%s: write error %v", w.name, w.writeErr)
			}
			r.mu.Lock()
			got := append([]byte(nil), r.read...)
			r.mu.Unlock()
			res.Monitors["stream-content"]++
			if !bytes.HasPrefix(w.written, got) {
				key := "stream-corrupted"
				if oob {
					key = "oob-disturbs-stream"
				}
				res.violate(key, fmt.Sprintf("%s read bytes that %s did not write (first difference at %d)", r.name, w.name, frameFirstDiff(w.written, got)),
					map[string]any{"written": hx(w.written), "read": hx(got)})
			} else if len(got) < len(w.written) && w.writeErr == nil {
				key := "stream-stalled"
				if oob {
					key = "oob-disturbs-stream"
				}
				res.violate(key, fmt.Sprintf("%s received only %d of %d bytes within 40 s (loss %d%%)", r.name, len(got), len(w.written), cfg.LossPct),
					map[string]any{"written": len(w.written), "read": len(got)})
			}
		}
	}

	// ---- OOB deliveries
	if fecOn {
		all := map[string]string{} // payload -> sender, over the whole scenario
		for i := range clients {
			for _, s := range []*frameSide{clients[i], servers[i]} {
				for _, p := range s.oobSent {
					all[string(p)] = s.name
				}
			}
		}
		for i := range clients {
			for _, pr := range [][2]*frameSide{{clients[i], servers[i]}, {servers[i], clients[i]}} {
				snd, rcv := pr[0], pr[1]
				sent := map[string]bool{}
				for _, p := range snd.oobSent {
					sent[string(p)] = true
				}
				rcv.mu.Lock()
				got := rcv.oobGot
				rcv.mu.Unlock()
				if !rcv.handler && len(got) > 0 {
					res.violate("oob-misrouted", rcv.name+" has no handler registered but a callback was invoked", nil)
				}
				for _, g := range got {
					res.Monitors["oob-intact"]++
					res.OOBRecv++
					if sent[string(g)] {
						continue
					}
					if who, ok := all[string(g)]; ok {
						res.violate("oob-misrouted", fmt.Sprintf("%s's handler received a message that %s sent to another session", rcv.name, who), hx(g))
					} else {
						res.violate("oob-corrupted", fmt.Sprintf("%s's handler received %d bytes that its peer never sent", rcv.name, len(g)), hx(g))
					}
				}
			}
		}
	}

	// ---- every datagram on the wire
	frameAnalyse(res, ciph, key, cfg, mtu, caps, clients, servers, convs)
	return res
}

func frameFirstDiff(a, b []byte) int {
	n := len(a)
	if len(b) < n {
		n = len(b)
	}
	for i := 0; i < n; i++ {
		if a[i] != b[i] {
			return i
		}
	}
	return n
}

// per sender session: id/type cycle, parity, reassembly
type frameDirState struct {
	name    string
	conv    uint32
	written []byte
	peerGot int
	oobSent map[string]bool
	K       uint64   // next slot of the data/parity cycle
	group   [][]byte // size-prefixed images of the open group's data packets
	pgot    [][]byte // parity payloads of the group seen so far
	fecBad  bool
	segs    map[uint32][]byte
	log     frameDirLog
	known   int             // the session's wireMtu when it is known exactly (0 while a SetMtu call is in flight)
	lastEp  int             // epoch of the latest accepted SetMtu call that may have started
	bound   int             // the MTU every datagram must honour right now
	pending []frameMtuEvent // accepted SetMtu calls whose marker has not passed yet
	events  []frameMtuEvent
}

func frameAnalyse(res *frameResult, ciph frameCipher, key []byte, cfg frameCfg, mtu int, caps []frameCapture,
	clients, servers []*frameSide, convs []uint32) {
	fecOn := cfg.D > 0 && cfg.P > 0
	ss := uint64(cfg.D + cfg.P)
	var paws uint64
	var codec reedsolomon.Encoder
	if fecOn {
		paws = 0xffffffff / ss * ss
		codec, _ = reedsolomon.New(cfg.D, cfg.P)
	}
	dirs := map[string]*frameDirState{}
	for i := range clients {
		for _, pr := range [][2]*frameSide{{clients[i], servers[i]}, {servers[i], clients[i]}} {
			snd, rcv := pr[0], pr[1]
			from, to := fmt.Sprintf("cli%d", i), "srv"
			if snd == servers[i] {
				from, to = "srv", fmt.Sprintf("cli%d", i)
			}
			d := &frameDirState{name: snd.name, conv: convs[i], written: snd.written, segs: map[uint32][]byte{}, oobSent: map[string]bool{}}
			rcv.mu.Lock()
			d.peerGot = len(rcv.read)
			rcv.mu.Unlock()
			for _, p := range snd.oobSent {
				d.oobSent[string(p)] = true
			}
			d.bound, d.known = IKCP_MTU_DEF, IKCP_MTU_DEF // newUDPSession sets the default
			snd.mu.Lock()
			d.events = append([]frameMtuEvent(nil), snd.events...)
			snd.mu.Unlock()
			for _, ev := range d.events {
				if ev.Accepted {
					d.pending = append(d.pending, ev)
				}
			}
			d.log.Header = fmt.Sprintf("C %d.%s cipher=%d ns=%d fec=%d d=%d p=%d w=%d", cfg.ID, snd.name, ciph.class, ciph.ns, frameB2I(fecOn), cfg.D, cfg.P, IKCP_MTU_DEF)
			dirs[from+">"+to] = d
		}
	}
	seen := map[string]int{}
	nonces := map[string]int{}
	logCap := 1 << 30 // the driver replays a prefix of every direction; the monitors see everything
	if vThorough() {
		logCap = 30
	} else if cfg.Flood {
		logCap = 400
	}
	for ci, c := range caps {
		d := dirs[c.from+">"+c.to]
		if d == nil {
			continue
		}
		detail := func() map[string]any {
			return map[string]any{"index": ci, "from": c.from, "to": c.to, "datagram": hx(c.data)}
		}
		// (4) no two datagrams of a run with a cipher are identical
		if ciph.class != frameClassNil {
			res.Monitors["datagram-distinct"]++
			if j, dup := seen[string(c.data)]; dup {
				res.violate("frame-duplicate-datagram", fmt.Sprintf("datagram %d is byte-identical to datagram %d of the same run (cipher %s)", ci, j, ciph.name), detail())
			}
			seen[string(c.data)] = ci
		}
		// session half of C10: every datagram handed to the PacketConn, parity and OOB included
		res.Monitors["session-datagram-size"]++
		if len(c.data) == 0 {
			res.violate("session-datagram-empty", fmt.Sprintf("%s handed an empty datagram to the PacketConn (datagram %d)", d.name, ci), detail())
			continue
		}
		// for the model replay: from the moment an accepted SetMtu call may have started until its
		// marker passes, the wire MTU postProcess compares parity with is not known exactly
		for _, ev := range d.events {
			if ev.Accepted && ev.CapIndex <= ci && ev.Epoch > d.lastEp {
				d.lastEp = ev.Epoch
				if d.known != 0 {
					d.known = 0
					if len(d.log.Lines) < logCap {
						d.log.Lines = append(d.log.Lines, "W 0")
					}
				}
			}
		}
		// (1) the independent decoder
		res.Monitors["frame-layout"]++
		fi, e := frameDecode(ciph, key, fecOn, c.data)
		{
			kind := "undecodable"
			if e == "" {
				kind = fi.kind
				for _, sg := range fi.segs { // a marker: everything behind it was built after that SetMtu returned
					if sg.cmd == IKCP_CMD_WINS && sg.ts&0xffff0000 == frameMarkerTS {
						ep := int(sg.ts & 0xffff)
						var keep []frameMtuEvent
						for _, ev := range d.pending {
							if ev.Epoch&0xffff == ep {
								d.bound = ev.Bound
								if ev.Epoch == d.lastEp { // no later call in flight: wireMtu is exactly this
									d.known = ev.Bound
									if len(d.log.Lines) < logCap {
										d.log.Lines = append(d.log.Lines, fmt.Sprintf("W %d", ev.Bound))
									}
								}
							}
							if ev.Epoch > ep {
								keep = append(keep, ev)
							}
						}
						d.pending = keep
						res.Dist["mtu-marker"]++
					}
				}
			}
			allowed := d.bound
			for _, ev := range d.pending {
				if ev.CapIndex <= ci && ev.Bound > allowed {
					allowed = ev.Bound
				}
			}
			if len(c.data) > allowed {
				key := "session-datagram-over-mtu"
				// a parity packet is as long as the longest data packet of its group; if the MTU was
				// lowered while the group was open it can exceed the new value although it would
				// have honoured an earlier one - reported under its own stable key
				if kind == "parity" {
					ever := IKCP_MTU_DEF
					for _, ev := range d.events {
						if ev.Accepted && ev.CapIndex <= ci && ev.Bound > ever {
							ever = ev.Bound
						}
					}
					if len(c.data) <= ever {
						key = "session-parity-over-mtu-after-shrink"
					}
				}
				res.violate(key, fmt.Sprintf("%s handed a %s datagram of %d bytes to the PacketConn while its configured MTU is %d (cipher %s, FEC %d/%d)", d.name, kind, len(c.data), allowed, ciph.name, cfg.D, cfg.P),
					map[string]any{"index": ci, "len": len(c.data), "mtu": allowed, "kind": kind, "setmtu_calls": d.events})
			}
			if len(c.data) == allowed {
				res.Dist["datagram-exactly-mtu"]++
			}
		}
		if e != "" {
			res.violate("frame-layout", fmt.Sprintf("datagram %d of %s does not follow the documented layout: %s", ci, d.name, e), detail())
			continue
		}
		if ciph.class != frameClassNil {
			res.Monitors["nonce-fresh"]++
			n := string(fi.plain[:ciph.ns])
			if j, dup := nonces[n]; dup {
				res.violate("frame-nonce-reuse", fmt.Sprintf("datagram %d (%s > %s) reuses the nonce of datagram %d (%s > %s): %d sessions share the key in this run", ci, c.from, c.to, j, caps[j].from, caps[j].to, 2*len(clients)), detail())
			}
			nonces[n] = ci
		}
		res.Dist["pkt-"+fi.kind]++
		// (2) for the extracted model
		if len(d.log.Lines) < logCap {
			d.log.Lines = append(d.log.Lines, "D "+hx(fi.plain)+" "+fi.summary())
		}
		switch fi.kind {
		case "data":
			for _, s := range fi.segs {
				if s.conv != d.conv {
					res.violate("frame-layout", fmt.Sprintf("segment with conv %d in a datagram of conversation %d", s.conv, d.conv), detail())
				}
				if s.cmd < 81 || s.cmd > 84 {
					res.violate("frame-layout", fmt.Sprintf("segment with cmd %d", s.cmd), detail())
				}
				res.Dist[fmt.Sprintf("seg-cmd-%d", s.cmd)]++
				if s.cmd == 81 {
					if old, ok := d.segs[s.sn]; ok {
						res.Retrans++
						if !bytes.Equal(old, s.data) {
							res.violate("frame-layout", fmt.Sprintf("retransmission of sn %d carries different bytes", s.sn), detail())
						}
					} else {
						d.segs[s.sn] = append([]byte(nil), s.data...)
					}
				}
			}
		case "oob":
			res.Monitors["oob-wire"]++
			if fi.seqid != 0xffffffff {
				res.violate("fec-id-cycle", fmt.Sprintf("OOB packet with seqid %d instead of 0xffffffff", fi.seqid), detail())
			}
			if fi.conv != d.conv {
				res.violate("oob-misrouted", fmt.Sprintf("OOB packet of %s carries conv %d instead of %d", d.name, fi.conv, d.conv), detail())
			}
			if !d.oobSent[string(fi.payload)] {
				res.violate("oob-corrupted", fmt.Sprintf("OOB packet on the wire of %s carries %d bytes the application never sent", d.name, len(fi.payload)), detail())
			}
		}
		// (3) id/type cycle, (5) parity
		if fecOn && !d.fecBad && fi.kind != "oob" {
			res.Monitors["fec-id-cycle"]++
			bad := func(what string) {
				d.fecBad = true
				res.violate("fec-id-cycle", fmt.Sprintf("%s, datagram %d: %s (slot %d, d/p %d/%d)", d.name, ci, what, d.K, cfg.D, cfg.P), detail())
			}
			sid := uint64(fi.seqid)
			if sid >= paws {
				bad(fmt.Sprintf("seqid %d >= paws %d", sid, paws))
				continue
			}
			if (fi.ftype == 0xF1) != (sid%ss < uint64(cfg.D)) {
				bad(fmt.Sprintf("type 0x%02x at position %d of the cycle", fi.ftype, sid%ss))
				continue
			}
			if fi.kind == "data" {
				if d.K%ss >= uint64(cfg.D) { // a parity block was due
					if len(d.pgot) != 0 {
						bad(fmt.Sprintf("parity block interrupted after %d of %d packets", len(d.pgot), cfg.P))
						continue
					}
					d.K += ss - d.K%ss // skipped: the ids are consumed all the same
					d.group = nil
				}
				if sid != d.K%paws {
					bad(fmt.Sprintf("data packet with seqid %d, expected %d", sid, d.K%paws))
					continue
				}
				img := append([]byte(nil), fi.rest[6:]...) // size(2) | payload
				d.group = append(d.group, img)
				d.K++
			} else {
				if d.K%ss < uint64(cfg.D) {
					bad(fmt.Sprintf("parity packet with seqid %d while %d data packets of the group are outstanding", sid, uint64(cfg.D)-d.K%ss))
					continue
				}
				if sid != d.K%paws {
					bad(fmt.Sprintf("parity packet with seqid %d, expected %d", sid, d.K%paws))
					continue
				}
				d.pgot = append(d.pgot, append([]byte(nil), fi.payload...))
				d.K++
				res.Parity++
				if len(d.pgot) == cfg.P {
					res.Monitors["parity-is-rs"]++
					if what := frameCheckParity(codec, cfg.D, cfg.P, d.group, d.pgot); what != "" {
						res.violate("parity-not-rs", fmt.Sprintf("%s, group ending at datagram %d: %s", d.name, ci, what), detail())
					}
					d.pgot, d.group = nil, nil
				}
			}
		}
	}
	// reassembly from the wire alone
	names := make([]string, 0, len(dirs))
	for k := range dirs {
		names = append(names, k)
	}
	sort.Strings(names)
	for _, k := range names {
		d := dirs[k]
		var wire []byte
		for sn := uint32(0); ; sn++ {
			b, ok := d.segs[sn]
			if !ok {
				break
			}
			wire = append(wire, b...)
		}
		res.Monitors["wire-reassembly"]++
		if !bytes.HasPrefix(d.written, wire) {
			res.violate("frame-layout", fmt.Sprintf("the byte stream reassembled from %s's datagrams is not a prefix of what the application wrote (first difference at %d)", d.name, frameFirstDiff(d.written, wire)),
				map[string]any{"written": hx(d.written), "wire": hx(wire)})
		} else if len(wire) < d.peerGot {
			res.violate("frame-layout", fmt.Sprintf("the peer of %s read %d bytes but only %d can be reassembled from the wire", d.name, d.peerGot, len(wire)), nil)
		}
		res.Logs = append(res.Logs, d.log)
	}
	if len(caps) > 0 && res.Sample == "" {
		res.Sample = fmt.Sprintf("%s: %d datagrams, first %s", cfg.String(), len(caps), hx(caps[0].data))
	}
}

func frameB2I(b bool) int {
	if b {
		return 1
	}
	return 0
}

// parity = Reed-Solomon code of the group's zero-padded size-prefixed payloads
func frameCheckParity(codec reedsolomon.Encoder, d, p int, group, parity [][]byte) string {
	if len(group) != d {
		return fmt.Sprintf("group has %d data packets", len(group))
	}
	max := 0
	for _, g := range group {
		if len(g) > max {
			max = len(g)
		}
	}
	shards := make([][]byte, d+p)
	for i, g := range group {
		shards[i] = make([]byte, max)
		copy(shards[i], g)
	}
	for i := 0; i < p; i++ {
		shards[d+i] = make([]byte, max)
	}
	if err := codec.Encode(shards); err != nil {
		return "reedsolomon.Encode: " + err.Error()
	}
	for i := 0; i < p; i++ {
		if len(parity[i]) != max {
			return fmt.Sprintf("parity packet %d carries %d bytes, the longest data shard has %d", i, len(parity[i]), max)
		}
		if !bytes.Equal(parity[i], shards[d+i]) {
			return fmt.Sprintf("parity packet %d differs from the Reed-Solomon code of the group at byte %d", i, frameFirstDiff(parity[i], shards[d+i]))
		}
	}
	return ""
}

// ---------------------------------------------------------------- the real fecEncoder, twice

// frameEncoderPair runs two real encoders on the same data packets, one of them with
// encodeOOB calls interleaved, and compares everything observable; the op log lets the
// extracted fec_encode / encode_oob replay the run.
func frameEncoderPair(id int, rng *vrng, d, p, off int, nearWrap bool, lg *strings.Builder) (findings []frameFinding, steps, parity int) {
	a, b := newFECEncoder(d, p, off), newFECEncoder(d, p, off)
	if a == nil || b == nil {
		return []frameFinding{{"harness", "newFECEncoder returned nil", nil}}, 0, 0
	}
	if nearWrap {
		a.next = a.paws - uint32((1+rng.intn(3))*(d+p))
		b.next = a.next
	}
	fmt.Fprintf(lg, "F %d d=%d p=%d off=%d next=%d\n", id, d, p, off, a.next)
	replay := map[string]any{"d": d, "p": p, "off": off, "nearWrap": nearWrap}
	fail := func(key, what string) {
		if len(findings) < 5 {
			findings = append(findings, frameFinding{key, what, replay})
		}
	}
	codec, _ := reedsolomon.New(d, p)
	var group [][]byte
	n := (d + p) * (2 + rng.intn(3))
	if n > 60 {
		n = 60
	}
	snap := func(e *fecEncoder) string {
		var sb strings.Builder
		fmt.Fprintf(&sb, "next=%d count=%d max=%d", e.next, e.shardCount, e.maxSize)
		for i := 0; i < e.shardCount; i++ {
			fmt.Fprintf(&sb, " %s", hx(e.shardCache[i][e.payloadOffset:]))
		}
		return sb.String()
	}
	for i := 0; i < n; i++ {
		// OOB on encoder b only
		for rng.chance(40) {
			pl := rng.bytes(rng.intn(40))
			ob := make([]byte, off+fecHeaderSizePlus2+len(pl))
			copy(ob[off+fecHeaderSizePlus2:], pl)
			before, ts := snap(b), b.tsLatestPacket
			b.encodeOOB(ob)
			steps++
			if after := snap(b); after != before || b.tsLatestPacket != ts {
				fail("oob-disturbs-fec", fmt.Sprintf("encodeOOB changed the encoder: %s -> %s", before, after))
			}
			fmt.Fprintf(lg, "O %s -> %s\n", hx(pl), hx(ob[off:]))
			if binary.LittleEndian.Uint32(ob[off:]) != 0xffffffff || binary.LittleEndian.Uint16(ob[off+4:]) != 0xF3 ||
				int(binary.LittleEndian.Uint16(ob[off+6:])) != len(pl)+2 || !bytes.Equal(ob[off+8:], pl) {
				fail("frame-layout", "encodeOOB did not produce 0xffffffff / 0xF3 / size / payload")
			}
		}
		size := 1 + rng.intn(60)
		if rng.chance(10) {
			size = mtuLimit - off - fecHeaderSizePlus2 - 16
		}
		pl := rng.bytes(size)
		ba := make([]byte, off+fecHeaderSizePlus2+size)
		copy(ba[off+fecHeaderSizePlus2:], pl)
		bb := append([]byte(nil), ba...)
		cont := !rng.chance(20)
		now := time.Now().UnixMilli()
		if cont {
			a.tsLatestPacket, b.tsLatestPacket = now, now
		} else {
			a.tsLatestPacket, b.tsLatestPacket = now-10*maxFECEncodeLatency, now-10*maxFECEncodeLatency
		}
		expNext := a.next
		pa := a.encode(ba, maxFECEncodeLatency)
		var pac [][]byte
		for _, x := range pa {
			pac = append(pac, append([]byte(nil), x[off:]...))
		}
		pb := b.encode(bb, maxFECEncodeLatency)
		steps++
		fmt.Fprintf(lg, "P %s cont=%d -> %s [", hx(pl), frameB2I(cont), hx(ba[off:]))
		for k, x := range pac {
			if k > 0 {
				lg.WriteByte(',')
			}
			lg.WriteString(hx(x))
		}
		fmt.Fprintf(lg, "] next=%d count=%d max=%d\n", a.next, a.shardCount, a.maxSize)
		if !bytes.Equal(ba[off:], bb[off:]) || len(pa) != len(pb) || snap(a) != snap(b) {
			fail("oob-disturbs-fec", fmt.Sprintf("packet %d: data packet / parity count / state differ between the run with and the run without OOB (%s vs %s)", i, snap(a), snap(b)))
		}
		for k := range pb {
			if k < len(pac) && !bytes.Equal(pac[k], pb[k][off:]) {
				fail("oob-disturbs-fec", fmt.Sprintf("packet %d: parity %d differs between the two runs", i, k))
			}
		}
		// id / type / size of the data packet
		if binary.LittleEndian.Uint32(ba[off:]) != expNext || binary.LittleEndian.Uint16(ba[off+4:]) != 0xF1 ||
			int(binary.LittleEndian.Uint16(ba[off+6:])) != size+2 || uint64(expNext)%uint64(d+p) >= uint64(d) {
			fail("fec-id-cycle", fmt.Sprintf("packet %d: header %s, expected seqid %d type 0xF1 size %d", i, hx(ba[off:off+8]), expNext, size+2))
		}
		group = append(group, append([]byte(nil), ba[off+6:]...))
		if len(group) == d {
			if cont != (len(pac) == p) || (!cont && len(pac) != 0) {
				fail("fec-id-cycle", fmt.Sprintf("group complete, continuous=%v, %d parity packets", cont, len(pac)))
			}
			if len(pac) == p {
				parity += p
				var pay [][]byte
				for k, x := range pac {
					want := (uint64(expNext) + 1 + uint64(k)) % uint64(a.paws)
					if uint64(binary.LittleEndian.Uint32(x)) != want || binary.LittleEndian.Uint16(x[4:]) != 0xF2 || want%uint64(d+p) < uint64(d) {
						fail("fec-id-cycle", fmt.Sprintf("parity %d has header %s, expected seqid %d type 0xF2", k, hx(x[:6]), want))
					}
					pay = append(pay, x[6:])
				}
				if what := frameCheckParity(codec, d, p, group, pay); what != "" {
					fail("parity-not-rs", what)
				}
			}
			group = nil
		} else if len(pac) != 0 {
			fail("fec-id-cycle", "parity emitted inside a group")
		}
	}
	lg.WriteString("E\n")
	return
}

// ---------------------------------------------------------------- scenario sampling and the two tests

func frameScenarios(rng *vrng, prop string) []frameCfg {
	var out []frameCfg
	nc := len(frameCiphers())
	add := func(c frameCfg) {
		c.ID = len(out)
		c.Seed = rng.u64()
		if c.MtuKind == 0 {
			c.MaxBytes = 160 + rng.intn(160)
		} else if vThorough() {
			c.MaxBytes = 150000
		} else {
			c.MaxBytes = 40000
		}
		if c.Slow { // no faults: the zero-window episode itself is what is looked at
			c.LossPct, c.DupPct = 0, 0
			if c.MtuKind == 0 {
				c.MtuKind = 1
			}
			c.MaxBytes = 30000
		}
		if c.Clients == 0 {
			c.Clients = 1
		}
		out = append(out, c)
	}
	lossOf := func() (int, int) { return rng.pick(0, 5, 10, 15), rng.pick(0, 5, 10) }
	if vThorough() {
		// full product cipher x FEC x MTU (twice), pattern / OOB mode / faults drawn per cell
		for ci := 0; ci < 2*nc; ci++ {
			for _, f := range frameFecs {
				for mk := 0; mk < 4; mk++ {
					l, d := lossOf()
					c := frameCfg{Cipher: ci % nc, D: f[0], P: f[1], MtuKind: mk, Pattern: rng.intn(4), OOBMode: rng.intn(4), LossPct: l, DupPct: d}
					if prop == "C19" && c.OOBMode == 0 {
						c.OOBMode = 1
					}
					if rng.chance(15) {
						c.Clients = 3
					}
					c.MtuOps = prop == "C10sess" && rng.chance(75)
					add(c)
				}
			}
		}
		for i := 0; prop == "C10sess" && i < 8; i++ { // directed: a FEC group straddling an accepted, smaller MTU
			f := frameFecs[1+i%4]
			ci := rng.intn(nc)
			if i%2 == 0 {
				ci = frameAEADIndex()
			}
			add(frameCfg{Cipher: ci, D: f[0], P: f[1], MtuKind: 2, Pattern: 2, OOBMode: 1, Script: 1})
		}
		for i := 0; prop == "C09" && i < 12; i++ { // crowds: 16 sessions of one listener, one key, all sending at once
			f := frameFecs[i%len(frameFecs)]
			add(frameCfg{Cipher: 1 + i%(nc-1), D: f[0], P: f[1], MtuKind: 2, Pattern: 2, OOBMode: 1, Clients: 16})
		}
		for i := 0; i < 40; i++ { // extra random cells, all patterns
			l, d := lossOf()
			f := frameFecs[rng.intn(len(frameFecs))]
			add(frameCfg{Cipher: rng.intn(nc), D: f[0], P: f[1], MtuKind: rng.intn(4), Pattern: i % 4, OOBMode: 1 + rng.intn(3), LossPct: l, DupPct: d, Clients: 1 + 2*(i%2), Slow: i%5 == 0, Flood: prop == "C19" && i%5 == 2, MtuOps: prop == "C10sess"})
		}
		return out
	}
	// quick: every cipher, every FEC setting, every MTU class and every pattern at least once
	// (a covering sample of the product, rotated by the seed)
	rot := rng.intn(1000)
	n := 75
	for i := 0; i < n; i++ {
		l, d := lossOf()
		f := frameFecs[(i+rot)%len(frameFecs)]
		c := frameCfg{Cipher: (i + rot/5) % nc, D: f[0], P: f[1], MtuKind: (i/2 + rot) % 4, Pattern: (i + rot/7) % 4, OOBMode: (i + rot/3) % 4, LossPct: l, DupPct: d}
		if prop == "C19" {
			if i%6 != 0 { // mostly FEC sessions with OOB traffic; every sixth cell keeps its FEC setting
				if c.D == 0 {
					f = frameFecs[1+(i+rot)%4]
					c.D, c.P = f[0], f[1]
				}
				if c.OOBMode == 0 {
					c.OOBMode = 1 + i%3
				}
			}
			if i%4 == 1 {
				c.Clients = 3
			}
		}
		c.Slow = i%15 == 7
		c.Flood = prop == "C19" && i%12 == 3
		if prop == "C09" && i%25 == 11 { // a crowd: 12 sessions of one listener, one key, all sending at once
			c = frameCfg{Cipher: 1 + (i/25+rot)%(nc-1), D: c.D, P: c.P, MtuKind: 2, Pattern: 2, OOBMode: c.OOBMode, Clients: 12}
			if i == 11 { // the first crowd always shares a CFB block cipher (one object with scratch state for all sessions of the listener)
				c.Cipher = frameCFBIndex(rot)
			}
		}
		if prop == "C09" && i >= n-2 { // the same directed script: what is on the wire afterwards still follows the layout and carries the stream
			f := frameFecs[1+i%4]
			c = frameCfg{Cipher: c.Cipher, D: f[0], P: f[1], MtuKind: 2, Pattern: 2, OOBMode: 0, Script: 1}
		} else if prop == "C10sess" && i >= n-4 { // directed: a FEC group straddling an accepted, smaller MTU
			f := frameFecs[1+i%4]
			c = frameCfg{Cipher: c.Cipher, D: f[0], P: f[1], MtuKind: 2, Pattern: 2, OOBMode: 1, Script: 1}
			if i%2 == 0 {
				c.Cipher = frameAEADIndex()
			}
		} else if prop == "C10sess" {
			c.MtuOps = i%4 != 3
			if c.OOBMode == 0 && i%3 != 0 {
				c.OOBMode = 1
			}
		}
		add(c)
	}
	return out
}

// frameNonceStress: the package's nonce source as the sessions use it - fillRand on the process-wide
// generator - drawn concurrently by many goroutines (every session's postProcess goroutine does
// exactly this); all values of a run must be pairwise distinct.  Each entropy implementation the
// package offers is installed through SetEntropy in turn.
func frameNonceStress(rep *vreport, keys map[string]bool) {
	goroutines, draws := 8, 150000
	if vThorough() {
		goroutines, draws = 16, 500000
	}
	orig := entropy
	defer SetEntropy(orig)
	type gen struct {
		name string
		mk   func() io.Reader
		size int
	}
	gens := []gen{
		{"default(NewEntropy)", func() io.Reader { return orig }, 16},
		{"default(NewEntropy), 12-byte AEAD nonces", func() io.Reader { return orig }, 12},
		{"NewEntropyAES", NewEntropyAES, 16},
		{"NewEntropyChacha8", NewEntropyChacha8, 16},
		// the re-keying path (every 2^24 reads): the run starts a few hundred reads before it
		{"NewEntropyAES across a reseed", func() io.Reader {
			r := NewEntropyAES()
			r.(*rngAES).count = reseedInterval - 700
			return r
		}, 16},
		{"NewEntropyChacha8 across a reseed", func() io.Reader {
			r := NewEntropyChacha8()
			r.(*rngChacha8).count = reseedInterval - 700
			return r
		}, 12},
	}
	for _, g := range gens {
		SetEntropy(g.mk())
		all := make([][16]byte, goroutines*draws)
		var wg sync.WaitGroup
		start := make(chan struct{})
		for gi := 0; gi < goroutines; gi++ {
			wg.Add(1)
			go func(mine [][16]byte) {
				defer wg.Done()
				<-start
				for i := range mine {
					fillRand(mine[i][:g.size])
				}
			}(all[gi*draws : (gi+1)*draws])
		}
		close(start)
		wg.Wait()
		sort.Slice(all, func(i, j int) bool { return bytes.Compare(all[i][:], all[j][:]) < 0 })
		repeats, first := 0, ""
		for i := 1; i < len(all); i++ {
			if all[i] == all[i-1] {
				repeats++
				if first == "" {
					first = hx(all[i][:g.size])
				}
			}
		}
		rep.Cases++
		rep.Steps += len(all)
		rep.Monitors["nonce-generator-distinct"] += len(all)
		rep.Distribution["nonce-stress-draws"] += len(all)
		if repeats > 0 {
			rep.violate("nonce-generator-repeats", fmt.Sprintf("entropy source %s: %d goroutines x %d fillRand draws of %d bytes returned %d repeated values (first: %s)", g.name, goroutines, draws, g.size, repeats, first),
				map[string]any{"generator": g.name, "goroutines": goroutines, "draws_each": draws, "nonce_bytes": g.size, "repeats": repeats, "first_repeated": first})
		} else {
			rep.Nontrivial++
		}
	}
}

// frameSpawn runs one scenario in a child process (the test binary re-executed): a panic inside a
// library goroutine (postProcess, the scheduler, the read loops) cannot be recovered and would
// take every other scenario down with it; this way it becomes a violation of that scenario.
func frameSpawn(t *testing.T, cfg frameCfg) *frameResult {
	dir := filepath.Join(vOutDir(t), "frame-child")
	os.MkdirAll(dir, 0o755)
	out := filepath.Join(dir, fmt.Sprintf("s%d-%d.json", cfg.ID, os.Getpid()))
	os.Remove(out)
	cj, _ := json.Marshal(cfg)
	cmd := exec.Command(os.Args[0], "-test.run=^TestVerifFrameChild$", "-test.count=1", "-test.timeout=150s")
	cmd.Env = append(os.Environ(), "FRAME_CHILD_CFG="+string(cj), "FRAME_CHILD_OUT="+out)
	output, runErr := cmd.CombinedOutput()
	defer os.Remove(out)
	if b, err := os.ReadFile(out); err == nil {
		r := &frameResult{}
		if json.Unmarshal(b, r) == nil && r.Dist != nil {
			return r
		}
	}
	r := &frameResult{Cfg: cfg, Dist: map[string]int{}, Monitors: map[string]int{}}
	txt := string(output)
	if i := strings.Index(txt, "panic: test timed out"); i >= 0 {
		tail := txt[i:]
		if len(tail) > 3000 {
			tail = tail[:3000]
		}
		r.Err = "child process timed out (a hang, not a panic): " + tail
		return r
	}
	if i := strings.Index(txt, "panic: "); i >= 0 || strings.Contains(txt, "fatal error: ") {
		if i < 0 {
			i = strings.Index(txt, "fatal error: ")
		}
		msg := txt[i:]
		if j := strings.Index(msg, "\n"); j > 0 {
			msg = msg[:j]
		}
		where := framePanicSite(txt[i:])
		tail := txt[i:]
		if len(tail) > 3000 {
			tail = tail[:3000]
		}
		r.violate("session-panic:"+where, fmt.Sprintf("the process died in %s: %s", where, msg), map[string]any{"trace": tail})
		return r
	}
	if len(txt) > 2000 {
		txt = txt[len(txt)-2000:]
	}
	r.Err = fmt.Sprintf("child process failed (%v) without a result: %s", runErr, txt)
	return r
}

// framePanicSite names the library goroutine a fatal panic happened in
func framePanicSite(trace string) string {
	blk := trace
	if j := strings.Index(blk, "\n\ngoroutine "); j >= 0 { // the panicking goroutine comes first
		rest := blk[j+2:]
		if k := strings.Index(rest, "\n\n"); k >= 0 {
			rest = rest[:k]
		}
		blk = rest
	}
	for _, name := range []string{"postProcess", "update", "defaultReadLoop", "readLoop", "defaultMonitor", "monitor", "packetInput", "kcpInput"} {
		if strings.Contains(blk, ")."+name+"(") || strings.Contains(blk, "."+name+"(") {
			return name
		}
	}
	return "goroutine"
}

// TestVerifFrameChild is the child side of frameSpawn; without its environment it does nothing.
func TestVerifFrameChild(t *testing.T) {
	cj, out := os.Getenv("FRAME_CHILD_CFG"), os.Getenv("FRAME_CHILD_OUT")
	if cj == "" || out == "" {
		t.Skip("only meaningful as a child of the frame harness")
	}
	var cfg frameCfg
	if err := json.Unmarshal([]byte(cj), &cfg); err != nil {
		t.Fatal(err)
	}
	r := frameRunScenario(cfg)
	b, err := json.Marshal(r)
	if err != nil {
		t.Fatal(err)
	}
	if err := os.WriteFile(out+".tmp", b, 0o644); err != nil {
		t.Fatal(err)
	}
	os.Rename(out+".tmp", out)
}

// at most three reports per key, so that one noisy key cannot crowd the others out of the report
var frameKeyCount = map[string]int{}

func frameReport(rep *vreport, f frameFinding) {
	frameKeyCount[rep.Property+"/"+f.Key]++
	if frameKeyCount[rep.Property+"/"+f.Key] <= 3 {
		rep.violate(f.Key, f.What, f.Replay)
	}
}

func frameWanted(keys map[string]bool, k string) bool {
	return keys[k] || strings.HasPrefix(k, "session-panic:")
}

func frameRunAll(t *testing.T, prop string, keys map[string]bool) {
	rng := newRng(vSeed())
	rep := newReport(prop)
	lg := newVlog(t, prop+".log")
	defer lg.close()
	var mu sync.Mutex
	cfgs := frameScenarios(rng, prop)
	results := make([]*frameResult, len(cfgs))

	// the real fecEncoder with and without interleaved OOB (sequential, in-package)
	var encLog strings.Builder
	encCases := 24
	if vThorough() {
		encCases = 200
	}
	if prop == "C10sess" {
		encCases = 0
	}
	encSteps := 0
	for i := 0; i < encCases; i++ {
		f := frameFecs[1+rng.intn(len(frameFecs)-1)]
		if rng.chance(25) {
			f = [2]int{1 + rng.intn(12), 1 + rng.intn(5)}
		}
		off := rng.pick(0, 12, 20)
		fs, steps, par := frameEncoderPair(i, rng, f[0], f[1], off, rng.chance(30), &encLog)
		encSteps += steps
		rep.Cases++
		rep.Monitors["encoder-pair"]++
		rep.Distribution[fmt.Sprintf("encpair-%d/%d", f[0], f[1])]++
		if par > 0 {
			rep.Nontrivial++
		}
		for _, f := range fs {
			if f.Key == "harness" {
				t.Errorf("encoder pair: %s", f.What)
			} else if frameWanted(keys, f.Key) {
				frameReport(rep, f)
			}
		}
	}
	lg.printf("%s", encLog.String())
	rep.Steps += encSteps

	if prop == "C09" {
		frameNonceStress(rep, keys)
	}

	t.Run("sessions", func(t *testing.T) {
		for i := range cfgs {
			cfg := cfgs[i]
			t.Run(fmt.Sprintf("s%d", cfg.ID), func(t *testing.T) {
				t.Parallel()
				r := frameSpawn(t, cfg)
				mu.Lock()
				results[cfg.ID] = r
				mu.Unlock()
			})
		}
	})

	incomplete := 0
	for _, r := range results {
		if r == nil {
			t.Errorf("scenario did not run")
			continue
		}
		rep.Cases++
		rep.Steps += r.Datagrams
		if r.Err != "" {
			incomplete++
			t.Errorf("scenario %s: harness failure: %s", r.Cfg.String(), r.Err)
		}
		if (prop != "C10sess" && r.Retrans > 0) || (prop == "C10sess" && r.Cfg.MtuOps && r.MtuAccepted > 2*r.Cfg.Clients+1) {
			rep.Nontrivial++
		}
		for k, v := range r.Dist {
			rep.Distribution[k] += v
		}
		for k, v := range r.Monitors {
			rep.Monitors[k] += v
		}
		rep.Distribution["retransmitted-segments"] += r.Retrans
		rep.Distribution["parity-packets"] += r.Parity
		rep.Distribution["oob-delivered"] += r.OOBRecv
		rep.Distribution["setmtu-accepted-calls"] += r.MtuAccepted
		for _, f := range r.Findings {
			if frameWanted(keys, f.Key) {
				frameReport(rep, f)
			} else {
				rep.Distribution["other-property-finding-"+f.Key]++
			}
		}
		if r.Sample != "" {
			rep.sample(r.Sample)
		}
		for _, dl := range r.Logs {
			lg.printf("%s\n", dl.Header)
			for _, ln := range dl.Lines {
				lg.printf("%s\n", ln)
			}
			lg.printf("E\n")
		}
	}
	rep.Extra["scenarios"] = len(cfgs)
	rep.Extra["encoder_pairs"] = encCases
	rep.Extra["nontrivial_rule"] = "a session scenario with at least one retransmitted segment on the wire, or an encoder-pair case that emitted parity"
	if prop == "C10sess" {
		rep.Extra["nontrivial_rule"] = "a session scenario in which SetMtu was accepted during traffic (beyond the initial configuration of each session)"
	}
	rep.write(t, prop+".report.json")
}

func TestVerifC09(t *testing.T) {
	frameRunAll(t, "C09", map[string]bool{
		"frame-layout": true, "frame-duplicate-datagram": true, "frame-nonce-reuse": true, "nonce-generator-repeats": true,
		"fec-id-cycle": true, "parity-not-rs": true, "stream-stalled": true, "stream-corrupted": true,
	})
}

// TestVerifC10Sess: the session half of C10 - the size of every datagram handed to the
// PacketConn (cipher, FEC and AEAD overhead counted; parity and OOB included) and
// UDPSession.SetMtu at random points of the traffic.
func TestVerifC10Sess(t *testing.T) {
	frameRunAll(t, "C10sess", map[string]bool{
		"session-datagram-over-mtu": true, "session-parity-over-mtu-after-shrink": true,
		"session-datagram-empty": true, "session-setmtu-rule": true,
		"stream-stalled": true, "stream-corrupted": true, "oob-disturbs-stream": true,
	})
}

func TestVerifC19(t *testing.T) {
	frameRunAll(t, "C19", map[string]bool{
		"oob-corrupted": true, "oob-misrouted": true, "oob-disturbs-stream": true, "oob-disturbs-fec": true,
		"oob-limit": true, "stream-stalled": true, "stream-corrupted": true,
	})
}

// ================================================================ C05, session part
//
// AUTHENTIC-but-malformed content behind the integrity gate: post-decryption payloads are
// built by the harness, framed VALIDLY for the session's cipher (nonce + CRC32 + Encrypt, or
// AEAD seal) and fed synchronously, under recover(), through the real UDPSession.packetInput /
// Listener.packetInput, interleaved with a genuine peer's traffic.

type frameC05 struct {
	cfg    frameCfg
	res    *frameResult
	rng    *vrng
	ciph   frameCipher
	key    []byte
	framer BlockCrypt
	hub    *frameHub
	path   string
	conv   uint32
	d, p   int // the (initial) shape of the target's decoder: FEC off => the lazy 1+1
	group  uint64
	target *UDPSession // path 1
	lis    *Listener   // paths 2, 3
	peer   *UDPSession
	oobMu  sync.Mutex
	oobGot [][]byte
	lines  []string
	capPos int
	feeds  int
}

func (x *frameC05) frame(rest []byte) []byte {
	switch x.ciph.class {
	case frameClassNil:
		return append([]byte(nil), rest...)
	case frameClassCRC:
		buf := make([]byte, cryptHeaderSize+len(rest))
		copy(buf, x.rng.bytes(nonceSize))
		binary.LittleEndian.PutUint32(buf[nonceSize:], crc32.ChecksumIEEE(rest))
		copy(buf[cryptHeaderSize:], rest)
		x.framer.Encrypt(buf, buf)
		return buf
	default:
		a := x.framer.(*aeadCrypt)
		nonce := x.rng.bytes(a.NonceSize())
		return append(append([]byte(nil), nonce...), a.aead.Seal(nil, nonce, rest, nil)...)
	}
}

// strip the cipher layer of a genuine datagram (for the log only)
func (x *frameC05) rest(dgram []byte) []byte {
	pl, ok := x.ciph.plain(x.key, dgram)
	if !ok {
		return nil
	}
	switch x.ciph.class {
	case frameClassCRC:
		if len(pl) < cryptHeaderSize {
			return nil
		}
		return pl[cryptHeaderSize:]
	case frameClassAEAD:
		return pl[x.ciph.ns:]
	}
	return pl
}

func (x *frameC05) sessionAt(addr string) *UDPSession {
	if x.lis == nil {
		return x.target
	}
	x.lis.sessionLock.RLock()
	defer x.lis.sessionLock.RUnlock()
	return x.lis.sessions[addr]
}

type frameC05Snap struct {
	inPkts, inErrs, csum, kcpErr, oobPkts, recovered uint64
	sess                                             *UDPSession
	hasDec                                           bool
	tail, count                                      int
	oobN                                             int
	nsess                                            int
}

func (x *frameC05) snap(addr string) frameC05Snap {
	s := DefaultSnmp.Copy()
	sn := frameC05Snap{inPkts: s.InPkts, inErrs: s.InErrs, csum: s.InCsumErrors, kcpErr: s.KCPInErrors, oobPkts: s.OOBPackets, recovered: s.FECRecovered}
	sn.sess = x.sessionAt(addr)
	if sn.sess != nil {
		sn.sess.mu.Lock()
		if dec := sn.sess.fecDecoder; dec != nil {
			sn.hasDec, sn.tail, sn.count = true, dec.autoTune.tail, dec.autoTune.count
		}
		sn.sess.mu.Unlock()
	}
	x.oobMu.Lock()
	sn.oobN = len(x.oobGot)
	x.oobMu.Unlock()
	if x.lis != nil {
		x.lis.sessionLock.RLock()
		sn.nsess = len(x.lis.sessions)
		x.lis.sessionLock.RUnlock()
	}
	return sn
}

// feed one framed datagram through the real receive path, synchronously, under recover()
func (x *frameC05) feed(dgram, rest []byte, addr, note string) {
	x.feeds++
	fecOn := x.cfg.D > 0 && x.cfg.P > 0
	before := x.snap(addr)
	buf := append([]byte(nil), dgram...) // packetInput decrypts in place
	var stack string
	pn := func() (p string) {
		defer func() {
			if r := recover(); r != nil {
				p = fmt.Sprint(r)
				stack = string(debug.Stack())
			}
		}()
		if x.lis != nil {
			x.lis.packetInput(buf, frameAddr(addr))
		} else {
			x.target.packetInput(buf)
		}
		return ""
	}()
	x.res.Monitors["session-input-no-panic"]++
	if pn != "" {
		if len(stack) > 2500 {
			stack = stack[:2500]
		}
		x.res.violate("session-input-panic:"+x.path, fmt.Sprintf("%s receive path panicked on an authentic %d-byte datagram (%s; cipher %s, FEC %d/%d): %s", x.path, len(dgram), note, x.ciph.name, x.cfg.D, x.cfg.P, pn),
			map[string]any{"payload_after_decryption": hx(rest), "datagram": hx(dgram), "from": addr, "note": note, "stack": stack})
		x.lines = append(x.lines, fmt.Sprintf("I from=%s %s -> cls=panic", addr, hx(rest)))
		return
	}
	after := x.snap(addr)
	created := after.sess != nil && after.sess != before.sess
	// what the real code did, from its own counters
	decBefore, tailBefore, countBefore := before.hasDec, before.tail, before.count
	if created {
		decBefore, tailBefore, countBefore = fecOn, 0, 0
	}
	cls := "raw"
	switch {
	case after.csum != before.csum:
		cls = "gate-reject"
	case after.inPkts == before.inPkts:
		cls = "none"
	case after.inErrs != before.inErrs:
		cls = "fecshort"
	case after.oobPkts != before.oobPkts:
		cls = "oob"
	case after.hasDec && (!decBefore || after.tail != tailBefore || after.count != countBefore):
		cls = "fec"
	}
	oob := "none"
	if after.oobN > before.oobN {
		x.oobMu.Lock()
		oob = hx(x.oobGot[len(x.oobGot)-1])
		x.oobMu.Unlock()
	}
	x.res.Dist["c05-class-"+cls]++
	if after.recovered > before.recovered {
		x.res.Dist["c05-recovered-shards"] += int(after.recovered - before.recovered)
		x.res.Dist["c05-recovery-ran-"+strings.SplitN(note, ":", 2)[0]]++
		if strings.Contains(note, "lt2") {
			x.res.Dist["c05-recovery-ran-with-size-field-lt2"]++
		}
	}
	x.lines = append(x.lines, fmt.Sprintf("I from=%s %s -> cls=%s newdec=%d created=%d oob=%s", addr, hx(rest), cls, frameB2I(after.hasDec && !decBefore), frameB2I(created), oob))
	// a session must not come into being for content that carries no readable conversation id
	if x.lis != nil && created {
		x.res.Monitors["listener-session-creation"]++
		flag := uint16(0)
		if len(rest) >= 6 {
			flag = binary.LittleEndian.Uint16(rest[4:])
		}
		readable := true
		switch {
		case len(rest) < 12:
			readable = false
		case flag == typeParity:
			readable = false
		case flag == typeData:
			readable = len(rest) >= fecHeaderSizePlus2+IKCP_OVERHEAD
		case flag == typeOOB:
		default:
			readable = len(rest) >= IKCP_OVERHEAD
		}
		if !readable {
			x.res.violate("listener-session-from-unreadable", fmt.Sprintf("the listener created a session for a %d-byte payload with no readable conversation id (%s)", len(rest), note), map[string]any{"payload_after_decryption": hx(rest), "from": addr})
		}
		// keep the accept backlog empty; sessions of throw-away addresses are closed again
		select {
		case s := <-x.lis.chAccepts:
			if addr != "B" {
				s.Close()
			}
		default:
		}
	}
	// buffering bounds on the session that took the datagram
	if s := after.sess; s != nil {
		s.mu.Lock()
		rq, rb, wnd := s.kcp.rcv_queue.Len(), s.kcp.rcv_buf.Len(), int(s.kcp.rcv_wnd)
		groups := 0
		if s.fecDecoder != nil {
			groups = len(s.fecDecoder.shardSet)
		}
		s.mu.Unlock()
		x.res.Monitors["session-rcv-bound"]++
		if rq > wnd || rb > wnd {
			x.res.violate("session-rcv-bound", fmt.Sprintf("after an authentic %d-byte datagram (%s): rcv_queue %d, rcv_buf %d, rcv_wnd %d", len(dgram), note, rq, rb, wnd), map[string]any{"payload_after_decryption": hx(rest)})
		}
		x.res.Monitors["session-decoder-groups"]++
		if groups > maxShardSets+1 {
			x.res.violate("session-decoder-groups", fmt.Sprintf("the FEC decoder holds %d groups after an authentic %d-byte datagram (%s)", groups, len(dgram), note), map[string]any{"payload_after_decryption": hx(rest)})
		}
	}
}

func (x *frameC05) forged(rest []byte, addr, note string) {
	if len(rest) > mtuLimit-cryptHeaderSize-16 {
		rest = rest[:mtuLimit-cryptHeaderSize-16]
	}
	x.res.Dist["c05-forged-"+strings.SplitN(note, ":", 2)[0]]++
	x.feed(x.frame(rest), rest, addr, note)
}

// genuine traffic: the peer's datagrams go through the same receive path, the target's go back
func (x *frameC05) pump() {
	for round := 0; round < 4; round++ {
		x.hub.mu.Lock()
		caps := x.hub.caps[x.capPos:]
		x.capPos = len(x.hub.caps)
		x.hub.mu.Unlock()
		if len(caps) == 0 {
			return
		}
		for _, c := range caps {
			if c.from == "Bep" {
				x.res.Dist["c05-genuine"]++
				x.feed(c.data, x.rest(c.data), "B", "genuine")
			} else if c.to == "B" || c.to == "Bx" { // the target's answers
				buf := append([]byte(nil), c.data...)
				if pn := frameSafe(func() { x.peer.packetInput(buf) }); pn != "" {
					x.res.violate("session-input-panic:dialled", "the genuine peer's receive path panicked on the target's own datagram: "+pn, hx(c.data))
				}
			}
		}
	}
}

func frameSegBytes(conv uint32, cmd, frg uint8, wnd uint16, ts, sn, una, length uint32, data []byte) []byte {
	b := make([]byte, 24+len(data))
	binary.LittleEndian.PutUint32(b, conv)
	b[4], b[5] = cmd, frg
	binary.LittleEndian.PutUint16(b[6:], wnd)
	binary.LittleEndian.PutUint32(b[8:], ts)
	binary.LittleEndian.PutUint32(b[12:], sn)
	binary.LittleEndian.PutUint32(b[16:], una)
	binary.LittleEndian.PutUint32(b[20:], length)
	copy(b[24:], data)
	return b
}

// a KCP segment, well-formed or garbled in one respect
func (x *frameC05) segment(noReset bool) []byte {
	rng := x.rng
	n := rng.pick(0, 1, 5, 40, 200)
	data := rng.bytes(n)
	conv := x.conv
	if rng.chance(15) {
		conv = uint32(rng.u64())
	}
	sn := uint32(rng.pick(1, 2, 3, 40, 255, 256, 100000, 1<<31-1)) + uint32(rng.intn(3))
	if !noReset && rng.chance(10) {
		sn = 0
	}
	if conv != x.conv && noReset && sn == 0 {
		sn = 1
	}
	length := uint32(n)
	switch rng.intn(8) {
	case 0:
		length = uint32(n) + 1
	case 1:
		if n > 0 {
			length = uint32(n) - 1
		}
	case 2:
		length = uint32(rng.pick(1501, 65535, 1<<31, 1<<32-1))
	case 3:
		length = 0
	}
	cmd := uint8(rng.pick(81, 81, 81, 82, 83, 84, 80, 85, 0, 255))
	seg := frameSegBytes(conv, cmd, uint8(rng.intn(256)), uint16(rng.intn(65536)), uint32(rng.u64()), sn, uint32(rng.pick(0, 1, 5, 1<<31, 1<<32-1)), length, data)
	if rng.chance(20) { // truncated
		seg = seg[:rng.intn(len(seg)+1)]
	}
	return seg
}

func frameFecHdr(seqid uint32, typ uint16) []byte {
	b := make([]byte, 6)
	binary.LittleEndian.PutUint32(b, seqid)
	binary.LittleEndian.PutUint16(b[4:], typ)
	return b
}

// a group built so that RECOVERY runs and reconstructs a chosen shard (size field included)
func (x *frameC05) recoveryGroup(addr string) {
	rng := x.rng
	d, p := x.d, x.p
	ss := uint64(d + p)
	paws := 0xffffffff / ss * ss
	x.group++
	base := (x.group * ss) % paws
	if rng.chance(10) { // near the id wrap
		base = paws - ss*uint64(1+rng.intn(3))
	}
	codec, err := reedsolomon.New(d, p)
	if err != nil {
		return
	}
	L := rng.pick(2, 3, 4, 8, 26, 30, 60, 300, 1000)
	missing := 1 + rng.intn(p)
	if missing > d {
		missing = d
	}
	miss := map[int]bool{}
	for len(miss) < missing {
		miss[rng.intn(d)] = true
	}
	sizeChoice := ""
	shards := make([][]byte, d+p)
	for i := 0; i < d; i++ {
		img := rng.bytes(L)
		if miss[i] {
			var sz int
			switch rng.intn(9) {
			case 0:
				sz = 0
			case 1:
				sz = 1
			case 2:
				sz = 2
			case 3:
				sz = 3
			case 4:
				sz = L - 1
			case 5:
				sz = L
			case 6:
				sz = L + 1
			case 7:
				sz = 0xffff
			default: // a plausible shard: a valid segment of this conversation
				seg := x.segment(true)
				if len(seg)+2 <= L {
					copy(img[2:], seg)
					sz = len(seg) + 2
				} else {
					sz = L
				}
			}
			binary.LittleEndian.PutUint16(img, uint16(sz))
			sizeChoice = fmt.Sprintf("%s%d,", sizeChoice, sz)
			if sz < 2 {
				x.res.Dist["c05-recovery-target-size-lt2"]++
			}
		}
		shards[i] = img
	}
	for j := 0; j < p; j++ {
		shards[d+j] = make([]byte, L)
	}
	if codec.Encode(shards) != nil {
		return
	}
	// exactly d shards arrive: the present data shards and `missing` parity shards
	var idx []int
	for i := 0; i < d; i++ {
		if !miss[i] {
			idx = append(idx, i)
		}
	}
	par := rng.intn(p)
	for j := 0; j < missing; j++ {
		idx = append(idx, d+(par+j)%p)
	}
	for i := len(idx) - 1; i > 0; i-- { // arrival order
		k := rng.intn(i + 1)
		idx[i], idx[k] = idx[k], idx[i]
	}
	note := fmt.Sprintf("recovery:%d/%d missing=%d sizefields=%s", d, p, missing, sizeChoice)
	if strings.HasPrefix(sizeChoice, "0,") || strings.HasPrefix(sizeChoice, "1,") || strings.Contains(sizeChoice, ",0,") || strings.Contains(sizeChoice, ",1,") {
		note += " lt2"
	}
	for _, i := range idx {
		typ := uint16(typeData)
		if i >= d {
			typ = typeParity
		}
		x.forged(append(frameFecHdr(uint32(base+uint64(i)), typ), shards[i]...), addr, note)
	}
}

func (x *frameC05) oneForgery(addr string, junk, noReset bool) {
	rng := x.rng
	ss := uint64(x.d + x.p)
	paws := 0xffffffff / ss * ss
	switch k := rng.intn(10); {
	case k < 2: // random bytes of boundary lengths
		n := rng.pick(0, 1, 5, 6, 7, 8, 11, 12, 13, 23, 24, 25, 31, 32, 33, 100, 1400, 1464)
		b := rng.bytes(n)
		if noReset && n >= 24 { // keep a live conversation alive: no foreign conv with sn 0 (boundary B3)
			binary.LittleEndian.PutUint32(b[12:], 7)
			if n >= 32 {
				binary.LittleEndian.PutUint32(b[20:], 7)
			}
		}
		x.forged(b, addr, "random")
	case k < 5: // a recovery group
		x.recoveryGroup(addr)
	case k < 7: // structured FEC packet: seqid / type / size field at their boundaries
		body := x.segment(noReset)
		if rng.chance(30) {
			body = rng.bytes(rng.pick(0, 1, 2, 3, 4, 23, 24, 60))
		}
		seqid := uint64(rng.pick(0, 1, 2)) + uint64(rng.intn(4))*ss
		switch rng.intn(6) {
		case 0:
			seqid = paws - 1 - uint64(rng.intn(3))
		case 1:
			seqid = paws + uint64(rng.intn(3))
		case 2:
			seqid = 0xffffffff - uint64(rng.intn(2))
		case 3:
			x.group++
			seqid = (x.group*ss + uint64(rng.intn(int(ss)))) % paws
		}
		var typ uint16
		if seqid < paws && !junk { // consistent with the position in the cycle: no autotune
			typ = typeData
			if seqid%ss >= uint64(x.d) {
				typ = typeParity
			}
		} else {
			typ = uint16(rng.pick(typeData, typeParity, typeOOB, 0xf4, 0xf0, 0, 0x51, 0xf1f1))
		}
		sz := []int{0, 1, 2, 3, len(body) + 1, len(body) + 2, len(body) + 3, 0xffff}[rng.intn(8)]
		pkt := frameFecHdr(uint32(seqid), typ)
		s2 := make([]byte, 2)
		binary.LittleEndian.PutUint16(s2, uint16(sz))
		pkt = append(append(pkt, s2...), body...)
		if rng.chance(15) {
			pkt = pkt[:rng.intn(len(pkt)+1)]
		}
		x.forged(pkt, addr, "fec-structured")
	case k < 8: // a raw KCP segment (no FEC header), one or two
		b := x.segment(noReset)
		if rng.chance(30) {
			b = append(b, x.segment(noReset)...)
		}
		x.forged(b, addr, "kcp-segment")
	default: // out-of-band packets of every length from the bare header up
		n := rng.pick(0, 1, 2, 3, 4, 5, 8, 40, 1000)
		conv := x.conv
		if rng.chance(20) && !noReset {
			conv = uint32(rng.u64())
		}
		pkt := frameFecHdr(uint32(rng.pick(0xffffffff, 0, 7)), typeOOB)
		s2 := make([]byte, 2)
		binary.LittleEndian.PutUint16(s2, uint16(rng.pick(n+6, 0, 1, 0xffff)))
		c4 := make([]byte, 4)
		binary.LittleEndian.PutUint32(c4, conv)
		pkt = append(append(append(pkt, s2...), c4...), rng.bytes(n)...)
		if rng.chance(25) {
			pkt = pkt[:rng.pick(6, 7, 8, 9, 10, 11, 12, 13)]
		}
		x.forged(pkt, addr, "oob")
	}
}

// the application's side of the receive path: a Read with a buffer of any size returns or times
// out, whatever the (authentic) datagrams put into the receive queue
func (x *frameC05) appRead(addr string, buf []byte) {
	s := x.sessionAt(addr)
	if s == nil {
		return
	}
	s.SetReadDeadline(time.Now().Add(time.Millisecond))
	x.res.Monitors["session-read-no-panic"]++
	x.res.Dist[fmt.Sprintf("c05-read-buf-%d", len(buf))]++
	var stack string
	pn := func() (p string) {
		defer func() {
			if r := recover(); r != nil {
				p = fmt.Sprint(r)
				stack = string(debug.Stack())
			}
		}()
		s.Read(buf)
		return ""
	}()
	if pn != "" {
		if len(stack) > 2500 {
			stack = stack[:2500]
		}
		x.res.violate("session-read-panic:"+x.path, fmt.Sprintf("Read with a %d-byte buffer panicked on what authentic datagrams had queued (%s; cipher %s, FEC %d/%d): %s", len(buf), x.path, x.ciph.name, x.cfg.D, x.cfg.P, pn),
			map[string]any{"from": addr, "buffer": len(buf), "stack": stack})
		// Read panicked with the session mutex held: everything after this would hang on it
		if out := os.Getenv("FRAME_CHILD_OUT"); out != "" {
			if b, err := json.Marshal(x.res); err == nil && os.WriteFile(out, b, 0o644) == nil {
				os.Exit(0)
			}
		}
	}
}

// a MESSAGE of several fragments (frg = k-1 .. 0), in order at the receiver's rcv_nxt: what a peer
// driving the core in message mode sends (kcp-go's own Write never does), read with a small buffer
func (x *frameC05) fragMessage(addr string) {
	s := x.sessionAt(addr)
	if s == nil {
		return
	}
	rng := x.rng
	s.mu.Lock()
	nxt, conv := s.kcp.rcv_nxt, s.kcp.conv
	s.mu.Unlock()
	k := 2 + rng.intn(4)
	total := 0
	for i := 0; i < k; i++ {
		data := rng.bytes(rng.pick(1, 300, 700, 1000, 1300))
		total += len(data)
		seg := frameSegBytes(conv, IKCP_CMD_PUSH, uint8(k-1-i), 128, 0, nxt+uint32(i), 0, uint32(len(data)), data)
		x.forged(seg, addr, "frag-message")
	}
	if total > mtuLimit {
		x.res.Dist["c05-frag-message-over-1500"]++
	}
	x.appRead(addr, make([]byte, rng.pick(1, 16, 700, 1499)))
}

// flood: first datagrams of new conversations from many more addresses than the accept backlog
// holds, while nobody accepts.  What the listener keeps per refused peer is nothing: sessions,
// goroutines and established-connection count grow by at most the backlog.
func (x *frameC05) flood() {
	n := 3 * acceptBacklog
	if vThorough() {
		n = 12 * acceptBacklog
	}
	x.lis.sessionLock.RLock()
	s0 := len(x.lis.sessions)
	x.lis.sessionLock.RUnlock()
	g0, e0 := runtime.NumGoroutine(), DefaultSnmp.Copy().CurrEstab
	for i := 0; i < n; i++ {
		data := x.rng.bytes(1 + x.rng.intn(20))
		seg := frameSegBytes(uint32(x.rng.u64()), IKCP_CMD_PUSH, 0, 32, 0, 0, 0, uint32(len(data)), data)
		dg := x.frame(seg) // fed directly: feed() would accept and close the new session at once
		if pn := frameSafe(func() { x.lis.packetInput(dg, frameAddr(fmt.Sprintf("flood%d", i))) }); pn != "" {
			x.res.violate("session-input-panic:"+x.path, "listener receive path panicked on the first datagram of a new peer: "+pn, map[string]any{"datagram": hx(dg)})
			return
		}
	}
	time.Sleep(20 * time.Millisecond)
	x.lis.sessionLock.RLock()
	s1 := len(x.lis.sessions)
	x.lis.sessionLock.RUnlock()
	g1, e1 := runtime.NumGoroutine(), DefaultSnmp.Copy().CurrEstab
	x.res.Monitors["listener-flood-bounded"]++
	x.res.Dist["c05-flood-new-peers"] += n
	x.res.Dist["c05-flood-sessions-created"] += s1 - s0
	x.res.Dist["c05-flood-goroutine-growth"] += g1 - g0
	x.res.Dist["c05-flood-backlog-after"] += len(x.lis.chAccepts)
	if s1-s0 > acceptBacklog || g1-g0 > acceptBacklog+8 || int64(e1)-int64(e0) > acceptBacklog {
		x.res.violate("listener-flood-unbounded", fmt.Sprintf("%d first datagrams of new peers with nobody accepting (backlog %d): the session table grew by %d, goroutines by %d, CurrEstab by %d (cipher %s, FEC %d/%d)",
			n, acceptBacklog, s1-s0, g1-g0, int64(e1)-int64(e0), x.ciph.name, x.cfg.D, x.cfg.P), map[string]any{"peers": n})
	}
	for { // the backlog is accepted and closed again
		select {
		case s := <-x.lis.chAccepts:
			s.Close()
			continue
		default:
		}
		break
	}
}

func frameRunC05(cfg frameCfg) *frameResult {
	res := &frameResult{Cfg: cfg, Dist: map[string]int{}, Monitors: map[string]int{}}
	rng := newRng(cfg.Seed)
	x := &frameC05{cfg: cfg, res: res, rng: rng, ciph: frameCiphers()[cfg.Cipher], key: rng.bytes(32), conv: uint32(rng.u64())}
	x.path = []string{"", "dialled", "listener-known", "listener-unknown"}[cfg.C05]
	x.framer = x.ciph.mk(x.key)
	x.hub = frameNewHub(newRng(rng.u64()), 0, 0)
	fecOn := cfg.D > 0 && cfg.P > 0
	x.d, x.p = cfg.D, cfg.P
	if !fecOn {
		x.d, x.p = 1, 1 // the decoder a session builds lazily
	}
	handler := func(b []byte) {
		x.oobMu.Lock()
		x.oobGot = append(x.oobGot, append([]byte(nil), b...))
		x.oobMu.Unlock()
	}
	// the genuine peer: its datagrams are captured, never delivered by the hub
	bep := x.hub.endpoint("Bep")
	var err error
	if cfg.C05 == 1 {
		aep := x.hub.endpoint("Aep")
		x.target, err = NewConn3(x.conv, frameAddr("Bx"), x.ciph.mk(x.key), cfg.D, cfg.P, aep)
		if err != nil {
			res.Err = err.Error()
			return res
		}
		defer x.target.Close()
		x.target.SetNoDelay(1, 10, 2, 1)
		x.peer, err = NewConn3(x.conv, frameAddr("Ax"), x.ciph.mk(x.key), cfg.D, cfg.P, bep)
	} else {
		lep := x.hub.endpoint("Lep")
		x.lis, err = ServeConn(x.ciph.mk(x.key), cfg.D, cfg.P, lep)
		if err != nil {
			res.Err = err.Error()
			return res
		}
		defer x.lis.Close()
		x.peer, err = NewConn3(x.conv, frameAddr("Lx"), x.ciph.mk(x.key), cfg.D, cfg.P, bep)
	}
	if err != nil {
		res.Err = err.Error()
		return res
	}
	defer x.peer.Close()
	defer func() {
		x.hub.mu.Lock()
		x.hub.frozen = true
		x.hub.mu.Unlock()
		for _, ep := range x.hub.eps {
			ep.Close()
		}
	}()
	x.peer.SetNoDelay(1, 10, 2, 1)
	header := fmt.Sprintf("X %d path=%d fec=%d d=%d p=%d conv=%d", cfg.ID, cfg.C05, frameB2I(fecOn), cfg.D, cfg.P, x.conv)
	res.Dist["c05-path-"+x.path]++
	res.Dist["cipher-"+x.ciph.name]++
	res.Dist[fmt.Sprintf("fec-%d/%d", cfg.D, cfg.P)]++

	if x.target != nil && fecOn {
		x.target.SetOOBHandler(handler)
		x.lines = append(x.lines, "H B")
	}
	// open the conversation with genuine traffic
	stream := rng.bytes(20000)
	off := 0
	write := func(n int) {
		if off+n <= len(stream) { // never block: the pump runs in this very goroutine
			x.peer.SetWriteDeadline(time.Now().Add(2 * time.Millisecond))
			var w int
			frameSafe(func() { w, _ = x.peer.Write(stream[off : off+n]) })
			off += w
		}
	}
	write(100)
	time.Sleep(15 * time.Millisecond)
	x.pump()
	if x.lis != nil {
		if s := x.sessionAt("B"); s != nil {
			s.SetNoDelay(1, 10, 2, 1)
			if fecOn {
				s.SetOOBHandler(handler)
				x.lines = append(x.lines, "H B")
			}
			select {
			case <-x.lis.chAccepts:
			default:
			}
		} else {
			res.Err = "the genuine peer's first datagrams did not create a session on the listener"
			return res
		}
	}
	steps := 220
	if vThorough() {
		steps = 900
	}
	rbuf := make([]byte, 2048)
	for i := 0; i < steps; i++ {
		junk := i > steps*6/10 // the last part also sends packets whose type contradicts their position (autotune)
		addr := "B"
		if cfg.C05 == 3 && rng.chance(70) {
			addr = fmt.Sprintf("u%d", rng.intn(40))
		}
		last := i >= steps-12 // only at the very end: foreign conv with sn 0 from a live address (reset, boundary B3)
		x.oneForgery(addr, junk, !last && addr == "B")
		if rng.chance(35) {
			write(1 + rng.intn(1500))
		}
		if rng.chance(30) {
			time.Sleep(time.Duration(rng.intn(3)) * time.Millisecond)
			x.pump()
		}
		if rng.chance(12) {
			x.fragMessage(addr)
		}
		if rng.chance(20) { // the application reads now and then: both a full and a draining receive queue occur
			x.appRead(addr, rbuf[:rng.pick(1, 16, 700, 1499, 1500, 1501, 2048, 2048, 2048)])
		}
	}
	if cfg.C05 == 3 {
		x.flood()
	}
	x.pump()
	res.Datagrams = x.feeds
	res.Retrans = res.Dist["c05-recovered-shards"]
	lg := frameDirLog{Header: header, Lines: x.lines}
	if vThorough() && len(lg.Lines) > 400 {
		lg.Lines = lg.Lines[:400]
	}
	res.Logs = append(res.Logs, lg)
	res.Sample = fmt.Sprintf("%s path=%s: %d datagrams fed, %d shards recovered", cfg.String(), x.path, x.feeds, res.Dist["c05-recovered-shards"])
	return res
}

// TestVerifC05Sess: authentic-but-malformed content behind the gate, for every cipher class
// (nil included) x FEC {off (lazy 1+1 decoder), 2/1, 10/3} x {dialled session, listener with a
// known address, listener with unknown addresses}; each cell in its own child process.
func TestVerifC05Sess(t *testing.T) {
	rng := newRng(vSeed())
	rep := newReport("C05sess")
	lg := newVlog(t, "C05sess.log")
	defer lg.close()
	var cfgs []frameCfg
	rounds := 1
	if vThorough() {
		rounds = 3
	}
	for r := 0; r < rounds; r++ {
		for ci := range frameCiphers() {
			for _, f := range [][2]int{{0, 0}, {2, 1}, {10, 3}} {
				for path := 1; path <= 3; path++ {
					cfgs = append(cfgs, frameCfg{ID: len(cfgs), Cipher: ci, D: f[0], P: f[1], MtuKind: 2, Clients: 1, C05: path, Seed: rng.u64()})
				}
			}
		}
	}
	results := make([]*frameResult, len(cfgs))
	var mu sync.Mutex
	t.Run("cells", func(t *testing.T) {
		for i := range cfgs {
			cfg := cfgs[i]
			t.Run(fmt.Sprintf("x%d", cfg.ID), func(t *testing.T) {
				t.Parallel()
				r := frameSpawn(t, cfg)
				mu.Lock()
				results[cfg.ID] = r
				mu.Unlock()
			})
		}
	})
	for _, r := range results {
		if r == nil {
			t.Errorf("cell did not run")
			continue
		}
		rep.Cases++
		rep.Steps += r.Datagrams
		if r.Err != "" {
			t.Errorf("cell %s: harness failure: %s", r.Cfg.String(), r.Err)
		}
		if r.Dist["c05-recovery-ran-with-size-field-lt2"] > 0 {
			rep.Nontrivial++
		}
		for k, v := range r.Dist {
			rep.Distribution[k] += v
		}
		for k, v := range r.Monitors {
			rep.Monitors[k] += v
		}
		for _, f := range r.Findings {
			frameReport(rep, f)
		}
		if r.Sample != "" {
			rep.sample(r.Sample)
		}
		for _, dl := range r.Logs {
			lg.printf("%s\n", dl.Header)
			for _, ln := range dl.Lines {
				lg.printf("%s\n", ln)
			}
			lg.printf("E\n")
		}
	}
	rep.Extra["cells"] = len(cfgs)
	rep.Extra["nontrivial_rule"] = "a cell in which FEC recovery ran on a group built to reconstruct a shard whose size field is 0 or 1"
	rep.write(t, "C05sess.report.json")
}
