//go:build verif

package kcp

import "testing"

// TestVerifCoreSmoke: development aid — lossy histories with every monitor on.
func TestVerifCoreSmoke(t *testing.T) {
	runInBubble(t, func() {
		rng := newRng(vSeed())
		rep := newReport("core")
		lg := newVlog(t, "core.log")
		defer lg.close()
		curMon = coreMon{prefix: true, windows: true, outputSize: true}
		n := coreCounts(t, 200, 2000)
		kinds := map[string]bool{}
		for i := 0; i < n; i++ {
			p := defaultProfile()
			if i%4 == 1 {
				p.forge = 10
				p.rawLong = true
			}
			if i%4 == 2 {
				p.setmtu = 5
			}
			s := newCoreSim(genCoreCfg(rng, p), lg, rep)
			info := runCoreHistory(s, rng, p)
			if !s.dead {
				s.end()
			}
			s.mergeStats()
			rep.Steps += len(s.ops)
			if info.retrans && (info.dupDelivered || info.reordered) {
				rep.Nontrivial++
			}
			kinds[infoKey(info)] = true
			if i < 2 {
				rep.sample(caseSample(s))
			}
		}
		rep.Cases = n
		rep.Extra["case_kinds"] = len(kinds)
		rep.write(t, "core.report.json")
	})
}

// TestVerifCorpus replays every stored history of the given properties (VERIF_PROPS) with every monitor on.
func TestVerifCorpus(t *testing.T) {
	runInBubble(t, func() {
		rep := newReport("corpus")
		lg := newVlog(t, "corpus.log")
		defer lg.close()
		curMon = coreMon{prefix: true, windows: true, outputSize: true}
		for _, p := range []string{"C01", "C02", "C03", "C04", "C05", "C10", "C12", "C18"} {
			rep.Cases += runCorpus(t, p, lg, rep)
		}
		rep.write(t, "corpus.report.json")
	})
}
