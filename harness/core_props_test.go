//go:build verif

package kcp

import (
	"encoding/binary"
	"fmt"
	"sort"
	"testing"
)

// ---- per-property drivers over the two-endpoint core simulation ----

type coreSuite struct {
	prop     string
	mon      coreMon
	nQuick   int
	nThor    int
	profile  func(i int, rng *vrng) coreProfile
	nontriv  func(info coreCaseInfo, s *coreSim) bool
	after    func(s *coreSim, rng *vrng, p coreProfile) // extra phase after the random history
	everyOp  func(s *coreSim, e int)                    // extra monitor after every op (via hook)
	directed func(t *testing.T, lg *vlog, rep *vreport, rng *vrng) int
}

func runCoreSuite(t *testing.T, cs coreSuite) {
	runInBubble(t, func() {
		rng := newRng(vSeed())
		rep := newReport(cs.prop)
		lg := newVlog(t, cs.prop+".log")
		defer lg.close()
		curMon = cs.mon
		n := coreCounts(t, cs.nQuick, cs.nThor)
		rep.Cases += runCorpus(t, cs.prop, lg, rep)
		if cs.directed != nil {
			rep.Cases += cs.directed(t, lg, rep, rng)
		}
		kinds := map[string]int{}
		for i := 0; i < n; i++ {
			p := cs.profile(i, rng)
			s := newCoreSim(genCoreCfg(rng, p), lg, rep)
			info := runCoreHistory(s, rng, p)
			if cs.after != nil && !s.dead {
				cs.after(s, rng, p)
			}
			if !s.dead {
				s.end()
			}
			s.mergeStats()
			rep.Steps += len(s.ops)
			rep.Distribution["profile:"+p.name]++
			if cs.nontriv == nil || cs.nontriv(info, s) {
				rep.Nontrivial++
			}
			kinds[infoKey(info)]++
			if i < 2 {
				rep.sample(caseSample(s))
			}
		}
		rep.Cases += n
		rep.Extra["case_kinds"] = kinds
		rep.write(t, cs.prop+".report.json")
	})
}

// C04 - window discipline, under faults and under a forging peer.
func TestVerifC04(t *testing.T) {
	runCoreSuite(t, coreSuite{
		prop: "C04", mon: coreMon{windows: true, cc: true}, nQuick: 500, nThor: 6000,
		profile: func(i int, rng *vrng) coreProfile {
			p := defaultProfile()
			if i%6 == 0 {
				// parameters are re-tuned at run time (interval only; congestion control stays on): the
				// congestion state is not a parameter
				p.name, p.ccReconf, p.drop = "retuned-at-run-time", 6, 25
			}
			switch i % 3 {
			case 1:
				p.name, p.forge = "forging-peer", 20
			case 2:
				p.name, p.stall, p.drop = "stalled-reader", 100, 5
				if i%12 == 5 {
					// the stalled application lowers its window below what already waits: the
					// advertisement must go to 0, not wrap (beyond "set before traffic starts", checked anyway)
					p.name, p.shrinkWnd = "stalled-reader-shrinks-window", true
				}
				if i%12 == 11 || i%12 == 8 {
					// the stalled application ENLARGES its window while in-order segments wait in rcv_buf behind
					// a full queue, on a duplicating path: occupancy stays within one window each
					p.name, p.growWnd, p.dup, p.reorder = "stalled-reader-grows-window", true, 35, 20
				}
			}
			return p
		},
		nontriv: func(info coreCaseInfo, s *coreSim) bool { return info.zeroWnd || info.forged || info.retrans },
		directed: func(t *testing.T, lg *vlog, rep *vreport, rng *vrng) int {
			n := 4
			if vThorough() {
				n = 40
			}
			for i := 0; i < n; i++ {
				runParkedThenGrownCase(lg, rep, rng)
			}
			return n
		},
	})
}

// runParkedThenGrownCase: the reader is stalled behind a full delivery queue, the next in-order
// segment waits in the out-of-order buffer; the application enlarges the receive window, the path
// duplicates that very segment, and traffic goes on out of order.  One window of in-order plus one
// window of out-of-order segments is all the receiver ever holds.
func runParkedThenGrownCase(lg *vlog, rep *vreport, rng *vrng) {
	cfg := genCoreCfg(rng, defaultProfile())
	cfg.Stream = 0
	w := rng.pick(2, 4, 8)
	cfg.Rcv[1] = w
	s := newCoreSim(cfg, lg, rep)
	k := s.k[1]
	push := func(sn uint32) {
		seg := make([]byte, IKCP_OVERHEAD+1)
		binary.LittleEndian.PutUint32(seg, cfg.Conv)
		seg[4], seg[5] = IKCP_CMD_PUSH, 0
		binary.LittleEndian.PutUint16(seg[6:], 32)
		binary.LittleEndian.PutUint32(seg[8:], s.now)
		binary.LittleEndian.PutUint32(seg[12:], sn)
		binary.LittleEndian.PutUint32(seg[16:], k.snd_una)
		binary.LittleEndian.PutUint32(seg[20:], 1)
		seg[24] = byte(sn)
		s.Input(1, seg, true, false)
		s.pend[1] = nil
	}
	base := k.rcv_nxt
	for i := 0; i <= w && !s.dead; i++ { // w segments fill the queue, the next one is parked behind it
		push(base + uint32(i))
	}
	s.WndSize(1, 0, 2*w+rng.intn(3))
	if !s.dead {
		push(base + uint32(w)) // the path duplicates the parked segment
	}
	rep.Distribution["profile:parked-then-window-grown"]++
	rep.Nontrivial++
	for round := 0; round < 60 && !s.dead; round++ {
		nx := k.rcv_nxt
		for j := 2; j <= 1+rng.intn(3)+1; j++ { // out of order first ...
			push(nx + uint32(j))
		}
		push(nx + 1)
		push(nx) // ... then the in-order ones
		if round%2 == 0 {
			s.Recv(1, 70000)
		}
		s.setNow(s.now + 10)
		s.Flush(1, true)
		s.pend[1] = nil
	}
	if !s.dead {
		s.end()
	}
	s.mergeStats()
	rep.Steps += len(s.ops)
}

// C05 - arbitrary bytes into the raw core: no panic, bounded state.
func TestVerifC05(t *testing.T) {
	runCoreSuite(t, coreSuite{
		prop: "C05", mon: coreMon{windows: true, outputSize: true}, nQuick: 500, nThor: 6000,
		profile: func(i int, rng *vrng) coreProfile {
			p := defaultProfile()
			p.name, p.forge, p.rawLong = "malformed", 45, true
			if i%4 == 0 {
				p.name, p.forge = "mostly-valid", 8
			}
			return p
		},
		nontriv: func(info coreCaseInfo, s *coreSim) bool { return info.forged },
		directed: func(t *testing.T, lg *vlog, rep *vreport, rng *vrng) int {
			n := 3
			if vThorough() {
				n = 20
			}
			for i := 0; i < n; i++ {
				runDeadLinkCase(lg, rep, rng)
			}
			return n
		},
	})
}

// runDeadLinkCase: "at any point in the life of a session" includes the end of it - a link declared
// dead (a segment transmitted dead_link times into the void) whose peer then comes back and keeps
// sending.  The bounds of C04/C05 (pending acknowledgements included) hold there as anywhere else.
func runDeadLinkCase(lg *vlog, rep *vreport, rng *vrng) {
	cfg := genCoreCfg(rng, defaultProfile())
	s := newCoreSim(cfg, lg, rep)
	s.Send(0, rng.bytes(1+rng.intn(int(s.k[0].mss))))
	for i := 0; i < 400 && s.k[0].state == 0 && !s.dead; i++ {
		s.setNow(s.now + 61000) // beyond any retransmission timer: every flush retransmits, nothing is delivered
		s.Flush(0, true)
		s.pend[0] = nil
	}
	if s.dead {
		return
	}
	rep.Distribution["profile:dead-link"]++
	if s.k[0].state != 0 {
		rep.Nontrivial++
		rep.Distribution["dead-link-reached"]++
	}
	// the peer comes back: in-window and duplicate PUSH segments, 20 per datagram, with the session's
	// periodic flush in between
	k := s.k[0]
	for round := 0; round < 120 && !s.dead; round++ {
		var d []byte
		for j := 0; j < 20; j++ {
			sn := k.rcv_nxt + uint32(1+rng.intn(int(k.rcv_wnd)-1))
			seg := make([]byte, IKCP_OVERHEAD+1)
			binary.LittleEndian.PutUint32(seg, cfg.Conv)
			seg[4], seg[5] = IKCP_CMD_PUSH, 0
			binary.LittleEndian.PutUint16(seg[6:], 32)
			binary.LittleEndian.PutUint32(seg[8:], s.now)
			binary.LittleEndian.PutUint32(seg[12:], sn)
			binary.LittleEndian.PutUint32(seg[16:], k.snd_una)
			binary.LittleEndian.PutUint32(seg[20:], 1)
			seg[24] = byte(sn)
			d = append(d, seg...)
		}
		if len(d) > int(k.mtu) {
			d = d[:int(k.mtu)/(IKCP_OVERHEAD+1)*(IKCP_OVERHEAD+1)]
		}
		s.Input(0, d, true, rng.chance(50))
		s.pend[0] = nil
		if round%3 == 2 {
			s.setNow(s.now + uint32(cfg.Interval[0]))
			s.Flush(0, true)
			s.pend[0] = nil
		}
	}
	if !s.dead {
		s.end()
	}
	s.mergeStats()
	rep.Steps += len(s.ops)
}

// C10 - output sizes, SetMtu at any point.
func TestVerifC10(t *testing.T) {
	runCoreSuite(t, coreSuite{
		prop: "C10", mon: coreMon{outputSize: true, windows: true}, nQuick: 500, nThor: 6000,
		profile: func(i int, rng *vrng) coreProfile {
			p := defaultProfile()
			p.name, p.setmtu = "setmtu-any-time", 12
			if i%3 == 0 {
				p.name, p.setmtu, p.bigSend = "sizes", 2, true
			}
			return p
		},
		nontriv: func(info coreCaseInfo, s *coreSim) bool { return s.mtuChanged },
	})
}

// rtoMonitor: C18 - min RTO <= rx_rto <= 60 s after every call, whatever timestamps arrive.
func (s *coreSim) monRto(e int) {
	k := s.k[e]
	s.rep.Monitors["rto-bounds"]++
	want := uint32(IKCP_RTO_MIN)
	if k.nodelay != 0 {
		want = IKCP_RTO_NDL
	}
	if k.rx_minrto != want {
		s.violate("core-minrto-config", fmt.Sprintf("rx_minrto=%d with nodelay=%d", k.rx_minrto, k.nodelay))
	}
	if s.modeSwitched[e] && k.rx_rto != s.modeSwitchRto[e] {
		s.modeSwitched[e] = false // recomputed from an RTT sample since the mode switch
	}
	lo := want
	if s.modeSwitched[e] {
		lo = 0 // boundary B4: the value computed under the previous mode is still reported
	}
	if k.rx_rto < lo || k.rx_rto > 60000 {
		s.violate("core-rto-out-of-bounds", fmt.Sprintf("rx_rto=%d outside [%d, 60000]", k.rx_rto, want))
	}
}

// ---- C18: clean path (FIFO, loss-free, constant one-way delay D) ----

type cleanCfg struct {
	D        uint32
	interval [2]int
	nodelay  int
	resend   int
	nc       int
	snd, rcv int
	burst    int
	nmsg     int
	stream   int
	update   bool
	acknd    bool
	mtu      int
	clock    uint32
}

type timedPkt struct {
	at   uint32
	data []byte
}

// runCleanPath: endpoint 0 sends nmsg messages to endpoint 1 over a perfect path.
// Returns false when the preconditions of the property do not hold for this configuration.
func runCleanPath(lg *vlog, rep *vreport, c cleanCfg) bool {
	minrto := uint32(IKCP_RTO_MIN)
	if c.nodelay != 0 {
		minrto = IKCP_RTO_NDL
	}
	// 2D + peer's acknowledgement delay (its flush interval) < minimum RTO, with one tick of slack
	// for the sender's own flush granularity being irrelevant (retransmission is decided at flush time).
	if 2*c.D+uint32(c.interval[1])+1 >= minrto {
		return false
	}
	if c.rcv < min(c.snd, 32) {
		return false
	}
	cfg := coreCfg{Conv: 99, Mtu: [2]int{c.mtu, c.mtu}, Snd: [2]int{c.snd, c.snd}, Rcv: [2]int{c.rcv, c.rcv},
		Nodelay: [2]int{c.nodelay, c.nodelay}, Interval: c.interval, Resend: [2]int{c.resend, c.resend}, Nc: [2]int{c.nc, c.nc},
		Stream: c.stream, AckND: [2]bool{c.acknd, c.acknd}, Isn: [2]uint32{0xfffffff0, 5}, Clock: c.clock}
	s := newCoreSim(cfg, lg, rep)
	var wire [2][]timedPkt // wire[to]
	var nextFlush [2]uint32
	nextFlush[0], nextFlush[1] = s.now, s.now
	sent, got := 0, 0
	payload := make([]byte, int(s.k[0].mss))
	moveOut := func(e int) {
		for _, p := range s.pend[e] {
			wire[1-e] = append(wire[1-e], timedPkt{s.now + c.D, p.data})
		}
		s.pend[e] = nil
	}
	limit := s.now + 120000
	for got < c.nmsg && !s.dead && int32(limit-s.now) > 0 {
		// deliveries due now, FIFO
		for to := 0; to < 2; to++ {
			for len(wire[to]) > 0 && int32(s.now-wire[to][0].at) >= 0 && !s.dead {
				s.Input(to, wire[to][0].data, true, c.acknd)
				wire[to] = wire[to][1:]
				moveOut(to)
			}
		}
		// the writer keeps the window busy
		for b := 0; b < c.burst && sent < c.nmsg && s.k[0].WaitSnd() < c.snd && !s.dead; b++ {
			for i := range payload {
				payload[i] = byte(sent + i)
			}
			n := len(payload)
			if sent%3 == 1 {
				n = 1 + sent%n
			}
			s.Send(0, payload[:n])
			sent++
		}
		for e := 0; e < 2 && !s.dead; e++ {
			if c.update {
				if int32(s.now-s.k[e].Check()) >= 0 {
					s.Update(e)
				}
			} else if int32(s.now-nextFlush[e]) >= 0 {
				nextFlush[e] = s.now + s.Flush(e, true)
			}
			moveOut(e)
		}
		// the reader keeps up
		for s.k[1].PeekSize() >= 0 && !s.dead {
			if s.Recv(1, 70000) >= 0 {
				if c.stream == 0 {
					got++
				}
			}
		}
		if c.stream != 0 {
			total := 0
			for _, m := range s.delivered[1] {
				total += len(m)
			}
			want := 0
			for _, m := range s.accepted[0] {
				want += len(m)
			}
			if sent == c.nmsg && total == want {
				got = c.nmsg
			}
		}
		s.setNow(s.now + 1)
	}
	rep.Monitors["clean-path-once"]++
	if !s.dead && got < c.nmsg {
		s.violate("core-clean-path-stalled", fmt.Sprintf("clean path: only %d of %d messages arrived within 120 s (D=%d)", got, c.nmsg, c.D))
	}
	for sn, n := range s.emitted[0] {
		if n != 1 {
			s.violate("core-clean-path-retransmit", fmt.Sprintf("clean path (D=%d ms, intervals %v, nodelay=%d resend=%d nc=%d snd=%d rcv=%d): segment sn=%d was transmitted %d times", c.D, c.interval, c.nodelay, c.resend, c.nc, c.snd, c.rcv, sn, n))
			break
		}
	}
	if !s.dead {
		s.end()
	}
	s.mergeStats()
	rep.Steps += len(s.ops)
	return true
}

// runSlowLink: the clean path of C18 over a link on which the output callback BLOCKS for the
// serialisation time of the datagram (a serial line, a rate-limited or blocking socket): a flush
// of a burst then lasts many milliseconds.  Time passing inside a call is outside the op
// vocabulary of the model (its flush sees one clock value), so these cases are monitors only: no
// op log, no model replay.  The path loses, duplicates and reorders nothing; the peer (another
// machine) keeps working while the sender is blocked; the sender's driver reads what has arrived
// before it flushes again.  Premise, in the sender's own terms: every acknowledgement reaches
// Input less than the minimum RTO after its segment was handed to the link - the path's round
// trip 2D + the peer's acknowledgement delay stays below the minimum RTO, and so does the
// longest time the sender is blocked in one flush (a sender stalled longer than its RTO cannot
// read the acknowledgements in time, whatever the path).  Every data segment goes on the wire
// exactly once: the retransmission timer of a segment runs from the moment IT is transmitted,
// not from the start of the flush that transmits it.
func runSlowLink(rep *vreport, rng *vrng, id int) bool {
	nodelay := rng.intn(2)
	minrto := IKCP_RTO_MIN
	if nodelay != 0 {
		minrto = IKCP_RTO_NDL
	}
	tx := 1 + rng.intn(3) // ms per datagram
	iv := rng.pick(10, 20)
	acknd := rng.chance(50)
	ackDelay := 0
	if !acknd {
		ackDelay = iv
	}
	room := minrto - 2*tx - 6 - ackDelay
	nmax := min(30, (minrto-2*tx-8)/tx) // the longest flush stays below the minimum RTO
	if room < 2 || nmax < 4 {
		return false
	}
	D := uint32(room/2 - rng.intn(min(3, room/2)))
	resend, nc := rng.pick(0, 2), rng.intn(2)
	clock := uint32(0xffffffff) - uint32(rng.intn(3000))
	replay := map[string]any{"test": "TestVerifC18/slow-link", "seed": vSeed(), "case": id, "nodelay": nodelay, "tx_ms_per_datagram": tx,
		"interval": iv, "ack_nodelay": acknd, "one_way_delay": D, "resend": resend, "nc": nc, "clock": clock, "max_burst": nmax}

	type event struct {
		at    uint32
		seq   int
		side  int
		fn    func()
		input bool
	}
	var queue []event
	seq := 0
	vnow, bnow := clock, clock // A's time (A may be blocked in its callback), B's time
	schedule := func(side int, at uint32, fn func()) {
		seq++
		queue = append(queue, event{at, seq, side, fn, false})
	}
	scheduleInput := func(at uint32, fn func()) {
		seq++
		queue = append(queue, event{at, seq, 0, fn, true})
	}
	// the sender's driver reads every datagram that has arrived before it flushes again (after a
	// flush that blocked, the socket is drained first, then the overdue timer runs)
	popArrived := func() (event, bool) {
		best := -1
		for i, ev := range queue {
			if ev.input && int32(ev.at-vnow) <= 0 && (best < 0 || int32(ev.at-queue[best].at) < 0 || (ev.at == queue[best].at && ev.seq < queue[best].seq)) {
				best = i
			}
		}
		if best < 0 {
			return event{}, false
		}
		ev := queue[best]
		queue = append(queue[:best], queue[best+1:]...)
		return ev, true
	}
	pop := func(side int, limit uint32, bounded bool) (event, bool) {
		best := -1
		for i, ev := range queue {
			if side >= 0 && ev.side != side {
				continue
			}
			if bounded && int32(ev.at-limit) > 0 {
				continue
			}
			if best < 0 || int32(ev.at-queue[best].at) < 0 || (ev.at == queue[best].at && ev.seq < queue[best].seq) {
				best = i
			}
		}
		if best < 0 {
			return event{}, false
		}
		ev := queue[best]
		queue = append(queue[:best], queue[best+1:]...)
		return ev, true
	}
	runB := func(ev event) {
		if int32(ev.at-bnow) > 0 {
			bnow = ev.at
		}
		setClock(bnow)
		ev.fn()
		setClock(vnow)
	}
	var a, b *KCP
	xmits := map[uint32]int{}
	delivered, panicked := 0, ""
	rbuf := make([]byte, 70000)
	a = NewKCP(77, func(buf []byte, size int) {
		pkt := append([]byte(nil), buf[:size]...)
		if segs, ok := parseWire(pkt); ok {
			for _, w := range segs {
				if w.cmd == IKCP_CMD_PUSH {
					xmits[w.sn]++
				}
			}
		}
		vnow += uint32(tx) // the write blocks
		setClock(vnow)
		schedule(1, vnow+D, func() {
			b.Input(pkt, IKCP_PACKET_REGULAR, acknd)
			for b.Recv(rbuf) >= 0 {
				delivered++
			}
		})
		for { // the peer does not wait for us
			ev, ok := pop(1, vnow, true)
			if !ok {
				break
			}
			runB(ev)
		}
	})
	b = NewKCP(77, func(buf []byte, size int) {
		pkt := append([]byte(nil), buf[:size]...)
		scheduleInput(bnow+D, func() {
			a.Input(pkt, IKCP_PACKET_REGULAR, false)
			rep.Monitors["rto-bounds"]++
			if a.rx_rto < uint32(minrto) || a.rx_rto > IKCP_RTO_MAX {
				rep.violate("core-rto-out-of-bounds", fmt.Sprintf("slow link: rx_rto=%d outside [%d, 60000]", a.rx_rto, minrto), replay)
			}
		})
	})
	for _, k := range []*KCP{a, b} {
		k.snd_una, k.snd_nxt, k.rcv_nxt = 0xfffffff8, 0xfffffff8, 0xfffffff8
		k.NoDelay(nodelay, iv, resend, nc)
	}
	var tickA, tickB func()
	tickA = func() { a.flush(IKCP_FLUSH_FULL); schedule(0, vnow+uint32(iv), tickA) }
	tickB = func() { b.flush(IKCP_FLUSH_FULL); schedule(1, bnow+uint32(iv), tickB) }
	schedule(0, vnow, tickA)
	schedule(1, bnow+uint32(rng.intn(iv)), tickB)
	// writes: a warm-up of single small messages, then bursts of full-size messages flushed at once
	at := vnow
	nmsg := 0
	for i := 0; i < 12; i++ {
		at += 150
		schedule(0, at, func() { a.Send(make([]byte, 100)); a.flush(IKCP_FLUSH_FULL) })
		nmsg++
	}
	for i := 0; i < 3; i++ {
		at += 700
		n := nmax - rng.intn(min(4, nmax-3)) // < the 32 segments a sender assumes / the default windows
		schedule(0, at, func() {
			for j := 0; j < n; j++ {
				a.Send(make([]byte, a.mss))
			}
			a.flush(IKCP_FLUSH_FULL)
		})
		nmsg += n
	}
	end := at + 3000
	func() {
		defer func() {
			if r := recover(); r != nil {
				panicked = fmt.Sprint(r)
			}
		}()
		for {
			ev, ok := popArrived()
			if !ok {
				ev, ok = pop(-1, 0, false)
			}
			if !ok || int32(ev.at-end) > 0 {
				break
			}
			if ev.side == 1 {
				runB(ev)
			} else {
				if int32(ev.at-vnow) > 0 {
					vnow = ev.at
				}
				setClock(vnow)
				ev.fn()
			}
		}
	}()
	rep.Monitors["clean-path-once"]++
	rep.Distribution["profile:clean-path-slow-link"]++
	if panicked != "" {
		rep.violate("core-panic", "slow link: "+panicked, replay)
		return true
	}
	if delivered < nmsg {
		rep.violate("core-clean-path-stalled", fmt.Sprintf("slow link (%d ms per datagram, D=%d ms): only %d of %d messages arrived", tx, D, delivered, nmsg), replay)
	}
	var dups []uint32
	for sn, n := range xmits {
		if n != 1 {
			dups = append(dups, sn)
		}
	}
	if len(dups) > 0 {
		sort.Slice(dups, func(i, j int) bool { return dups[i] < dups[j] })
		rep.violate("core-clean-path-retransmit", fmt.Sprintf("clean path over a slow link (the output callback blocks %d ms per datagram; D=%d ms, peer acknowledgement delay %d ms, minimum RTO %d ms, nodelay=%d resend=%d nc=%d): %d data segments were transmitted more than once, first sn=%d (%d times)",
			tx, D, ackDelay, minrto, nodelay, resend, nc, len(dups), dups[0], xmits[dups[0]]), replay)
	}
	return true
}

func TestVerifC18(t *testing.T) {
	runCoreSuite(t, coreSuite{
		prop: "C18", mon: coreMon{rto: true}, nQuick: 150, nThor: 2000,
		profile: func(i int, rng *vrng) coreProfile {
			p := defaultProfile()
			p.name, p.forge = "forged-timestamps", 25
			p.reconf = 4 // NoDelay (incl. "leave unchanged" arguments and mode switches, boundary B4) / WndSize mid-life
			p.keepMode = i%2 == 0
			p.slowTx = 50
			return p
		},
		nontriv: func(info coreCaseInfo, s *coreSim) bool { return info.forged || info.retrans },
		directed: func(t *testing.T, lg *vlog, rep *vreport, rng *vrng) int {
			n, tried := 0, 0
			want := 40
			if vThorough() {
				want = 600
			}
			for n < want && tried < want*20 {
				tried++
				c := cleanCfg{D: uint32(rng.pick(0, 1, 3, 8, 20, 30, 44)), interval: [2]int{rng.pick(10, 20, 40), rng.pick(10, 20, 40)},
					nodelay: rng.intn(2), resend: rng.pick(0, 1, 2), nc: rng.intn(2), burst: rng.pick(1, 3, 8, 40),
					nmsg: rng.pick(30, 80, 200), stream: rng.intn(2), update: rng.chance(40), acknd: rng.chance(30),
					mtu: rng.pick(50, 100, 576), clock: uint32(0xffffffff) - uint32(rng.intn(4000))}
				wp := [][2]int{{32, 32}, {4, 32}, {128, 32}, {128, 128}, {1, 1}, {8, 8}, {1024, 32}}[rng.intn(7)]
				c.snd, c.rcv = wp[0], wp[1]
				if runCleanPath(lg, rep, c) {
					n++
					rep.Distribution["profile:clean-path"]++
					rep.Nontrivial++
				}
			}
			for i := 0; i < want; i++ {
				if runSlowLink(rep, rng, i) {
					n++
					rep.Nontrivial++
				}
			}
			return n
		},
	})
}

// ---- C01 / C02: exhaustive fates for the first K datagrams, then a healed network ----

const (
	fateDeliver = iota
	fateDrop
	fateDup
	fateHold // held back behind the next datagram of the same direction
	nFates
)

// runFateCase: A writes a few messages, B echoes nothing; the i-th datagram emitted by either
// side (in emission order) gets fates[i]; afterwards everything is delivered.  Both the prefix
// oracle (every Recv) and the drain oracle (heal) apply.
func runFateCase(lg *vlog, rep *vreport, cfg coreCfg, fates []int, useUpdate bool, healLimit uint32) *coreSim {
	s := newCoreSim(cfg, lg, rep)
	var nextFlush [2]uint32
	nextFlush[0], nextFlush[1] = s.now, s.now
	seen := 0
	var held [2][]corePkt
	nmsg := 4
	for i := 0; i < nmsg && !s.dead; i++ {
		b := make([]byte, 1+((i*37)%int(2*s.k[0].mss)))
		for j := range b {
			b[j] = byte(i*16 + j)
		}
		s.Send(0, b)
	}
	if !s.dead {
		s.Send(1, []byte{9, 9, 9})
	}
	for tick := 0; tick < 40 && !s.dead; tick++ {
		for e := 0; e < 2 && !s.dead; e++ {
			if useUpdate {
				if int32(s.now-s.Check(e)) >= 0 {
					s.Update(e)
				}
			} else if int32(s.now-nextFlush[e]) >= 0 {
				nextFlush[e] = s.now + s.Flush(e, true)
			}
		}
		for from := 0; from < 2 && !s.dead; from++ {
			to := 1 - from
			for len(s.pend[from]) > 0 && !s.dead {
				p := s.pend[from][0]
				s.pend[from] = s.pend[from][1:]
				f := fateDeliver
				if seen < len(fates) {
					f = fates[seen]
				}
				seen++
				switch f {
				case fateDrop:
					s.stats["fate-drop"]++
				case fateDup:
					s.stats["fate-dup"]++
					s.Input(to, p.data, true, cfg.AckND[to])
					if !s.dead {
						s.Input(to, p.data, true, cfg.AckND[to])
					}
				case fateHold:
					s.stats["fate-hold"]++
					held[from] = append(held[from], p)
					continue
				default:
					s.stats["fate-deliver"]++
					s.Input(to, p.data, true, cfg.AckND[to])
				}
				// anything held back goes right after the next one that passed
				for _, h := range held[from] {
					if s.dead {
						break
					}
					s.Input(to, h.data, true, cfg.AckND[to])
				}
				held[from] = nil
			}
		}
		for e := 0; e < 2 && !s.dead; e++ {
			for s.k[e].PeekSize() >= 0 && !s.dead && s.Recv(e, 70000) >= 0 {
			}
		}
		s.setNow(s.now + uint32(cfg.Interval[0]))
		if seen >= len(fates) && tick > 6 {
			break
		}
	}
	if !s.dead {
		s.healAndCheck(healLimit, useUpdate)
	}
	if !s.dead {
		s.end()
	}
	s.mergeStats()
	rep.Steps += len(s.ops)
	return s
}

func fateSweep(lg *vlog, rep *vreport, rng *vrng, K int) int {
	n := 0
	total := 1
	for i := 0; i < K; i++ {
		total *= nFates
	}
	cfgs := []coreCfg{}
	for _, stream := range []int{0, 1} {
		c := stdCfg(stream, 100)
		c.Snd, c.Rcv = [2]int{4, 4}, [2]int{4, 4}
		c.Interval = [2]int{10, 10}
		c.Nodelay = [2]int{1, 1}
		c.Resend = [2]int{2, 2}
		c.Nc = [2]int{stream, 1 - stream}
		c.Isn = [2]uint32{0xfffffffe, 0x7fffffff}
		c.Clock = 0xffffff00
		cfgs = append(cfgs, c)
	}
	for code := 0; code < total; code++ {
		fates := make([]int, K)
		c := code
		for i := range fates {
			fates[i] = c % nFates
			c /= nFates
		}
		cfg := cfgs[code%len(cfgs)]
		runFateCase(lg, rep, cfg, fates, code%3 == 0, 400000)
		n++
		rep.Distribution["profile:fate-sweep"]++
	}
	rep.Extra["fate_sweep_K"] = K
	rep.Extra["fate_sweep_cases"] = n
	return n
}

// C01 - prefix under faults.
func TestVerifC01(t *testing.T) {
	runCoreSuite(t, coreSuite{
		prop: "C01", mon: coreMon{prefix: true}, nQuick: 300, nThor: 5000,
		profile: func(i int, rng *vrng) coreProfile {
			p := defaultProfile()
			switch i % 3 {
			case 1:
				p.name, p.drop, p.dup, p.reorder = "heavy-loss", 40, 20, 50
			case 2:
				p.name, p.fec, p.dup = "fec-recovered-duplicates", 30, 30
			}
			if i%5 == 4 { // every combination of MTU: also MTUs (re)configured with data already queued
				p.name, p.setmtu = p.name+"+mtu-change", 6
			}
			if i%10 == 7 {
				// messages larger than the receiver's window are outside the documented contract (B8: they
				// strand) - what the reader is handed must still be whole messages in order, never a part
				p.name, p.overWnd, p.stall = "message-larger-than-window", true, 60
			}
			return p
		},
		nontriv: func(info coreCaseInfo, s *coreSim) bool {
			return info.retrans && (info.dupDelivered || info.reordered) && len(s.delivered[0])+len(s.delivered[1]) > 0
		},
		after: func(s *coreSim, rng *vrng, p coreProfile) {
			if !p.overWnd && rng.chance(50) {
				s.healAndCheck(400000, rng.chance(30))
			}
		},
		directed: func(t *testing.T, lg *vlog, rep *vreport, rng *vrng) int {
			K := 4
			if vThorough() {
				K = 6
			}
			return fateSweep(lg, rep, rng, K)
		},
	})
}

// C02 - a healed network drains the backlog, after any fault pattern and outage, both drivers.
func TestVerifC02(t *testing.T) {
	runCoreSuite(t, coreSuite{
		prop: "C02", mon: coreMon{prefix: true}, nQuick: 300, nThor: 5000,
		profile: func(i int, rng *vrng) coreProfile {
			p := defaultProfile()
			switch i % 4 {
			case 1:
				p.name, p.drop, p.hold = "outage", 90, 60
			case 2:
				p.name, p.drop, p.dup, p.reorder = "heavy-loss", 40, 20, 50
			case 3:
				p.name, p.stall, p.reorder, p.dup = "stall+stale-acks", 100, 60, 30
				p.growWnd = i%8 == 3
			}
			return p
		},
		nontriv: func(info coreCaseInfo, s *coreSim) bool { return info.retrans || info.zeroWnd },
		after: func(s *coreSim, rng *vrng, p coreProfile) {
			// outage of some length first: clock jumps, nothing delivered
			s.setNow(s.now + uint32(rng.pick(0, 1, 99, 100, 60000, 600000)))
			s.healAndCheck(600000, rng.chance(40))
		},
		directed: func(t *testing.T, lg *vlog, rep *vreport, rng *vrng) int {
			K := 4
			if vThorough() {
				K = 7
			}
			return fateSweep(lg, rep, rng, K)
		},
	})
}

// C03 - stalled reader: standstill without loss or bloat, resumption even when WASK/WINS/ACK are lost.
func runStallCase(lg *vlog, rep *vreport, rng *vrng) {
	cfg := genCoreCfg(rng, defaultProfile())
	cfg.Mtu = [2]int{rng.pick(50, 100, 200), 0}
	cfg.Mtu[1] = cfg.Mtu[0]
	cfg.Rcv = [2]int{rng.pick(1, 2, 3, 4, 8, 32), rng.pick(1, 2, 3, 4, 8, 32)}
	s := newCoreSim(cfg, lg, rep)
	var nextFlush [2]uint32
	nextFlush[0], nextFlush[1] = s.now, s.now
	total := 20 + rng.intn(60)
	sent := 0
	pauseFrom, pauseLen := rng.intn(30), 10+rng.intn(200)
	lossFrom, lossLen := pauseFrom+rng.intn(pauseLen), rng.intn(150)
	useUpdate := rng.chance(30)
	growAt := -1
	if rng.chance(35) {
		growAt = pauseFrom + pauseLen/2 + rng.intn(pauseLen/2+1)
	}
	longStall := rng.chance(25)
	if longStall {
		s.stats["long-stall-cases"]++
	}
	mss := int(s.k[0].mss)
	for tick := 0; tick < pauseFrom+pauseLen+40 && !s.dead; tick++ {
		for sent < total && s.k[0].WaitSnd() < 2*int(s.k[0].snd_wnd)+4 && !s.dead {
			n := 1 + rng.intn(mss)
			if cfg.Stream == 0 && rng.chance(20) {
				n = mss * min(2, int(s.k[1].rcv_wnd))
			}
			b := make([]byte, n)
			for j := range b {
				b[j] = byte(sent + j)
			}
			s.Send(0, b)
			sent++
		}
		for e := 0; e < 2 && !s.dead; e++ {
			if useUpdate {
				if int32(s.now-s.Check(e)) >= 0 {
					s.Update(e)
				}
			} else if int32(s.now-nextFlush[e]) >= 0 {
				nextFlush[e] = s.now + s.Flush(e, true)
			}
		}
		lossy := tick >= lossFrom && tick < lossFrom+lossLen
		for from := 0; from < 2 && !s.dead; from++ {
			for len(s.pend[from]) > 0 && !s.dead {
				p := s.pend[from][0]
				s.pend[from] = s.pend[from][1:]
				segs, _ := parseWire(p.data)
				ctrlOnly := true
				for _, w := range segs {
					if w.cmd == IKCP_CMD_PUSH {
						ctrlOnly = false
					}
				}
				if lossy && ctrlOnly {
					s.stats["fate-drop-ctrl"]++
					continue // every WASK/WINS/ACK datagram of this period is lost
				}
				if rng.chance(10) && len(s.pend[from]) > 0 { // reorder: makes rmt_wnd stale
					q := s.pend[from][0]
					s.pend[from] = s.pend[from][1:]
					s.Input(1-from, q.data, true, cfg.AckND[1-from])
					s.stats["fate-reorder"]++
				}
				if !s.dead {
					s.Input(1-from, p.data, true, cfg.AckND[1-from])
				}
				if rng.chance(10) && !s.dead {
					s.Input(1-from, p.data, true, cfg.AckND[1-from])
					s.stats["fate-dup"]++
				}
			}
		}
		// the receiving application enlarges its window while stalled (growth only: shrinking can
		// legitimately strand a message larger than the window, boundary B8)
		if growAt == tick {
			s.WndSize(1, 0, 2*int(s.k[1].rcv_wnd)+rng.intn(8))
			s.stats["stall-window-grown"]++
		}
		paused := tick >= pauseFrom && tick < pauseFrom+pauseLen
		if !paused {
			for s.k[1].PeekSize() >= 0 && !s.dead && s.Recv(1, 70000) >= 0 {
			}
		} else {
			s.stats["reader-stalled-ticks"]++
			// no unbounded buffering while stalled (C04 monitors run after every op)
		}
		if longStall { // minutes of standstill: the probe back-off reaches its 120 s cap, rto its 60 s cap
			s.setNow(s.now + uint32(rng.pick(1000, 7000, 30000, 60000, 130000)))
		} else {
			s.setNow(s.now + uint32(rng.pick(1, 10, cfg.Interval[0], 500, 1000)))
		}
	}
	if !s.dead {
		s.healAndCheck(900000, useUpdate)
	}
	if !s.dead {
		s.end()
	}
	s.mergeStats()
	rep.Steps += len(s.ops)
}

func TestVerifC03(t *testing.T) {
	runCoreSuite(t, coreSuite{
		prop: "C03", mon: coreMon{prefix: true, windows: true, reopen: true}, nQuick: 100, nThor: 2000,
		profile: func(i int, rng *vrng) coreProfile {
			p := defaultProfile()
			p.name, p.stall, p.drop = "random-stall", 100, 10
			return p
		},
		nontriv: func(info coreCaseInfo, s *coreSim) bool { return info.zeroWnd },
		after: func(s *coreSim, rng *vrng, p coreProfile) { s.healAndCheck(900000, rng.chance(30)) },
		directed: func(t *testing.T, lg *vlog, rep *vreport, rng *vrng) int {
			n := 150
			if vThorough() {
				n = 3000
			}
			n = vEnvInt("VERIF_STALL_CASES", n)
			for i := 0; i < n; i++ {
				runStallCase(lg, rep, rng)
				rep.Distribution["profile:directed-stall"]++
				rep.Nontrivial++
			}
			return n
		},
	})
}

// C12 - the same history at different sequence-number / clock offsets gives the same trace.
func TestVerifC12(t *testing.T) {
	runInBubble(t, func() {
		rng := newRng(vSeed())
		rep := newReport("C12")
		lg := newVlog(t, "C12.log")
		defer lg.close()
		curMon = coreMon{prefix: true}
		n := coreCounts(t, 120, 1500)
		for i := 0; i < n; i++ {
			p := defaultProfile()
			p.name, p.maxTicks = "offsets", 40
			if i%3 == 0 {
				p.stall = 60 // zero-window episodes: probe deadlines are absolute clock values too
			}
			base := genCoreCfg(rng, p)
			hseed := rng.u64()
			var ref []string
			w := uint32(rng.intn(60))
			offs := [][3]uint32{{0, 0, 0}, {1<<31 - w, 1<<31 - w/2, 1<<31 - 40*w}, {0xffffffff - w, 5, 0xffffffff - 7*w},
				{uint32(rng.u64()), uint32(rng.u64()), uint32(rng.u64())}, {0xffffffff, 0xffffffff, 0xffffffff}}
			wrapped := false
			for j := 0; j < len(offs); j++ {
				o := offs[j]
				cfg := base
				cfg.Isn = [2]uint32{o[0], o[1]}
				cfg.Clock = o[2]
				s := newCoreSim(cfg, lg, rep)
				s.traceOn = true
				info := runCoreHistory(s, newRng(hseed), p)
				if !s.dead {
					s.end()
				}
				s.mergeStats()
				rep.Steps += len(s.ops)
				wrapped = wrapped || info.wrapped
				rep.Monitors["trace-shift-equal"]++
				if j == 0 && s.probeSeen {
					// one more run with the clock shifted so that the first probe deadline is exactly 0 (a value
					// that code may mistake for "not set"); and one with it exactly 2^31
					offs = append(offs, [3]uint32{uint32(rng.u64()), uint32(rng.u64()), 0 - s.probeRel}, [3]uint32{7, 9, 1<<31 - s.probeRel})
					rep.Distribution["probe-deadline-on-zero-run"]++
				}
				if j == 0 {
					ref = s.trace
					if i < 2 {
						rep.sample(caseSample(s))
					}
					continue
				}
				if len(ref) != len(s.trace) {
					s.violate("core-offset-dependent", fmt.Sprintf("history of %d observable steps at offsets 0 has %d steps at sn offsets (%d,%d), clock offset %d", len(ref), len(s.trace), o[0], o[1], o[2]))
					continue
				}
				for x := range ref {
					if ref[x] != s.trace[x] {
						s.violate("core-offset-dependent", fmt.Sprintf("step %d differs between offsets 0 and sn offsets (%d,%d), clock offset %d: %.200s / %.200s", x, o[0], o[1], o[2], ref[x], s.trace[x]))
						break
					}
				}
			}
			rep.Cases += len(offs)
			rep.Nontrivial++
			rep.Distribution["profile:offsets"]++
		}
		rep.write(t, "C12.report.json")
	})
}
