//go:build verif

package kcp

import (
	"fmt"
	"testing"
)

// ---- per-property drivers over the two-endpoint core simulation ----

type coreSuite struct {
	prop     string
	mon      coreMon
	nQuick   int
	nThor    int
	profile  func(i int, rng *vrng) coreProfile
	nontriv  func(info coreCaseInfo, s *coreSim) bool
	after    func(s *coreSim, rng *vrng, p coreProfile) // extra phase after the random history
	everyOp  func(s *coreSim, e int)                    // extra monitor after every op (via hook)
	directed func(t *testing.T, lg *vlog, rep *vreport, rng *vrng) int
}

func runCoreSuite(t *testing.T, cs coreSuite) {
	runInBubble(t, func() {
		rng := newRng(vSeed())
		rep := newReport(cs.prop)
		lg := newVlog(t, cs.prop+".log")
		defer lg.close()
		curMon = cs.mon
		n := coreCounts(t, cs.nQuick, cs.nThor)
		rep.Cases += runCorpus(t, cs.prop, lg, rep)
		if cs.directed != nil {
			rep.Cases += cs.directed(t, lg, rep, rng)
		}
		kinds := map[string]int{}
		for i := 0; i < n; i++ {
			p := cs.profile(i, rng)
			s := newCoreSim(genCoreCfg(rng, p), lg, rep)
			info := runCoreHistory(s, rng, p)
			if cs.after != nil && !s.dead {
				cs.after(s, rng, p)
			}
			if !s.dead {
				s.end()
			}
			s.mergeStats()
			rep.Steps += len(s.ops)
			rep.Distribution["profile:"+p.name]++
			if cs.nontriv == nil || cs.nontriv(info, s) {
				rep.Nontrivial++
			}
			kinds[infoKey(info)]++
			if i < 2 {
				rep.sample(caseSample(s))
			}
		}
		rep.Cases += n
		rep.Extra["case_kinds"] = kinds
		rep.write(t, cs.prop+".report.json")
	})
}

// C04 - window discipline, under faults and under a forging peer.
func TestVerifC04(t *testing.T) {
	runCoreSuite(t, coreSuite{
		prop: "C04", mon: coreMon{windows: true}, nQuick: 500, nThor: 6000,
		profile: func(i int, rng *vrng) coreProfile {
			p := defaultProfile()
			switch i % 3 {
			case 1:
				p.name, p.forge = "forging-peer", 20
			case 2:
				p.name, p.stall, p.drop = "stalled-reader", 100, 5
			}
			return p
		},
		nontriv: func(info coreCaseInfo, s *coreSim) bool { return info.zeroWnd || info.forged || info.retrans },
	})
}

// C05 - arbitrary bytes into the raw core: no panic, bounded state.
func TestVerifC05(t *testing.T) {
	runCoreSuite(t, coreSuite{
		prop: "C05", mon: coreMon{windows: true, outputSize: true}, nQuick: 500, nThor: 6000,
		profile: func(i int, rng *vrng) coreProfile {
			p := defaultProfile()
			p.name, p.forge, p.rawLong = "malformed", 45, true
			if i%4 == 0 {
				p.name, p.forge = "mostly-valid", 8
			}
			return p
		},
		nontriv: func(info coreCaseInfo, s *coreSim) bool { return info.forged },
	})
}

// C10 - output sizes, SetMtu at any point.
func TestVerifC10(t *testing.T) {
	runCoreSuite(t, coreSuite{
		prop: "C10", mon: coreMon{outputSize: true, windows: true}, nQuick: 500, nThor: 6000,
		profile: func(i int, rng *vrng) coreProfile {
			p := defaultProfile()
			p.name, p.setmtu = "setmtu-any-time", 12
			if i%3 == 0 {
				p.name, p.setmtu, p.bigSend = "sizes", 2, true
			}
			return p
		},
		nontriv: func(info coreCaseInfo, s *coreSim) bool { return s.mtuChanged },
	})
}

// rtoMonitor: C18 - min RTO <= rx_rto <= 60 s after every call, whatever timestamps arrive.
func (s *coreSim) monRto(e int) {
	k := s.k[e]
	s.rep.Monitors["rto-bounds"]++
	want := uint32(IKCP_RTO_MIN)
	if k.nodelay != 0 {
		want = IKCP_RTO_NDL
	}
	if k.rx_minrto != want {
		s.violate("core-minrto-config", fmt.Sprintf("rx_minrto=%d with nodelay=%d", k.rx_minrto, k.nodelay))
	}
	if k.rx_rto < want || k.rx_rto > 60000 {
		s.violate("core-rto-out-of-bounds", fmt.Sprintf("rx_rto=%d outside [%d, 60000]", k.rx_rto, want))
	}
}

// ---- C18: clean path (FIFO, loss-free, constant one-way delay D) ----

type cleanCfg struct {
	D        uint32
	interval [2]int
	nodelay  int
	resend   int
	nc       int
	snd, rcv int
	burst    int
	nmsg     int
	stream   int
	update   bool
	acknd    bool
	mtu      int
	clock    uint32
}

type timedPkt struct {
	at   uint32
	data []byte
}

// runCleanPath: endpoint 0 sends nmsg messages to endpoint 1 over a perfect path.
// Returns false when the preconditions of the property do not hold for this configuration.
func runCleanPath(lg *vlog, rep *vreport, c cleanCfg) bool {
	minrto := uint32(IKCP_RTO_MIN)
	if c.nodelay != 0 {
		minrto = IKCP_RTO_NDL
	}
	// 2D + peer's acknowledgement delay (its flush interval) < minimum RTO, with one tick of slack
	// for the sender's own flush granularity being irrelevant (retransmission is decided at flush time).
	if 2*c.D+uint32(c.interval[1])+1 >= minrto {
		return false
	}
	if c.rcv < min(c.snd, 32) {
		return false
	}
	cfg := coreCfg{Conv: 99, Mtu: [2]int{c.mtu, c.mtu}, Snd: [2]int{c.snd, c.snd}, Rcv: [2]int{c.rcv, c.rcv},
		Nodelay: [2]int{c.nodelay, c.nodelay}, Interval: c.interval, Resend: [2]int{c.resend, c.resend}, Nc: [2]int{c.nc, c.nc},
		Stream: c.stream, AckND: [2]bool{c.acknd, c.acknd}, Isn: [2]uint32{0xfffffff0, 5}, Clock: c.clock}
	s := newCoreSim(cfg, lg, rep)
	var wire [2][]timedPkt // wire[to]
	var nextFlush [2]uint32
	nextFlush[0], nextFlush[1] = s.now, s.now
	sent, got := 0, 0
	payload := make([]byte, int(s.k[0].mss))
	moveOut := func(e int) {
		for _, p := range s.pend[e] {
			wire[1-e] = append(wire[1-e], timedPkt{s.now + c.D, p.data})
		}
		s.pend[e] = nil
	}
	limit := s.now + 120000
	for got < c.nmsg && !s.dead && int32(limit-s.now) > 0 {
		// deliveries due now, FIFO
		for to := 0; to < 2; to++ {
			for len(wire[to]) > 0 && int32(s.now-wire[to][0].at) >= 0 && !s.dead {
				s.Input(to, wire[to][0].data, true, c.acknd)
				wire[to] = wire[to][1:]
				moveOut(to)
			}
		}
		// the writer keeps the window busy
		for b := 0; b < c.burst && sent < c.nmsg && s.k[0].WaitSnd() < c.snd && !s.dead; b++ {
			for i := range payload {
				payload[i] = byte(sent + i)
			}
			n := len(payload)
			if sent%3 == 1 {
				n = 1 + sent%n
			}
			s.Send(0, payload[:n])
			sent++
		}
		for e := 0; e < 2 && !s.dead; e++ {
			if c.update {
				if int32(s.now-s.k[e].Check()) >= 0 {
					s.Update(e)
				}
			} else if int32(s.now-nextFlush[e]) >= 0 {
				nextFlush[e] = s.now + s.Flush(e, true)
			}
			moveOut(e)
		}
		// the reader keeps up
		for s.k[1].PeekSize() >= 0 && !s.dead {
			if s.Recv(1, 70000) >= 0 {
				if c.stream == 0 {
					got++
				}
			}
		}
		if c.stream != 0 {
			total := 0
			for _, m := range s.delivered[1] {
				total += len(m)
			}
			want := 0
			for _, m := range s.accepted[0] {
				want += len(m)
			}
			if sent == c.nmsg && total == want {
				got = c.nmsg
			}
		}
		s.setNow(s.now + 1)
	}
	rep.Monitors["clean-path-once"]++
	if !s.dead && got < c.nmsg {
		s.violate("core-clean-path-stalled", fmt.Sprintf("clean path: only %d of %d messages arrived within 120 s (D=%d)", got, c.nmsg, c.D))
	}
	for sn, n := range s.emitted[0] {
		if n != 1 {
			s.violate("core-clean-path-retransmit", fmt.Sprintf("clean path (D=%d ms, intervals %v, nodelay=%d resend=%d nc=%d snd=%d rcv=%d): segment sn=%d was transmitted %d times", c.D, c.interval, c.nodelay, c.resend, c.nc, c.snd, c.rcv, sn, n))
			break
		}
	}
	if !s.dead {
		s.end()
	}
	s.mergeStats()
	rep.Steps += len(s.ops)
	return true
}

func TestVerifC18(t *testing.T) {
	runCoreSuite(t, coreSuite{
		prop: "C18", mon: coreMon{rto: true}, nQuick: 150, nThor: 2000,
		profile: func(i int, rng *vrng) coreProfile {
			p := defaultProfile()
			p.name, p.forge = "forged-timestamps", 25
			return p
		},
		nontriv: func(info coreCaseInfo, s *coreSim) bool { return info.forged || info.retrans },
		directed: func(t *testing.T, lg *vlog, rep *vreport, rng *vrng) int {
			n, tried := 0, 0
			want := 40
			if vThorough() {
				want = 600
			}
			for n < want && tried < want*20 {
				tried++
				c := cleanCfg{D: uint32(rng.pick(0, 1, 3, 8, 20, 30, 44)), interval: [2]int{rng.pick(10, 20, 40), rng.pick(10, 20, 40)},
					nodelay: rng.intn(2), resend: rng.pick(0, 1, 2), nc: rng.intn(2), burst: rng.pick(1, 3, 8, 40),
					nmsg: rng.pick(30, 80, 200), stream: rng.intn(2), update: rng.chance(40), acknd: rng.chance(30),
					mtu: rng.pick(50, 100, 576), clock: uint32(0xffffffff) - uint32(rng.intn(4000))}
				wp := [][2]int{{32, 32}, {4, 32}, {128, 32}, {128, 128}, {1, 1}, {8, 8}, {1024, 32}}[rng.intn(7)]
				c.snd, c.rcv = wp[0], wp[1]
				if runCleanPath(lg, rep, c) {
					n++
					rep.Distribution["profile:clean-path"]++
					rep.Nontrivial++
				}
			}
			return n
		},
	})
}
