//go:build verif

package kcp

import (
	"fmt"
	"strings"
	"testing"
)

// ---- C20: RingBuffer[int] against (a) a slice queue written from the property text
// (monitor, independent of the Coq model) and (b) the extracted Coq model (via the op log,
// including the internal layout head/tail/elements after every operation).

type ringVisitor struct{ kind, d, k, m int }

func (v ringVisitor) fn() func(*int) bool {
	seen := 0
	return func(p *int) bool {
		old := *p
		seen++
		switch v.kind {
		case 0: // add d, stop after k visited
			*p = old + v.d
			return seen < v.k
		case 1: // add d, stop at the first value with old mod m == k mod m
			*p = old + v.d
			return ((old%v.m)+v.m)%v.m != v.k%v.m
		default: // visit all, no mutation
			return true
		}
	}
}

// the queue oracle: a plain slice, oldest first
type sliceQueue struct{ q []int }

func (s *sliceQueue) visit(v ringVisitor, reverse bool) {
	f := v.fn()
	n := len(s.q)
	for i := 0; i < n; i++ {
		j := i
		if reverse {
			j = n - 1 - i
		}
		if !f(&s.q[j]) {
			return
		}
	}
}

type ringOp struct {
	kind string // P O K D X F R L
	a    int
	v    ringVisitor
}

func (o ringOp) String() string {
	switch o.kind {
	case "P", "D":
		return fmt.Sprintf("%s %d", o.kind, o.a)
	case "F", "R":
		return fmt.Sprintf("%s %d %d %d %d", o.kind, o.v.kind, o.v.d, o.v.k, o.v.m)
	}
	return o.kind
}

type ringCase struct {
	cap, head, n int // initial layout: capacity, head index, number of live elements
	ops          []ringOp
}

func ringLayout(r *RingBuffer[int]) string {
	var sb strings.Builder
	fmt.Fprintf(&sb, "S %d %d %d", r.head, r.tail, len(r.elements))
	for _, e := range r.elements {
		fmt.Fprintf(&sb, " %d", e)
	}
	return sb.String()
}

// runRingCase executes one case on the real RingBuffer, logs it, and checks the queue oracle.
func runRingCase(id int, c ringCase, lg *vlog, rep *vreport, logEvery int) (nontrivial bool) {
	defer func() {
		// a queue never panics, whatever the layout: the case is the replay
		if p := recover(); p != nil {
			ops := []string{}
			for _, o := range c.ops {
				ops = append(ops, o.String())
			}
			rep.violate("ring:panic", fmt.Sprintf("RingBuffer panicked on a sequence of queue operations: %v", p),
				map[string]any{"cap": c.cap, "head": c.head, "n": c.n, "ops": ops})
			if lg != nil {
				lg.printf("E\n")
			}
		}
	}()
	r := &RingBuffer[int]{head: c.head, tail: (c.head + c.n) % c.cap, elements: make([]int, c.cap)}
	q := &sliceQueue{}
	next := 1000
	for i := 0; i < c.n; i++ {
		r.elements[(c.head+i)%c.cap] = next
		q.q = append(q.q, next)
		next++
	}
	if lg != nil {
		lg.printf("C %d\n%s\n", id, ringLayout(r))
	}
	fail := func(step int, what string) {
		ops := []string{}
		for _, o := range c.ops[:step+1] {
			ops = append(ops, o.String())
		}
		rep.violate(fmt.Sprintf("ring:%s", what), fmt.Sprintf("RingBuffer differs from a FIFO queue: %s", what),
			map[string]any{"cap": c.cap, "head": c.head, "n": c.n, "ops": ops})
	}
	for i, o := range c.ops {
		rep.Steps++
		rep.Distribution["op:"+o.kind]++
		switch o.kind {
		case "P":
			full := r.IsFull()
			r.Push(o.a)
			q.q = append(q.q, o.a)
			if full {
				nontrivial = true
				rep.Distribution["grow"]++
			}
			if lg != nil {
				lg.printf("P %d\n", o.a)
			}
		case "O":
			v, ok := r.Pop()
			var wv int
			wok := len(q.q) > 0
			if wok {
				wv = q.q[0]
				q.q = q.q[1:]
			}
			if ok != wok || v != wv {
				fail(i, "pop result")
			}
			if lg != nil {
				lg.printf("O %t %d\n", ok, v)
			}
		case "K":
			p, ok := r.Peek()
			v := 0
			if ok {
				v = *p
			}
			wok := len(q.q) > 0
			wv := 0
			if wok {
				wv = q.q[0]
			}
			if ok != wok || v != wv {
				fail(i, "peek result")
			}
			if lg != nil {
				lg.printf("K %t %d\n", ok, v)
			}
		case "D":
			ret := r.Discard(o.a)
			want := min(o.a, len(q.q))
			q.q = q.q[want:]
			if ret != want {
				fail(i, "discard count")
			}
			if lg != nil {
				lg.printf("D %d %d\n", o.a, ret)
			}
		case "X":
			r.Clear()
			q.q = q.q[:0]
			if lg != nil {
				lg.printf("X\n")
			}
		case "F":
			r.ForEach(o.v.fn())
			q.visit(o.v, false)
			if lg != nil {
				lg.printf("F %d %d %d %d\n", o.v.kind, o.v.d, o.v.k, o.v.m)
			}
		case "R":
			r.ForEachReverse(o.v.fn())
			q.visit(o.v, true)
			if lg != nil {
				lg.printf("R %d %d %d %d\n", o.v.kind, o.v.d, o.v.k, o.v.m)
			}
		case "L":
			if lg != nil {
				lg.printf("L %d %d %t %t\n", r.Len(), r.MaxLen(), r.IsEmpty(), r.IsFull())
			}
		}
		rep.Monitors["queue-oracle"]++
		// oracle: length, content in iteration order, flags, no retention
		if r.Len() != len(q.q) {
			fail(i, "length")
		}
		if r.IsEmpty() != (len(q.q) == 0) {
			fail(i, "IsEmpty")
		}
		if r.MaxLen() != len(r.elements)-1 || r.Len() > r.MaxLen() {
			fail(i, "MaxLen")
		}
		var got []int
		r.ForEach(func(p *int) bool { got = append(got, *p); return true })
		if fmt.Sprint(got) != fmt.Sprint(q.q) && !(len(got) == 0 && len(q.q) == 0) {
			fail(i, "iteration order / content")
		}
		var rgot []int
		r.ForEachReverse(func(p *int) bool { rgot = append(rgot, *p); return true })
		for a, b := 0, len(rgot)-1; a < b; a, b = a+1, b-1 {
			rgot[a], rgot[b] = rgot[b], rgot[a]
		}
		if fmt.Sprint(rgot) != fmt.Sprint(got) {
			fail(i, "reverse iteration order")
		}
		live := map[int]bool{}
		for j := 0; j < r.Len(); j++ {
			live[(r.head+j)%len(r.elements)] = true
		}
		for j, e := range r.elements {
			if !live[j] && e != 0 {
				fail(i, "a popped/discarded slot still retains its element")
				break
			}
		}
		if r.head > r.tail {
			nontrivial = true
		}
		if lg != nil && (len(r.elements) <= 64 || i%logEvery == 0 || i == len(c.ops)-1) {
			lg.printf("%s\n", ringLayout(r))
		}
	}
	if lg != nil {
		lg.printf("E\n")
	}
	return
}

func ringAlphabet(n int) []ringOp {
	return []ringOp{
		{kind: "P"}, {kind: "O"}, {kind: "K"}, {kind: "X"}, {kind: "L"},
		{kind: "D", a: 0}, {kind: "D", a: 1}, {kind: "D", a: 2}, {kind: "D", a: -1 /* len */}, {kind: "D", a: -2 /* len+1 */},
		{kind: "F", v: ringVisitor{0, 7, 2, 1}}, {kind: "F", v: ringVisitor{1, 100, 1, 3}}, {kind: "F", v: ringVisitor{2, 0, 0, 1}},
		{kind: "R", v: ringVisitor{0, 7, 2, 1}}, {kind: "R", v: ringVisitor{1, 100, 2, 3}}, {kind: "R", v: ringVisitor{0, 1, 1, 1}},
	}
}

func TestVerifC20(t *testing.T) {
	rng := newRng(vSeed())
	rep := newReport("C20")
	lg := newVlog(t, "C20.log")
	defer lg.close()
	depth := 3
	if vThorough() {
		depth = 4
	}
	depth = vEnvInt("VERIF_C20_DEPTH", depth)
	id := 0
	pushv := 1
	// 1. exhaustive: every op sequence of the given depth from a family of layouts
	type start struct{ cap, head, n int }
	var starts []start
	for _, cp := range []int{1, 2, 3, 4, 8} {
		for h := 0; h < cp; h++ {
			for n := 0; n < cp; n++ {
				if cp == 8 && !(h == 0 || h == 5 || h == 7) {
					continue
				}
				if cp == 8 && !(n == 0 || n == 1 || n == 6 || n == 7) {
					continue
				}
				starts = append(starts, start{cp, h, n})
			}
		}
	}
	alpha := ringAlphabet(0)
	total := 1
	for i := 0; i < depth; i++ {
		total *= len(alpha)
	}
	for _, st := range starts {
		for code := 0; code < total; code++ {
			ops := make([]ringOp, depth)
			c := code
			for i := 0; i < depth; i++ {
				ops[i] = alpha[c%len(alpha)]
				c /= len(alpha)
				if ops[i].kind == "P" {
					ops[i].a = pushv
					pushv++
				}
			}
			// resolve Discard(len) / Discard(len+1) dynamically is not possible without running;
			// use the start length as the reference
			for i := range ops {
				if ops[i].kind == "D" && ops[i].a < 0 {
					ops[i].a = st.n + (-ops[i].a - 1)
				}
			}
			cs := ringCase{st.cap, st.head, st.n, ops}
			if runRingCase(id, cs, lg, rep, 1) {
				rep.Nontrivial++
			}
			if id%9973 == 0 {
				rep.sample(map[string]any{"cap": st.cap, "head": st.head, "n": st.n, "ops": fmt.Sprint(ops)})
			}
			id++
		}
	}
	rep.Extra["exhaustive_depth"] = depth
	rep.Extra["exhaustive_cases"] = id
	rep.Extra["starts"] = len(starts)
	// 2. random longer sequences incl. growth through 8 -> doubling -> +10 %
	nrand, maxops := 300, 400
	if vThorough() {
		nrand, maxops = 3000, 1500
	}
	big := 2
	if vThorough() {
		big = 6
	}
	for k := 0; k < nrand+big; k++ {
		cp := rng.pick(1, 2, 5, 8, 9, 16, 31)
		st := start{cp, rng.intn(cp), rng.intn(cp)}
		nops := 20 + rng.intn(maxops)
		pushBias := rng.pick(40, 55, 70)
		if k >= nrand { // growth past 1024 into the +10 % regime
			st = start{rng.pick(8, 600, 1024, 1100), 0, 0}
			st.head = rng.intn(st.cap)
			nops = 2600 + rng.intn(800)
			pushBias = 85
		}
		ops := make([]ringOp, nops)
		for i := range ops {
			x := rng.intn(100)
			switch {
			case x < pushBias:
				ops[i] = ringOp{kind: "P", a: pushv}
				pushv++
			case x < pushBias+12:
				ops[i] = ringOp{kind: "O"}
			case x < pushBias+15:
				ops[i] = ringOp{kind: "K"}
			case x < pushBias+20:
				ops[i] = ringOp{kind: "D", a: rng.pick(0, 1, 2, 3, 5, 9, 40)}
			case x < pushBias+21 && k < nrand:
				ops[i] = ringOp{kind: "X"}
			case x < pushBias+24:
				ops[i] = ringOp{kind: "L"}
			case x < pushBias+27:
				ops[i] = ringOp{kind: "F", v: ringVisitor{rng.intn(3), rng.intn(9), 1 + rng.intn(6), 1 + rng.intn(5)}}
			default:
				ops[i] = ringOp{kind: "R", v: ringVisitor{rng.intn(3), rng.intn(9), 1 + rng.intn(6), 1 + rng.intn(5)}}
			}
		}
		if runRingCase(id, ringCase{st.cap, st.head, st.n, ops}, lg, rep, 97) {
			rep.Nontrivial++
		}
		id++
	}
	rep.Cases = id
	rep.write(t, "C20.report.json")
}
