//go:build verif

package kcp

// Property C11 - sessions on one socket are isolated; one Accept per new peer.
//
// A REAL Listener (serveConn over an in-memory net.PacketConn) is driven with datagrams whose
// class (raw / FEC data / parity / OOB / short / failing the integrity gate), conversation id
// and sequence number are chosen by the generator, from up to 8 model peers plus attackers,
// interleaved with Accept, server-side Close and Listener.Close.  Listener.packetInput is a
// synchronous call, so after every step the harness reads, under the session locks, the state
// that the call changes synchronously: the session table (keys, session identity, conv), the
// accept-queue length, and of every session the receive side (rcv_nxt, rcv_queue, rcv_buf with
// payloads, the FEC decoder's sample ring), plus the global SNMP input counters.
//
//   (a) op log "C11.log": replayed by ml/listener_driver.ml on the extracted Coq model
//       (coq/listener/Listener.v, recording sessions), which compares table keys, session ids,
//       convs, queue length/order, which session (if any) a datagram was fed to, and at the end
//       of a case the ordered list of FEC-typed payloads every session was fed.
//   (b) monitors written from the property text (independent of the Coq model), see
//       listenerCase.pkt / finish.

import (
	"bytes"
	"encoding/binary"
	"fmt"
	"hash/crc32"
	"io"
	"net"
	"sort"
	"strings"
	"sync"
	"sync/atomic"
	"testing"
	"time"
)

// ---------------------------------------------------------------------------------------------
// in-memory PacketConn with a synchronous hand-off: deliver() returns when the reader has come
// back for the next datagram, i.e. when the previous one has been processed completely.

type listenerAddr struct{ s string }

func (a listenerAddr) Network() string { return "mem" }
func (a listenerAddr) String() string  { return a.s }

type listenerPkt struct {
	data []byte
	from net.Addr
}

type listenerConn struct {
	local net.Addr
	in    chan listenerPkt
	idle  chan struct{}
	done  chan struct{}
	once  sync.Once
	wmu   sync.Mutex
	sink  func(b []byte, to net.Addr)
	nw    int
}

func newListenerConn(name string) *listenerConn {
	return &listenerConn{local: listenerAddr{name}, in: make(chan listenerPkt), idle: make(chan struct{}), done: make(chan struct{})}
}
func (c *listenerConn) ReadFrom(b []byte) (int, net.Addr, error) {
	select {
	case c.idle <- struct{}{}:
	case <-c.done:
		return 0, nil, io.ErrClosedPipe
	}
	select {
	case p := <-c.in:
		return copy(b, p.data), p.from, nil
	case <-c.done:
		return 0, nil, io.ErrClosedPipe
	}
}
func (c *listenerConn) WriteTo(b []byte, to net.Addr) (int, error) {
	select {
	case <-c.done:
		return 0, io.ErrClosedPipe
	default:
	}
	c.wmu.Lock()
	c.nw++
	if c.sink != nil {
		c.sink(append([]byte(nil), b...), to)
	}
	c.wmu.Unlock()
	return len(b), nil
}
func (c *listenerConn) Close() error                       { c.once.Do(func() { close(c.done) }); return nil }
func (c *listenerConn) LocalAddr() net.Addr                { return c.local }
func (c *listenerConn) SetDeadline(t time.Time) error      { return nil }
func (c *listenerConn) SetReadDeadline(t time.Time) error  { return nil }
func (c *listenerConn) SetWriteDeadline(t time.Time) error { return nil }

// waitIdle: the reader is (again) at the top of ReadFrom.
func (c *listenerConn) waitIdle() bool {
	select {
	case <-c.idle:
		return true
	case <-time.After(10 * time.Second):
		return false
	}
}
func (c *listenerConn) deliver(data []byte, from net.Addr) bool {
	select {
	case c.in <- listenerPkt{data, from}:
	case <-time.After(10 * time.Second):
		return false
	}
	return c.waitIdle()
}

// ---------------------------------------------------------------------------------------------
// wire encoders written from the README / header layout (not from sess.go's code paths)

func listenerSeg(conv uint32, cmd, frg byte, wnd uint16, ts, sn, una uint32, data []byte) []byte {
	b := make([]byte, 24+len(data))
	binary.LittleEndian.PutUint32(b, conv)
	b[4], b[5] = cmd, frg
	binary.LittleEndian.PutUint16(b[6:], wnd)
	binary.LittleEndian.PutUint32(b[8:], ts)
	binary.LittleEndian.PutUint32(b[12:], sn)
	binary.LittleEndian.PutUint32(b[16:], una)
	binary.LittleEndian.PutUint32(b[20:], uint32(len(data)))
	copy(b[24:], data)
	return b
}

func listenerFEC(seqid uint32, typ uint16, body []byte, withSize bool) []byte {
	n := 6
	if withSize {
		n = 8
	}
	b := make([]byte, n+len(body))
	binary.LittleEndian.PutUint32(b, seqid)
	binary.LittleEndian.PutUint16(b[4:], typ)
	if withSize {
		binary.LittleEndian.PutUint16(b[6:], uint16(len(body)+2))
	}
	copy(b[n:], body)
	return b
}

// OOB: | seqid | 0xf3 | size | conv | payload |.  Real senders put 0xffffffff and len+2 into
// seqid and size; neither the listener nor the session reads them, so the generator draws them.
func listenerOOBx(seqid uint32, size uint16, conv uint32, payload []byte) []byte {
	body := make([]byte, 4+len(payload))
	binary.LittleEndian.PutUint32(body, conv)
	copy(body[4:], payload)
	b := listenerFEC(seqid, 0xf3, body, true)
	binary.LittleEndian.PutUint16(b[6:], size)
	return b
}

// Every header field that the listener must NOT look at is drawn from the whole range, with
// the values around the 16-bit and 32-bit boundaries preferred, so that reading any field at
// a wrong offset changes what the listener does.
func listenerU32(r *vrng) uint32 {
	switch r.intn(12) {
	case 0:
		return 0
	case 1:
		return 1
	case 2:
		return 0xffff
	case 3:
		return 0x10000
	case 4:
		return 0x10001
	case 5:
		return 1 << 31
	case 6:
		return 0xffffffff
	case 7:
		return uint32(r.intn(0x10000)) // below 2^16
	case 8:
		return uint32(1+r.intn(0xffff)) << 16 // a multiple of 2^16
	default:
		return uint32(r.u64())
	}
}

// a sequence number that is not 0 (not the first packet of a conversation)
func listenerSnNonzero(r *vrng) uint32 {
	for {
		var v uint32
		switch r.intn(6) {
		case 0:
			v = 1
		case 1:
			v = 0x10000
		case 2:
			v = uint32(1+r.intn(0xffff)) << 16
		case 3:
			v = uint32(1 + r.intn(40))
		default:
			v = listenerU32(r)
		}
		if v != 0 {
			return v
		}
	}
}

// a segment whose wnd, ts, una (and frg for control segments: frg of a PUSH decides message
// boundaries in the session, and is part of the 16-bit field the listener does read) are free
func (c *listenerCase) seg(conv uint32, cmd byte, sn uint32, data []byte) []byte {
	frg := byte(0)
	if cmd != 81 {
		frg = byte(c.rng.intn(256))
	}
	return listenerSeg(conv, cmd, frg, uint16(listenerU32(c.rng)), listenerU32(c.rng), sn, listenerU32(c.rng), data)
}

// hand-made FEC data framing: seqid and size are free (the listener reads neither)
func (c *listenerCase) fecHand(from int, conv, sn uint32, seg []byte) listenerDg {
	b := listenerFEC(listenerU32(c.rng), 0xf1, seg, true)
	binary.LittleEndian.PutUint16(b[6:], uint16(listenerU32(c.rng)))
	return c.good(from, "fecdata-hand", b, true, conv, sn, []uint32{sn})
}

// a PUSH of (conv, sn) from address index `from` carrying that address's content, raw or in
// hand-made FEC data framing
func (c *listenerCase) pushFrom(from int, conv, sn uint32) listenerDg {
	seg := c.seg(conv, 81, sn, listenerContent(c.key(from), conv, sn))
	if c.rng.chance(50) {
		return c.fecHand(from, conv, sn, seg)
	}
	return c.good(from, "raw", seg, true, conv, sn, []uint32{sn})
}

// what the peer at address key, conversation conv, writes as its sn-th message
func listenerContent(key string, conv, sn uint32) []byte {
	h := uint64(1469598103934665603)
	for _, c := range []byte(fmt.Sprintf("%s|%d|%d", key, conv, sn)) {
		h = (h ^ uint64(c)) * 1099511628211
	}
	r := &vrng{s: h}
	n := 1 + r.intn(40)
	if r.intn(8) == 0 {
		n = 1 + r.intn(1000)
	}
	return r.bytes(n)
}

// ---------------------------------------------------------------------------------------------

type listenerDg struct {
	from     int
	wire     []byte
	ok       bool   // passes the integrity gate, by construction
	payload  []byte // plaintext behind the gate (ok only)
	class    string
	readable bool // conv readable by the listener, by construction of the class
	conv, sn uint32
	pushes   []uint32 // sns of the PUSH segments of conversation conv carried (directly) by it
	pconv    uint32   // parity / unreadable FEC packet: the conversation whose encoder produced it (0 = junk)
}

type listenerInfo struct {
	id      int
	s       *UDPSession
	key     string
	addrIdx int
	conv    uint32
	born    int
	sent    map[uint32]bool
	accepted, closedByApp, replaced bool
	tainted bool // boundary B3: was fed a parity/unreadable FEC packet of ANOTHER conversation (or junk)
	oobGot  [][]byte
	oobMu   sync.Mutex
	nfec    int // FEC-typed payloads fed, counted from the decoder's sample ring
}

type listenerCase struct {
	t         *testing.T
	id        int
	name      string
	lg        *vlog
	rep       *vreport
	rng       *vrng
	block     BlockCrypt
	wrong     BlockCrypt
	blockName string
	ds, ps    int
	via       bool
	l         *Listener
	conn      *listenerConn
	addrs     []net.Addr
	info      map[*UDPSession]*listenerInfo
	byID      []*listenerInfo
	accOrder  []int
	trace     []string
	calls     int
	oobSent   map[string]bool
	resets, foreignDrops, maxLive, fullDrops, feeds int
	lclosed   bool
	bad       bool
	skipContent bool // real-client case: the stream oracle is the client's own writes
	parked      map[*UDPSession]*listenerParked
}

// an application Close stopped between its two steps: `die` is closed, the goroutine waits
// for s.mu (held by the harness, as the session's own update() may hold it) before it
// flushes and calls Listener.removeSession
type listenerParked struct {
	in   *listenerInfo
	done chan struct{}
}

func (c *listenerCase) key(i int) string { return c.addrs[i].String() }

func (c *listenerCase) violate(key, what string) {
	c.bad = true
	tr := c.trace
	if len(tr) > 400 {
		tr = tr[len(tr)-400:]
	}
	c.rep.violate(key, what, map[string]any{"case": c.name, "block": c.blockName, "fec": fmt.Sprintf("%d/%d", c.ds, c.ps),
		"via_monitor": c.via, "seed": vSeed(), "ops": append([]string(nil), tr...),
		"how": "VERIF_SEED=<seed> bin/check C11 (the case is regenerated from the seed); ops = addrIdx gate class conv sn payload-hex"})
}

func newListenerCase(t *testing.T, id int, name string, lg *vlog, rep *vreport, rng *vrng, blockName string, ds, ps int, via bool, naddr int) *listenerCase {
	c := &listenerCase{t: t, id: id, name: name, lg: lg, rep: rep, rng: rng, blockName: blockName, ds: ds, ps: ps, via: via,
		info: map[*UDPSession]*listenerInfo{}, oobSent: map[string]bool{}, parked: map[*UDPSession]*listenerParked{}}
	key := bytes.Repeat([]byte{0x5a}, 16)
	key2 := bytes.Repeat([]byte{0xa5}, 16)
	switch blockName {
	case "none":
		c.block, _ = NewNoneBlockCrypt(key)
		c.wrong = nil
	case "aes":
		c.block, _ = NewAESBlockCrypt(key)
		c.wrong, _ = NewAESBlockCrypt(key2)
	case "aesgcm":
		c.block, _ = NewAESGCMCrypt(key)
		c.wrong, _ = NewAESGCMCrypt(key2)
	}
	for i := 0; i < naddr; i++ {
		if i%3 == 1 {
			c.addrs = append(c.addrs, &net.UDPAddr{IP: net.IPv4(10, 0, byte(i/250), byte(1+i%250)), Port: 4000 + i})
		} else {
			c.addrs = append(c.addrs, listenerAddr{fmt.Sprintf("peer-%d", i)})
		}
	}
	c.conn = newListenerConn("server")
	l, err := serveConn(c.block, ds, ps, c.conn, false)
	if err != nil {
		t.Fatal(err)
	}
	c.l = l
	if via {
		if !c.conn.waitIdle() {
			t.Fatal("listener monitor did not start reading")
		}
	}
	lg.printf("C %d %s block=%s fec=%d/%d via=%t\n", id, name, blockName, ds, ps, via)
	rep.Cases++
	rep.Distribution["block:"+blockName]++
	rep.Distribution[fmt.Sprintf("listener-fec:%d/%d", ds, ps)]++
	if via {
		rep.Distribution["path:monitor-goroutine"]++
	} else {
		rep.Distribution["path:direct-call"]++
	}
	return c
}

// seal: what a peer holding the listener's key puts on the wire for a plaintext payload
func (c *listenerCase) sealWith(block BlockCrypt, payload []byte) []byte {
	switch b := block.(type) {
	case nil:
		return append([]byte(nil), payload...)
	case *aeadCrypt:
		ns := b.NonceSize()
		nonce := c.rng.bytes(ns)
		out := make([]byte, ns, ns+len(payload)+b.Overhead())
		copy(out, nonce)
		return b.Seal(out, nonce, payload, nil)
	default:
		buf := make([]byte, 20+len(payload))
		copy(buf, c.rng.bytes(16))
		copy(buf[20:], payload)
		binary.LittleEndian.PutUint32(buf[16:], crc32.ChecksumIEEE(buf[20:]))
		block.Encrypt(buf, buf)
		return buf
	}
}

func (c *listenerCase) good(from int, class string, payload []byte, readable bool, conv, sn uint32, pushes []uint32) listenerDg {
	return listenerDg{from: from, wire: c.sealWith(c.block, payload), ok: true, payload: payload, class: class,
		readable: readable, conv: conv, sn: sn, pushes: pushes}
}

// a datagram that must fail the gate (only with a cipher configured)
func (c *listenerCase) badGate(from int, payload []byte) listenerDg {
	w := c.sealWith(c.block, payload)
	kind := c.rng.intn(4)
	switch {
	case kind == 0 && len(w) > 16: // one flipped byte (behind the nonce: the CRC does not cover the nonce)
		w[16+c.rng.intn(len(w)-16)] ^= byte(1 + c.rng.intn(255))
	case kind == 1: // truncated below the header
		n := 20
		if a, ok := c.block.(*aeadCrypt); ok {
			n = a.NonceSize() + a.Overhead()
		}
		w = w[:c.rng.intn(n)]
	case kind == 2 && c.wrong != nil: // sealed with another key
		w = c.sealWith(c.wrong, payload)
	default: // random bytes of the same length
		w = c.rng.bytes(len(w))
	}
	return listenerDg{from: from, wire: w, ok: false, class: "badgate"}
}

type listenerSnapT struct {
	tab  map[string]*UDPSession
	qlen int
}

func (c *listenerCase) snap() listenerSnapT {
	s := listenerSnapT{tab: map[string]*UDPSession{}}
	c.l.sessionLock.RLock()
	for k, v := range c.l.sessions {
		s.tab[k] = v
	}
	c.l.sessionLock.RUnlock()
	s.qlen = len(c.l.chAccepts)
	return s
}

type listenerSegT struct {
	sn   uint32
	data []byte
}

// receive side of a session, read under its lock
func listenerRecvState(s *UDPSession) (conv, rcvNxt uint32, segs []listenerSegT, fecN int, fecLast string, closed bool) {
	return listenerRecvStateH(s, false)
}

// held: the harness itself holds s.mu (a Close parked between its two steps)
func listenerRecvStateH(s *UDPSession, held bool) (conv, rcvNxt uint32, segs []listenerSegT, fecN int, fecLast string, closed bool) {
	if !held {
		s.mu.Lock()
		defer s.mu.Unlock()
	}
	conv, rcvNxt = s.kcp.conv, s.kcp.rcv_nxt
	s.kcp.rcv_queue.ForEach(func(g *segment) bool {
		segs = append(segs, listenerSegT{g.sn, append([]byte(nil), g.data...)})
		return true
	})
	var bs []listenerSegT
	for i := range s.kcp.rcv_buf.segments {
		g := &s.kcp.rcv_buf.segments[i]
		bs = append(bs, listenerSegT{g.sn, append([]byte(nil), g.data...)})
	}
	sort.Slice(bs, func(i, j int) bool { return bs[i].sn < bs[j].sn })
	segs = append(segs, bs...)
	if d := s.fecDecoder; d != nil {
		fecN = d.autoTune.count
		if d.autoTune.count > 0 {
			p := d.autoTune.pulses[(d.autoTune.tail+maxAutoTuneSamples-1)%maxAutoTuneSamples]
			fecLast = fmt.Sprintf("%t:%d@%d", p.bit, p.seq, d.autoTune.tail)
		}
	}
	closed = s.isClosed()
	return
}

func (c *listenerCase) digest(s *UDPSession) string {
	conv, nxt, segs, fn, fl, closed := listenerRecvStateH(s, c.parked[s] != nil)
	var sb strings.Builder
	fmt.Fprintf(&sb, "c%d n%d f%d/%s x%t", conv, nxt, fn, fl, closed)
	for _, g := range segs {
		fmt.Fprintf(&sb, " %d:%x", g.sn, g.data)
	}
	return sb.String()
}

func listenerFecSamples(s *UDPSession) []string {
	s.mu.Lock()
	defer s.mu.Unlock()
	return listenerFecSamplesH(s)
}

func listenerFecSamplesH(s *UDPSession) []string {
	d := s.fecDecoder
	if d == nil {
		return nil
	}
	var out []string
	for i := 0; i < d.autoTune.count; i++ {
		p := d.autoTune.pulses[(d.autoTune.head+i)%maxAutoTuneSamples]
		b := 0
		if p.bit {
			b = 1
		}
		out = append(out, fmt.Sprintf("%d:%d", b, p.seq))
	}
	return out
}

type listenerPre struct {
	snap   listenerSnapT
	dig    map[*UDPSession]string
	inTab  map[*UDPSession]bool
	inPkts, inBytes, passive, oob uint64
}

func (c *listenerCase) pre() listenerPre {
	p := listenerPre{snap: c.snap(), dig: map[*UDPSession]string{}, inTab: map[*UDPSession]bool{}}
	for _, s := range p.snap.tab {
		p.inTab[s] = true
	}
	for s := range c.info {
		p.dig[s] = c.digest(s)
	}
	p.inPkts = atomic.LoadUint64(&DefaultSnmp.InPkts)
	p.inBytes = atomic.LoadUint64(&DefaultSnmp.InBytes)
	p.passive = atomic.LoadUint64(&DefaultSnmp.PassiveOpens)
	p.oob = atomic.LoadUint64(&DefaultSnmp.OOBPackets)
	return p
}

func (c *listenerCase) addrIdx(key string) int {
	for i := range c.addrs {
		if c.addrs[i].String() == key {
			return i
		}
	}
	return -1
}

func (c *listenerCase) stateLine(sn listenerSnapT) string {
	type kv struct {
		a, id int
		conv  uint32
	}
	var ks []kv
	for k, s := range sn.tab {
		id := -1
		if in := c.info[s]; in != nil {
			id = in.id
		}
		ks = append(ks, kv{c.addrIdx(k), id, s.kcp.conv})
	}
	sort.Slice(ks, func(i, j int) bool { return ks[i].a < ks[j].a })
	var sb strings.Builder
	sb.WriteString("k=")
	if len(ks) == 0 {
		sb.WriteString("-")
	}
	for i, k := range ks {
		if i > 0 {
			sb.WriteString(";")
		}
		fmt.Fprintf(&sb, "%d:%d:%d", k.a, k.id, k.conv)
	}
	fmt.Fprintf(&sb, " q=%d", sn.qlen)
	return sb.String()
}

// register sessions that appeared in the table; returns the new one (at most one per call)
func (c *listenerCase) discover(sn listenerSnapT) *listenerInfo {
	var fresh *listenerInfo
	for k, s := range sn.tab {
		if c.info[s] == nil {
			in := &listenerInfo{id: len(c.byID), s: s, key: k, addrIdx: c.addrIdx(k), conv: s.kcp.conv, born: c.calls, sent: map[uint32]bool{}}
			c.info[s] = in
			c.byID = append(c.byID, in)
			if fresh != nil {
				c.violate("listener-double-accept", "one packetInput call created two sessions")
			}
			fresh = in
		}
	}
	return fresh
}

// content oracle: every segment a session holds was written by the peer at the session's own
// address in the session's own conversation
func (c *listenerCase) checkContent(in *listenerInfo, where string) {
	if c.skipContent || in.tainted {
		return
	}
	_, _, segs, _, _, _ := listenerRecvStateH(in.s, c.parked[in.s] != nil)
	c.rep.Monitors["content-oracle(every buffered segment = what its own peer wrote at that sn)"]++
	for _, g := range segs {
		if !bytes.Equal(g.data, listenerContent(in.key, in.conv, g.sn)) {
			c.violate("listener-conv-merged", fmt.Sprintf("%s: session %d (addr %s conv %d) holds at sn %d bytes its own peer never wrote", where, in.id, in.key, in.conv, g.sn))
			return
		}
	}
}

func (c *listenerCase) pkt(d listenerDg) {
	if c.bad {
		return
	}
	c.calls++
	c.rep.Steps++
	c.rep.Distribution["dgram:"+d.class]++
	a := c.addrs[d.from]
	key := a.String()
	if cur := c.snap().tab[key]; cur != nil && c.parked[cur] != nil && d.ok && (!d.readable || d.conv == cur.kcp.conv) {
		// it would be dispatched to a session whose lock the harness holds: not deliverable
		// before the parked Close goes on (the real kcpInput would simply wait for the lock)
		c.calls--
		c.rep.Steps--
		c.rep.Distribution["dgram:"+d.class]--
		c.rep.Distribution["skipped:for-parked-session"]++
		return
	}
	p := c.pre()
	cur := p.snap.tab[key]
	curDead := cur != nil && cur.isClosed()
	ph := "-"
	okf := 0
	if d.ok {
		okf = 1
		ph = hx(d.payload)
	}
	c.trace = append(c.trace, fmt.Sprintf("P %d %d %s conv=%d sn=%d %s", d.from, okf, d.class, d.conv, d.sn, ph))
	c.lg.printf("P %d %d %s\n", d.from, okf, ph)

	wire := append([]byte(nil), d.wire...)
	if c.via {
		if !c.conn.deliver(wire, a) {
			c.violate("listener-stalled", fmt.Sprintf("the listener's read loop did not come back within 10 s after a datagram %s conv %d sn %d from %s (backlog %d/%d)", d.class, d.conv, d.sn, key, p.snap.qlen, cap(c.l.chAccepts)))
			return
		}
	} else {
		done := make(chan struct{})
		go func() { c.l.packetInput(wire, a); close(done) }()
		select {
		case <-done:
		case <-time.After(10 * time.Second):
			c.violate("listener-stalled", fmt.Sprintf("Listener.packetInput did not return within 10 s for a datagram %s conv %d sn %d from %s (backlog %d/%d)", d.class, d.conv, d.sn, key, p.snap.qlen, cap(c.l.chAccepts)))
			return
		}
	}

	q := c.snap()
	fresh := c.discover(q)
	dIn := atomic.LoadUint64(&DefaultSnmp.InPkts) - p.inPkts
	dBytes := atomic.LoadUint64(&DefaultSnmp.InBytes) - p.inBytes
	dPassive := atomic.LoadUint64(&DefaultSnmp.PassiveOpens) - p.passive
	var changed []int
	for s, in := range c.info {
		if old, ok := p.dig[s]; ok && old != c.digest(s) {
			changed = append(changed, in.id)
		}
	}
	sort.Ints(changed)
	ev := "-"
	if len(changed) > 0 {
		ev = strings.Trim(strings.Replace(fmt.Sprint(changed), " ", ",", -1), "[]")
	}
	nid := "-"
	if fresh != nil {
		nid = fmt.Sprint(fresh.id)
	}
	c.lg.printf("R %s n=%s f=%d b=%d e=%s\n", c.stateLine(q), nid, dIn, dBytes, ev)

	// ---- monitors, from the property text ------------------------------------------------
	// (1) nothing belonging to another address is touched
	c.rep.Monitors["other-addresses-untouched(table entry, identity, closed flag, receive state)"]++
	for s, in := range c.info {
		if in.key == key || in == fresh {
			continue
		}
		if p.dig[s] != c.digest(s) || p.inTab[s] != (q.tab[in.key] == s) {
			c.violate("listener-cross-session-effect", fmt.Sprintf("a datagram from %s (class %s) changed session %d of address %s", key, d.class, in.id, in.key))
			return
		}
	}
	for k, s := range p.snap.tab {
		if k != key && q.tab[k] != s {
			c.violate("listener-cross-session-effect", fmt.Sprintf("a datagram from %s changed the table entry of %s", key, k))
			return
		}
	}
	for k := range q.tab {
		if k != key && p.snap.tab[k] == nil {
			c.violate("listener-cross-session-effect", fmt.Sprintf("a datagram from %s created a table entry for %s", key, k))
			return
		}
	}
	if dPassive > 1 || (dPassive == 1) != (fresh != nil) {
		c.violate("listener-double-accept", fmt.Sprintf("sessions created by one datagram: %d, new table entries: %v", dPassive, fresh != nil))
		return
	}
	// (2) creation / one Accept per new peer
	room := p.snap.qlen < cap(c.l.chAccepts) && !c.lclosed // a closed listener creates nothing
	wantNew, wantGone, untouched := false, false, false
	switch {
	case !d.ok:
		untouched = true
	case cur == nil:
		wantNew = d.readable && room
		untouched = !wantNew
	case !d.readable || d.conv == cur.kcp.conv:
		// dispatched to the live session of that address; nothing is created
	case d.sn != 0:
		untouched = true // another conversation, not its first packet: ignored
		c.foreignDrops++
	default:
		wantGone = true // starts a new conversation: the old session is closed ...
		wantNew = room  // ... and replaced by a fresh one (when the backlog has room)
		c.resets++
	}
	c.rep.Monitors["one-accept-per-new-peer(created iff new peer/new conversation and backlog has room)"]++
	if wantNew && fresh == nil {
		c.violate("listener-missed-accept", fmt.Sprintf("datagram %s conv %d sn %d from %s (no live session of that conversation, backlog %d/%d): no session was created", d.class, d.conv, d.sn, key, p.snap.qlen, cap(c.l.chAccepts)))
		return
	}
	if !wantNew && fresh != nil {
		c.violate("listener-double-accept", fmt.Sprintf("datagram %s conv %d sn %d from %s created session %d although none was due (live session there: %v, backlog %d/%d)", d.class, d.conv, d.sn, key, fresh.id, cur != nil, p.snap.qlen, cap(c.l.chAccepts)))
		return
	}
	if fresh != nil {
		if fresh.key != key || fresh.conv != d.conv || q.qlen != p.snap.qlen+1 || q.tab[key] != fresh.s {
			c.violate("listener-double-accept", fmt.Sprintf("session %d created by a datagram from %s conv %d sits under %s with conv %d; queue %d -> %d", fresh.id, key, d.conv, fresh.key, fresh.conv, p.snap.qlen, q.qlen))
			return
		}
		// fresh and empty: nothing but what the creating datagram itself carries
		_, nxt, segs, _, _, _ := listenerRecvState(fresh.s)
		c.rep.Monitors["new-session-fresh(holds nothing but the creating datagram's segments)"]++
		allowed := map[uint32]bool{}
		for _, sn := range d.pushes {
			allowed[sn] = true
		}
		for _, g := range segs {
			if !allowed[g.sn] && !c.skipContent {
				c.violate("listener-conv-merged", fmt.Sprintf("fresh session %d starts with segment sn %d that its creating datagram does not carry", fresh.id, g.sn))
				return
			}
		}
		if nxt > 1 {
			c.violate("listener-conv-merged", fmt.Sprintf("fresh session %d starts with rcv_nxt %d", fresh.id, nxt))
			return
		}
	} else if q.qlen != p.snap.qlen {
		c.violate("listener-double-accept", fmt.Sprintf("accept queue length %d -> %d without a new session", p.snap.qlen, q.qlen))
		return
	}
	if cur != nil {
		in := c.info[cur]
		if wantGone && curDead && !room {
			// its Close is under way and nothing replaces it: the entry stays until that
			// Close reaches removeSession
			if q.tab[key] != cur {
				c.violate("listener-cross-session-effect", fmt.Sprintf("datagram conv %d sn 0 from %s with a full backlog removed the closing session", d.conv, key))
				return
			}
		} else if wantGone {
			in.replaced = true
			if q.tab[key] == cur || !cur.isClosed() {
				c.violate("listener-conv-merged", fmt.Sprintf("datagram conv %d sn 0 from %s: the session of conversation %d was not closed and removed", d.conv, key, cur.kcp.conv))
				return
			}
			if listenerNoX(p.dig[cur]) != listenerNoX(c.digest(cur)) {
				c.violate("listener-conv-merged", fmt.Sprintf("the first datagram of conversation %d changed the receive state of the closed session of conversation %d", d.conv, cur.kcp.conv))
				return
			}
		} else if q.tab[key] != cur || cur.isClosed() != curDead {
			c.violate("listener-cross-session-effect", fmt.Sprintf("datagram %s conv %d sn %d from %s removed or closed the live session (conv %d) of that address", d.class, d.conv, d.sn, key, cur.kcp.conv))
			return
		}
		// a datagram of ANOTHER conversation never reaches the stream of this one
		c.rep.Monitors["different-conv-never-merged(receive state of the old session unchanged)"]++
		if d.ok && d.readable && d.conv != cur.kcp.conv && listenerNoX(p.dig[cur]) != listenerNoX(c.digest(cur)) {
			c.violate("listener-conv-merged", fmt.Sprintf("datagram of conversation %d (sn %d) changed the receive state of the session of conversation %d at %s", d.conv, d.sn, cur.kcp.conv, key))
			return
		}
	}
	if untouched {
		c.rep.Monitors["dropped-datagram-no-state(table, queue, every session unchanged)"]++
		if len(changed) > 0 || dIn != 0 || len(q.tab) != len(p.snap.tab) || q.qlen != p.snap.qlen {
			k := "listener-cross-session-effect"
			if !d.ok {
				k = "listener-forged-effect"
			}
			c.violate(k, fmt.Sprintf("datagram %s (gate ok=%t conv %d sn %d) from %s had to be dropped without effect; changed sessions %v, fed %d", d.class, d.ok, d.conv, d.sn, key, changed, dIn))
			return
		}
		if cur == nil && d.ok && d.readable && !room {
			c.fullDrops++
		}
	}
	// boundary B3: a parity (or unreadable FEC) packet that does not belong to the live
	// conversation is handed to that session's FEC decoder; what reconstruction then makes of
	// it is property C16's subject - the content oracle does not speak about such a session
	if live := q.tab[key]; live != nil && d.ok &&
		((!d.readable && (d.class == "parity" || d.class == "fecshort") && d.pconv != live.kcp.conv) ||
			(d.class == "fecdata-hand" && d.conv == live.kcp.conv)) {
		if in := c.info[live]; !in.tainted {
			in.tainted = true
			c.rep.Distribution["event:B3-foreign-parity-fed-to-session"]++
		}
	}
	// bookkeeping for the stream oracle: the segments the session now living at key was sent
	if live := q.tab[key]; live != nil && d.ok && d.readable && d.conv == live.kcp.conv {
		in := c.info[live]
		for _, sn := range d.pushes {
			in.sent[sn] = true
		}
		c.feeds++
	}
	if live := q.tab[key]; live != nil {
		c.checkContent(c.info[live], "after a datagram from its address")
	}
	if n := len(q.tab); n > c.maxLive {
		c.maxLive = n
	}
}

func (c *listenerCase) accept() {
	if c.bad || c.lclosed || len(c.l.chAccepts) == 0 {
		return // (after Listener.Close, AcceptKCP may legitimately report the closed listener)
	}
	c.calls++
	c.rep.Steps++
	c.rep.Distribution["op:accept"]++
	p := c.pre()
	c.trace = append(c.trace, "A")
	c.lg.printf("A\n")
	s, err := c.l.AcceptKCP()
	if err != nil {
		c.violate("listener-missed-accept", "AcceptKCP failed although the backlog holds a session: "+err.Error())
		return
	}
	in := c.info[s]
	c.rep.Monitors["accept-order(each session handed out once, in creation order)"]++
	if in == nil {
		c.violate("listener-double-accept", "Accept returned a session that was never seen in the table")
		return
	}
	if in.accepted {
		c.violate("listener-double-accept", fmt.Sprintf("session %d handed out twice by Accept", in.id))
		return
	}
	for _, o := range c.byID {
		if !o.accepted && o.id < in.id {
			c.violate("listener-double-accept", fmt.Sprintf("Accept returned session %d before the older session %d", in.id, o.id))
			return
		}
	}
	in.accepted = true
	c.accOrder = append(c.accOrder, in.id)
	if s.fecEncoder != nil {
		s.SetOOBHandler(func(b []byte) {
			in.oobMu.Lock()
			in.oobGot = append(in.oobGot, append([]byte(nil), b...))
			in.oobMu.Unlock()
		})
	}
	q := c.snap()
	c.lg.printf("R %s acc=%d:%d\n", c.stateLine(q), in.addrIdx, in.id)
	for s2 := range c.info {
		if p.dig[s2] != c.digest(s2) || p.inTab[s2] != (q.tab[c.info[s2].key] == s2) {
			c.violate("listener-cross-session-effect", fmt.Sprintf("Accept changed session %d", c.info[s2].id))
			return
		}
	}
}

// server-side Close of a session (any session the harness knows, accepted or not)
func (c *listenerCase) closeSess(in *listenerInfo) {
	if c.bad || c.parked[in.s] != nil {
		return
	}
	c.calls++
	c.rep.Steps++
	c.rep.Distribution["op:close-session"]++
	p := c.pre()
	c.trace = append(c.trace, fmt.Sprintf("X %d", in.id))
	c.lg.printf("X %d\n", in.id)
	in.s.Close()
	in.closedByApp = true
	q := c.snap()
	c.lg.printf("R %s\n", c.stateLine(q))
	c.rep.Monitors["close-affects-only-that-session"]++
	for s2, o := range c.info {
		if s2 == in.s {
			continue
		}
		if p.dig[s2] != c.digest(s2) || p.inTab[s2] != (q.tab[o.key] == s2) {
			c.violate("listener-cross-session-effect", fmt.Sprintf("Close of session %d (addr %s conv %d) changed session %d (addr %s conv %d)", in.id, in.key, in.conv, o.id, o.key, o.conv))
			return
		}
	}
	if q.tab[in.key] == in.s {
		c.violate("listener-cross-session-effect", fmt.Sprintf("closed session %d is still in the table", in.id))
	}
}

// step 1 of an application Close: `die` closed, the rest parked behind s.mu
func (c *listenerCase) closeBegin(in *listenerInfo) {
	if c.bad || c.parked[in.s] != nil || in.s.isClosed() {
		return
	}
	c.calls++
	c.rep.Steps++
	c.rep.Distribution["op:close-begin(parked before removeSession)"]++
	p := c.pre()
	c.trace = append(c.trace, fmt.Sprintf("XB %d", in.id))
	c.lg.printf("XB %d\n", in.id)
	in.s.mu.Lock()
	pk := &listenerParked{in: in, done: make(chan struct{})}
	c.parked[in.s] = pk
	go func() { in.s.Close(); close(pk.done) }()
	for i := 0; i < 20000 && !in.s.isClosed(); i++ {
		time.Sleep(100 * time.Microsecond)
	}
	if !in.s.isClosed() {
		c.violate("listener-harness", "a parked Close did not close die within 2 s")
		return
	}
	in.closedByApp = true
	q := c.snap()
	c.lg.printf("R %s\n", c.stateLine(q))
	for s2, o := range c.info {
		if s2 == in.s {
			continue
		}
		if p.dig[s2] != c.digest(s2) || p.inTab[s2] != (q.tab[o.key] == s2) {
			c.violate("listener-cross-session-effect", fmt.Sprintf("the first step of Close of session %d changed session %d", in.id, o.id))
			return
		}
	}
	if p.inTab[in.s] != (q.tab[in.key] == in.s) {
		c.violate("listener-cross-session-effect", "the first step of Close changed the table")
	}
}

// step 2: the parked Close goes on - flush, Listener.removeSession
func (c *listenerCase) closeEnd(in *listenerInfo) {
	pk := c.parked[in.s]
	if pk == nil {
		return
	}
	c.calls++
	c.rep.Steps++
	c.rep.Distribution["op:close-end(removeSession)"]++
	p := c.pre()
	c.trace = append(c.trace, fmt.Sprintf("XE %d", in.id))
	c.lg.printf("XE %d\n", in.id)
	delete(c.parked, in.s)
	in.s.mu.Unlock()
	select {
	case <-pk.done:
	case <-time.After(20 * time.Second):
		c.violate("listener-harness", "a released Close did not return within 20 s")
		return
	}
	q := c.snap()
	c.lg.printf("R %s\n", c.stateLine(q))
	c.rep.Monitors["close-removes-only-itself(a session that replaced it keeps its table entry)"]++
	for s2, o := range c.info {
		if s2 == in.s {
			continue
		}
		if p.inTab[s2] != (q.tab[o.key] == s2) {
			c.violate("listener-close-race-evicts-successor", fmt.Sprintf("Close of session %d (addr %s conv %d), completing late, changed the table entry of session %d (addr %s conv %d)", in.id, in.key, in.conv, o.id, o.key, o.conv))
			return
		}
		if p.dig[s2] != c.digest(s2) {
			c.violate("listener-cross-session-effect", fmt.Sprintf("Close of session %d changed session %d", in.id, o.id))
			return
		}
	}
	if q.tab[in.key] == in.s {
		c.violate("listener-cross-session-effect", fmt.Sprintf("closed session %d is still in the table", in.id))
	}
}

func (c *listenerCase) closeListener() {
	if c.bad || c.lclosed {
		return
	}
	c.calls++
	c.rep.Steps++
	c.rep.Distribution["op:close-listener"]++
	c.lclosed = true
	p := c.pre()
	c.trace = append(c.trace, "L")
	c.lg.printf("L\n")
	c.l.Close()
	q := c.snap()
	c.lg.printf("R %s\n", c.stateLine(q))
	// Listener.Close closes exactly the sessions nobody accepted; accepted ones are untouched
	c.rep.Monitors["listener-close(closes the queued sessions only)"]++
	if q.qlen != 0 {
		c.violate("listener-missed-accept", fmt.Sprintf("Listener.Close left %d sessions in the backlog", q.qlen))
		return
	}
	for _, in := range c.byID {
		if in.accepted {
			if p.dig[in.s] != c.digest(in.s) || p.inTab[in.s] != (q.tab[in.key] == in.s) {
				c.violate("listener-cross-session-effect", fmt.Sprintf("Listener.Close changed the accepted session %d", in.id))
				return
			}
			continue
		}
		in.accepted = true // it left the queue
		c.accOrder = append(c.accOrder, in.id)
		if !in.s.isClosed() || (q.tab[in.key] == in.s && c.parked[in.s] == nil) {
			c.violate("listener-missed-accept", fmt.Sprintf("Listener.Close left the queued session %d open or in the table", in.id))
			return
		}
	}
}

func listenerDrain(s *UDPSession) [][]byte {
	var out [][]byte
	buf := make([]byte, 4096)
	for i := 0; i < 200; i++ {
		s.mu.Lock()
		n := s.kcp.PeekSize()
		s.mu.Unlock()
		if n <= 0 {
			break
		}
		s.SetReadDeadline(time.Now().Add(5 * time.Second))
		m, err := s.Read(buf)
		if err != nil {
			break
		}
		out = append(out, append([]byte(nil), buf[:m]...))
	}
	return out
}

func (c *listenerCase) finish() {
	defer c.teardown()
	if !c.bad {
		var pk []*listenerInfo
		for _, k := range c.parked {
			pk = append(pk, k.in)
		}
		sort.Slice(pk, func(i, j int) bool { return pk[i].id < pk[j].id })
		for _, in := range pk {
			c.closeEnd(in)
		}
	}
	if c.bad {
		c.lg.printf("E abort\n")
		return
	}
	// per-session record of the FEC-typed payloads it was fed, and the sns it holds
	q := c.snap()
	for _, in := range c.byID {
		if q.tab[in.key] != in.s {
			continue
		}
		_, nxt, segs, _, _, _ := listenerRecvState(in.s)
		var sns []string
		for _, g := range segs {
			sns = append(sns, fmt.Sprint(g.sn))
		}
		fs := listenerFecSamples(in.s)
		if len(fs) >= maxAutoTuneSamples {
			fs = []string{"overflow"}
		}
		c.lg.printf("T %d %d nxt=%d fec=%s sns=%s\n", in.id, in.conv, nxt, listenerJoin(fs), listenerJoin(sns))
	}
	// the stream each live session delivers = what its own peer wrote
	for _, in := range c.byID {
		if q.tab[in.key] != in.s || in.s.isClosed() || c.skipContent || in.tainted {
			continue
		}
		c.checkContent(in, "end of case")
		msgs := listenerDrain(in.s)
		c.rep.Monitors["delivered-stream(prefix of the own peer's stream, at least every contiguous segment sent to it)"]++
		for i, m := range msgs {
			if !bytes.Equal(m, listenerContent(in.key, in.conv, uint32(i))) {
				c.violate("listener-conv-merged", fmt.Sprintf("session %d (addr %s conv %d): message %d read from it is not what its peer wrote", in.id, in.key, in.conv, i))
				break
			}
		}
		need := 0
		for in.sent[uint32(need)] {
			need++
		}
		if len(msgs) < need {
			c.violate("listener-cross-session-effect", fmt.Sprintf("session %d (addr %s conv %d) was sent segments 0..%d by its own peer while live but delivers only %d messages", in.id, in.key, in.conv, need-1, len(msgs)))
		}
		// OOB payloads seen by the handler were sent from this address
		in.oobMu.Lock()
		for _, b := range in.oobGot {
			c.rep.Monitors["oob-from-own-address-only"]++
			if !c.oobSent[in.key+"|"+string(b)] {
				c.violate("listener-cross-session-effect", fmt.Sprintf("session %d received an OOB payload that was not sent from its address", in.id))
				break
			}
		}
		in.oobMu.Unlock()
	}
	// the queue: everything created and not yet accepted, in creation order
	var rest []string
	n := len(c.l.chAccepts)
	for i := 0; i < n; i++ {
		s := <-c.l.chAccepts
		in := c.info[s]
		if in == nil || in.accepted {
			c.violate("listener-double-accept", "the backlog holds an unknown or already accepted session")
			break
		}
		in.accepted = true
		c.accOrder = append(c.accOrder, in.id)
		rest = append(rest, fmt.Sprintf("%d:%d", in.addrIdx, in.id))
	}
	for i, id := range c.accOrder {
		if id != i {
			c.violate("listener-missed-accept", fmt.Sprintf("sessions were handed out in order %v: not every created session exactly once in creation order", c.accOrder))
			break
		}
	}
	if len(c.accOrder) != len(c.byID) {
		c.violate("listener-missed-accept", fmt.Sprintf("%d sessions created, %d handed out by Accept/backlog", len(c.byID), len(c.accOrder)))
	}
	c.lg.printf("E q=%s\n", listenerJoin(rest))
	if c.resets > 0 && c.foreignDrops > 0 && c.maxLive >= 2 {
		c.rep.Nontrivial++
	}
	c.rep.Distribution["event:conversation-reset"] += c.resets
	c.rep.Distribution["event:foreign-conv-dropped"] += c.foreignDrops
	c.rep.Distribution["event:new-peer-dropped-backlog-full"] += c.fullDrops
	c.rep.Distribution["event:datagram-for-live-conversation"] += c.feeds
	c.rep.Distribution["sessions-created"] += len(c.byID)
	if c.name == "random" {
		c.rep.sample(map[string]any{"case": c.id, "kind": c.name, "block": c.blockName, "fec": fmt.Sprintf("%d/%d", c.ds, c.ps),
			"via_monitor": c.via, "calls": c.calls, "sessions_created": len(c.byID), "conversation_resets": c.resets,
			"foreign_conv_dropped": c.foreignDrops, "max_live_sessions": c.maxLive, "first_ops": c.trace[:min(len(c.trace), 6)]})
	}
}

// a digest without its closed flag
func listenerNoX(d string) string {
	return strings.Replace(strings.Replace(d, " xtrue", "", 1), " xfalse", "", 1)
}

func listenerJoin(xs []string) string {
	if len(xs) == 0 {
		return "-"
	}
	return strings.Join(xs, ",")
}

func (c *listenerCase) teardown() {
	for s, k := range c.parked {
		delete(c.parked, s)
		s.mu.Unlock()
		<-k.done
	}
	for s := range c.info {
		s.Close()
	}
	// sessions that may sit in the backlog unseen
	for {
		select {
		case s := <-c.l.chAccepts:
			s.Close()
			continue
		default:
		}
		break
	}
	c.l.Close()
	c.conn.Close()
}

// ---------------------------------------------------------------------------------------------
// model peers

type listenerPeer struct {
	idx     int
	conv    uint32
	old     []uint32
	fec     bool
	ds, ps  int
	enc     map[uint32]*fecEncoder
	nextSn  map[uint32]uint32
	stale   []listenerDg
	parity  []listenerDg
	nextSeq uint32
}

func (c *listenerCase) newPeer(idx int) *listenerPeer {
	p := &listenerPeer{idx: idx, enc: map[uint32]*fecEncoder{}, nextSn: map[uint32]uint32{}}
	p.conv = 1000 + uint32(c.rng.intn(6)) // few values: different addresses often share a conv
	if c.rng.chance(50) {
		// the peer's FEC parameters are those of the listener's decoder (a listener without FEC
		// creates a 1/1 decoder on the first FEC packet); mismatching parameters are property
		// C16 / boundary B5
		p.fec = true
		p.ds, p.ps = 1, 1
		if c.ds > 0 {
			p.ds, p.ps = c.ds, c.ps
		}
	}
	return p
}

// one PUSH of conversation conv, sequence number sn, carrying the peer's content, packaged the
// way this peer packages (raw or FEC data + the parity the encoder emits)
func (c *listenerCase) push(p *listenerPeer, conv, sn uint32, extraForeign bool) []listenerDg {
	key := c.key(p.idx)
	seg := c.seg(conv, 81, sn, listenerContent(key, conv, sn))
	pushes := []uint32{sn}
	if extraForeign {
		// a second segment of ANOTHER conversation in the same datagram
		seg = append(seg, c.seg(conv+77, 81, listenerU32(c.rng), []byte("foreign-conversation-bytes"))...)
	}
	if !p.fec {
		return []listenerDg{c.good(p.idx, "raw", seg, true, conv, sn, pushes)}
	}
	enc := p.enc[conv]
	if enc == nil {
		enc = newFECEncoder(p.ds, p.ps, 0)
		// the encoder of a long-lived sender: its seqid starts anywhere (group aligned)
		ss := uint32(p.ds + p.ps)
		enc.next = (listenerU32(c.rng) % enc.paws) / ss * ss
		p.enc[conv] = enc
	}
	buf := make([]byte, 8+len(seg))
	copy(buf[8:], seg)
	ps := enc.encode(buf, 1<<30)
	out := []listenerDg{c.good(p.idx, "fecdata", buf, true, conv, sn, pushes)}
	for _, par := range ps {
		d := c.good(p.idx, "parity", append([]byte(nil), par...), false, 0, 0, nil)
		d.pconv = conv
		p.parity = append(p.parity, d)
		out = append(out, d)
	}
	return out
}

func (c *listenerCase) remember(p *listenerPeer, ds []listenerDg) {
	for _, d := range ds {
		if len(p.stale) < 64 {
			p.stale = append(p.stale, d)
		}
	}
}

func (c *listenerCase) sendAll(ds []listenerDg) {
	for _, d := range ds {
		c.pkt(d)
	}
}

// the random interleaving scenario
func listenerRandomCase(t *testing.T, id int, lg *vlog, rep *vreport, rng *vrng, steps int) {
	blockName := []string{"nil", "nil", "none", "aes", "aesgcm"}[rng.intn(5)]
	fecs := [][2]int{{0, 0}, {0, 0}, {2, 1}, {3, 2}}
	f := fecs[rng.intn(len(fecs))]
	npeers := 2 + rng.intn(7)
	natt := 2
	c := newListenerCase(t, id, "random", lg, rep, rng, blockName, f[0], f[1], rng.chance(50), npeers+natt)
	defer c.finish()
	rep.Distribution[fmt.Sprintf("peers:%d", npeers)]++
	peers := make([]*listenerPeer, npeers)
	for i := range peers {
		peers[i] = c.newPeer(i)
	}
	maxSn := uint32(20)
	for st := 0; st < steps && !c.bad; st++ {
		p := peers[rng.intn(npeers)]
		r := rng.intn(100)
		switch {
		case r < 42: // the peer's next / an earlier / a later segment
			sn := p.nextSn[p.conv]
			switch {
			case rng.chance(15) && sn > 0:
				sn = uint32(rng.intn(int(sn))) // duplicate
			case rng.chance(15):
				sn += uint32(1 + rng.intn(3)) // out of order
			}
			if sn >= maxSn {
				sn = uint32(rng.intn(int(maxSn)))
			}
			if sn == p.nextSn[p.conv] {
				p.nextSn[p.conv]++
			}
			if rng.chance(6) { // far outside the receive window: the core drops it
				sn = listenerSnNonzero(rng)
			}
			ds := c.push(p, p.conv, sn, rng.chance(4))
			if rng.chance(25) && len(ds) > 1 { // lose the data packet, keep the parity
				ds = ds[1:]
			}
			c.remember(p, ds)
			c.sendAll(ds)
		case r < 48: // a stale parity packet (this or an earlier conversation of this address)
			if len(p.parity) > 0 {
				c.pkt(p.parity[rng.intn(len(p.parity))])
			} else {
				c.pkt(c.good(p.idx, "parity", listenerFEC(listenerU32(rng), 0xf2, rng.bytes(6+rng.intn(60)), false), false, 0, 0, nil))
			}
		case r < 54: // OOB, own or another conversation
			conv := p.conv
			if rng.chance(30) {
				conv = p.conv + 1 + uint32(rng.intn(3))
			}
			pl := rng.bytes([]int{0, 1, 7, 40}[rng.intn(4)])
			c.oobSent[c.key(p.idx)+"|"+string(pl)] = true
			c.pkt(c.good(p.idx, "oob", listenerOOBx(listenerU32(rng), uint16(listenerU32(rng)), conv, pl), true, conv, 0, nil))
		case r < 61: // reconnect: same address, new conversation
			p.old = append(p.old, p.conv)
			p.conv = 2000 + uint32(rng.intn(1000))
			if rng.chance(8) {
				p.conv = listenerU32(rng)
			}
			if rng.chance(35) { // a later packet of the new conversation overtakes its first one
				ds := c.push(p, p.conv, listenerSnNonzero(rng), false)
				c.remember(p, ds)
				c.sendAll(ds)
			}
			if rng.chance(70) {
				p.nextSn[p.conv] = 1
				ds := c.push(p, p.conv, 0, false)
				c.remember(p, ds)
				c.sendAll(ds)
			}
		case r < 67: // stale: replay of an earlier datagram of this address
			if len(p.stale) > 0 {
				d := p.stale[rng.intn(len(p.stale))]
				d.wire = c.sealWith(c.block, d.payload)
				c.pkt(d)
			}
		case r < 74: // junk
			switch rng.intn(6) {
			case 4, 5: // a 24+ byte datagram with ANY cmd / frg bytes that is not one of the three
				// FEC type words (e.g. f1 01, 00 f1): by the layout a packet without FEC, conv at 0
				cmd, frg := byte(rng.intn(256)), byte(rng.intn(256))
				if rng.chance(50) {
					cmd = []byte{0xf1, 0xf2, 0xf3}[rng.intn(3)]
				}
				if rng.chance(20) {
					cmd, frg = 0, []byte{0xf1, 0xf2, 0xf3}[rng.intn(3)]
				}
				if (cmd == 0xf1 || cmd == 0xf2 || cmd == 0xf3) && frg == 0 {
					frg = byte(1 + rng.intn(255))
				}
				conv := p.conv
				if rng.chance(40) {
					conv = p.conv + 1 + uint32(rng.intn(3))
				}
				sn := uint32(0)
				if rng.chance(50) {
					sn = listenerSnNonzero(rng)
				}
				b := listenerSeg(conv, cmd, frg, uint16(listenerU32(rng)), listenerU32(rng), sn, listenerU32(rng), rng.bytes(rng.intn(30)))
				if cmd >= 81 && cmd <= 84 { // a well-formed command after all: keep the core out of it
					binary.LittleEndian.PutUint32(b[20:], 0xfffffff0) // impossible length: the core rejects it
				}
				c.pkt(c.good(p.idx, "raw-oddcmd", b, true, conv, sn, nil))
			case 0: // shorter than any header
				b := rng.bytes(rng.intn(12))
				if c.block == nil {
					c.pkt(c.good(p.idx, "short", b, false, 0, 0, nil))
				} else {
					c.pkt(c.good(p.idx, "short", b, false, 0, 0, nil))
				}
			case 1: // 12..23 bytes, not an FEC type: too short for a segment header
				b := rng.bytes(12 + rng.intn(12))
				b[4], b[5] = 81, 0
				c.pkt(c.good(p.idx, "shortraw", b, false, 0, 0, nil))
			case 2: // FEC data type, too short to hold a segment header
				c.pkt(c.good(p.idx, "fecshort", listenerFEC(listenerU32(rng), 0xf1, rng.bytes(4+rng.intn(20)), true), false, 0, 0, nil))
			default:
				if c.block != nil {
					c.pkt(c.badGate(p.idx, c.seg(p.conv, 81, uint32(rng.intn(4)), []byte("forged"))))
				}
			}
		case r < 83: // another address using this peer's conversation id
			from := npeers + rng.intn(natt)
			if rng.chance(50) {
				from = rng.intn(npeers)
			}
			sn := uint32(rng.intn(4))
			if rng.chance(40) {
				sn = listenerSnNonzero(rng)
			}
			if c.block != nil && rng.chance(30) {
				c.pkt(c.badGate(from, c.seg(p.conv, 81, sn, listenerContent(c.key(from), p.conv, sn))))
			} else {
				c.pkt(c.pushFrom(from, p.conv, sn))
			}
		case r < 85: // a bare ACK / window probe, of the peer's or of another conversation
			cmd := []byte{82, 83, 84}[rng.intn(3)]
			sn := uint32(rng.intn(3))
			if rng.chance(50) {
				sn = listenerU32(rng)
			}
			conv := p.conv
			if rng.chance(30) {
				conv = p.conv + 1 + uint32(rng.intn(3))
			}
			d := c.good(p.idx, "raw-ctl", c.seg(conv, cmd, sn, nil), true, conv, sn, nil)
			if rng.chance(40) {
				d = c.fecHand(p.idx, conv, sn, c.seg(conv, cmd, sn, nil))
				d.pushes = nil
			}
			c.pkt(d)
		case r < 94:
			c.accept()
		case r < 99: // server-side close of a live session (boundary B9: the peer is then "new")
			var live, parked []*listenerInfo
			q := c.snap()
			for _, in := range c.byID {
				if q.tab[in.key] == in.s && in.accepted && c.parked[in.s] == nil && !in.s.isClosed() {
					live = append(live, in)
				}
				if c.parked[in.s] != nil {
					parked = append(parked, in)
				}
			}
			switch {
			case len(parked) > 0 && rng.chance(40):
				c.closeEnd(parked[rng.intn(len(parked))])
			case len(live) > 0 && rng.chance(50): // Close in two steps, other events in between
				in := live[rng.intn(len(live))]
				c.closeBegin(in)
				if rng.chance(60) { // the peer reconnects while the Close is parked
					for _, pp := range peers {
						if c.key(pp.idx) == in.key {
							pp.old = append(pp.old, pp.conv)
							pp.conv = 3000 + uint32(rng.intn(1000))
							pp.nextSn[pp.conv] = 1
							c.sendAll(c.push(pp, pp.conv, 0, false))
						}
					}
				}
			case len(live) > 0:
				c.closeSess(live[rng.intn(len(live))])
			}
		default:
			if st > steps/2 {
				c.closeListener()
			}
		}
	}
}

// backlog: more new peers than the accept queue holds
func listenerBacklogCase(t *testing.T, id int, lg *vlog, rep *vreport, rng *vrng) {
	capq := acceptBacklog
	n := capq + 12
	c := newListenerCase(t, id, "backlog", lg, rep, rng, "nil", 0, 0, rng.chance(50), n+6)
	defer c.finish()
	first := func(i int, conv uint32) listenerDg {
		return c.pushFrom(i, conv, 0)
	}
	for i := 0; i < n; i++ {
		c.pkt(first(i, 7))
		if rng.chance(20) { // traffic of an already queued session while the queue fills
			j := rng.intn(i + 1)
			c.pkt(c.pushFrom(j, 7, 1))
		}
	}
	// full: a live address starting a new conversation loses its session and gets none
	c.pkt(first(3, 8))
	c.pkt(first(n, 7)) // still full
	// room appears one slot at a time
	for k := 0; k < 4; k++ {
		c.accept()
		c.pkt(first(n+1+k, 7)) // created
		c.pkt(first(n+5, 7))   // full again: dropped
	}
	c.accept()
	c.pkt(first(3, 8)) // address 3 is a new peer now
}

// every order of up to `depth` events on one address, next to a bystander
func listenerOrdersCases(t *testing.T, id *int, lg *vlog, rep *vreport, rng *vrng, depth int) {
	letters := []string{"c1.0", "c1.1", "c2.0", "c2.1", "oob1", "oob2", "par", "ack2.0", "close", "accept", "closeB", "closeE"}
	idx := make([]int, depth)
	for {
		*id++
		fec := [2]int{0, 0}
		if *id%2 == 0 {
			fec = [2]int{2, 1} // OOB handlers need FEC on the listener
		}
		c := newListenerCase(t, *id, "orders", lg, rep, rng, "nil", fec[0], fec[1], false, 2)
		const A, B = 0, 1
		mk := func(conv, sn uint32) listenerDg {
			if sn != 0 { // "a later packet": any sequence number but 0
				sn = listenerSnNonzero(rng)
			}
			return c.pushFrom(A, conv, sn)
		}
		// the bystander: accepted, holding one delivered and one out-of-order segment
		c.pkt(c.good(B, "raw", c.seg(11, 81, 0, listenerContent(c.key(B), 11, 0)), true, 11, 0, []uint32{0}))
		c.pkt(c.good(B, "raw", c.seg(11, 81, 2, listenerContent(c.key(B), 11, 2)), true, 11, 2, []uint32{2}))
		c.accept()
		for _, k := range idx {
			switch letters[k] {
			case "c1.0":
				c.pkt(mk(11, 0)) // the bystander's conv id, on purpose
			case "c1.1":
				c.pkt(mk(11, 1))
			case "c2.0":
				c.pkt(mk(12, 0))
			case "c2.1":
				c.pkt(mk(12, 1))
			case "oob1":
				c.oobSent[c.key(A)+"|x"] = true
				c.pkt(c.good(A, "oob", listenerOOBx(listenerU32(rng), uint16(listenerU32(rng)), 11, []byte("x")), true, 11, 0, nil))
			case "oob2":
				c.oobSent[c.key(A)+"|y"] = true
				c.pkt(c.good(A, "oob", listenerOOBx(listenerU32(rng), uint16(listenerU32(rng)), 12, []byte("y")), true, 12, 0, nil))
			case "par":
				c.pkt(c.good(A, "parity", listenerFEC(listenerU32(rng), 0xf2, rng.bytes(6+rng.intn(60)), false), false, 0, 0, nil))
			case "ack2.0":
				d := c.good(A, "raw-ctl", c.seg(12, 82, 0, nil), true, 12, 0, nil)
				if rng.chance(50) {
					d = c.fecHand(A, 12, 0, c.seg(12, 82, 0, nil))
					d.pushes = nil
				}
				c.pkt(d)
			case "close":
				if s := c.snap().tab[c.key(A)]; s != nil {
					c.closeSess(c.info[s])
				}
			case "accept":
				c.accept()
			case "closeB":
				if s := c.snap().tab[c.key(A)]; s != nil {
					c.closeBegin(c.info[s])
				}
			case "closeE":
				for _, k := range c.parked {
					c.closeEnd(k.in)
				}
			}
		}
		c.finish()
		k := depth - 1
		for k >= 0 {
			idx[k]++
			if idx[k] < len(letters) {
				break
			}
			idx[k] = 0
			k--
		}
		if k < 0 {
			return
		}
	}
}

// real client sessions: their datagrams are captured, then delivered interleaved
func listenerRealClientsCase(t *testing.T, id int, lg *vlog, rep *vreport, rng *vrng) {
	blockName := []string{"nil", "aes", "none"}[rng.intn(3)]
	f := [][2]int{{0, 0}, {2, 1}, {2, 1}}[rng.intn(3)]
	nc := 3 + rng.intn(4)
	c := newListenerCase(t, id, "real-clients", lg, rep, rng, blockName, f[0], f[1], true, nc)
	c.skipContent = true
	type cl struct {
		mu     sync.Mutex
		dgrams [][]byte
		wrote  []byte
	}
	// The clients' clocks: a client process that has been up for an arbitrary time.  The
	// segment timestamps are currentMs() = time since the package variable refTime.
	oldRef := refTime
	shift := time.Duration(listenerU32(rng)) * time.Millisecond
	refTime = time.Now().Add(-shift)
	rep.Distribution["real-client-clock:"+map[bool]string{true: ">=65.536s", false: "<65.536s"}[shift >= 65536*time.Millisecond]]++
	// one or two generations per address: a client, and (restart on the same local address)
	// a second client with another conversation id
	gens := make([][]*cl, nc)
	for i := range gens {
		ng := 1 + rng.intn(2)
		for g := 0; g < ng; g++ {
			k := &cl{}
			conn := newListenerConn(c.key(i))
			conn.sink = func(b []byte, to net.Addr) {
				k.mu.Lock()
				k.dgrams = append(k.dgrams, b)
				k.mu.Unlock()
			}
			s, err := NewConn4(uint32(500+i%2+10*g), listenerAddr{"server"}, c.block, f[0], f[1], false, conn)
			if err != nil {
				refTime = oldRef
				t.Fatal(err)
			}
			s.SetNoDelay(1, 10, 2, 1)
			s.SetStreamMode(true)
			k.wrote = rng.bytes(200 + rng.intn(3000))
			s.Write(k.wrote)
			time.Sleep(60 * time.Millisecond)
			s.Close()
			conn.Close()
			gens[i] = append(gens[i], k)
		}
	}
	time.Sleep(20 * time.Millisecond)
	refTime = oldRef
	// deliver: generation by generation; within one, the clients interleaved at random, each
	// client's datagrams in the order it sent them, with duplicates
	for g := 0; g < 2 && !c.bad; g++ {
		pos := make([]int, nc)
		for {
			var av []int
			for i := range gens {
				if g < len(gens[i]) && pos[i] < len(gens[i][g].dgrams) {
					av = append(av, i)
				}
			}
			if len(av) == 0 || c.bad {
				break
			}
			i := av[rng.intn(len(av))]
			w := gens[i][g].dgrams[pos[i]]
			if !rng.chance(10) {
				pos[i]++
			}
			pl := listenerOpen(c.block, w)
			if pl == nil {
				c.violate("listener-harness", "a captured client datagram does not pass the harness's own gate")
				break
			}
			d := listenerDg{from: i, wire: w, ok: true, payload: pl, class: "real-client"}
			// classification for the monitors, from the wire layout
			typ := binary.LittleEndian.Uint16(pl[4:])
			switch {
			case typ == 0xf1 && len(pl) >= 32:
				d.readable, d.conv, d.sn = true, binary.LittleEndian.Uint32(pl[8:]), binary.LittleEndian.Uint32(pl[20:])
			case typ == 0xf1 || typ == 0xf2:
			case len(pl) >= 24:
				d.readable, d.conv, d.sn = true, binary.LittleEndian.Uint32(pl), binary.LittleEndian.Uint32(pl[12:])
			}
			c.pkt(d)
		}
	}
	// what each server session delivers is exactly what the LAST client of its address wrote
	q := c.snap()
	for i := range gens {
		k := gens[i][len(gens[i])-1]
		s := q.tab[c.key(i)]
		rep.Monitors["real-client-stream(server session reads exactly what its (restarted) client wrote)"]++
		if c.bad {
			break
		}
		if s == nil {
			c.violate("listener-missed-accept", fmt.Sprintf("client %d sent %d datagrams but has no session", i, len(k.dgrams)))
			continue
		}
		if want := uint32(500 + i%2 + 10*(len(gens[i])-1)); s.kcp.conv != want {
			c.violate("listener-missed-accept", fmt.Sprintf("client %d restarted with conversation %d (all its datagrams delivered) but the server still holds the session of conversation %d", i, want, s.kcp.conv))
			continue
		}
		var got []byte
		for _, m := range listenerDrain(s) {
			got = append(got, m...)
		}
		if !bytes.HasPrefix(k.wrote, got) {
			c.violate("listener-conv-merged", fmt.Sprintf("client %d: the server session delivers bytes the client did not write", i))
		} else if len(got) != len(k.wrote) {
			c.violate("listener-cross-session-effect", fmt.Sprintf("client %d: every datagram was delivered at least once but the server session delivers %d of %d bytes", i, len(got), len(k.wrote)))
		}
	}
	c.finish()
}

// the harness's own gate (to obtain the plaintext of captured datagrams)
func listenerOpen(block BlockCrypt, w []byte) []byte {
	switch b := block.(type) {
	case nil:
		return append([]byte(nil), w...)
	case *aeadCrypt:
		ns := b.NonceSize()
		if len(w) < ns+b.Overhead() {
			return nil
		}
		pl, err := b.Open(nil, w[:ns], w[ns:], nil)
		if err != nil {
			return nil
		}
		return pl
	default:
		if len(w) < 20 {
			return nil
		}
		d := make([]byte, len(w))
		block.Decrypt(d, w)
		if crc32.ChecksumIEEE(d[20:]) != binary.LittleEndian.Uint32(d[16:]) {
			return nil
		}
		return d[20:]
	}
}

// ---------------------------------------------------------------------------------------------
// dialled sessions: the read loop's source filter, driven through the real readLoop

func listenerEncAddr(a net.Addr) string {
	if a == nil {
		return "N"
	}
	h := func(b []byte) string {
		if len(b) == 0 {
			return "-"
		}
		return fmt.Sprintf("%x", b)
	}
	if u, ok := a.(*net.UDPAddr); ok {
		return fmt.Sprintf("U:%s:%d:%s:%s", h(u.IP), u.Port, h([]byte(u.Zone)), h([]byte(u.String())))
	}
	return "O:" + h([]byte(a.String()))
}

// "comes from the peer's address", from the property text; -1 = cannot be told (an address
// of another type that prints the same)
func listenerSameSource(remote, from net.Addr) int {
	ru, rok := remote.(*net.UDPAddr)
	fu, fok := from.(*net.UDPAddr)
	switch {
	case rok && fok:
		if ru.IP.Equal(fu.IP) && ru.Port == fu.Port && ru.Zone == fu.Zone {
			return 1
		}
		return 0
	case rok != fok:
		if remote.String() == from.String() {
			return -1
		}
		return 0
	default:
		if remote.String() == from.String() {
			return 1
		}
		return 0
	}
}

func listenerDialledCases(t *testing.T, id *int, lg *vlog, rep *vreport, rng *vrng, rounds int) {
	pool := []net.Addr{
		&net.UDPAddr{IP: net.IPv4(10, 1, 1, 1), Port: 9000},
		&net.UDPAddr{IP: net.IP{10, 1, 1, 1}, Port: 9000},
		&net.UDPAddr{IP: net.IPv4(10, 1, 1, 1), Port: 9001},
		&net.UDPAddr{IP: net.IPv4(10, 1, 1, 2), Port: 9000},
		&net.UDPAddr{IP: net.ParseIP("fe80::1"), Port: 9000, Zone: "eth0"},
		&net.UDPAddr{IP: net.ParseIP("fe80::1"), Port: 9000, Zone: "eth1"},
		&net.UDPAddr{IP: net.ParseIP("fe80::1"), Port: 9000},
		&net.UDPAddr{IP: net.ParseIP("::ffff:10.1.1.1"), Port: 9000},
		&net.UDPAddr{IP: net.ParseIP("2001:db8::a01:101"), Port: 9000},
		// a session dialled to a wildcard address (":9000", "0.0.0.0:9000", "[::]:9000") does not thereby
		// accept every address that uses that port
		&net.UDPAddr{IP: nil, Port: 9000},
		&net.UDPAddr{IP: net.IPv4zero, Port: 9000},
		&net.UDPAddr{IP: net.IPv6unspecified, Port: 9000},
		listenerAddr{"10.1.1.1:9000"},
		listenerAddr{"[fe80::1%eth0]:9000"},
		listenerAddr{"peer-x"},
		listenerAddr{"peer-y"},
		listenerAddr{""},
	}
	remotes := append([]net.Addr{nil}, pool...)
	for round := 0; round < rounds; round++ {
		for _, remote := range remotes {
			*id++
			conn := newListenerConn("client")
			const conv = 4242
			s, err := NewConn4(conv, remote, nil, 0, 0, false, conn)
			if err != nil {
				t.Fatal(err)
			}
			if !conn.waitIdle() {
				t.Fatal("dialled session's read loop did not start")
			}
			rep.Cases++
			rep.Distribution["dialled-remote:"+strings.SplitN(listenerEncAddr(remote), ":", 2)[0]]++
			lg.printf("DC %d %s\n", *id, listenerEncAddr(remote))
			peer := remote
			var trace []string
			for k := 0; k < 24; k++ {
				from := pool[rng.intn(len(pool))]
				if rng.chance(30) && remote != nil {
					from = remote
				}
				in0 := atomic.LoadUint64(&DefaultSnmp.InPkts)
				seg := listenerSeg(conv, 81, 0, uint16(listenerU32(rng)), listenerU32(rng), uint32(k), listenerU32(rng), []byte{byte(k)})
				if !conn.deliver(seg, from) {
					rep.violate("dialled-stalled", "the dialled session's read loop did not come back within 20 s", map[string]any{"remote": listenerEncAddr(remote), "probes": trace})
					break
				}
				acc := atomic.LoadUint64(&DefaultSnmp.InPkts) - in0
				rep.Steps++
				trace = append(trace, fmt.Sprintf("%s->%d", listenerEncAddr(from), acc))
				lg.printf("DP %s %d\n", listenerEncAddr(from), acc)
				rep.Monitors["dialled-source-filter(no datagram from another address reaches packetInput)"]++
				if peer == nil { // no remote given: the first source becomes the peer
					if acc == 1 {
						peer = from
					}
					continue
				}
				if _, isO := peer.(listenerAddr); isO && peer.String() == "" {
					continue // an address printing as "" is treated as "not set" by the loop (model: remote_set)
				}
				if acc == 1 && listenerSameSource(peer, from) == 0 {
					rep.violate("dialled-accepted-foreign-source", fmt.Sprintf("session dialled to %s processed a datagram from %s", listenerEncAddr(peer), listenerEncAddr(from)),
						map[string]any{"remote": listenerEncAddr(remote), "probes": trace})
				}
				if acc == 0 && listenerSameSource(peer, from) == 1 {
					rep.violate("dialled-rejected-own-peer", fmt.Sprintf("session dialled to %s ignored a datagram from %s", listenerEncAddr(peer), listenerEncAddr(from)),
						map[string]any{"remote": listenerEncAddr(remote), "probes": trace})
				}
			}
			// what it holds came from the peer only: segment k carries byte k
			_, _, segs, _, _, _ := listenerRecvState(s)
			for _, g := range segs {
				if len(g.data) != 1 || uint32(g.data[0]) != g.sn {
					rep.violate("dialled-accepted-foreign-source", "the dialled session holds a segment no accepted probe carried", map[string]any{"probes": trace})
				}
			}
			s.Close()
			conn.Close()
		}
	}
}

// ---------------------------------------------------------------------------------------------
// Close of a replaced session racing with the datagram that replaces it.  UDPSession.Close
// marks the session dead, flushes under s.mu and only then calls Listener.closeSession; the
// harness parks Close between those two steps by holding s.mu (as the session's own update()
// or kcpInput may), which is a legal schedule of the real code.

func listenerCloseRaceCase(t *testing.T, rep *vreport) {
	conn := newListenerConn("server")
	l, err := serveConn(nil, 0, 0, conn, false)
	if err != nil {
		t.Fatal(err)
	}
	defer func() { l.Close(); conn.Close() }()
	rep.Cases++
	rep.Distribution["scenario:close-race"]++
	a := listenerAddr{"peer-a"}
	seg := func(conv, sn uint32) []byte {
		return listenerSeg(conv, 81, 0, 32, 0, sn, 0, listenerContent(a.String(), conv, sn))
	}
	steps := []string{"datagram conv=1 sn=0 from peer-a", "Accept -> s1", "hold s1.mu; go s1.Close() (parks after close(die), before closeSession)",
		"datagram conv=2 sn=0 from peer-a (reset: s1.Close() returns 'already closed', s2 created and stored under peer-a)",
		"release s1.mu: the parked Close calls closeSession(peer-a)", "Accept -> s2", "datagram conv=2 sn=1 from peer-a"}
	l.packetInput(seg(1, 0), a)
	if len(l.chAccepts) != 1 {
		rep.violate("listener-double-accept", fmt.Sprintf("close-race setup: the first datagram of a new peer queued %d sessions", len(l.chAccepts)), map[string]any{"steps": steps[:1]})
		return
	}
	s1, _ := l.AcceptKCP()
	s1.mu.Lock()
	done := make(chan struct{})
	go func() { s1.Close(); close(done) }()
	for i := 0; i < 5000 && !s1.isClosed(); i++ {
		time.Sleep(time.Millisecond)
	}
	if !s1.isClosed() {
		s1.mu.Unlock()
		rep.violate("listener-harness", "close-race: Close did not close die within 5 s", map[string]any{"steps": steps[:3]})
		return
	}
	pdone := make(chan struct{})
	go func() { l.packetInput(seg(2, 0), a); close(pdone) }()
	select {
	case <-pdone:
	case <-time.After(10 * time.Second):
		// it waits for the lock of the session of conversation 1: it is being dispatched there
		rep.violate("listener-conv-merged", "close-race: the first datagram of conversation 2 is dispatched to the (closing) session of conversation 1", map[string]any{"steps": steps[:4]})
		s1.mu.Unlock()
		<-pdone
		<-done
		return
	}
	s1.mu.Unlock()
	<-done
	var s2 *UDPSession
	if len(l.chAccepts) == 1 {
		s2, _ = l.AcceptKCP()
	}
	rep.Monitors["close-race(a session accepted and never closed stays reachable; its peer is accepted once)"]++
	if s2 == nil {
		rep.violate("listener-missed-accept", "close-race: the new conversation produced no session", map[string]any{"steps": steps})
		return
	}
	defer s2.Close()
	l.sessionLock.RLock()
	cur := l.sessions[a.String()]
	l.sessionLock.RUnlock()
	l.packetInput(seg(2, 1), a)
	var s3 *UDPSession
	if len(l.chAccepts) > 0 {
		s3, _ = l.AcceptKCP()
		defer s3.Close()
	}
	_, nxt, segs, _, _, _ := listenerRecvState(s2)
	got := map[uint32]bool{}
	for _, g := range segs {
		got[g.sn] = true
	}
	if cur != s2 || s3 != nil || !got[1] || s2.isClosed() {
		rep.violate("listener-close-race-evicts-successor",
			fmt.Sprintf("Close() of the replaced session (conv 1), completing after the reset, deleted the table entry of its successor (conv 2): "+
				"successor in table=%t, successor closed=%t, successor received its peer's sn 1=%t (rcv_nxt %d), a second session was accepted for the same peer and conversation=%t",
				cur == s2, s2.isClosed(), got[1], nxt, s3 != nil),
			map[string]any{"steps": steps, "patch": "Listener.closeSession should delete the map entry only if it still points to the session being closed"})
	}
}

// ---------------------------------------------------------------------------------------------

func TestVerifC11(t *testing.T) {
	rng := newRng(vSeed())
	lg := newVlog(t, "C11.log")
	rep := newReport("C11")
	defer func() {
		lg.close()
		rep.write(t, "C11.report.json")
		for _, v := range rep.Violations {
			t.Logf("violation %s: %s", v.Key, v.What)
		}
	}()
	nRandom, steps, depth, nReal, rounds := 200, 220, 3, 4, 2
	if vThorough() {
		nRandom, steps, depth, nReal, rounds = 1200, 400, 4, 40, 6
	}
	nRandom = vEnvInt("VERIF_C11_RANDOM", nRandom)
	depth = vEnvInt("VERIF_C11_DEPTH", depth)
	id := 0
	for i := 0; i < 2; i++ {
		id++
		listenerBacklogCase(t, id, lg, rep, rng)
	}
	listenerOrdersCases(t, &id, lg, rep, rng, depth)
	for i := 0; i < nReal; i++ {
		id++
		listenerRealClientsCase(t, id, lg, rep, rng)
	}
	for i := 0; i < nRandom; i++ {
		id++
		listenerRandomCase(t, id, lg, rep, rng, steps)
	}
	listenerDialledCases(t, &id, lg, rep, rng, rounds)
	listenerCloseRaceCase(t, rep)
	rep.Extra["orders_depth"] = depth
	rep.Extra["random_cases"] = nRandom
	rep.Extra["nontrivial_rule"] = "a listener case with >=1 conversation reset, >=1 dropped datagram of a foreign conversation and >=2 simultaneously live sessions"
}
