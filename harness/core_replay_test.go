//go:build verif

package kcp

import (
	"encoding/json"
	"os"
	"path/filepath"
	"sort"
	"strconv"
	"strings"
	"testing"
)

type coreReplay struct {
	Name string   `json:"name"`
	Cfg  coreCfg  `json:"cfg"`
	Ops  []string `json:"ops"`
}

// replayOps re-executes a recorded op list ("send e now hex", "input e now reg acknd hex", ...).
func replayOps(s *coreSim, ops []string) {
	for _, o := range ops {
		if s.dead {
			return
		}
		f := strings.Fields(o)
		e, _ := strconv.Atoi(f[1])
		now, _ := strconv.ParseUint(f[2], 10, 32)
		s.setNow(uint32(now))
		ai := func(i int) int { v, _ := strconv.Atoi(f[i]); return v }
		switch f[0] {
		case "send":
			s.Send(e, mustHex(f[3]))
		case "sendn": // send <e> <now> <n>: n bytes of a fixed pattern (compact form for hand-written replays)
			b := make([]byte, ai(3))
			for i := range b {
				b[i] = byte(i*31 + 7)
			}
			s.Send(e, b)
		case "recv":
			s.Recv(e, ai(3))
		case "input":
			s.Input(e, mustHex(f[5]), f[3] == "1", f[4] == "1")
		case "deliver": // deliver <to> <now> <k>: the k-th pending datagram of the peer, then forget it
			k := ai(3)
			if k < len(s.pend[1-e]) {
				s.deliver(e, k, true)
				s.dropPend(1-e, k)
			}
		case "dropall":
			s.pend[e] = nil
		case "heal": // heal <e> <now> <limit-ms> <0|1 update driver>: healed network, both sides driven, readers reading
			s.healAndCheck(uint32(ai(3)), ai(4) == 1)
		case "flush":
			s.Flush(e, ai(3) == int(IKCP_FLUSH_FULL))
		case "update":
			s.Update(e)
		case "check":
			s.Check(e)
		case "setmtu":
			s.SetMtu(e, ai(3))
		case "nodelay":
			s.NoDelay(e, ai(3), ai(4), ai(5), ai(6))
		case "wnd":
			s.WndSize(e, ai(3), ai(4))
		case "tx":
			s.SetTx(e, uint32(ai(3)))
		}
	}
}

func loadReplays(t *testing.T, prop string) []coreReplay {
	var out []coreReplay
	if p := os.Getenv("VERIF_REPLAY"); p != "" {
		b, err := os.ReadFile(p)
		if err != nil {
			t.Fatal(err)
		}
		var w struct {
			Replay coreReplay `json:"replay"`
		}
		if json.Unmarshal(b, &w) == nil && len(w.Replay.Ops) > 0 {
			w.Replay.Name = filepath.Base(p)
			return []coreReplay{w.Replay}
		}
		var r coreReplay
		if err := json.Unmarshal(b, &r); err != nil {
			t.Fatal(err)
		}
		return []coreReplay{r}
	}
	files, _ := filepath.Glob(filepath.Join(os.Getenv("VERIF_DIR"), "corpus", prop+"-*.json"))
	sort.Strings(files)
	for _, f := range files {
		b, err := os.ReadFile(f)
		if err != nil {
			continue
		}
		var r coreReplay
		if json.Unmarshal(b, &r) == nil && len(r.Ops) > 0 {
			r.Name = filepath.Base(f)
			out = append(out, r)
		}
	}
	return out
}

// runCorpus replays the stored minimised histories of a property first (logged like any case).
func runCorpus(t *testing.T, prop string, lg *vlog, rep *vreport) int {
	n := 0
	for _, r := range loadReplays(t, prop) {
		s := newCoreSim(r.Cfg, lg, rep)
		replayOps(s, r.Ops)
		if !s.dead {
			s.end()
		}
		s.mergeStats()
		rep.Distribution["corpus-case"]++
		n++
	}
	return n
}

func stdCfg(stream int, mtu int) coreCfg {
	return coreCfg{Conv: 7, Mtu: [2]int{mtu, mtu}, Snd: [2]int{32, 32}, Rcv: [2]int{32, 32}, Nodelay: [2]int{0, 0},
		Interval: [2]int{100, 100}, Resend: [2]int{0, 0}, Nc: [2]int{0, 0}, Stream: stream, Clock: 1000}
}
