//go:build verif

// C14 - race-detector stress harness (run with -race by checks/C14.py).
//
// Drives every non-deprecated public method of a client session, of the listener-accepted
// session and of the listener concurrently with traffic, over an in-memory net.PacketConn
// network (no sockets), under several cipher / FEC classes.  The monitor is the Go race
// detector itself: its "WARNING: DATA RACE" blocks are parsed by the check, which names the
// two thread roots and compares them with the generated access summary.  The harness only
// records which operations ran (so that "no race" is backed by counts).
package kcp

import (
	"bytes"
	"errors"
	"fmt"
	"io"
	"net"
	"os"
	"runtime"
	"sync"
	"sync/atomic"
	"testing"
	"time"
)

// ---------------------------------------------------------------- in-memory packet network

type locksetAddr string

func (a locksetAddr) Network() string { return "locksetmem" }
func (a locksetAddr) String() string  { return string(a) }

type locksetPkt struct {
	data []byte
	from net.Addr
}

type locksetNet struct {
	mu    sync.Mutex
	conns map[string]*locksetConn
	lose  atomic.Int64 // > 0: every lose-th datagram is dropped (FEC configurations: recovery must run)
	sent  atomic.Int64
}

type locksetConn struct {
	nw     *locksetNet
	addr   locksetAddr
	in     chan locksetPkt
	closed chan struct{}
	once   sync.Once
}

func locksetNewNet() *locksetNet { return &locksetNet{conns: map[string]*locksetConn{}} }

func (n *locksetNet) listen(addr string) *locksetConn {
	c := &locksetConn{nw: n, addr: locksetAddr(addr), in: make(chan locksetPkt, 4096), closed: make(chan struct{})}
	n.mu.Lock()
	n.conns[addr] = c
	n.mu.Unlock()
	return c
}

func (c *locksetConn) ReadFrom(b []byte) (int, net.Addr, error) {
	select {
	case p := <-c.in:
		n := copy(b, p.data)
		return n, p.from, nil
	case <-c.closed:
		return 0, nil, errors.New("locksetConn closed")
	}
}

func (c *locksetConn) WriteTo(b []byte, addr net.Addr) (int, error) {
	select {
	case <-c.closed:
		return 0, errors.New("locksetConn closed")
	default:
	}
	c.nw.mu.Lock()
	dst := c.nw.conns[addr.String()]
	c.nw.mu.Unlock()
	if k := c.nw.lose.Load(); k > 0 && c.nw.sent.Add(1)%k == 0 {
		return len(b), nil // lost on the way
	}
	if dst != nil {
		p := locksetPkt{data: append([]byte(nil), b...), from: c.addr}
		select {
		case dst.in <- p:
		case <-dst.closed:
		default: // queue full: the packet is lost, as on a real network
		}
	}
	return len(b), nil
}

func (c *locksetConn) Close() error {
	c.once.Do(func() {
		close(c.closed)
		c.nw.mu.Lock()
		if c.nw.conns[string(c.addr)] == c {
			delete(c.nw.conns, string(c.addr))
		}
		c.nw.mu.Unlock()
	})
	return nil
}
func (c *locksetConn) LocalAddr() net.Addr                { return c.addr }
func (c *locksetConn) SetDeadline(t time.Time) error      { return nil }
func (c *locksetConn) SetReadDeadline(t time.Time) error  { return nil }
func (c *locksetConn) SetWriteDeadline(t time.Time) error { return nil }

// ---------------------------------------------------------------- operation counters

var locksetOpNames = []string{
	"Read", "Write", "WriteBuffers", "Close", "LocalAddr", "RemoteAddr", "SetDeadline", "SetReadDeadline",
	"SetWriteDeadline", "SetWriteDelay", "SetWindowSize", "SetMtu", "SetACKNoDelay", "SetNoDelay", "SetDSCP",
	"SetReadBuffer", "SetWriteBuffer", "SetRateLimit", "SetLogger", "Control", "GetConv", "GetRTO", "GetSRTT",
	"GetSRTTVar", "SetOOBHandler", "GetOOBMaxSize", "SendOOB",
	"L.Accept", "L.AcceptKCP", "L.SetDeadline", "L.SetReadDeadline", "L.SetWriteDeadline", "L.Addr", "L.Control",
	"L.SetReadBuffer", "L.SetWriteBuffer", "L.SetDSCP", "L.Close", "Snmp.Copy", "Crypt.Encrypt", "Crypt.Decrypt", "bytes.delivered", "oob.delivered",
}

type locksetCounters struct{ c []atomic.Int64 }

func (k *locksetCounters) add(name string, n int64) {
	for i, s := range locksetOpNames {
		if s == name {
			k.c[i].Add(n)
			return
		}
	}
	panic("lockset harness: unknown op " + name)
}

// ---------------------------------------------------------------- configurations

type locksetCfg struct {
	name   string
	cipher string
	ds, ps int
}

func locksetBlock(t testing.TB, kind string) BlockCrypt {
	key := bytes.Repeat([]byte{0x5a}, 32)
	var b BlockCrypt
	var err error
	switch kind {
	case "nil":
		return nil
	case "aes":
		b, err = NewAESBlockCrypt(key)
	case "salsa20":
		b, err = NewSalsa20BlockCrypt(key)
	case "aesgcm":
		b, err = NewAESGCMCrypt(key)
	case "xor":
		b, err = NewSimpleXORBlockCrypt(key)
	case "none":
		b, err = NewNoneBlockCrypt(key)
	case "tea":
		b, err = NewTEABlockCrypt(key[:16])
	case "3des":
		b, err = NewTripleDESBlockCrypt(key[:24])
	case "blowfish":
		b, err = NewBlowfishBlockCrypt(key)
	case "sm4":
		b, err = NewSM4BlockCrypt(key[:16])
	case "twofish":
		b, err = NewTwofishBlockCrypt(key)
	case "cast5":
		b, err = NewCast5BlockCrypt(key[:16])
	case "xtea":
		b, err = NewXTEABlockCrypt(key[:16])
	default:
		t.Fatalf("unknown cipher class %s", kind)
	}
	if err != nil {
		t.Fatal(err)
	}
	return b
}

// one pair: listener + accepted session + dialled session over the in-memory network
type locksetPair struct {
	nw      *locksetNet
	lconn   *locksetConn
	l       *Listener
	client  *UDPSession
	server  *UDPSession
	block   BlockCrypt
	cfg     locksetCfg
	counter *locksetCounters
}

func locksetDial(t testing.TB, p *locksetPair, addr string, conv uint32) *UDPSession {
	cconn := p.nw.listen(addr)
	c, err := NewConn4(conv, locksetAddr("server"), p.block, p.cfg.ds, p.cfg.ps, true, cconn)
	if err != nil {
		t.Fatal(err)
	}
	return c
}

func locksetNewPair(t testing.TB, cfg locksetCfg, k *locksetCounters) *locksetPair {
	p := &locksetPair{nw: locksetNewNet(), cfg: cfg, counter: k}
	if cfg.ds > 0 {
		defer p.nw.lose.Store(7) // after the handshake below: the FEC decoder has losses to repair while the stress runs
	}
	p.block = locksetBlock(t, cfg.cipher)
	p.lconn = p.nw.listen("server")
	l, err := ServeConn(p.block, cfg.ds, cfg.ps, p.lconn)
	if err != nil {
		t.Fatal(err)
	}
	p.l = l
	p.client = locksetDial(t, p, "client0", 0x11223344)
	p.client.SetNoDelay(1, 10, 2, 1)
	if _, err := p.client.Write([]byte("hello")); err != nil {
		t.Fatal(err)
	}
	p.l.SetDeadline(time.Now().Add(5 * time.Second))
	s, err := p.l.AcceptKCP()
	if err != nil {
		t.Fatalf("%s: accept: %v", cfg.name, err)
	}
	p.server = s
	p.l.SetDeadline(time.Time{})
	return p
}

// ---------------------------------------------------------------- the stress run

func locksetStress(t testing.TB, cfg locksetCfg, k *locksetCounters, dur time.Duration, seed uint64) {
	p := locksetNewPair(t, cfg, k)
	stop := make(chan struct{})
	var wg sync.WaitGroup
	run := func(id uint64, f func(r *vrng)) {
		wg.Add(1)
		go func() {
			defer wg.Done()
			r := newRng(seed*1000003 + id)
			for {
				select {
				case <-stop:
					return
				default:
				}
				f(r)
			}
		}()
	}
	sessions := []*UDPSession{p.client, p.server}
	logger := func(msg string, args ...any) {}
	oobSeen := func(b []byte) { k.add("oob.delivered", 1) }

	for si, s := range sessions {
		s := s
		base := uint64(si * 100)
		// traffic: two writers and two readers per session
		for wi := 0; wi < 2; wi++ {
			run(base+uint64(wi), func(r *vrng) {
				buf := r.bytes(1 + r.intn(3000))
				if r.chance(50) {
					s.Write(buf)
					k.add("Write", 1)
				} else {
					s.WriteBuffers([][]byte{buf[:len(buf)/2], buf[len(buf)/2:]})
					k.add("WriteBuffers", 1)
				}
				time.Sleep(time.Duration(r.intn(300)) * time.Microsecond)
			})
			run(base+10+uint64(wi), func(r *vrng) {
				buf := make([]byte, 1+r.intn(4096))
				n, _ := s.Read(buf)
				k.add("Read", 1)
				k.add("bytes.delivered", int64(n))
			})
		}
		// deadline setters (deadlines in the near future so that blocked calls keep waking up)
		run(base+20, func(r *vrng) {
			d := time.Now().Add(time.Duration(1+r.intn(20)) * time.Millisecond)
			switch r.intn(4) {
			case 0:
				s.SetDeadline(d)
				k.add("SetDeadline", 1)
			case 1:
				s.SetReadDeadline(d)
				k.add("SetReadDeadline", 1)
			case 2:
				s.SetWriteDeadline(d)
				k.add("SetWriteDeadline", 1)
			case 3:
				s.SetReadDeadline(time.Time{})
				k.add("SetReadDeadline", 1)
			}
			time.Sleep(200 * time.Microsecond)
		})
		// tuning setters: two callers per session, so that a setter also meets itself
		tuning := func(r *vrng) {
			switch r.intn(12) {
			case 0:
				s.SetWriteDelay(r.chance(50))
				k.add("SetWriteDelay", 1)
			case 1:
				s.SetWindowSize(32+r.intn(512), 32+r.intn(512))
				k.add("SetWindowSize", 1)
			case 2:
				s.SetMtu(600 + r.intn(900))
				k.add("SetMtu", 1)
			case 3:
				s.SetACKNoDelay(r.chance(50))
				k.add("SetACKNoDelay", 1)
			case 4:
				s.SetNoDelay(r.intn(2), 10+r.intn(40), r.intn(3), r.intn(2))
				k.add("SetNoDelay", 1)
			case 5:
				s.SetDSCP(46)
				k.add("SetDSCP", 1)
			case 6:
				s.SetReadBuffer(1 << 20)
				k.add("SetReadBuffer", 1)
			case 7:
				s.SetWriteBuffer(1 << 20)
				k.add("SetWriteBuffer", 1)
			case 8:
				if r.chance(50) {
					s.SetRateLimit(0)
				} else {
					s.SetRateLimit(uint32(50_000_000 + r.intn(50_000_000)))
				}
				k.add("SetRateLimit", 1)
			case 9:
				s.Control(func(conn net.PacketConn) error { return nil })
				k.add("Control", 1)
			case 10:
				if r.chance(50) {
					s.SetOOBHandler(oobSeen)
				} else {
					s.SetOOBHandler(nil)
				}
				k.add("SetOOBHandler", 1)
			case 11:
				s.SendOOB(r.bytes(r.intn(64)))
				k.add("SendOOB", 1)
			}
			time.Sleep(100 * time.Microsecond)
		}
		run(base+30, tuning)
		run(base+31, tuning)
		// logger: a tuning setter like the others (finding F7 lives here)
		run(base+35, func(r *vrng) {
			if r.chance(30) {
				s.SetLogger(0, nil)
			} else {
				s.SetLogger(IKCP_LOG_ALL, logger)
			}
			k.add("SetLogger", 1)
			time.Sleep(150 * time.Microsecond)
		})
		// getters
		run(base+40, func(r *vrng) {
			switch r.intn(8) {
			case 0:
				s.GetConv()
				k.add("GetConv", 1)
			case 1:
				s.GetRTO()
				k.add("GetRTO", 1)
			case 2:
				s.GetSRTT()
				k.add("GetSRTT", 1)
			case 3:
				s.GetSRTTVar()
				k.add("GetSRTTVar", 1)
			case 4:
				s.LocalAddr()
				k.add("LocalAddr", 1)
			case 5:
				s.RemoteAddr()
				k.add("RemoteAddr", 1)
			case 6:
				s.GetOOBMaxSize()
				k.add("GetOOBMaxSize", 1)
			case 7:
				// every reader of the process-wide counters, as a statistics logger uses them
				DefaultSnmp.Copy()
				DefaultSnmp.ToSlice()
				DefaultSnmp.Header()
				k.add("Snmp.Copy", 1)
			}
			time.Sleep(50 * time.Microsecond)
		})
	}
	// listener: accept loop, setters, and new peers arriving while everything else runs
	var extraMu sync.Mutex
	var extra []*UDPSession
	run(300, func(r *vrng) {
		p.l.SetReadDeadline(time.Now().Add(5 * time.Millisecond))
		k.add("L.SetReadDeadline", 1)
		var s *UDPSession
		if r.chance(50) {
			s, _ = p.l.AcceptKCP()
			k.add("L.AcceptKCP", 1)
		} else {
			c, _ := p.l.Accept()
			k.add("L.Accept", 1)
			if c != nil {
				s = c.(*UDPSession)
			}
		}
		if s != nil {
			extraMu.Lock()
			extra = append(extra, s)
			extraMu.Unlock()
		}
	})
	run(310, func(r *vrng) {
		switch r.intn(7) {
		case 0:
			p.l.SetDeadline(time.Now().Add(5 * time.Millisecond))
			k.add("L.SetDeadline", 1)
		case 1:
			p.l.SetWriteDeadline(time.Now())
			k.add("L.SetWriteDeadline", 1)
		case 2:
			p.l.Addr()
			k.add("L.Addr", 1)
		case 3:
			p.l.Control(func(conn net.PacketConn) error { return nil })
			k.add("L.Control", 1)
		case 4:
			p.l.SetReadBuffer(1 << 20)
			k.add("L.SetReadBuffer", 1)
		case 5:
			p.l.SetWriteBuffer(1 << 20)
			k.add("L.SetWriteBuffer", 1)
		case 6:
			p.l.SetDSCP(46)
			k.add("L.SetDSCP", 1)
		}
		time.Sleep(100 * time.Microsecond)
	})
	// further peers: sessions are created by the listener's monitor goroutine concurrently
	nDial := 0
	run(320, func(r *vrng) {
		if nDial >= 6 {
			time.Sleep(time.Millisecond)
			return
		}
		nDial++
		c := locksetDial(t, p, "peer"+string(rune('a'+nDial)), 0x1000+uint32(nDial))
		c.Write(r.bytes(100))
		k.add("Write", 1)
		extraMu.Lock()
		extra = append(extra, c)
		extraMu.Unlock()
		time.Sleep(time.Duration(20+r.intn(60)) * time.Millisecond)
	})

	time.Sleep(dur)
	// Close races with everything that is still running: two closers per object
	var cw sync.WaitGroup
	for _, s := range sessions {
		for i := 0; i < 2; i++ {
			cw.Add(1)
			go func(s *UDPSession) { defer cw.Done(); s.Close(); k.add("Close", 1) }(s)
		}
	}
	for i := 0; i < 2; i++ {
		cw.Add(1)
		go func() { defer cw.Done(); p.l.Close(); k.add("L.Close", 1) }()
	}
	cw.Wait()
	time.Sleep(20 * time.Millisecond) // calls on closed objects are legitimate uses too
	close(stop)
	wg.Wait()
	extraMu.Lock()
	for _, s := range extra {
		s.Close()
	}
	extraMu.Unlock()
	p.lconn.Close()
}

// targeted scenario F6: GetOOBMaxSize against SetMtu (FEC on, else GetOOBMaxSize returns early)
func locksetScenarioF6(t testing.TB, k *locksetCounters, iters int) {
	p := locksetNewPair(t, locksetCfg{name: "F6", cipher: "nil", ds: 3, ps: 1}, k)
	var wg sync.WaitGroup
	wg.Add(2)
	go func() {
		defer wg.Done()
		for i := 0; i < iters; i++ {
			p.client.SetMtu(1200 + i%200)
			k.add("SetMtu", 1)
		}
	}()
	go func() {
		defer wg.Done()
		for i := 0; i < iters; i++ {
			p.client.GetOOBMaxSize()
			k.add("GetOOBMaxSize", 1)
		}
	}()
	wg.Wait()
	p.client.Close()
	p.server.Close()
	p.l.Close()
	p.lconn.Close()
}

// targeted scenario F7: two concurrent SetLogger calls on one session
func locksetScenarioF7(t testing.TB, k *locksetCounters, iters int) {
	p := locksetNewPair(t, locksetCfg{name: "F7", cipher: "nil"}, k)
	logger := func(msg string, args ...any) {}
	var wg sync.WaitGroup
	for g := 0; g < 2; g++ {
		wg.Add(1)
		go func(g int) {
			defer wg.Done()
			for i := 0; i < iters; i++ {
				if (i+g)%3 == 0 {
					p.client.SetLogger(0, nil)
				} else {
					p.client.SetLogger(IKCP_LOG_ALL, logger)
				}
				k.add("SetLogger", 1)
			}
		}(g)
	}
	wg.Wait()
	p.client.Close()
	p.server.Close()
	p.l.Close()
	p.lconn.Close()
}

// scenario "cipher objects": one BlockCrypt is shared by a session's post-processing goroutine
// (Encrypt) and its receive goroutine (Decrypt), and by all sessions of a listener; here the two
// directions are driven directly and concurrently on one object of EVERY cipher kind, in place and
// out of place, over packet lengths around the unrolled-loop boundaries.
func locksetScenarioCiphers(t testing.TB, k *locksetCounters, iters int) {
	for _, kind := range []string{"aes", "tea", "xtea", "salsa20", "xor", "none", "3des", "blowfish", "cast5", "twofish", "sm4"} {
		b := locksetBlock(t, kind)
		var wg sync.WaitGroup
		for g := 0; g < 4; g++ {
			wg.Add(1)
			go func(g int) {
				defer wg.Done()
				src := make([]byte, 1500)
				dst := make([]byte, 1500)
				for i := range src {
					src[i] = byte(i*7 + g)
				}
				for i := 0; i < iters; i++ {
					n := []int{16, 24, 100, 128, 136, 375, 1400, 1500}[(i+g)%8]
					switch g % 2 {
					case 0:
						if i%2 == 0 {
							b.Encrypt(dst[:n], src[:n])
						} else {
							b.Encrypt(src[:n], src[:n])
						}
						k.add("Crypt.Encrypt", 1)
					default:
						if i%2 == 0 {
							b.Decrypt(dst[:n], src[:n])
						} else {
							b.Decrypt(src[:n], src[:n])
						}
						k.add("Crypt.Decrypt", 1)
					}
				}
			}(g)
		}
		wg.Wait()
	}
}

// scenario "listener read error": the listener's socket starts failing while handler goroutines,
// woken by the propagated error, Close their accepted sessions.  The monitor goroutine walks the
// session table (notifyReadError, once per listener) while Close removes entries from it; many
// listeners x many sessions so that the detector gets its chance.
func locksetScenarioReadErr(t testing.TB, k *locksetCounters, rounds, nsess int) {
	for round := 0; round < rounds; round++ {
		nw := locksetNewNet()
		lconn := nw.listen("server")
		l, err := ServeConn(nil, 0, 0, lconn)
		if err != nil {
			t.Fatal(err)
		}
		// nsess peers "connect": one window-probe segment (sn 0) from nsess different addresses
		for i := 0; i < nsess; i++ {
			pkt := make([]byte, IKCP_OVERHEAD)
			pkt[0], pkt[1], pkt[2], pkt[3] = byte(i), byte(i>>8), 0x10, byte(round)
			pkt[4] = IKCP_CMD_WASK
			pkt[6] = 32
			lconn.in <- locksetPkt{data: pkt, from: locksetAddr("peer-" + string(rune('A'+round%26)) + "-" + string(rune(0x4e00+i)))}
		}
		var hw sync.WaitGroup
		l.SetDeadline(time.Now().Add(10 * time.Second))
		for i := 0; i < nsess; i++ {
			s, err := l.AcceptKCP()
			k.add("L.AcceptKCP", 1)
			if err != nil {
				t.Fatalf("read-error scenario: accept %d/%d: %v", i, nsess, err)
			}
			hw.Add(1)
			go func(s *UDPSession) { // a connection handler: blocked in Read, closes on error
				defer hw.Done()
				buf := make([]byte, 64)
				for {
					_, err := s.Read(buf)
					k.add("Read", 1)
					if err != nil {
						s.Close()
						k.add("Close", 1)
						return
					}
				}
			}(s)
		}
		time.Sleep(2 * time.Millisecond) // let the handlers block
		lconn.Close()                    // from now on ReadFrom fails: monitor -> notifyReadError
		hw.Wait()
		l.Close()
		k.add("L.Close", 1)
	}
}

// scenario "closed": a session closed with a half-read message is drained by its owner (Read after
// Close hands out what was already received) while an unrelated session of the same process keeps
// writing: nothing the closed session still reads from may have gone back to the shared buffer pool.
func locksetScenarioClosed(t testing.TB, k *locksetCounters, rounds int) {
	p := locksetNewPair(t, locksetCfg{name: "closed", cipher: "nil"}, k)
	defer p.l.Close()
	defer p.client.Close()
	defer p.server.Close()
	go io.Copy(io.Discard, p.server)
	msg := make([]byte, 1200)
	for r := 0; r < rounds; r++ {
		c := locksetDial(t, p, fmt.Sprintf("victim%d", r), uint32(0x5000+r))
		c.SetNoDelay(1, 10, 2, 1)
		c.Write(msg)
		p.l.SetDeadline(time.Now().Add(5 * time.Second))
		v, err := p.l.AcceptKCP()
		k.add("L.AcceptKCP", 1)
		if err != nil {
			t.Fatalf("closed scenario: accept: %v", err)
		}
		head := make([]byte, 16)
		v.SetReadDeadline(time.Now().Add(5 * time.Second))
		if _, err := v.Read(head); err != nil {
			t.Fatalf("closed scenario: first read: %v", err)
		}
		k.add("Read", 1)
		v.Close()
		k.add("Close", 1)
		var wg sync.WaitGroup
		wg.Add(2)
		go func() { // the owner drains its closed session
			defer wg.Done()
			buf := make([]byte, 100)
			for {
				_, err := v.Read(buf)
				k.add("Read", 1)
				if err != nil {
					return
				}
				runtime.Gosched()
			}
		}()
		go func() { // an unrelated session writes
			defer wg.Done()
			for i := 0; i < 12; i++ {
				p.client.SetWriteDeadline(time.Now().Add(2 * time.Second))
				p.client.Write(msg)
				k.add("Write", 1)
			}
		}()
		wg.Wait()
		c.Close()
		k.add("Close", 1)
	}
}

func TestVerifC14(t *testing.T) {
	rep := newReport("C14")
	k := &locksetCounters{c: make([]atomic.Int64, len(locksetOpNames))}
	seed := vSeed()
	only := os.Getenv("VERIF_C14_ONLY")

	// tea: a pure-Go block cipher, so that the CFB scratch buffers are visible to the detector
	// (the AES block function is assembly and not instrumented)
	ciphers := []string{"nil", "aes", "tea", "salsa20", "aesgcm"}
	dur := time.Duration(vEnvInt("VERIF_C14_MS", 700)) * time.Millisecond
	if vThorough() {
		ciphers = []string{"nil", "aes", "tea", "salsa20", "aesgcm", "xor", "none", "3des", "blowfish", "sm4"}
		dur = time.Duration(vEnvInt("VERIF_C14_MS", 4000)) * time.Millisecond
	}
	var cfgs []locksetCfg
	for _, c := range ciphers {
		cfgs = append(cfgs, locksetCfg{name: c + "/fec-off", cipher: c}, locksetCfg{name: c + "/fec-3-1", cipher: c, ds: 3, ps: 1})
	}
	var ran []string
	calls := func() (c int64, delivered int64) {
		for i, n := range locksetOpNames {
			v := k.c[i].Load()
			if n == "bytes.delivered" {
				delivered = v
			} else if n != "oob.delivered" {
				c += v
			}
		}
		return
	}
	// cases = public-method calls made while the detector watched; non-trivial = those made in a
	// scenario in which payload bytes were delivered end to end while they ran
	account := func(name string, f func()) {
		c0, d0 := calls()
		f()
		c1, d1 := calls()
		ran = append(ran, name)
		rep.Cases += int(c1 - c0)
		if d1 > d0 {
			rep.Nontrivial += int(c1 - c0)
		}
	}
	for i, cfg := range cfgs {
		if only != "" && only != "stress" && only != cfg.name {
			continue
		}
		i, cfg := i, cfg
		account(cfg.name, func() { locksetStress(t, cfg, k, dur, seed*131+uint64(i)) })
	}
	iters := 3000
	if vThorough() {
		iters = 20000
	}
	if only == "" || only == "F6" {
		account("F6:GetOOBMaxSize-vs-SetMtu", func() { locksetScenarioF6(t, k, iters) })
	}
	if only == "" || only == "F7" {
		account("F7:SetLogger-vs-SetLogger", func() { locksetScenarioF7(t, k, iters) })
	}
	if only == "" || only == "ciphers" {
		n := 300
		if vThorough() {
			n = 3000
		}
		account("ciphers:Encrypt-vs-Decrypt-on-one-BlockCrypt", func() { locksetScenarioCiphers(t, k, n) })
	}
	if only == "" || only == "closed" {
		n := 12
		if vThorough() {
			n = 80
		}
		account("closed:Read-after-Close-vs-another-session", func() { locksetScenarioClosed(t, k, n) })
	}
	if only == "" || only == "readerr" {
		rounds, nsess := 8, 60
		if vThorough() {
			rounds, nsess = 40, 100
		}
		account("readerr:listener-read-error-vs-session-Close", func() { locksetScenarioReadErr(t, k, rounds, nsess) })
		rep.Extra["readerr_rounds_x_sessions"] = []int{rounds, nsess}
	}
	total := int64(0)
	for i, n := range locksetOpNames {
		v := k.c[i].Load()
		rep.Distribution[n] = int(v)
		if n != "bytes.delivered" && n != "oob.delivered" {
			total += v
		}
	}
	rep.Steps = int(total)
	rep.Monitors["go-race-detector(calls made while it watched)"] = int(total)
	rep.Extra["scenarios"] = ran
	rep.Extra["stress_ms_per_config"] = int(dur / time.Millisecond)
	rep.sample(map[string]any{"scenarios": ran, "seed": seed})
	rep.write(t, "C14.report.json")
}
