//go:build verif

package kcp

import (
	"fmt"
	"runtime"
	"testing"
	"time"
)

func TestVerifSessDbg(t *testing.T) {
	fmt.Println("cpus", runtime.NumCPU())
	for seed := uint64(1); seed <= 4; seed++ {
		r := newRng(seed)
		rep := newReport("x")
		t0 := time.Now()
		sessPhaseL(t, r, rep, 6, 24000)
		fmt.Printf("seed %d: %.1fs %v\n", seed, time.Since(t0).Seconds(), rep.Distribution)
		for k, v := range rep.Extra {
			fmt.Println("  ", k, v)
		}
	}
}
