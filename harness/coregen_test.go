//go:build verif

package kcp

import (
	"encoding/binary"
	"fmt"
	"testing"
)

// ---- generators for the two-endpoint core simulation (DESIGN.md Appendix C) ----

type coreProfile struct {
	name      string
	drop      int // % of datagrams dropped
	dup       int // % delivered and kept for another delivery
	reorder   int // % chance to deliver a random pending datagram instead of the oldest
	hold      int // % chance to leave the pending queue alone this tick
	forge     int // % of deliveries replaced by a forged/malformed variant
	setmtu    int // % of ticks with a SetMtu call
	reconf    int // % of ticks with NoDelay / WndSize calls (mid-life; not for window monitors)
	keepMode  bool // the NoDelay calls leave the no-delay MODE alone (first argument -1): boundary B4
	growWnd   bool // a stalled reader's endpoint enlarges its receive window mid-stall
	shrinkWnd bool // ... or lowers it below what already awaits the reader (C04: the advertisement stays truthful)
	ccReconf  int  // % of ticks with a run-time NoDelay call that leaves congestion control ON (interval change only)
	slowTx    int  // % of cases in which an endpoint's output callback blocks (time passes inside flush / Input / Update)
	stall     int // % of cases in which one reader pauses for a while
	fec       int // % of deliveries fed as non-regular (FEC-recovered) packets
	bigSend   bool
	overWnd   bool // messages may have more fragments than the receiver's window (outside contract B8: they strand, but what IS delivered keeps its boundaries)
	rawLong   bool // allow datagrams longer than 1500 bytes (raw core)
	sizes     []int
	maxTicks  int
	clean     bool
	updateDrv int // % of cases driven by Update/Check instead of flush-with-interval
}

func genCoreCfg(rng *vrng, p coreProfile) coreCfg {
	var c coreCfg
	c.Conv = uint32(rng.u64())
	c.Stream = rng.intn(2)
	wins := []int{1, 2, 3, 4, 8, 32, 128, 1024}
	mtus := []int{25, 26, 50, 50, 100, 100, 100, 200, 576, 1400, 1500}
	if !rng.chance(15) { // large MTUs only in a minority of histories: control paths depend on lengths relative to the MSS
		mtus = mtus[:8]
	}
	for e := 0; e < 2; e++ {
		c.Snd[e] = wins[rng.intn(len(wins))]
		c.Rcv[e] = wins[rng.intn(len(wins))]
		c.Mtu[e] = mtus[rng.intn(len(mtus))]
		c.Nodelay[e] = rng.intn(2)
		c.Interval[e] = rng.pick(10, 20, 100)
		c.Resend[e] = rng.intn(3)
		c.Nc[e] = rng.intn(2)
		c.AckND[e] = rng.chance(30)
		switch rng.intn(5) {
		case 0:
			c.Isn[e] = 0
		case 1:
			c.Isn[e] = uint32(1<<31) - uint32(rng.intn(40))
		case 2:
			c.Isn[e] = uint32(0xffffffff) - uint32(rng.intn(40))
		case 3:
			c.Isn[e] = uint32(rng.u64())
		default:
			c.Isn[e] = uint32(rng.intn(5))
		}
	}
	// a datagram of one side must be acceptable to the other: keep both MTUs equal half the time
	if rng.chance(50) {
		c.Mtu[1] = c.Mtu[0]
	}
	switch rng.intn(5) {
	case 0:
		c.Clock = 0
	case 1:
		c.Clock = uint32(1<<31) - uint32(rng.intn(3000))
	case 2:
		c.Clock = uint32(0xffffffff) - uint32(rng.intn(3000))
	default:
		c.Clock = uint32(rng.u64())
	}
	return c
}

func (s *coreSim) genPayload(rng *vrng, e int, p coreProfile) []byte {
	mss := int(s.k[e].mss)
	var n int
	switch rng.intn(10) {
	case 0:
		n = 1
	case 1:
		n = max(1, mss-1)
	case 2:
		n = mss
	case 3:
		n = mss + 1
	case 4:
		n = mss * (2 + rng.intn(3))
	case 5:
		if p.bigSend {
			n = rng.pick(255*mss, 256*mss, 255*mss+1)
		} else {
			n = 1 + rng.intn(3*mss)
		}
	default:
		n = 1 + rng.intn(2*mss+2)
	}
	if len(p.sizes) > 0 {
		n = p.sizes[rng.intn(len(p.sizes))]
	}
	// the fragment-count limit (255) is within the B8 contract when the peer's window is large
	if s.k[1-e].rcv_wnd >= 256 && mss <= 76 && rng.chance(8) {
		n = rng.pick(254*mss+1, 255*mss, 255*mss+1, 256*mss, 256*mss+1)
	}
	// B8: in message mode a message must fit the receiver's window (documented contract)
	if s.cfg.Stream == 0 && !p.bigSend && !p.overWnd {
		maxFrag := int(s.k[1-e].rcv_wnd)
		if maxFrag > 257 {
			maxFrag = 257 // beyond 255 fragments Send refuses; the refusal itself is part of the contract
		}
		if n > maxFrag*mss {
			n = maxFrag * mss
		}
	}
	if n > 70000 {
		n = 70000 - rng.intn(3)
	}
	if rng.chance(2) {
		n = 0
	}
	b := make([]byte, n)
	for i := range b {
		b[i] = byte(s.npkt + i*7 + len(s.ops))
	}
	return b
}

// forgeDatagram mutates a captured datagram (single header field to a boundary value,
// truncation, appended garbage) or produces random bytes.
func forgeDatagram(rng *vrng, d []byte, k *KCP, rawLong bool) []byte {
	out := append([]byte(nil), d...)
	switch rng.intn(12) {
	case 0: // random bytes of a boundary length
		n := rng.pick(0, 1, 11, 12, 19, 20, 23, 24, 25, 47, 48, 49, 100, 1499, 1500)
		if rawLong && rng.chance(30) {
			n = rng.pick(1524, 1525, 2024, 4096)
		}
		return rng.bytes(n)
	case 1: // truncate
		if len(out) > 0 {
			out = out[:rng.intn(len(out))]
		}
		return out
	case 2: // append garbage / a second segment with wrong conv/cmd/len
		extra := make([]byte, 24+rng.intn(8))
		binary.LittleEndian.PutUint32(extra, k.conv+uint32(rng.intn(2)))
		extra[4] = byte(rng.pick(81, 82, 83, 84, 85, 0))
		binary.LittleEndian.PutUint32(extra[20:], uint32(rng.pick(0, 1, 7, 8, 2000, 1<<31)))
		return append(out, extra...)
	}
	if len(out) < 24 {
		return out
	}
	// pick one segment header (the first) and replace one field by a boundary value
	off := uint32(rng.pick(0, 1, -1, int(k.rcv_wnd), -int(k.rcv_wnd), int(k.rcv_wnd)-1, int(k.snd_wnd), 1<<31, -2))
	switch rng.intn(9) {
	case 0:
		binary.LittleEndian.PutUint32(out[16:], k.snd_una+off) // una
	case 1:
		binary.LittleEndian.PutUint32(out[16:], k.snd_nxt+off)
	case 2:
		binary.LittleEndian.PutUint32(out[12:], k.rcv_nxt+off) // sn
	case 3:
		binary.LittleEndian.PutUint32(out[12:], k.snd_una+off)
	case 4:
		binary.LittleEndian.PutUint16(out[6:], uint16(rng.pick(0, 1, 2, 65535, 32768))) // wnd
	case 5:
		binary.LittleEndian.PutUint32(out[20:], uint32(rng.pick(0, 1, len(out)-24, len(out)-23, 1500, 1501, 1<<31, 0xffffffff))) // len
	case 6:
		out[4] = byte(rng.pick(80, 81, 82, 83, 84, 85, 0, 255)) // cmd
	case 7:
		out[5] = byte(rng.pick(0, 1, 2, 254, 255)) // frg
	case 8:
		binary.LittleEndian.PutUint32(out[8:], uint32(rng.u64())) // ts
	}
	if rawLong && rng.chance(10) {
		// a PUSH claiming a huge payload inside a long datagram
		big := make([]byte, 24+rng.pick(1501, 2000, 4000))
		copy(big, out[:24])
		big[4] = IKCP_CMD_PUSH
		binary.LittleEndian.PutUint32(big[12:], k.rcv_nxt+uint32(rng.intn(2)))
		binary.LittleEndian.PutUint32(big[20:], uint32(len(big)-24))
		return big
	}
	return out
}

type coreCaseInfo struct {
	retrans, dupDelivered, reordered, zeroWnd, forged, wrapped bool
}

// runCoreHistory drives one random history.  Returns what made it non-trivial.
func runCoreHistory(s *coreSim, rng *vrng, p coreProfile) (info coreCaseInfo) {
	useUpdate := rng.chance(p.updateDrv)
	var nextFlush [2]uint32
	nextFlush[0], nextFlush[1] = s.now, s.now
	ticks := 10 + rng.intn(p.maxTicks)
	stallEp, stallFrom, stallTo := -1, 0, 0
	if rng.chance(p.stall) {
		stallEp = rng.intn(2)
		stallFrom = rng.intn(ticks)
		stallTo = stallFrom + rng.intn(ticks)
	}
	sendBias := rng.pick(20, 50, 80)
	if p.slowTx > 0 && rng.chance(p.slowTx) {
		for e := 0; e < 2; e++ {
			if rng.chance(60) {
				s.SetTx(e, uint32(rng.pick(1, 2, 5, 17)))
			}
		}
	}
	startClock := s.now
	for t := 0; t < ticks && !s.dead; t++ {
		// clock
		var dt uint32
		switch rng.intn(12) {
		case 0:
			dt = 0
		case 1:
			dt = 1
		case 2:
			dt = uint32(s.cfg.Interval[0])
		case 3:
			dt = s.k[rng.intn(2)].rx_rto
		case 4:
			dt = s.k[rng.intn(2)].rx_rto - 1
		case 5:
			if !p.clean && rng.chance(20) {
				dt = uint32(rng.pick(60000, 600000, 10001, 120000))
			} else {
				dt = 7
			}
		default:
			dt = uint32(1 + rng.intn(30))
		}
		s.setNow(s.now + dt)
		if s.now < startClock {
			info.wrapped = true
		}
		for e := 0; e < 2 && !s.dead; e++ {
			// application writes
			for rng.chance(sendBias) && !s.dead {
				if s.k[e].WaitSnd() > 3*int(s.k[e].snd_wnd)+260 {
					break
				}
				s.Send(e, s.genPayload(rng, e, p))
				if rng.chance(50) {
					break
				}
			}
			if s.dead {
				break
			}
			if p.setmtu > 0 && rng.chance(p.setmtu) {
				s.SetMtu(e, rng.pick(0, 24, 25, 26, 50, 100, 576, 600, 1400, 1500, 1501, 1524, 2000, -1, 65536+25))
			}
			if p.ccReconf > 0 && s.k[e].nocwnd == 0 && rng.chance(p.ccReconf) {
				s.NoDelay(e, -1, rng.pick(10, 20, 40, 100), -1, 0)
			}
			if p.reconf > 0 && rng.chance(p.reconf) {
				if rng.chance(50) {
					nd := rng.pick(-1, 0, 1)
					if p.keepMode {
						nd = rng.pick(-1, -1, -2, -1000)
					}
					s.NoDelay(e, nd, rng.pick(-1, 0, 1, 9, 10, 11, 40, 4999, 5000, 5001, 6000), rng.pick(-1, 0, 1, 2), rng.pick(-1, 0, 1))
				} else {
					s.WndSize(e, rng.pick(0, 1, 2, 32, 128), rng.pick(0, 1, 2, 32, 128))
				}
			}
			if s.dead {
				break
			}
			// protocol driver
			if useUpdate {
				if rng.chance(10) || int32(s.now-s.Check(e)) >= 0 {
					s.Update(e)
				}
			} else if int32(s.now-nextFlush[e]) >= 0 || rng.chance(5) {
				iv := s.Flush(e, true)
				nextFlush[e] = s.now + iv
			}
			if rng.chance(3) && !s.dead {
				s.Flush(e, false)
			}
			if s.k[e].rmt_wnd == 0 {
				info.zeroWnd = true
			}
		}
		if s.dead {
			break
		}
		// network: fates for pending datagrams, both directions
		for from := 0; from < 2 && !s.dead; from++ {
			to := 1 - from
			if rng.chance(p.hold) {
				continue
			}
			n := len(s.pend[from])
			for i := 0; i < n && len(s.pend[from]) > 0 && !s.dead; i++ {
				idx := 0
				if rng.chance(p.reorder) {
					idx = rng.intn(len(s.pend[from]))
					if idx != 0 {
						info.reordered = true
					}
				}
				switch {
				case rng.chance(p.drop):
					s.stats["fate-drop"]++
					s.dropPend(from, idx)
				case rng.chance(p.dup):
					s.stats["fate-dup"]++
					info.dupDelivered = true
					s.deliver(to, idx, true) // delivered, and stays pending for another delivery
				case p.forge > 0 && rng.chance(p.forge):
					s.stats["fate-forged"]++
					d := forgeDatagram(rng, s.pend[from][idx].data, s.k[to], p.rawLong)
					s.forged, info.forged = true, true
					s.Input(to, d, rng.chance(80), s.cfg.AckND[to])
					if rng.chance(50) {
						s.dropPend(from, idx)
					}
				default:
					s.stats["fate-deliver"]++
					s.deliver(to, idx, !rng.chance(p.fec))
					s.dropPend(from, idx)
				}
				if rng.chance(15) {
					break // the rest stays in flight (delay)
				}
			}
		}
		// application reads
		for e := 0; e < 2 && !s.dead; e++ {
			if e == stallEp && t >= stallFrom && t < stallTo {
				s.stats["reader-stalled-ticks"]++
				// the stalled application may enlarge its receive window (growth only: boundary B8)
				if p.growWnd && t == (stallFrom+stallTo)/2 {
					s.WndSize(e, 0, 2*int(s.k[e].rcv_wnd)+rng.intn(8))
					s.stats["stall-window-grown"]++
				}
				if p.shrinkWnd && t >= (stallFrom+stallTo)/2 && !s.shrunk[e] && s.k[e].rcv_queue.Len() >= 2 {
					s.shrunk[e] = true
					s.WndSize(e, 0, 1+rng.intn(s.k[e].rcv_queue.Len()-1))
					s.Flush(e, true)
					s.stats["stall-window-shrunk-below-backlog"]++
				}
				continue
			}
			for r := 0; r < 4 && !s.dead; r++ {
				ps := s.k[e].PeekSize()
				if ps < 0 && !rng.chance(25) {
					break
				}
				bl := rng.pick(1, 16, 1500, 70000, 70000, 70000)
				if ps >= 0 && rng.chance(70) {
					bl = ps + rng.pick(0, 0, 1, 100)
				}
				if s.Recv(e, bl) < 0 {
					break
				}
			}
		}
	}
	for e := 0; e < 2; e++ {
		for _, c := range s.emitted[e] {
			if c > 1 {
				info.retrans = true
			}
		}
	}
	return
}

func (s *coreSim) mergeStats() {
	for k, v := range s.stats {
		s.rep.Distribution[k] += v
	}
}

// drain: after a history, heal the network and run both sides until quiet (used by C01/C02).
// Returns the virtual time it took, or -1 when the backlog did not drain within `limit` ms.
func (s *coreSim) drain(limit uint32, useUpdate bool) int {
	start := s.now
	var nextFlush [2]uint32
	nextFlush[0], nextFlush[1] = s.now, s.now
	s.pend[0], s.pend[1] = nil, nil // whatever is still in flight is lost
	// c02_round_progress (proved): on a healed network with the reader reading, ONE round - a
	// retransmission of the oldest unacknowledged segment reaches the peer, the peer reads AND
	// FLUSHES, its datagrams come back - advances snd_una.  Three retransmissions and three flushes
	// of the peer since the last advance, and still none = wedge.  (Counting retransmissions alone
	// is unsound: a no-delay sender with a 30 ms rto retransmits three times within one 100 ms
	// flush interval of its peer.)
	var baseUna [2]uint32
	var baseXmit [2]uint32
	var peerFlushes [2]int // flushes of endpoint 1-e since e's snd_una last advanced
	headXmit := func(e int) (uint32, bool) {
		var x uint32
		ok := false
		s.k[e].snd_buf.ForEach(func(g *segment) bool {
			if g.acked == 0 {
				x, ok = g.xmit, true
				return false
			}
			return true
		})
		return x, ok
	}
	for e := 0; e < 2; e++ {
		baseUna[e] = s.k[e].snd_una
		baseXmit[e], _ = headXmit(e)
	}
	for s.now-start < limit && !s.dead {
		for e := 0; e < 2; e++ {
			x, ok := headXmit(e)
			if s.k[e].snd_una != baseUna[e] || !ok {
				baseUna[e], baseXmit[e] = s.k[e].snd_una, x
				peerFlushes[e] = 0
			} else if x >= baseXmit[e]+3 && x > 3 && peerFlushes[e] >= 3 {
				s.stats["heal-no-progress-exit"]++
				return -1
			}
		}
		for e := 0; e < 2 && !s.dead; e++ {
			if useUpdate {
				if int32(s.now-s.k[e].Check()) >= 0 {
					s.Check(e)
					s.Update(e)
					peerFlushes[1-e]++
				}
			} else if int32(s.now-nextFlush[e]) >= 0 {
				nextFlush[e] = s.now + s.Flush(e, true)
				peerFlushes[1-e]++
			}
		}
		for from := 0; from < 2 && !s.dead; from++ {
			for len(s.pend[from]) > 0 && !s.dead {
				s.deliver(1-from, 0, true)
				s.dropPend(from, 0)
			}
		}
		for e := 0; e < 2 && !s.dead; e++ {
			for s.k[e].PeekSize() >= 0 && !s.dead {
				if s.Recv(e, 70000) < 0 {
					break
				}
			}
		}
		if s.k[0].WaitSnd() == 0 && s.k[1].WaitSnd() == 0 && len(s.pend[0]) == 0 && len(s.pend[1]) == 0 &&
			len(s.k[0].acklist) == 0 && len(s.k[1].acklist) == 0 {
			return int(s.now - start)
		}
		// quiescent for ever: nothing unacknowledged, no probe timer, no pending ack, nothing in flight
		if s.quiescent() {
			return -1
		}
		// jump to the next instant at which a driver has something to do; when the earliest armed timer
		// (retransmission, window probe) is far away, idle flushes in between change nothing
		next := s.now + 1000
		if w, ok := s.earliestTimer(); ok && int32(w-next) > 0 {
			next = w
		}
		for e := 0; e < 2; e++ {
			t := nextFlush[e]
			if useUpdate {
				t = s.k[e].Check()
			}
			if int32(t-s.now) > 0 && int32(t-next) < 0 {
				next = t
			}
		}
		if int32(next-s.now) <= 0 {
			next = s.now + 1
		}
		s.setNow(next)
	}
	return -1
}

// earliestTimer: the earliest armed retransmission or probe deadline of either endpoint.
func (s *coreSim) earliestTimer() (uint32, bool) {
	var best uint32
	found := false
	consider := func(t uint32) {
		if !found || int32(t-best) < 0 {
			best, found = t, true
		}
	}
	for e := 0; e < 2; e++ {
		k := s.k[e]
		k.snd_buf.ForEach(func(g *segment) bool {
			if g.acked == 0 {
				consider(g.resendts)
			}
			return true
		})
		if k.rmt_wnd == 0 && k.probe_wait != 0 {
			consider(k.ts_probe)
		}
		if k.rmt_wnd == 0 && k.probe_wait == 0 {
			consider(s.now + 1) // the next flush arms the probe timer
		}
		if k.snd_queue.Len() > 0 && k.rmt_wnd != 0 {
			consider(s.now + uint32(k.interval)) // admission is possible at the next flush
		}
	}
	return best, found
}

// quiescent: no endpoint will ever transmit again on its own.
func (s *coreSim) quiescent() bool {
	if len(s.pend[0]) > 0 || len(s.pend[1]) > 0 {
		return false
	}
	for e := 0; e < 2; e++ {
		k := s.k[e]
		if len(k.acklist) > 0 || k.probe != 0 || k.rmt_wnd == 0 {
			return false
		}
		unacked := false
		k.snd_buf.ForEach(func(g *segment) bool {
			if g.acked == 0 {
				unacked = true
			}
			return !unacked
		})
		if unacked {
			return false
		}
		if k.snd_queue.Len() > 0 && (k.nocwnd != 0 || k.cwnd > 0 || k.snd_buf.Len() == 0) && uint32(k.snd_buf.Len()) < min(k.snd_wnd, k.rmt_wnd) {
			return false // a flush can still admit queued data
		}
		if k.PeekSize() >= 0 {
			return false
		}
	}
	return true
}

func defaultProfile() coreProfile {
	return coreProfile{name: "lossy", drop: 15, dup: 10, reorder: 25, hold: 20, maxTicks: 60, stall: 30, fec: 5, updateDrv: 30}
}

func coreCounts(t *testing.T, quick, thorough int) int {
	n := quick
	if vThorough() {
		n = thorough
	}
	return vEnvInt("VERIF_CASES", n)
}

func caseSample(s *coreSim) any {
	ops := s.ops
	if len(ops) > 12 {
		ops = ops[:12]
	}
	return map[string]any{"cfg": s.cfg, "first_ops": ops, "n_ops": len(s.ops)}
}

func infoKey(i coreCaseInfo) string {
	return fmt.Sprintf("r%t,d%t,o%t,z%t,f%t,w%t", i.retrans, i.dupDelivered, i.reordered, i.zeroWnd, i.forged, i.wrapped)
}
