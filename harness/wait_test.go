//go:build verif

// C13 - blocked Read / Write / Accept always wake: data, deadline, close, error.
//
// Real sessions and listeners, REAL TIME, over an in-memory net.PacketConn hub (no sockets).
// Every scenario is a script of causally ordered events (>= 50 ms apart) and a set of
// concurrent callers; the monitors are written from the property text: which call returned,
// with what, and not before which instant.  "Did not return" is only concluded after a margin
// of >= 10 separations (waitMargin).  Outcomes are compared as sets, never as timestamps,
// except for the one comparison the property itself makes: a timeout error must not be
// returned before the deadline that is in force (absolute instant, monotonic clock).
package kcp

import (
	"encoding/binary"
	"fmt"
	"io"
	"net"
	"os"
	"sort"
	"strings"
	"sync"
	"sync/atomic"
	"testing"
	"time"

	"github.com/pkg/errors"
)

// ---------------------------------------------------------------------------- in-memory net

type waitAddr string

func (a waitAddr) Network() string { return "waitmem" }
func (a waitAddr) String() string  { return string(a) }

type waitPkt struct {
	data []byte
	from net.Addr
}

type waitHub struct {
	mu  sync.Mutex
	eps map[string]*waitConn
}

func waitNewHub() *waitHub { return &waitHub{eps: map[string]*waitConn{}} }

// waitConn is one endpoint of the hub: a net.PacketConn whose inbound side can be gated
// (packets held, later released one by one or merged into a single datagram) and whose
// ReadFrom / WriteTo can be made to fail.
type waitConn struct {
	hub  *waitHub
	addr waitAddr
	in   chan waitPkt

	mu   sync.Mutex
	hold bool
	held []waitPkt
	rerr error
	werr error

	rerrCh    chan struct{}
	closed    chan struct{}
	closeOnce sync.Once
	rerrOnce  sync.Once
	sent      atomic.Int64
}

func (h *waitHub) listen(name string) *waitConn {
	c := &waitConn{hub: h, addr: waitAddr(name), in: make(chan waitPkt, 8192),
		rerrCh: make(chan struct{}), closed: make(chan struct{})}
	h.mu.Lock()
	h.eps[name] = c
	h.mu.Unlock()
	return c
}

func (c *waitConn) ReadFrom(p []byte) (int, net.Addr, error) {
	select {
	case <-c.rerrCh:
		return 0, nil, c.readErr()
	case <-c.closed:
		return 0, nil, net.ErrClosed
	default:
	}
	select {
	case pkt := <-c.in:
		n := copy(p, pkt.data)
		return n, pkt.from, nil
	case <-c.rerrCh:
		return 0, nil, c.readErr()
	case <-c.closed:
		return 0, nil, net.ErrClosed
	}
}

func (c *waitConn) readErr() error {
	c.mu.Lock()
	defer c.mu.Unlock()
	return c.rerr
}

func (c *waitConn) WriteTo(p []byte, addr net.Addr) (int, error) {
	c.mu.Lock()
	werr := c.werr
	c.mu.Unlock()
	if werr != nil {
		return 0, werr
	}
	select {
	case <-c.closed:
		return 0, net.ErrClosed
	default:
	}
	c.hub.mu.Lock()
	dst := c.hub.eps[addr.String()]
	c.hub.mu.Unlock()
	c.sent.Add(1)
	if dst == nil {
		return len(p), nil // nobody there: lost
	}
	pkt := waitPkt{data: append([]byte(nil), p...), from: c.addr}
	dst.mu.Lock()
	if dst.hold {
		dst.held = append(dst.held, pkt)
		dst.mu.Unlock()
		return len(p), nil
	}
	dst.mu.Unlock()
	select {
	case dst.in <- pkt:
	default: // queue overflow: lost
	}
	return len(p), nil
}

func (c *waitConn) Close() error {
	c.closeOnce.Do(func() { close(c.closed) })
	return nil
}
func (c *waitConn) LocalAddr() net.Addr                { return c.addr }
func (c *waitConn) SetDeadline(t time.Time) error      { return nil }
func (c *waitConn) SetReadDeadline(t time.Time) error  { return nil }
func (c *waitConn) SetWriteDeadline(t time.Time) error { return nil }

// gate holds every packet addressed to this endpoint from now on.
func (c *waitConn) gate() {
	c.mu.Lock()
	c.hold = true
	c.mu.Unlock()
}

// release opens the gate.  merged: the held packets of one sender are concatenated into single
// datagrams of at most 1400 bytes (valid for raw KCP: a datagram is a sequence of segments).
func (c *waitConn) release(merged bool) int {
	c.mu.Lock()
	held := c.held
	c.held = nil
	c.hold = false
	c.mu.Unlock()
	if merged {
		var out []waitPkt
		for _, p := range held {
			if n := len(out); n > 0 && out[n-1].from == p.from && len(out[n-1].data)+len(p.data) <= 1400 {
				out[n-1].data = append(out[n-1].data, p.data...)
			} else {
				out = append(out, waitPkt{data: append([]byte(nil), p.data...), from: p.from})
			}
		}
		held = out
	}
	for _, p := range held {
		select {
		case c.in <- p:
		default:
		}
	}
	return len(held)
}

var errWaitInjected = fmt.Errorf("verif: injected socket error")

func (c *waitConn) failReads() {
	c.mu.Lock()
	c.rerr = errWaitInjected
	c.mu.Unlock()
	c.rerrOnce.Do(func() { close(c.rerrCh) })
}
func (c *waitConn) failWrites() {
	c.mu.Lock()
	c.werr = errWaitInjected
	c.mu.Unlock()
}

// ---------------------------------------------------------------------------- environment

const (
	waitSep    = 60 * time.Millisecond   // separation of causally ordered events (>= 50 ms)
	waitDl     = 250 * time.Millisecond  // a near deadline
	waitFar    = 20 * time.Second        // a deadline that never fires within a scenario
	waitMargin = 1500 * time.Millisecond // "did not return" is concluded only after this (>= 10 x waitSep)
)

var waitConvCounter atomic.Uint32

// waitEnv: one listener, one established pair (client session cs <-> accepted session ss).
type waitEnv struct {
	name  string
	hub   *waitHub
	sconn *waitConn // listener side
	cconn *waitConn // client side
	l     *Listener
	cs    *UDPSession
	ss    *UDPSession
	t0    time.Time
	mu    sync.Mutex
	log   []string
	extra []*UDPSession
}

func (e *waitEnv) logf(format string, a ...any) {
	e.mu.Lock()
	e.log = append(e.log, fmt.Sprintf("%6dms ", time.Since(e.t0).Milliseconds())+fmt.Sprintf(format, a...))
	e.mu.Unlock()
}

func waitTune(s *UDPSession) {
	s.SetNoDelay(1, 10, 2, 1)
	s.SetACKNoDelay(true)
	s.SetWindowSize(32, 32)
}

// waitNewEnv builds the hub and the listener; with pair it also establishes cs <-> ss.
func waitNewEnv(name string, pair bool) (*waitEnv, error) {
	e := &waitEnv{name: name, hub: waitNewHub(), t0: time.Now()}
	e.sconn = e.hub.listen("srv")
	l, err := ServeConn(nil, 0, 0, e.sconn)
	if err != nil {
		return nil, err
	}
	e.l = l
	if !pair {
		return e, nil
	}
	e.cconn = e.hub.listen("cli")
	cs, err := NewConn3(1000+waitConvCounter.Add(1), waitAddr("srv"), nil, 0, 0, e.cconn)
	if err != nil {
		return nil, err
	}
	e.cs = cs
	waitTune(cs)
	if _, err := cs.Write([]byte("hello")); err != nil {
		return nil, err
	}
	l.SetReadDeadline(time.Now().Add(5 * time.Second))
	ss, err := l.AcceptKCP()
	if err != nil {
		return nil, fmt.Errorf("setup accept: %v", err)
	}
	l.SetReadDeadline(time.Time{})
	e.ss = ss
	waitTune(ss)
	buf := make([]byte, 64)
	ss.SetReadDeadline(time.Now().Add(5 * time.Second))
	if n, err := ss.Read(buf); err != nil || string(buf[:n]) != "hello" {
		return nil, fmt.Errorf("setup read: %v %q", err, buf[:n])
	}
	ss.SetReadDeadline(time.Time{})
	time.Sleep(30 * time.Millisecond) // let the ACK of "hello" travel
	return e, nil
}

// newPeer dials one more client (a new address and conversation) that sends one message.
func (e *waitEnv) newPeer(i int) error {
	c := e.hub.listen(fmt.Sprintf("peer%d", i))
	s, err := NewConn3(5000+waitConvCounter.Add(1), waitAddr("srv"), nil, 0, 0, c)
	if err != nil {
		return err
	}
	waitTune(s)
	e.mu.Lock()
	e.extra = append(e.extra, s)
	e.mu.Unlock()
	_, err = s.Write([]byte("new peer"))
	return err
}

func (e *waitEnv) teardown() {
	if e.cs != nil {
		e.cs.Close()
	}
	if e.ss != nil {
		e.ss.Close()
	}
	e.mu.Lock()
	ex := e.extra
	e.mu.Unlock()
	for _, s := range ex {
		s.Close()
	}
	e.l.Close()
	// drain the backlog so that unaccepted sessions do not linger
	for {
		select {
		case s := <-e.l.chAccepts:
			s.Close()
			continue
		default:
		}
		break
	}
	e.sconn.Close()
	if e.cconn != nil {
		e.cconn.Close()
	}
	e.hub.mu.Lock()
	for _, c := range e.hub.eps {
		c.Close()
	}
	e.hub.mu.Unlock()
}

// ---------------------------------------------------------------------------- calls

type waitCall struct {
	kind  string // Read | Write | Accept
	idx   int
	done  chan struct{}
	class string // data | written | accepted | timeout | closed | sockerr | err:<text>
	n     int
	at    time.Time
	early bool // a timeout returned before the deadline in force (or with none in force)
}

func waitClassify(okClass string, err error) string {
	if err == nil {
		return okClass
	}
	cause := errors.Cause(err)
	if cause == errTimeout {
		return "timeout"
	}
	if cause == io.ErrClosedPipe {
		return "closed"
	}
	if cause == errWaitInjected {
		return "sockerr"
	}
	if ne, ok := cause.(net.Error); ok && ne.Timeout() {
		return "timeout"
	}
	return "err:" + err.Error()
}

func (e *waitEnv) finish(c *waitCall, okClass string, n int, err error) {
	c.at = time.Now()
	c.n = n
	c.class = waitClassify(okClass, err)
	e.logf("%s#%d returned %s n=%d", c.kind, c.idx, c.class, n)
	close(c.done)
}

func (e *waitEnv) goRead(s *UDPSession, idx, bufsize int) *waitCall {
	c := &waitCall{kind: "Read", idx: idx, done: make(chan struct{})}
	go func() {
		buf := make([]byte, bufsize)
		n, err := s.Read(buf)
		e.finish(c, "data", n, err)
	}()
	return c
}

func (e *waitEnv) goWrite(s *UDPSession, idx int, payload []byte) *waitCall {
	c := &waitCall{kind: "Write", idx: idx, done: make(chan struct{})}
	go func() {
		n, err := s.Write(payload)
		e.finish(c, "written", n, err)
	}()
	return c
}

func (e *waitEnv) goAccept(idx int) *waitCall {
	c := &waitCall{kind: "Accept", idx: idx, done: make(chan struct{})}
	go func() {
		s, err := e.l.AcceptKCP()
		if s != nil {
			e.mu.Lock()
			e.extra = append(e.extra, s)
			e.mu.Unlock()
		}
		e.finish(c, "accepted", 0, err)
	}()
	return c
}

func (c *waitCall) returned() bool {
	select {
	case <-c.done:
		return true
	default:
		return false
	}
}

// waitAll waits until every call has returned or `until` has passed; reports how many returned.
func waitAll(calls []*waitCall, until time.Time) int {
	n := 0
	for _, c := range calls {
		d := time.Until(until)
		if d < 0 {
			d = 0
		}
		select {
		case <-c.done:
			n++
		case <-time.After(d):
			if c.returned() {
				n++
			}
		}
	}
	return n
}

func waitBlocked(calls []*waitCall) int {
	n := 0
	for _, c := range calls {
		if !c.returned() {
			n++
		}
	}
	return n
}

func waitClasses(calls []*waitCall) []string {
	var out []string
	for _, c := range calls {
		if c.returned() {
			if c.class == "timeout" && c.early {
				out = append(out, "timeout-early")
			} else {
				out = append(out, c.class)
			}
		} else {
			out = append(out, "blocked")
		}
	}
	sort.Strings(out)
	return out
}

// ---------------------------------------------------------------------------- scenario result

type waitViolation struct {
	key, what string
}

type waitResult struct {
	Name       string   `json:"name"`
	Kind       string   `json:"kind"`
	Callers    int      `json:"callers"`
	Outcome    []string `json:"outcome"` // sorted classes of the calls (blocked = did not return)
	Blocked    bool     `json:"blocked_before_event"`
	Log        []string `json:"log"`
	violations []waitViolation
	setupErr   error
	checks     map[string]int
}

func (r *waitResult) violate(key, format string, a ...any) {
	r.violations = append(r.violations, waitViolation{key, fmt.Sprintf(format, a...)})
}
func (r *waitResult) check(monitor string) { r.checks[monitor]++ }

type waitScenario struct {
	name    string
	kind    string // Read | Write | Accept
	callers int
	pair    bool
	run     func(e *waitEnv, r *waitResult, sc *waitScenario)
	jitter  time.Duration
}

func (sc *waitScenario) sep() { time.Sleep(waitSep + sc.jitter) }

func waitJoin(ss []string) string { return strings.Join(ss, ",") }

func waitInts(xs []int) string {
	var s []string
	for _, x := range xs {
		s = append(s, fmt.Sprint(x))
	}
	return strings.Join(s, ".")
}

// ---------------------------------------------------------------------------- the three sides

// waitSide abstracts what differs between Read, Write and Accept in a scenario.
type waitSide struct {
	kind    string
	okClass string
	dlKey   func(seq string) string           // violation key of an ignored deadline change
	prepare func(e *waitEnv) error            // make the next calls block
	call    func(e *waitEnv, i int) *waitCall // one caller
	wake    func(e *waitEnv, n int) error     // make what n callers wait for possible
	setDl   func(e *waitEnv, t time.Time)
	closeIt func(e *waitEnv)
	failIt  func(e *waitEnv)
}

var waitReadSide = waitSide{
	kind: "Read", okClass: "data",
	dlKey:   func(seq string) string { return "deadline-" + seq + "-ignored:Read" },
	prepare: func(e *waitEnv) error { return nil },
	call:    func(e *waitEnv, i int) *waitCall { return e.goRead(e.cs, i, 256) },
	wake: func(e *waitEnv, n int) error {
		// n messages in ONE datagram: hold the client's inbound side, write, release merged
		e.cconn.gate()
		for i := 0; i < n; i++ {
			if _, err := e.ss.Write([]byte(fmt.Sprintf("message-%d", i))); err != nil {
				return err
			}
		}
		time.Sleep(30 * time.Millisecond)
		k := e.cconn.release(true)
		e.logf("released %d datagram(s) carrying %d message(s)", k, n)
		return nil
	},
	setDl:   func(e *waitEnv, t time.Time) { e.cs.SetReadDeadline(t) },
	closeIt: func(e *waitEnv) { e.cs.Close() },
	failIt:  func(e *waitEnv) { e.cconn.failReads() },
}

const waitWnd = 2

var waitWriteSide = waitSide{
	kind: "Write", okClass: "written",
	dlKey: func(seq string) string { return "deadline-" + seq + "-ignored:Write" },
	prepare: func(e *waitEnv) error {
		// nothing reaches the server any more, so nothing is acknowledged; fill the send window
		e.sconn.gate()
		e.cs.SetWindowSize(waitWnd, 32)
		// (the window is open, so these writes do not block; deadlines are left untouched)
		for i := 0; i < waitWnd; i++ {
			if _, err := e.cs.Write([]byte("fill")); err != nil {
				return fmt.Errorf("filling the window: %v", err)
			}
		}
		return nil
	},
	call: func(e *waitEnv, i int) *waitCall { return e.goWrite(e.cs, i, []byte(fmt.Sprintf("w-%d", i))) },
	wake: func(e *waitEnv, n int) error {
		k := e.sconn.release(false)
		e.logf("window opens: %d held datagram(s) delivered to the peer", k)
		return nil
	},
	setDl:   func(e *waitEnv, t time.Time) { e.cs.SetWriteDeadline(t) },
	closeIt: func(e *waitEnv) { e.cs.Close() },
	failIt:  func(e *waitEnv) { e.cconn.failWrites() },
}

var waitAcceptSide = waitSide{
	kind: "Accept", okClass: "accepted",
	dlKey:   func(seq string) string { return "deadline-" + seq + "-ignored:Accept" },
	prepare: func(e *waitEnv) error { return nil },
	call:    func(e *waitEnv, i int) *waitCall { return e.goAccept(i) },
	wake: func(e *waitEnv, n int) error {
		for i := 0; i < n; i++ {
			if err := e.newPeer(i); err != nil {
				return err
			}
		}
		return nil
	},
	setDl:   func(e *waitEnv, t time.Time) { e.l.SetReadDeadline(t) },
	closeIt: func(e *waitEnv) { e.l.Close() },
	failIt:  func(e *waitEnv) { e.sconn.failReads() },
}

// start n callers after prepare; wait one separation; all must still be blocked.
func waitStart(e *waitEnv, r *waitResult, sc *waitScenario, sd *waitSide, n int) []*waitCall {
	if err := sd.prepare(e); err != nil {
		r.setupErr = err
		return nil
	}
	var calls []*waitCall
	for i := 0; i < n; i++ {
		calls = append(calls, sd.call(e, i))
	}
	sc.sep()
	return calls
}

// every call must be parked now; a call that has returned had nothing to return for
func waitExpectBlocked(e *waitEnv, r *waitResult, sd *waitSide, calls []*waitCall, when string) bool {
	r.check("still-blocked-while-nothing-happened")
	r.Outcome = waitClasses(calls)
	if b := waitBlocked(calls); b != len(calls) {
		r.violate("spurious-return:"+sd.kind, "%s: %d of %d %s calls returned (%s) %s although nothing they wait for had happened",
			e.name, len(calls)-b, len(calls), sd.kind, waitJoin(waitClasses(calls)), when)
		return false
	}
	r.Blocked = true
	return true
}

// all calls return `class` by `by`; none of the timeouts earlier than `notBefore`
func waitExpectAll(e *waitEnv, r *waitResult, sd *waitSide, calls []*waitCall, class string, notBefore time.Time, by time.Time, keyMissing, keyEarly, what string) {
	waitAll(calls, by)
	r.check(what)
	for _, c := range calls {
		if c.returned() && c.class == "timeout" && !notBefore.IsZero() && c.at.Before(notBefore) {
			c.early = true
		}
	}
	r.Outcome = waitMarkUnclaimed(e, sd, waitClasses(calls))
	for _, c := range calls {
		if !c.returned() {
			r.violate(keyMissing, "%s: a %s call is still blocked %v after %s (calls: %s)", e.name, c.kind, waitMargin, what, waitJoin(waitClasses(calls)))
			return
		}
	}
	for _, c := range calls {
		if c.class == "timeout" && !notBefore.IsZero() && c.at.Before(notBefore) {
			e.logf("%s#%d: timeout %v before the deadline in force", c.kind, c.idx, notBefore.Sub(c.at).Round(time.Millisecond))
			r.violate(keyEarly, "%s: a %s call returned a timeout before the deadline in force (calls: %s)", e.name, c.kind, waitJoin(waitClasses(calls)))
			return
		}
	}
	for _, c := range calls {
		if c.class != class {
			r.violate("wrong-result:"+sd.kind+":"+class, "%s: %s#%d returned %s, expected %s (%s)", e.name, c.kind, c.idx, c.class, class, what)
			return
		}
	}
}

// readable reports whether the reading session has data a Read would return at once
// (leftover of a message in bufptr, or a complete message in the core).
func (e *waitEnv) readable() (any bool, leftover, peek int) {
	e.cs.mu.Lock()
	defer e.cs.mu.Unlock()
	leftover, peek = len(e.cs.bufptr), e.cs.kcp.PeekSize()
	return leftover > 0 || peek > 0, leftover, peek
}

// a Read that is still parked while data is readable is reported as "blocked-data"
func waitMarkUnclaimed(e *waitEnv, sd *waitSide, classes []string) []string {
	if sd.kind != "Read" || e.cs == nil {
		return classes
	}
	if any, _, _ := e.readable(); !any {
		return classes
	}
	out := append([]string{}, classes...)
	for i := range out {
		if out[i] == "blocked" {
			out[i] = "blocked-data"
		}
	}
	sort.Strings(out)
	return out
}

// ---------------------------------------------------------------------------- scenarios

func waitScWake(sd *waitSide, n int, key string) func(*waitEnv, *waitResult, *waitScenario) {
	return func(e *waitEnv, r *waitResult, sc *waitScenario) {
		calls := waitStart(e, r, sc, sd, n)
		if calls == nil || !waitExpectBlocked(e, r, sd, calls, "before the event") {
			return
		}
		if err := sd.wake(e, n); err != nil {
			r.setupErr = err
			return
		}
		waitExpectAll(e, r, sd, calls, sd.okClass, time.Time{}, time.Now().Add(waitMargin), key, "", "what the calls wait for became possible for all of them")
	}
}

func waitScDeadlineBefore(sd *waitSide, n int, both bool) func(*waitEnv, *waitResult, *waitScenario) {
	return func(e *waitEnv, r *waitResult, sc *waitScenario) {
		if err := sd.prepare(e); err != nil {
			r.setupErr = err
			return
		}
		dl := time.Now().Add(waitDl)
		if both {
			e.cs.SetDeadline(dl)
		} else {
			sd.setDl(e, dl)
		}
		var calls []*waitCall
		for i := 0; i < n; i++ {
			calls = append(calls, sd.call(e, i))
		}
		sc.sep()
		r.Blocked = waitBlocked(calls) == n
		waitExpectAll(e, r, sd, calls, "timeout", dl, dl.Add(waitMargin), "deadline-before-call-ignored:"+sd.kind, "timeout-before-deadline:"+sd.kind, "the deadline set before the call expired")
	}
}

func waitScPastBefore(sd *waitSide, n int) func(*waitEnv, *waitResult, *waitScenario) {
	return func(e *waitEnv, r *waitResult, sc *waitScenario) {
		if err := sd.prepare(e); err != nil {
			r.setupErr = err
			return
		}
		sd.setDl(e, time.Now().Add(-time.Second))
		var calls []*waitCall
		for i := 0; i < n; i++ {
			calls = append(calls, sd.call(e, i))
		}
		waitExpectAll(e, r, sd, calls, "timeout", time.Time{}, time.Now().Add(waitMargin), "deadline-past-ignored:"+sd.kind, "", "a deadline in the past was set before the call")
	}
}

// seq: none-then-set | set-later | set-earlier | set-zero-set | set-past
func waitScDeadlineChange(sd *waitSide, seq string, n int) func(*waitEnv, *waitResult, *waitScenario) {
	return func(e *waitEnv, r *waitResult, sc *waitScenario) {
		switch seq {
		case "none-then-set":
			sd.setDl(e, time.Time{})
		case "set-later":
			sd.setDl(e, time.Now().Add(2*waitDl))
		default:
			sd.setDl(e, time.Now().Add(waitFar))
		}
		calls := waitStart(e, r, sc, sd, n)
		if calls == nil || !waitExpectBlocked(e, r, sd, calls, "before the deadline change") {
			return
		}
		var dl time.Time
		switch seq {
		case "set-later":
			dl = time.Now().Add(4 * waitDl)
		case "set-zero-set":
			sd.setDl(e, time.Time{})
			e.logf("deadline cleared")
			sc.sep()
			dl = time.Now().Add(waitDl)
		case "set-past":
			dl = time.Now().Add(-time.Second)
		default:
			dl = time.Now().Add(waitDl)
		}
		sd.setDl(e, dl)
		e.logf("deadline %s -> %dms", seq, dl.Sub(e.t0).Milliseconds())
		keyMissing, keyEarly := sd.dlKey(seq), "timeout-before-deadline:"+sd.kind
		if n > 1 {
			// a deadline change must reach EVERY blocked caller (the setters broadcast it): a caller that
			// keeps the timer of the replaced deadline returns late (earlier deadline) or early (later one)
			keyMissing, keyEarly = "deadline-change-multi-waiter:late:"+sd.kind, "deadline-change-multi-waiter:early:"+sd.kind
		}
		if sd.kind == "Accept" && n == 1 {
			keyMissing = sd.dlKey(seq)
		}
		by := dl.Add(waitMargin)
		if seq == "set-past" {
			by = time.Now().Add(waitMargin)
		}
		waitExpectAll(e, r, sd, calls, "timeout", dl, by, keyMissing, keyEarly, "the deadline changed while blocked ("+seq+") expired")
	}
}

// deadline cleared while blocked: no timeout at the old deadline for any of the n parked callers
// (the setter's broadcast reaches all of them; a timer that still fires is re-validated); the
// calls still wake on data
func waitScCleared(sd *waitSide, n int) func(*waitEnv, *waitResult, *waitScenario) {
	return func(e *waitEnv, r *waitResult, sc *waitScenario) {
		old := time.Now().Add(2 * waitDl)
		sd.setDl(e, old)
		calls := waitStart(e, r, sc, sd, n)
		if calls == nil || !waitExpectBlocked(e, r, sd, calls, "before the deadline was cleared") {
			return
		}
		sd.setDl(e, time.Time{})
		e.logf("deadline cleared")
		waitAll(calls, old.Add(400*time.Millisecond))
		r.check("cleared deadline does not fire")
		fired := -1
		for i, c := range calls {
			if c.returned() {
				if c.class == "timeout" {
					c.early = true
				}
				if fired < 0 {
					fired = i
				}
			}
		}
		r.Outcome = waitClasses(calls)
		if fired >= 0 {
			key := "deadline-cleared-still-fires:" + sd.kind
			if n > 1 {
				key = "deadline-cleared-still-fires:multi-waiter:" + sd.kind
			}
			r.violate(key, "%s: %s (caller %d of %d) returned %s at a deadline that had been cleared before it expired", e.name, sd.kind, fired, n, calls[fired].class)
			return
		}
		if err := sd.wake(e, n); err != nil {
			r.setupErr = err
			return
		}
		waitExpectAll(e, r, sd, calls, sd.okClass, time.Time{}, time.Now().Add(waitMargin), "lost-wakeup-after-cleared-deadline:"+sd.kind, "", "what the call waits for became possible after its deadline was cleared")
	}
}

// SetDeadline (both directions) while a call of ONE direction is blocked and the two deadlines
// differ: the OTHER direction's deadline was set on its own (a short one, long expired when
// SetDeadline is called: old other < t), this direction has no deadline (far = false) or a
// distant one (far = true).  The blocked call must return a timeout at t.  A setter that decides
// the wake-up of both directions from one of the old deadlines leaves the call parked (no timer)
// or on its distant timer.
func waitScSetDeadlineOther(sd *waitSide, far bool) func(*waitEnv, *waitResult, *waitScenario) {
	return func(e *waitEnv, r *waitResult, sc *waitScenario) {
		short := time.Now().Add(waitSep / 2)
		if sd.kind == "Write" {
			e.cs.SetReadDeadline(short)
		} else {
			e.cs.SetWriteDeadline(short)
		}
		if far {
			sd.setDl(e, time.Now().Add(waitFar))
		}
		calls := waitStart(e, r, sc, sd, 1)
		if calls == nil || !waitExpectBlocked(e, r, sd, calls, "before SetDeadline") {
			return
		}
		dl := time.Now().Add(waitDl)
		e.cs.SetDeadline(dl)
		e.logf("SetDeadline -> %dms (other direction's own deadline expired at %dms, this direction: far=%v)",
			dl.Sub(e.t0).Milliseconds(), short.Sub(e.t0).Milliseconds(), far)
		waitExpectAll(e, r, sd, calls, "timeout", dl, dl.Add(waitMargin), "deadline-setdeadline-ignored:"+sd.kind,
			"timeout-before-deadline:"+sd.kind, "the deadline set by SetDeadline while blocked (the other direction had its own deadline) expired")
	}
}

func waitScClose(sd *waitSide, n int) func(*waitEnv, *waitResult, *waitScenario) {
	return func(e *waitEnv, r *waitResult, sc *waitScenario) {
		calls := waitStart(e, r, sc, sd, n)
		if calls == nil || !waitExpectBlocked(e, r, sd, calls, "before Close") {
			return
		}
		sd.closeIt(e)
		e.logf("Close")
		waitExpectAll(e, r, sd, calls, "closed", time.Time{}, time.Now().Add(waitMargin), "close-does-not-wake:"+sd.kind, "", "Close")
	}
}

func waitScSockErr(sd *waitSide, n int) func(*waitEnv, *waitResult, *waitScenario) {
	return func(e *waitEnv, r *waitResult, sc *waitScenario) {
		calls := waitStart(e, r, sc, sd, n)
		if calls == nil || !waitExpectBlocked(e, r, sd, calls, "before the socket error") {
			return
		}
		sd.failIt(e)
		e.logf("socket error injected")
		waitExpectAll(e, r, sd, calls, "sockerr", time.Time{}, time.Now().Add(waitMargin), "socket-error-does-not-wake:"+sd.kind, "", "the socket reported an error")
	}
}

// n messages in n separate datagrams: every datagram posts its own token
// A data packet is lost; the next data packet and the group's parity arrive: the packet that
// makes a blocked Read possible is a PARITY packet (the FEC decoder reconstructs the lost one and
// feeds it to the core).  Nothing else arrives afterwards, so nothing else can wake the reader.
func waitScReadFecRecovery(e *waitEnv, r *waitResult, sc *waitScenario) {
	srv, cli := e.hub.listen("srvfec"), e.hub.listen("clifec")
	l, err := ServeConn(nil, 2, 1, srv)
	if err != nil {
		r.setupErr = err
		return
	}
	defer l.Close()
	fc, _ := NewConn3(7000+waitConvCounter.Add(1), waitAddr("srvfec"), nil, 2, 1, cli)
	defer fc.Close()
	waitTune(fc)
	fc.Write([]byte("setup-0")) // FEC ids 0 and 1: the first group is complete and out of the way
	l.SetReadDeadline(time.Now().Add(5 * time.Second))
	fs, err := l.AcceptKCP()
	if err != nil {
		r.setupErr = fmt.Errorf("fec setup accept: %v", err)
		return
	}
	defer fs.Close()
	waitTune(fs)
	buf := make([]byte, 64)
	fs.SetReadDeadline(time.Now().Add(5 * time.Second))
	fs.Read(buf)
	fc.Write([]byte("setup-1"))
	fs.Read(buf)
	fs.SetReadDeadline(time.Time{})
	time.Sleep(40 * time.Millisecond) // acknowledgements travel; the client falls silent
	call := e.goRead(fs, 0, 256)
	sc.sep()
	if !waitExpectBlocked(e, r, &waitReadSide, []*waitCall{call}, "before the data") {
		return
	}
	srv.gate() // from now on nothing reaches the server unless the harness hands it over
	cli.gate() // (and the client hears nothing back)
	fc.Write([]byte("lost-message"))
	fc.Write([]byte("next-message"))
	time.Sleep(8 * time.Millisecond)
	srv.mu.Lock()
	held := append([]waitPkt(nil), srv.held...)
	srv.mu.Unlock()
	// the first three datagrams of the client are data, data, parity of one group
	typ := func(p waitPkt) uint16 {
		if len(p.data) < 6 {
			return 0
		}
		return binary.LittleEndian.Uint16(p.data[4:])
	}
	if len(held) < 3 || typ(held[0]) != typeData || typ(held[1]) != typeData || typ(held[2]) != typeParity {
		r.setupErr = fmt.Errorf("fec setup: expected data, data, parity - got %d datagrams", len(held))
		return
	}
	e.logf("data packet 1 of the group is lost; data packet 2 and the parity packet are delivered")
	srv.in <- held[1]
	time.Sleep(10 * time.Millisecond)
	srv.in <- held[2]
	waitExpectAll(e, r, &waitReadSide, []*waitCall{call}, "data", time.Time{}, time.Now().Add(waitMargin),
		"read-data-lost-wakeup:fec-recovery", "", "the parity packet completed the group and the lost message was reconstructed")
}

// Read blocked on an ACCEPTED session (it has no receive loop of its own: the listener's monitor
// hands socket errors on); the listener is closed first, then the shared socket fails: the error
// must still reach the session and wake its reader.
func waitScReadAcceptedSockErr(e *waitEnv, r *waitResult, sc *waitScenario) {
	call := e.goRead(e.ss, 0, 256)
	sc.sep()
	if !waitExpectBlocked(e, r, &waitReadSide, []*waitCall{call}, "before the listener was closed") {
		return
	}
	e.l.Close() // the listener does not own the socket: its sessions live on
	sc.sep()
	if call.returned() && call.class != "sockerr" && call.class != "closed" {
		r.violate("spurious-return:Read", "%s: Read on the accepted session returned %s when its listener was closed", e.name, call.class)
		return
	}
	e.sconn.failReads()
	e.logf("listener closed, then the socket's reads fail")
	waitAll([]*waitCall{call}, time.Now().Add(waitMargin))
	r.check("socket error after Listener.Close reaches the accepted session")
	r.Outcome = waitClasses([]*waitCall{call})
	if !call.returned() {
		r.violate("socket-error-does-not-wake:Read:accepted-session-after-listener-close", "%s: Read on an accepted session is still blocked %v after its listener was closed and the socket reported a read error", e.name, waitMargin)
	}
}

// A writer blocked on a full send window; the peer's receive window is as small as that send window
// and its application does not read, so the acknowledgements that empty the send buffer advertise a
// window of 0.  Write is admitted while fewer than a send window of segments are pending (C04),
// whatever the peer advertises: the blocked writer must be woken by those acknowledgements.
func waitScWritePeerWindowClosed(e *waitEnv, r *waitResult, sc *waitScenario) {
	sd := &waitWriteSide
	e.ss.SetWindowSize(32, waitWnd)
	calls := waitStart(e, r, sc, sd, 1)
	if calls == nil || !waitExpectBlocked(e, r, sd, calls, "before the acknowledgements") {
		return
	}
	if err := sd.wake(e, 1); err != nil {
		r.setupErr = err
		return
	}
	waitExpectAll(e, r, sd, calls, "written", time.Time{}, time.Now().Add(waitMargin), "write-window-lost-wakeup:peer-window-closed", "",
		"the send buffer was acknowledged empty by a peer that advertises a closed window")
}

// A writer blocked on a full send window while the peer is silent; the application enlarges the send
// window (SetWindowSize).  Free window is what a blocked Write waits for, wherever it comes from:
// nothing arrives from the peer, so only the session's own periodic update can tell the writer.
func waitScWriteWindowEnlarged(e *waitEnv, r *waitResult, sc *waitScenario) {
	sd := &waitWriteSide
	calls := waitStart(e, r, sc, sd, 1)
	if calls == nil || !waitExpectBlocked(e, r, sd, calls, "before the window is enlarged") {
		return
	}
	e.cs.SetWindowSize(4*waitWnd, 4*waitWnd)
	e.logf("SetWindowSize enlarged the send window to %d while the writer is parked (the peer stays silent)", 4*waitWnd)
	waitExpectAll(e, r, sd, calls, "written", time.Time{}, time.Now().Add(waitMargin), "write-window-lost-wakeup:window-enlarged", "",
		"SetWindowSize enlarged the send window while nothing arrived from the peer")
}

func waitScReadSeparate(n int) func(*waitEnv, *waitResult, *waitScenario) {
	return func(e *waitEnv, r *waitResult, sc *waitScenario) {
		sd := &waitReadSide
		calls := waitStart(e, r, sc, sd, n)
		if calls == nil || !waitExpectBlocked(e, r, sd, calls, "before the data") {
			return
		}
		for i := 0; i < n; i++ {
			if _, err := e.ss.Write([]byte(fmt.Sprintf("separate-%d", i))); err != nil {
				r.setupErr = err
				return
			}
			sc.sep()
		}
		waitExpectAll(e, r, sd, calls, "data", time.Time{}, time.Now().Add(waitMargin), "read-data-lost-wakeup:separate-datagrams", "", "one message per blocked reader arrived, each in its own datagram")
	}
}

// two readers with 4-byte buffers, ONE 8-byte message: the second half stays in bufptr
func waitScReadShort(e *waitEnv, r *waitResult, sc *waitScenario) {
	sd := &waitReadSide
	if err := sd.prepare(e); err != nil {
		r.setupErr = err
		return
	}
	calls := []*waitCall{e.goRead(e.cs, 0, 4), e.goRead(e.cs, 1, 4)}
	sc.sep()
	if !waitExpectBlocked(e, r, sd, calls, "before the data") {
		return
	}
	if _, err := e.ss.Write([]byte("12345678")); err != nil {
		r.setupErr = err
		return
	}
	waitExpectAll(e, r, sd, calls, "data", time.Time{}, time.Now().Add(waitMargin), "read-multi-waiter-lost-wakeup:short-buffer", "", "an 8-byte message arrived for two readers with 4-byte buffers")
}

// len(bufs) readers (reader i has a bufs[i]-byte buffer, parked in index order) and ONE
// datagram carrying len(msgs) messages of the given lengths.  Monitor (order-independent):
// once everything has settled, no reader may still be parked while the session has readable
// data ("readable data is never left unclaimed while someone is waiting"); and the bytes
// handed out are a prefix of the bytes sent.
func waitScReadMulti(bufs, msgs []int, variant string) func(*waitEnv, *waitResult, *waitScenario) {
	return func(e *waitEnv, r *waitResult, sc *waitScenario) {
		sd := &waitReadSide
		total := 0
		for _, m := range msgs {
			total += m
		}
		var calls []*waitCall
		for i, b := range bufs {
			calls = append(calls, e.goRead(e.cs, i, b))
			time.Sleep(15 * time.Millisecond) // parking order = index order
		}
		sc.sep()
		if !waitExpectBlocked(e, r, sd, calls, "before the data") {
			return
		}
		e.cconn.gate()
		for i, m := range msgs {
			payload := make([]byte, m)
			for j := range payload {
				payload[j] = byte('a' + i)
			}
			if _, err := e.ss.Write(payload); err != nil {
				r.setupErr = err
				return
			}
		}
		time.Sleep(30 * time.Millisecond)
		k := e.cconn.release(true)
		e.logf("released %d datagram(s) carrying %d message(s) of %v bytes to %d readers with buffers %v", k, len(msgs), msgs, len(bufs), bufs)
		if k != 1 {
			r.setupErr = fmt.Errorf("the %d messages did not travel in one datagram (%d)", len(msgs), k)
			return
		}
		waitAll(calls, time.Now().Add(waitMargin))
		r.check("readable data is never left unclaimed while a reader waits (one datagram, several messages / overflow)")
		r.Outcome = waitMarkUnclaimed(e, sd, waitClasses(calls))
		claimed := 0
		for _, c := range calls {
			if c.returned() {
				if c.class != "data" {
					r.violate("wrong-result:Read:data", "%s: Read#%d returned %s", e.name, c.idx, c.class)
					return
				}
				claimed += c.n
			}
		}
		any, leftover, peek := e.readable()
		e.logf("settled: %d of %d bytes claimed, %d reader(s) parked, leftover=%d PeekSize=%d", claimed, total, waitBlocked(calls), leftover, peek)
		if claimed > total {
			r.violate("read-multi-waiter-overclaim", "%s: readers received %d bytes, only %d were sent", e.name, claimed, total)
			return
		}
		if b := waitBlocked(calls); b > 0 && any {
			r.violate("read-multi-waiter-lost-wakeup:"+variant, "%s: %d of %d readers are still parked %v after one datagram with %d message(s) %v arrived for buffers %v, although data is readable (leftover %d bytes, next message %d bytes; calls: %s)",
				e.name, b, len(calls), waitMargin, len(msgs), msgs, bufs, leftover, max(peek, 0), waitJoin(r.Outcome))
		}
	}
}

// After Close: Write fails; Read first drains what was received, then fails; 2nd Close errors.
func waitScAfterClose(e *waitEnv, r *waitResult, sc *waitScenario) {
	for i := 0; i < 2; i++ {
		if _, err := e.ss.Write([]byte(fmt.Sprintf("before-close-%d", i))); err != nil {
			r.setupErr = err
			return
		}
	}
	sc.sep()
	sc.sep()
	err1 := e.cs.Close()
	e.logf("Close -> %v", err1)
	r.check("first Close succeeds")
	if err1 != nil {
		r.violate("after-close:first-close-error", "%s: first Close returned %v", e.name, err1)
	}
	r.check("Write after Close fails")
	w := e.goWrite(e.cs, 0, []byte("after close"))
	waitAll([]*waitCall{w}, time.Now().Add(waitMargin))
	if !w.returned() || w.class == "written" {
		r.violate("after-close:write-succeeds", "%s: Write after Close: %s", e.name, waitJoin(waitClasses([]*waitCall{w})))
	}
	r.check("Read after Close drains, then fails")
	var got []string
	for i := 0; i < 3; i++ {
		c := e.goRead(e.cs, i, 256)
		waitAll([]*waitCall{c}, time.Now().Add(waitMargin))
		if !c.returned() {
			r.violate("after-close:read-blocks", "%s: Read #%d after Close did not return", e.name, i)
			got = append(got, "blocked")
			break
		}
		got = append(got, c.class)
	}
	r.Outcome = append([]string{}, got...)
	if waitJoin(got) != "data,data,closed" {
		r.violate("after-close:read-order", "%s: Reads after Close returned %s, expected data,data,closed", e.name, waitJoin(got))
	}
	r.check("second Close reports an error")
	if err2 := e.cs.Close(); err2 == nil {
		r.violate("after-close:second-close-nil", "%s: second Close returned nil", e.name)
	}
}

// Two goroutines close one session at the same time while the session is busy (its mutex is held by
// somebody else for a moment): exactly one of them closed it, the other one is the second Close
// and reports an error - "second" is not a matter of how close in time the two calls are.
func waitScCloseTwiceConcurrent(e *waitEnv, r *waitResult, sc *waitScenario) {
	for round := 0; round < 6; round++ {
		srv, cli := e.hub.listen(fmt.Sprintf("srvcc%d", round)), e.hub.listen(fmt.Sprintf("clicc%d", round))
		_ = srv
		s, err := NewConn3(9000+waitConvCounter.Add(1), waitAddr(fmt.Sprintf("srvcc%d", round)), nil, 0, 0, cli)
		if err != nil {
			r.setupErr = err
			return
		}
		s.mu.Lock()
		errs := make(chan error, 2)
		for i := 0; i < 2; i++ {
			go func() { errs <- s.Close() }()
		}
		time.Sleep(15 * time.Millisecond) // both callers are inside Close, parked on the session mutex at the latest
		s.mu.Unlock()
		nils := 0
		for i := 0; i < 2; i++ {
			select {
			case err := <-errs:
				if err == nil {
					nils++
				}
			case <-time.After(waitMargin):
				r.violate("after-close:close-blocks", "%s: Close did not return within %v", e.name, waitMargin)
				return
			}
		}
		r.check("of two concurrent Close calls exactly one succeeds")
		if nils != 1 {
			r.violate("after-close:second-close-nil", "%s: two goroutines closed one session concurrently (its mutex was busy for 15 ms): %d of them were told that they closed it", e.name, nils)
			return
		}
	}
	r.Outcome = []string{"closed"}
}

func waitScAfterCloseListener(e *waitEnv, r *waitResult, sc *waitScenario) {
	err1 := e.l.Close()
	r.check("first Close succeeds")
	if err1 != nil {
		r.violate("after-close:listener-first-close-error", "%s: first Listener.Close returned %v", e.name, err1)
	}
	r.check("Accept after Close fails")
	a := e.goAccept(0)
	waitAll([]*waitCall{a}, time.Now().Add(waitMargin))
	r.Outcome = waitClasses([]*waitCall{a})
	if !a.returned() || a.class != "closed" {
		r.violate("after-close:accept", "%s: Accept after Listener.Close: %s", e.name, waitJoin(r.Outcome))
	}
	r.check("second Close reports an error")
	if err2 := e.l.Close(); err2 == nil {
		r.violate("after-close:listener-second-close-nil", "%s: second Listener.Close returned nil", e.name)
	}
}

// ---------------------------------------------------------------------------- catalogue and driver

func waitCatalogue(thorough bool, rng *vrng) []*waitScenario {
	var out []*waitScenario
	add := func(name, kind string, n int, pair bool, run func(*waitEnv, *waitResult, *waitScenario)) {
		out = append(out, &waitScenario{name: fmt.Sprintf("%s/%s/n=%d", kind, name, n), kind: kind, callers: n, pair: pair, run: run})
	}
	sides := []*waitSide{&waitReadSide, &waitWriteSide, &waitAcceptSide}
	ns := []int{1, 2, 3}
	for _, sd := range sides {
		pair := sd.kind != "Accept"
		for _, n := range ns {
			key := map[string]string{"Read": "read-multi-waiter-lost-wakeup", "Write": "write-window-lost-wakeup", "Accept": "accept-lost-wakeup"}[sd.kind]
			if sd.kind == "Read" && n == 1 {
				key = "read-data-lost-wakeup"
			}
			add("wake", sd.kind, n, pair, waitScWake(sd, n, key))
			add("close", sd.kind, n, pair, waitScClose(sd, n))
			add("socket-error", sd.kind, n, pair, waitScSockErr(sd, n))
			if n < 3 || thorough {
				add("deadline-before-call", sd.kind, n, pair, waitScDeadlineBefore(sd, n, false))
			}
			if n == 1 || thorough {
				add("deadline-past-before-call", sd.kind, n, pair, waitScPastBefore(sd, n))
			}
		}
		for _, seq := range []string{"none-then-set", "set-later", "set-earlier", "set-zero-set", "set-past"} {
			add("deadline-"+seq, sd.kind, 1, pair, waitScDeadlineChange(sd, seq, 1))
		}
		add("deadline-cleared", sd.kind, 1, pair, waitScCleared(sd, 1))
		add("deadline-cleared", sd.kind, 2, pair, waitScCleared(sd, 2))
		// several callers parked while the deadline changes: every one of them follows the new deadline
		// (extended: nobody early; none->set, earlier, past: nobody late)
		for _, seq := range []string{"set-later", "none-then-set", "set-earlier", "set-past"} {
			add("deadline-"+seq, sd.kind, 2, pair, waitScDeadlineChange(sd, seq, 2))
		}
		if thorough {
			add("deadline-set-zero-set", sd.kind, 2, pair, waitScDeadlineChange(sd, "set-zero-set", 2))
			for _, seq := range []string{"set-later", "none-then-set", "set-earlier", "set-zero-set", "set-past"} {
				add("deadline-"+seq, sd.kind, 3, pair, waitScDeadlineChange(sd, seq, 3))
			}
			add("deadline-cleared", sd.kind, 3, pair, waitScCleared(sd, 3))
		}
		if sd.kind != "Accept" {
			// SetDeadline while blocked, the two directions' deadlines differ
			add("deadline-SetDeadline-other-direction-a", sd.kind, 1, pair, waitScSetDeadlineOther(sd, false))
			add("deadline-SetDeadline-other-direction-b", sd.kind, 1, pair, waitScSetDeadlineOther(sd, true))
		}
	}
	add("deadline-before-call-SetDeadline", "Read", 1, true, waitScDeadlineBefore(&waitReadSide, 1, true))
	add("deadline-before-call-SetDeadline", "Write", 1, true, waitScDeadlineBefore(&waitWriteSide, 1, true))
	add("wake-separate-datagrams", "Read", 2, true, waitScReadSeparate(2))
	if thorough {
		add("wake-separate-datagrams", "Read", 3, true, waitScReadSeparate(3))
	}
	add("wake-short-buffer", "Read", 2, true, waitScReadShort)
	add("wake-fec-recovery", "Read", 1, false, waitScReadFecRecovery)
	add("wake-peer-window-closed", "Write", 1, true, waitScWritePeerWindowClosed)
	add("wake-window-enlarged", "Write", 1, true, waitScWriteWindowEnlarged)
	add("accepted-session-socket-error-after-listener-close", "Read", 1, true, waitScReadAcceptedSockErr)
	// one datagram, several messages and/or a message longer than a buffer, >= 3 readers: each of
	// the three successful paths of Read (bufptr, direct, recvbuf) is in turn the LAST one that
	// must pass the token on (readers are served in parking order)
	multi := func(variant string, bufs, msgs []int) {
		name := fmt.Sprintf("multi-%s-b%s-m%s", variant, waitInts(bufs), waitInts(msgs))
		add(name, "Read", len(bufs), true, waitScReadMulti(bufs, msgs, variant))
	}
	multi("direct-path-last", []int{256, 256, 256}, []int{10, 10, 10})      // direct, direct*, direct
	multi("bufptr-path-last", []int{64, 64, 64}, []int{100, 10})            // recvbuf, bufptr*, direct
	multi("recvbuf-path-last", []int{256, 64, 64}, []int{10, 100})          // direct, recvbuf*, bufptr
	multi("overflow-only", []int{32, 32, 256}, []int{100})                  // recvbuf, bufptr, bufptr*... no message follows
	multi("bufptr-path-last", []int{64, 64, 64, 64}, []int{100, 100})       // recvbuf, bufptr*, recvbuf, bufptr
	multi("mixed", []int{64, 256, 8, 256}, []int{100, 10, 10})              // recvbuf, bufptr*, recvbuf, bufptr*
	multi("direct-path-last", []int{256, 256, 256, 256}, []int{10, 10, 10}) // one reader legitimately stays parked
	multi("bufptr-path-last", []int{8, 8, 256}, []int{16, 10})              // recvbuf, bufptr*, direct
	if thorough {
		multi("recvbuf-path-last", []int{256, 256, 16, 64}, []int{10, 10, 40}) // direct, direct, recvbuf*, bufptr
		multi("mixed", []int{16, 16, 16, 256}, []int{40, 200, 10})
		for i := 0; i < 6; i++ { // random buffer / message mixes (the monitor does not depend on the service order)
			n := 3 + rng.intn(2)
			var bufs, msgs []int
			for j := 0; j < n; j++ {
				bufs = append(bufs, rng.pick(8, 32, 64, 256))
			}
			for j := 0; j < 2+rng.intn(2); j++ {
				msgs = append(msgs, rng.pick(10, 40, 100, 200))
			}
			multi("random", bufs, msgs)
		}
	}
	add("after-close", "Read", 1, true, waitScAfterClose)
	add("after-close", "Accept", 1, false, waitScAfterCloseListener)
	add("close-twice-concurrent", "Read", 1, false, waitScCloseTwiceConcurrent)
	return out
}

func waitRunScenario(sc *waitScenario) *waitResult {
	r := &waitResult{Name: sc.name, Kind: sc.kind, Callers: sc.callers, checks: map[string]int{}}
	e, err := waitNewEnv(sc.name, sc.pair)
	if err != nil {
		r.setupErr = err
		return r
	}
	defer func() {
		e.teardown()
		e.mu.Lock()
		r.Log = append([]string{}, e.log...)
		e.mu.Unlock()
	}()
	e.t0 = time.Now()
	sc.run(e, r, sc)
	return r
}

func TestVerifC13(t *testing.T) {
	rng := newRng(vSeed())
	rep := newReport("C13")
	lg := newVlog(t, "C13.log")
	defer lg.close()

	rounds := 1
	if vThorough() {
		rounds = 3
	}
	var scs []*waitScenario
	for round := 0; round < rounds; round++ {
		for _, sc := range waitCatalogue(vThorough(), rng) {
			sc.jitter = time.Duration(rng.intn(30)) * time.Millisecond // every random choice from the one stream
			if rounds > 1 {
				sc.name = fmt.Sprintf("%s/round=%d", sc.name, round)
			}
			scs = append(scs, sc)
		}
	}
	filter := strings.TrimSpace(strings.ToLower(waitGetenv("VERIF_C13_ONLY", "")))

	results := make([]*waitResult, len(scs))
	sem := make(chan struct{}, 24)
	var wg sync.WaitGroup
	for i, sc := range scs {
		if filter != "" && !strings.Contains(strings.ToLower(sc.name), filter) {
			continue
		}
		wg.Add(1)
		go func(i int, sc *waitScenario) {
			defer wg.Done()
			sem <- struct{}{}
			defer func() { <-sem }()
			results[i] = waitRunScenario(sc)
		}(i, sc)
	}
	wg.Wait()

	outcomes := map[string][]string{}
	for i, r := range results {
		if r == nil {
			continue
		}
		sc := scs[i]
		lg.printf("scenario %s jitter=%dms\n", r.Name, sc.jitter.Milliseconds())
		for _, l := range r.Log {
			lg.printf("  %s\n", l)
		}
		lg.printf("  -> outcome=[%s] blocked_before_event=%v violations=%d\n", waitJoin(r.Outcome), r.Blocked, len(r.violations))
		if r.setupErr != nil {
			lg.printf("  SETUP ERROR %v\n", r.setupErr)
			t.Errorf("scenario %s could not be set up: %v", r.Name, r.setupErr)
			continue
		}
		rep.Cases++
		rep.Steps += len(r.Log)
		if r.Blocked {
			rep.Nontrivial++
		}
		rep.Distribution[fmt.Sprintf("%s/n=%d", r.Kind, r.Callers)]++
		for m, k := range r.checks {
			rep.Monitors[m] += k
		}
		outcomes[r.Name] = r.Outcome
		for _, v := range r.violations {
			// (the timed event log of the run is in C13.log; the replay is the script's identity)
			rep.violate(v.key, v.what, map[string]any{"scenario": r.Name, "seed": vSeed(), "jitter_ms": sc.jitter.Milliseconds(), "outcome": r.Outcome,
				"how": "VERIF_C13_ONLY='" + strings.Split(r.Name, "/round=")[0] + "' bin/check C13 --quick"})
		}
		if i < 400 && len(r.violations) == 0 {
			rep.sample(map[string]any{"scenario": r.Name, "outcome": r.Outcome, "events": r.Log})
		}
	}
	rep.Extra["outcomes"] = outcomes
	rep.Extra["separation_ms"] = waitSep.Milliseconds()
	rep.Extra["margin_ms"] = waitMargin.Milliseconds()
	rep.write(t, "C13.report.json")
}

func waitGetenv(k, d string) string {
	if v := strings.TrimSpace(os.Getenv(k)); v != "" {
		return v
	}
	return d
}

// ---------------------------------------------------------------------------- boundary B11 probe

// waitProbeB11 tries to force the two-event race of boundary B11 on the real code: the deadline
// is extended an instant before the old one fires and the blocked caller is not scheduled in
// between (one P, the setter spins across the old deadline), so that its select finds both the
// wake-up token and the old timer ready.  Returns how many of `iters` calls returned a timeout
// before the extended deadline.
func waitProbeB11(iters int, write bool) (early int, err error) {
	e, err := waitNewEnv("b11", true)
	if err != nil {
		return 0, err
	}
	defer e.teardown()
	sd := &waitReadSide
	if write {
		sd = &waitWriteSide
	}
	if err := sd.prepare(e); err != nil {
		return 0, err
	}
	for i := 0; i < iters; i++ {
		old := time.Now().Add(40 * time.Millisecond)
		sd.setDl(e, old)
		c := sd.call(e, i)
		time.Sleep(20 * time.Millisecond)
		for time.Until(old) > 50*time.Microsecond { // spin: keep the P
		}
		ext := old.Add(300 * time.Millisecond)
		sd.setDl(e, ext)
		for time.Since(old) < 2*time.Millisecond { // the old deadline passes while the caller cannot run
		}
		<-c.done
		if c.class == "timeout" && c.at.Before(ext) {
			early++
		}
		if c.class != "timeout" {
			return early, fmt.Errorf("unexpected result %s", c.class)
		}
	}
	return early, nil
}

// TestVerifC13B11 is a diagnostic (not part of the check): run with GOMAXPROCS=1.
func TestVerifC13B11(t *testing.T) {
	for _, w := range []bool{false, true} {
		early, err := waitProbeB11(20, w)
		t.Logf("B11 probe write=%v: %d of 20 calls returned a timeout before the extended deadline (err=%v)", w, early, err)
	}
}
