//go:build verif

// C13 - blocked Read / Write / Accept always wake: data, deadline, close, error.
//
// Real sessions and listeners, REAL TIME, over an in-memory net.PacketConn hub (no sockets).
// Every scenario is a script of causally ordered events (>= 50 ms apart) and a set of
// concurrent callers; the monitors are written from the property text: which call returned,
// with what, and not before which instant.  "Did not return" is only concluded after a margin
// of >= 10 separations (waitMargin).  Outcomes are compared as sets, never as timestamps,
// except for the one comparison the property itself makes: a timeout error must not be
// returned before the deadline that is in force (absolute instant, monotonic clock).
package kcp

import (
	"fmt"
	"io"
	"net"
	"sort"
	"strings"
	"sync"
	"sync/atomic"
	"testing"
	"time"

	"github.com/pkg/errors"
)

// ---------------------------------------------------------------------------- in-memory net

type waitAddr string

func (a waitAddr) Network() string { return "waitmem" }
func (a waitAddr) String() string  { return string(a) }

type waitPkt struct {
	data []byte
	from net.Addr
}

type waitHub struct {
	mu  sync.Mutex
	eps map[string]*waitConn
}

func waitNewHub() *waitHub { return &waitHub{eps: map[string]*waitConn{}} }

// waitConn is one endpoint of the hub: a net.PacketConn whose inbound side can be gated
// (packets held, later released one by one or merged into a single datagram) and whose
// ReadFrom / WriteTo can be made to fail.
type waitConn struct {
	hub  *waitHub
	addr waitAddr
	in   chan waitPkt

	mu   sync.Mutex
	hold bool
	held []waitPkt
	rerr error
	werr error

	rerrCh    chan struct{}
	closed    chan struct{}
	closeOnce sync.Once
	rerrOnce  sync.Once
	sent      atomic.Int64
}

func (h *waitHub) listen(name string) *waitConn {
	c := &waitConn{hub: h, addr: waitAddr(name), in: make(chan waitPkt, 8192),
		rerrCh: make(chan struct{}), closed: make(chan struct{})}
	h.mu.Lock()
	h.eps[name] = c
	h.mu.Unlock()
	return c
}

func (c *waitConn) ReadFrom(p []byte) (int, net.Addr, error) {
	select {
	case <-c.rerrCh:
		return 0, nil, c.readErr()
	case <-c.closed:
		return 0, nil, net.ErrClosed
	default:
	}
	select {
	case pkt := <-c.in:
		n := copy(p, pkt.data)
		return n, pkt.from, nil
	case <-c.rerrCh:
		return 0, nil, c.readErr()
	case <-c.closed:
		return 0, nil, net.ErrClosed
	}
}

func (c *waitConn) readErr() error {
	c.mu.Lock()
	defer c.mu.Unlock()
	return c.rerr
}

func (c *waitConn) WriteTo(p []byte, addr net.Addr) (int, error) {
	c.mu.Lock()
	werr := c.werr
	c.mu.Unlock()
	if werr != nil {
		return 0, werr
	}
	select {
	case <-c.closed:
		return 0, net.ErrClosed
	default:
	}
	c.hub.mu.Lock()
	dst := c.hub.eps[addr.String()]
	c.hub.mu.Unlock()
	c.sent.Add(1)
	if dst == nil {
		return len(p), nil // nobody there: lost
	}
	pkt := waitPkt{data: append([]byte(nil), p...), from: c.addr}
	dst.mu.Lock()
	if dst.hold {
		dst.held = append(dst.held, pkt)
		dst.mu.Unlock()
		return len(p), nil
	}
	dst.mu.Unlock()
	select {
	case dst.in <- pkt:
	default: // queue overflow: lost
	}
	return len(p), nil
}

func (c *waitConn) Close() error {
	c.closeOnce.Do(func() { close(c.closed) })
	return nil
}
func (c *waitConn) LocalAddr() net.Addr                { return c.addr }
func (c *waitConn) SetDeadline(t time.Time) error      { return nil }
func (c *waitConn) SetReadDeadline(t time.Time) error  { return nil }
func (c *waitConn) SetWriteDeadline(t time.Time) error { return nil }

// gate holds every packet addressed to this endpoint from now on.
func (c *waitConn) gate() {
	c.mu.Lock()
	c.hold = true
	c.mu.Unlock()
}

// release opens the gate.  merged: the held packets of one sender are concatenated into single
// datagrams of at most 1400 bytes (valid for raw KCP: a datagram is a sequence of segments).
func (c *waitConn) release(merged bool) int {
	c.mu.Lock()
	held := c.held
	c.held = nil
	c.hold = false
	c.mu.Unlock()
	if merged {
		var out []waitPkt
		for _, p := range held {
			if n := len(out); n > 0 && out[n-1].from == p.from && len(out[n-1].data)+len(p.data) <= 1400 {
				out[n-1].data = append(out[n-1].data, p.data...)
			} else {
				out = append(out, waitPkt{data: append([]byte(nil), p.data...), from: p.from})
			}
		}
		held = out
	}
	for _, p := range held {
		select {
		case c.in <- p:
		default:
		}
	}
	return len(held)
}

var errWaitInjected = fmt.Errorf("verif: injected socket error")

func (c *waitConn) failReads() {
	c.mu.Lock()
	c.rerr = errWaitInjected
	c.mu.Unlock()
	c.rerrOnce.Do(func() { close(c.rerrCh) })
}
func (c *waitConn) failWrites() {
	c.mu.Lock()
	c.werr = errWaitInjected
	c.mu.Unlock()
}

// ---------------------------------------------------------------------------- environment

const (
	waitSep    = 60 * time.Millisecond   // separation of causally ordered events (>= 50 ms)
	waitDl     = 250 * time.Millisecond  // a near deadline
	waitFar    = 20 * time.Second        // a deadline that never fires within a scenario
	waitMargin = 1500 * time.Millisecond // "did not return" is concluded only after this (>= 10 x waitSep)
)

var waitConvCounter atomic.Uint32

// waitEnv: one listener, one established pair (client session cs <-> accepted session ss).
type waitEnv struct {
	name  string
	hub   *waitHub
	sconn *waitConn // listener side
	cconn *waitConn // client side
	l     *Listener
	cs    *UDPSession
	ss    *UDPSession
	t0    time.Time
	mu    sync.Mutex
	log   []string
	extra []*UDPSession
}

func (e *waitEnv) logf(format string, a ...any) {
	e.mu.Lock()
	e.log = append(e.log, fmt.Sprintf("%6dms ", time.Since(e.t0).Milliseconds())+fmt.Sprintf(format, a...))
	e.mu.Unlock()
}

func waitTune(s *UDPSession) {
	s.SetNoDelay(1, 10, 2, 1)
	s.SetACKNoDelay(true)
	s.SetWindowSize(32, 32)
}

// waitNewEnv builds the hub and the listener; with pair it also establishes cs <-> ss.
func waitNewEnv(name string, pair bool) (*waitEnv, error) {
	e := &waitEnv{name: name, hub: waitNewHub(), t0: time.Now()}
	e.sconn = e.hub.listen("srv")
	l, err := ServeConn(nil, 0, 0, e.sconn)
	if err != nil {
		return nil, err
	}
	e.l = l
	if !pair {
		return e, nil
	}
	e.cconn = e.hub.listen("cli")
	cs, err := NewConn3(1000+waitConvCounter.Add(1), waitAddr("srv"), nil, 0, 0, e.cconn)
	if err != nil {
		return nil, err
	}
	e.cs = cs
	waitTune(cs)
	if _, err := cs.Write([]byte("hello")); err != nil {
		return nil, err
	}
	l.SetReadDeadline(time.Now().Add(5 * time.Second))
	ss, err := l.AcceptKCP()
	if err != nil {
		return nil, fmt.Errorf("setup accept: %v", err)
	}
	l.SetReadDeadline(time.Time{})
	e.ss = ss
	waitTune(ss)
	buf := make([]byte, 64)
	ss.SetReadDeadline(time.Now().Add(5 * time.Second))
	if n, err := ss.Read(buf); err != nil || string(buf[:n]) != "hello" {
		return nil, fmt.Errorf("setup read: %v %q", err, buf[:n])
	}
	ss.SetReadDeadline(time.Time{})
	time.Sleep(30 * time.Millisecond) // let the ACK of "hello" travel
	return e, nil
}

// newPeer dials one more client (a new address and conversation) that sends one message.
func (e *waitEnv) newPeer(i int) error {
	c := e.hub.listen(fmt.Sprintf("peer%d", i))
	s, err := NewConn3(5000+waitConvCounter.Add(1), waitAddr("srv"), nil, 0, 0, c)
	if err != nil {
		return err
	}
	waitTune(s)
	e.mu.Lock()
	e.extra = append(e.extra, s)
	e.mu.Unlock()
	_, err = s.Write([]byte("new peer"))
	return err
}

func (e *waitEnv) teardown() {
	if e.cs != nil {
		e.cs.Close()
	}
	if e.ss != nil {
		e.ss.Close()
	}
	e.mu.Lock()
	ex := e.extra
	e.mu.Unlock()
	for _, s := range ex {
		s.Close()
	}
	e.l.Close()
	// drain the backlog so that unaccepted sessions do not linger
	for {
		select {
		case s := <-e.l.chAccepts:
			s.Close()
			continue
		default:
		}
		break
	}
	e.sconn.Close()
	if e.cconn != nil {
		e.cconn.Close()
	}
	e.hub.mu.Lock()
	for _, c := range e.hub.eps {
		c.Close()
	}
	e.hub.mu.Unlock()
}

// ---------------------------------------------------------------------------- calls

type waitCall struct {
	kind  string // Read | Write | Accept
	idx   int
	done  chan struct{}
	class string // data | written | accepted | timeout | closed | sockerr | err:<text>
	n     int
	at    time.Time
}

func waitClassify(okClass string, err error) string {
	if err == nil {
		return okClass
	}
	cause := errors.Cause(err)
	if cause == errTimeout {
		return "timeout"
	}
	if cause == io.ErrClosedPipe {
		return "closed"
	}
	if cause == errWaitInjected {
		return "sockerr"
	}
	if ne, ok := cause.(net.Error); ok && ne.Timeout() {
		return "timeout"
	}
	return "err:" + err.Error()
}

func (e *waitEnv) finish(c *waitCall, okClass string, n int, err error) {
	c.at = time.Now()
	c.n = n
	c.class = waitClassify(okClass, err)
	e.logf("%s#%d returned %s n=%d", c.kind, c.idx, c.class, n)
	close(c.done)
}

func (e *waitEnv) goRead(s *UDPSession, idx, bufsize int) *waitCall {
	c := &waitCall{kind: "Read", idx: idx, done: make(chan struct{})}
	go func() {
		buf := make([]byte, bufsize)
		n, err := s.Read(buf)
		e.finish(c, "data", n, err)
	}()
	return c
}

func (e *waitEnv) goWrite(s *UDPSession, idx int, payload []byte) *waitCall {
	c := &waitCall{kind: "Write", idx: idx, done: make(chan struct{})}
	go func() {
		n, err := s.Write(payload)
		e.finish(c, "written", n, err)
	}()
	return c
}

func (e *waitEnv) goAccept(idx int) *waitCall {
	c := &waitCall{kind: "Accept", idx: idx, done: make(chan struct{})}
	go func() {
		s, err := e.l.AcceptKCP()
		if s != nil {
			e.mu.Lock()
			e.extra = append(e.extra, s)
			e.mu.Unlock()
		}
		e.finish(c, "accepted", 0, err)
	}()
	return c
}

func (c *waitCall) returned() bool {
	select {
	case <-c.done:
		return true
	default:
		return false
	}
}

// waitAll waits until every call has returned or `until` has passed; reports how many returned.
func waitAll(calls []*waitCall, until time.Time) int {
	n := 0
	for _, c := range calls {
		d := time.Until(until)
		if d < 0 {
			d = 0
		}
		select {
		case <-c.done:
			n++
		case <-time.After(d):
			if c.returned() {
				n++
			}
		}
	}
	return n
}

func waitBlocked(calls []*waitCall) int {
	n := 0
	for _, c := range calls {
		if !c.returned() {
			n++
		}
	}
	return n
}

func waitClasses(calls []*waitCall) []string {
	var out []string
	for _, c := range calls {
		if c.returned() {
			out = append(out, c.class)
		} else {
			out = append(out, "blocked")
		}
	}
	sort.Strings(out)
	return out
}

// ---------------------------------------------------------------------------- scenario result

type waitViolation struct {
	key, what string
}

type waitResult struct {
	Name       string   `json:"name"`
	Kind       string   `json:"kind"`
	Callers    int      `json:"callers"`
	Outcome    []string `json:"outcome"` // sorted classes of the calls (blocked = did not return)
	Blocked    bool     `json:"blocked_before_event"`
	Log        []string `json:"log"`
	violations []waitViolation
	setupErr   error
	checks     map[string]int
}

func (r *waitResult) violate(key, format string, a ...any) {
	r.violations = append(r.violations, waitViolation{key, fmt.Sprintf(format, a...)})
}
func (r *waitResult) check(monitor string) { r.checks[monitor]++ }

type waitScenario struct {
	name    string
	kind    string // Read | Write | Accept
	callers int
	pair    bool
	run     func(e *waitEnv, r *waitResult, sc *waitScenario)
	jitter  time.Duration
}

func (sc *waitScenario) sep() { time.Sleep(waitSep + sc.jitter) }

func waitJoin(ss []string) string { return strings.Join(ss, ",") }
